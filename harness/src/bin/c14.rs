//! C14 — nonsymmetric-cone barrier calculus matches the cones' mathematical definitions.
//!
//! Channels drive the real `ExponentialCone` / `PowerCone` / `GenPowerCone` objects through
//! the `verif-hooks` wrappers; oracles state the property on the implementation's output with
//! an independent definition of the dual barriers differentiated by forward-mode dual numbers.
#![allow(non_snake_case)]
#![allow(dead_code)]
#![allow(confusable_idents)]
#![allow(mixed_script_confusables)]
#![allow(clippy::needless_range_loop)]
use clarabel::solver::CoreSettings;
use clarabel::verif_hooks::cones::verif_hooks_expcone as hx;
use clarabel::verif_hooks::cones::verif_hooks_genpowcone as hg;
use clarabel::verif_hooks::cones::verif_hooks_powcone as hp;
use clarabel::verif_hooks::cones::{Cone, ExponentialCone, GenPowerCone, PowerCone};
use hx::ScalingStrategy;
use std::ops::{Add, Div, Mul, Neg, Sub};
use vharness::*;

// =====================================================================================
// forward-mode dual numbers (nestable: D<D<D<f64>>> carries third mixed derivatives)
// =====================================================================================

pub trait Num:
    Copy + Add<Output = Self> + Sub<Output = Self> + Mul<Output = Self> + Div<Output = Self> + Neg<Output = Self>
{
    fn c(x: f64) -> Self;
    fn ln(self) -> Self;
    fn exp(self) -> Self;
    fn val(self) -> f64;
}
impl Num for f64 {
    fn c(x: f64) -> f64 {
        x
    }
    fn ln(self) -> f64 {
        f64::ln(self)
    }
    fn exp(self) -> f64 {
        f64::exp(self)
    }
    fn val(self) -> f64 {
        self
    }
}
#[derive(Clone, Copy, Debug)]
pub struct D<T> {
    v: T,
    d: T,
}
impl<T: Num> Add for D<T> {
    type Output = Self;
    fn add(self, o: Self) -> Self {
        D { v: self.v + o.v, d: self.d + o.d }
    }
}
impl<T: Num> Sub for D<T> {
    type Output = Self;
    fn sub(self, o: Self) -> Self {
        D { v: self.v - o.v, d: self.d - o.d }
    }
}
impl<T: Num> Mul for D<T> {
    type Output = Self;
    fn mul(self, o: Self) -> Self {
        D { v: self.v * o.v, d: self.d * o.v + self.v * o.d }
    }
}
impl<T: Num> Div for D<T> {
    type Output = Self;
    fn div(self, o: Self) -> Self {
        let q = self.v / o.v;
        D { v: q, d: (self.d - q * o.d) / o.v }
    }
}
impl<T: Num> Neg for D<T> {
    type Output = Self;
    fn neg(self) -> Self {
        D { v: -self.v, d: -self.d }
    }
}
impl<T: Num> Num for D<T> {
    fn c(x: f64) -> Self {
        D { v: T::c(x), d: T::c(0.0) }
    }
    fn ln(self) -> Self {
        D { v: self.v.ln(), d: self.d / self.v }
    }
    fn exp(self) -> Self {
        let e = self.v.exp();
        D { v: e, d: self.d * e }
    }
    fn val(self) -> f64 {
        self.v.val()
    }
}
type D1 = D<f64>;
type D2 = D<D<f64>>;
type D3 = D<D<D<f64>>>;

/// a barrier given as a generic function of the point
pub trait Barrier {
    fn eval<T: Num>(&self, z: &[T]) -> T;
    fn grad(&self, z: &[f64]) -> Vec<f64> {
        let n = z.len();
        (0..n)
            .map(|i| {
                let p: Vec<D1> = (0..n).map(|k| D { v: z[k], d: if k == i { 1.0 } else { 0.0 } }).collect();
                self.eval(&p).d
            })
            .collect()
    }
    fn hess(&self, z: &[f64]) -> Vec<Vec<f64>> {
        let n = z.len();
        let mut h = vec![vec![0.0; n]; n];
        for i in 0..n {
            for j in i..n {
                let p: Vec<D2> = (0..n)
                    .map(|k| D {
                        v: D { v: z[k], d: if k == j { 1.0 } else { 0.0 } },
                        d: D { v: if k == i { 1.0 } else { 0.0 }, d: 0.0 },
                    })
                    .collect();
                let v = self.eval(&p).d.d;
                h[i][j] = v;
                h[j][i] = v;
            }
        }
        h
    }
    /// ∇³f(z)[u, v, ·]
    fn third(&self, z: &[f64], u: &[f64], v: &[f64]) -> Vec<f64> {
        let n = z.len();
        (0..n)
            .map(|i| {
                let p: Vec<D3> = (0..n)
                    .map(|k| {
                        let e = if k == i { 1.0 } else { 0.0 };
                        D {
                            v: D { v: D { v: z[k], d: e }, d: D { v: v[k], d: 0.0 } },
                            d: D { v: D { v: u[k], d: 0.0 }, d: D { v: 0.0, d: 0.0 } },
                        }
                    })
                    .collect();
                self.eval(&p).d.d.d
            })
            .collect()
    }
}

fn dotv(a: &[f64], b: &[f64]) -> f64 {
    a.iter().zip(b).map(|(x, y)| x * y).sum()
}
fn matvec(h: &[Vec<f64>], x: &[f64]) -> Vec<f64> {
    h.iter().map(|r| dotv(r, x)).collect()
}
/// dense solve with partial pivoting (oracle side only)
/// `a x = b` for a Hessian-like `a` (entries ∝ 1/(σᵢσⱼ)): equilibrated with `D = diag(σ)` before the
/// elimination (`(D a D) y = D b`, `x = D y`), so that partial pivoting works on O(1) entries — the
/// unscaled solve lost up to 7 digits at points whose coordinates span 12 orders of magnitude
/// (oracle-side rounding, found at seed 3 × 24 budget on exp.higher_correction).
fn solve_scaled(a: &[Vec<f64>], b: &[f64], sig: &[f64]) -> Option<Vec<f64>> {
    let n = b.len();
    let a2: Vec<Vec<f64>> = (0..n).map(|i| (0..n).map(|j| sig[i] * a[i][j] * sig[j]).collect()).collect();
    let b2: Vec<f64> = (0..n).map(|i| sig[i] * b[i]).collect();
    let y = solve_dense(&a2, &b2)?;
    Some((0..n).map(|i| sig[i] * y[i]).collect())
}
fn solve_dense(a: &[Vec<f64>], b: &[f64]) -> Option<Vec<f64>> {
    let n = b.len();
    let mut m: Vec<Vec<f64>> = a.iter().zip(b).map(|(r, &bi)| { let mut r = r.clone(); r.push(bi); r }).collect();
    for c in 0..n {
        let mut p = c;
        for r in c + 1..n {
            if m[r][c].abs() > m[p][c].abs() {
                p = r;
            }
        }
        if m[p][c] == 0.0 || !m[p][c].is_finite() {
            return None;
        }
        m.swap(c, p);
        for r in c + 1..n {
            let f = m[r][c] / m[c][c];
            for k in c..=n {
                m[r][k] -= f * m[c][k];
            }
        }
    }
    let mut x = vec![0.0; n];
    for r in (0..n).rev() {
        let mut s = m[r][n];
        for k in r + 1..n {
            s -= m[r][k] * x[k];
        }
        x[r] = s / m[r][r];
    }
    Some(x)
}
/// is the symmetric matrix positive definite (Cholesky on the σ-scaled matrix)?
fn is_pd_scaled(h: &[Vec<f64>], sig: &[f64]) -> bool {
    let n = sig.len();
    let mut a = vec![vec![0.0; n]; n];
    for i in 0..n {
        for j in 0..n {
            a[i][j] = h[i][j] * sig[i] * sig[j];
        }
    }
    for j in 0..n {
        let mut d = a[j][j];
        for k in 0..j {
            d -= a[j][k] * a[j][k];
        }
        if !(d > 0.0) {
            return false;
        }
        let d = d.sqrt();
        a[j][j] = d;
        for i in j + 1..n {
            let mut s = a[i][j];
            for k in 0..j {
                s -= a[i][k] * a[j][k];
            }
            a[i][j] = s / d;
        }
    }
    true
}
fn sym3_dense(d: &[f64]) -> Vec<Vec<f64>> {
    vec![vec![d[0], d[1], d[3]], vec![d[1], d[2], d[4]], vec![d[3], d[4], d[5]]]
}
fn resp(out: &str) -> Option<Req> {
    if out.starts_with("panic") || out.starts_with("err") {
        return None;
    }
    Req::parse(&format!("x {}", out))
}
const EPS: f64 = f64::EPSILON;
use std::sync::atomic::{AtomicUsize, Ordering};
/// largest observed (conjugacy error / tolerance) of `gradient_primal` per cone kind (f64 bits):
/// the head-room of the oracle, written to the evidence notes
static CONJ_HEADROOM: [std::sync::atomic::AtomicU64; 3] =
    [std::sync::atomic::AtomicU64::new(0), std::sync::atomic::AtomicU64::new(0), std::sync::atomic::AtomicU64::new(0)];
/// genpow update_scaling calls that accepted a dual point with a non-positive u-coordinate
static ACCEPTED_NONPOS_U: AtomicUsize = AtomicUsize::new(0);

/// compare vectors entrywise after scaling by σ:  |a_i - b_i| σ_i ≤ tol
fn close_scaled(what: &str, a: &[f64], b: &[f64], sig: &[f64], tol: f64) -> Result<(), String> {
    for i in 0..a.len() {
        let e = (a[i] - b[i]).abs() * sig[i];
        if !(e <= tol) {
            return Err(format!("{}[{}]: implementation {:e} vs expected {:e} (scaled error {:e} > {:e})", what, i, a[i], b[i], e, tol));
        }
    }
    Ok(())
}

// =====================================================================================
// independent mathematical description of the three cones (oracle side)
// =====================================================================================

#[derive(Clone, Debug)]
enum ConeMath {
    Exp,
    Pow(f64),
    Gen(Vec<f64>, usize),
}

impl Barrier for ConeMath {
    /// the dual barrier f*(z), written from the definition
    fn eval<T: Num>(&self, z: &[T]) -> T {
        match self {
            ConeMath::Exp => {
                // f*(z) = -log(z2 - z1 - z1 log(z3/-z1)) - log(-z1) - log(z3)   (1-based in the comment)
                let lm = (-z[0]).ln();
                let l3 = z[2].ln();
                let psi = z[1] - z[0] - z[0] * (l3 - lm);
                -psi.ln() - lm - l3
            }
            ConeMath::Pow(a) => {
                let a = *a;
                let phi = (T::c(2.0 * a) * (z[0] / T::c(a)).ln() + T::c(2.0 * (1.0 - a)) * (z[1] / T::c(1.0 - a)).ln()).exp();
                -(phi - z[2] * z[2]).ln() - T::c(1.0 - a) * z[0].ln() - T::c(a) * z[1].ln()
            }
            ConeMath::Gen(al, _) => {
                let d1 = al.len();
                let mut e = T::c(0.0);
                let mut tail = T::c(0.0);
                for i in 0..d1 {
                    e = e + T::c(2.0 * al[i]) * (z[i] / T::c(al[i])).ln();
                    tail = tail + T::c(1.0 - al[i]) * z[i].ln();
                }
                let mut w2 = T::c(0.0);
                for i in d1..z.len() {
                    w2 = w2 + z[i] * z[i];
                }
                -(e.exp() - w2).ln() - tail
            }
        }
    }
}

/// (is member of the open cone?, conditioning κ ≥ 1, coordinate scales σ).  `None` = too
/// close to the boundary to decide in double precision.
struct PointInfo {
    member: Option<bool>,
    kappa: f64,
    sigma: Vec<f64>,
}

fn decide(margin: f64, scale: f64) -> Option<bool> {
    if !margin.is_finite() || !scale.is_finite() {
        return None;
    }
    if margin.abs() <= 1e-11 * scale {
        None
    } else {
        Some(margin > 0.0)
    }
}

impl ConeMath {
    fn of(r: &Req) -> ConeMath {
        if r.chan.starts_with("exp.") {
            ConeMath::Exp
        } else if r.chan.starts_with("pow.") {
            ConeMath::Pow(r.f("alpha"))
        } else {
            ConeMath::Gen(r.fs("alpha"), r.u("dim2"))
        }
    }
    fn nu(&self) -> f64 {
        match self {
            ConeMath::Exp | ConeMath::Pow(_) => 3.0,
            ConeMath::Gen(a, _) => a.len() as f64 + 1.0,
        }
    }
    fn dim(&self) -> usize {
        match self {
            ConeMath::Exp | ConeMath::Pow(_) => 3,
            ConeMath::Gen(a, d2) => a.len() + d2,
        }
    }
    fn alphas(&self) -> Vec<f64> {
        match self {
            ConeMath::Exp => vec![],
            ConeMath::Pow(a) => vec![*a, 1.0 - *a],
            ConeMath::Gen(a, _) => a.clone(),
        }
    }
    /// the dual cone  K* (dual = true) or the primal cone K
    fn info(&self, x: &[f64], dual: bool) -> PointInfo {
        let bad = PointInfo { member: Some(false), kappa: f64::INFINITY, sigma: vec![1.0; x.len()] };
        if x.iter().any(|v| !v.is_finite()) {
            return PointInfo { member: None, ..bad };
        }
        match self {
            ConeMath::Exp => {
                if dual {
                    // K* = { z : z1 < 0, z3 > 0,  z3 > -z1 exp(z2/z1 - 1) }
                    if !(x[0] < 0.0 && x[2] > 0.0) {
                        return bad;
                    }
                    let l = (x[2]).ln() - (-x[0]).ln();
                    let psi = x[1] - x[0] - x[0] * l;
                    let scale = x[1].abs() + x[0].abs() + (x[0] * l).abs();
                    PointInfo {
                        member: decide(psi, scale),
                        kappa: scale / psi.abs() + 1.0,
                        sigma: vec![x[0].abs(), x[1].abs() + psi.abs(), x[2]],
                    }
                } else {
                    // K = { s : s2 > 0, s3 > 0, s3 > s2 exp(s1/s2) }
                    if !(x[1] > 0.0 && x[2] > 0.0) {
                        return bad;
                    }
                    let l = x[2].ln() - x[1].ln();
                    let r = x[1] * l - x[0];
                    let scale = (x[1] * l).abs() + x[0].abs();
                    PointInfo {
                        member: decide(r, scale),
                        kappa: scale / r.abs() + 1.0,
                        sigma: vec![x[0].abs() + r.abs(), x[1], x[2]],
                    }
                }
            }
            _ => {
                let al = self.alphas();
                let d1 = al.len();
                if !x[..d1].iter().all(|&v| v > 0.0) {
                    return bad;
                }
                // log φ = Σ 2 α_i log(x_i / α_i) (dual)  or Σ 2 α_i log x_i (primal)
                let mut lphi = 0.0;
                let mut lscale = 0.0;
                for i in 0..d1 {
                    let t = if dual { (x[i] / al[i]).ln() } else { x[i].ln() };
                    lphi += 2.0 * al[i] * t;
                    lscale += (2.0 * al[i] * t).abs();
                }
                let w2: f64 = x[d1..].iter().map(|v| v * v).sum();
                let phi = lphi.exp();
                let amin = al.iter().cloned().fold(1.0, f64::min);
                // membership decided on the log scale (φ > ‖w‖²)
                let member = if w2 == 0.0 {
                    Some(true)
                } else {
                    decide(lphi - w2.ln(), lscale + w2.ln().abs() + 1.0)
                };
                let zeta = phi - w2;
                let mut sigma: Vec<f64> = x[..d1].to_vec();
                for _ in d1..x.len() {
                    sigma.push(phi.sqrt());
                }
                PointInfo { member, kappa: ((phi + w2) / zeta.abs() + 1.0 + lscale) / amin, sigma }
            }
        }
    }
}

// =====================================================================================
// the implementation under test, behind one enum
// =====================================================================================

enum K {
    E(ExponentialCone<f64>),
    P(PowerCone<f64>),
    G(GenPowerCone<f64>),
}

impl K {
    fn of(r: &Req) -> K {
        if r.chan.starts_with("exp.") {
            K::E(ExponentialCone::new())
        } else if r.chan.starts_with("pow.") {
            K::P(PowerCone::new(r.f("alpha")))
        } else {
            K::G(GenPowerCone::new(r.fs("alpha"), r.u("dim2")))
        }
    }
    fn dim(&self) -> usize {
        match self {
            K::E(k) => k.numel(),
            K::P(k) => k.numel(),
            K::G(k) => k.numel(),
        }
    }
    fn is_primal_feasible(&self, s: &[f64]) -> bool {
        match self {
            K::E(k) => hx::is_primal_feasible(k, s),
            K::P(k) => hp::is_primal_feasible(k, s),
            K::G(k) => hg::is_primal_feasible(k, s),
        }
    }
    fn is_dual_feasible(&self, z: &[f64]) -> bool {
        match self {
            K::E(k) => hx::is_dual_feasible(k, z),
            K::P(k) => hp::is_dual_feasible(k, z),
            K::G(k) => hg::is_dual_feasible(k, z),
        }
    }
    fn barrier_dual(&mut self, z: &[f64]) -> f64 {
        match self {
            K::E(k) => hx::barrier_dual(k, z),
            K::P(k) => hp::barrier_dual(k, z),
            K::G(k) => hg::barrier_dual(k, z),
        }
    }
    fn barrier_primal(&mut self, s: &[f64]) -> f64 {
        match self {
            K::E(k) => hx::barrier_primal(k, s),
            K::P(k) => hp::barrier_primal(k, s),
            K::G(k) => hg::barrier_primal(k, s),
        }
    }
    fn gradient_primal(&self, s: &[f64]) -> Vec<f64> {
        match self {
            K::E(k) => hx::gradient_primal(k, s).to_vec(),
            K::P(k) => hp::gradient_primal(k, s).to_vec(),
            K::G(k) => {
                let mut g = vec![0.0; s.len()];
                hg::gradient_primal(k, &mut g, s);
                g
            }
        }
    }
    fn update_dual_grad_H(&mut self, z: &[f64]) {
        match self {
            K::E(k) => hx::update_dual_grad_H(k, z),
            K::P(k) => hp::update_dual_grad_H(k, z),
            K::G(k) => hg::update_dual_grad_H(k, z),
        }
    }
    fn grad(&self) -> Vec<f64> {
        match self {
            K::E(k) => hx::grad(k).to_vec(),
            K::P(k) => hp::grad(k).to_vec(),
            K::G(k) => hg::grad(k),
        }
    }
    fn zstored(&self) -> Vec<f64> {
        match self {
            K::E(k) => hx::z(k).to_vec(),
            K::P(k) => hp::z(k).to_vec(),
            K::G(k) => hg::z(k),
        }
    }
    /// rendering of the stored dual Hessian
    fn fmt_H(&self, l: Line) -> Line {
        match self {
            K::E(k) => l.fs("H", &hx::H_dual(k)),
            K::P(k) => l.fs("H", &hp::H_dual(k)),
            K::G(k) => l
                .fs("d1", &k.data.d1)
                .f("d2", hg::d2(k))
                .fs("p", &k.data.p)
                .fs("q", &k.data.q)
                .fs("r", &k.data.r),
        }
    }
    fn fmt_Hs(&self, l: Line) -> Line {
        match self {
            K::E(k) => l.fs("Hs", &hx::Hs(k)),
            K::P(k) => l.fs("Hs", &hp::Hs(k)),
            K::G(k) => {
                let mut d = vec![0.0; k.numel()];
                k.get_Hs(&mut d);
                l.fs("Hs", &d).f("mu", k.data.μ)
            }
        }
    }
    fn higher_correction(&mut self, ds: &[f64], v: &[f64]) -> Vec<f64> {
        let mut eta = vec![0.0; 3];
        match self {
            K::E(k) => hx::higher_correction(k, &mut eta, ds, v),
            K::P(k) => hp::higher_correction(k, &mut eta, ds, v),
            K::G(_) => panic!("unimplemented"),
        }
        eta
    }
    /// `Cone::combined_ds_shift(shift, step_z, step_s, σμ)` on the scaled cone object
    fn combined_ds_shift(&mut self, dz: &[f64], ds: &[f64], sm: f64) -> Vec<f64> {
        // poisoned so that an entry the routine does not write shows up
        let mut shift = vec![f64::NAN; dz.len()];
        let mut dz = dz.to_vec();
        let mut ds = ds.to_vec();
        match self {
            K::E(k) => k.combined_ds_shift(&mut shift, &mut dz, &mut ds, sm),
            K::P(k) => k.combined_ds_shift(&mut shift, &mut dz, &mut ds, sm),
            K::G(k) => k.combined_ds_shift(&mut shift, &mut dz, &mut ds, sm),
        }
        shift
    }
    fn update_scaling(&mut self, s: &[f64], z: &[f64], mu: f64, dual: bool) -> bool {
        let st = if dual { ScalingStrategy::Dual } else { ScalingStrategy::PrimalDual };
        match self {
            K::E(k) => k.update_scaling(s, z, mu, st),
            K::P(k) => k.update_scaling(s, z, mu, st),
            K::G(k) => k.update_scaling(s, z, mu, st),
        }
    }
    fn mul_Hs(&mut self, x: &[f64]) -> Vec<f64> {
        let mut y = vec![0.0; x.len()];
        let mut w = vec![0.0; x.len()];
        match self {
            K::E(k) => k.mul_Hs(&mut y, x, &mut w),
            K::P(k) => k.mul_Hs(&mut y, x, &mut w),
            K::G(k) => k.mul_Hs(&mut y, x, &mut w),
        }
        y
    }
    fn unit_initialization(&self) -> (Vec<f64>, Vec<f64>) {
        let n = self.dim();
        // poisoned so that an entry the routine does not write shows up
        let mut z = vec![f64::NAN; n];
        let mut s = vec![f64::NAN; n];
        match self {
            K::E(k) => k.unit_initialization(&mut z, &mut s),
            K::P(k) => k.unit_initialization(&mut z, &mut s),
            K::G(k) => k.unit_initialization(&mut z, &mut s),
        }
        (z, s)
    }
    fn compute_barrier(&mut self, z: &[f64], s: &[f64], dz: &[f64], ds: &[f64], a: f64) -> f64 {
        match self {
            K::E(k) => k.compute_barrier(z, s, dz, ds, a),
            K::P(k) => k.compute_barrier(z, s, dz, ds, a),
            K::G(k) => k.compute_barrier(z, s, dz, ds, a),
        }
    }
    fn step_length(&mut self, dz: &[f64], ds: &[f64], z: &[f64], s: &[f64], step: f64, amin: f64, amax: f64) -> (f64, f64) {
        let mut st = CoreSettings::<f64>::default();
        st.linesearch_backtrack_step = step;
        st.min_terminate_step_length = amin;
        match self {
            K::E(k) => k.step_length(dz, ds, z, s, &st, amax),
            K::P(k) => k.step_length(dz, ds, z, s, &st, amax),
            K::G(k) => k.step_length(dz, ds, z, s, &st, amax),
        }
    }
    /// dense copy of the stored dual Hessian
    fn H_dense(&self) -> Vec<Vec<f64>> {
        match self {
            K::E(k) => sym3_dense(&hx::H_dual(k)),
            K::P(k) => sym3_dense(&hp::H_dual(k)),
            K::G(k) => {
                let n = k.numel();
                let d1 = k.α.len();
                let dt = &k.data;
                let mut h = vec![vec![0.0; n]; n];
                for i in 0..n {
                    for j in 0..n {
                        let mut v = dt.p[i] * dt.p[j];
                        if i < d1 && j < d1 {
                            v -= dt.q[i] * dt.q[j];
                        }
                        if i >= d1 && j >= d1 {
                            v -= dt.r[i - d1] * dt.r[j - d1];
                        }
                        if i == j {
                            v += if i < d1 { dt.d1[i] } else { hg::d2(k) };
                        }
                        h[i][j] = v;
                    }
                }
                h
            }
        }
    }
}

// =====================================================================================
// channels: run on the implementation
// =====================================================================================

fn run_is_primal(r: &Req) -> String {
    proto::fb(K::of(r).is_primal_feasible(&r.fs("s"))).to_string()
}
fn run_is_dual(r: &Req) -> String {
    proto::fb(K::of(r).is_dual_feasible(&r.fs("z"))).to_string()
}
fn run_barrier_dual(r: &Req) -> String {
    Line::out().f("f", K::of(r).barrier_dual(&r.fs("z"))).done()
}
fn run_barrier_primal(r: &Req) -> String {
    Line::out().f("f", K::of(r).barrier_primal(&r.fs("s"))).done()
}
/// `zprev` (optional): a scaling update performed on the cone object *before* the call, so
/// that state left over from the last update is not all zeros (as in a real solve).
fn prepared(r: &Req) -> K {
    let mut k = K::of(r);
    if r.has("zprev") {
        let zp = r.fs("zprev");
        k.update_scaling(&zp, &zp, 1.0, true);
    }
    k
}
fn run_gradient_primal(r: &Req) -> String {
    Line::out().fs("g", &prepared(r).gradient_primal(&r.fs("s"))).done()
}
fn run_update_dual_grad_H(r: &Req) -> String {
    let mut k = K::of(r);
    k.update_dual_grad_H(&r.fs("z"));
    k.fmt_H(Line::out().fs("grad", &k.grad())).done()
}
fn run_higher_correction(r: &Req) -> String {
    let mut k = K::of(r);
    let z = r.fs("z");
    k.update_scaling(&z, &z, 1.0, true);
    Line::out().fs("eta", &k.higher_correction(&r.fs("ds"), &r.fs("v"))).done()
}
fn run_combined_ds_shift(r: &Req) -> String {
    let mut k = K::of(r);
    let z = r.fs("z");
    let ok = k.update_scaling(&z, &z, 1.0, true);
    let shift = k.combined_ds_shift(&r.fs("dz"), &r.fs("ds"), r.f("sigmamu"));
    match k {
        K::G(_) => Line::out().b("ok", ok).fs("shift", &shift).done(),
        _ => Line::out().fs("shift", &shift).done(),
    }
}
fn run_update_scaling(r: &Req) -> String {
    let mut k = prepared(r);
    let ok = k.update_scaling(&r.fs("s"), &r.fs("z"), r.f("mu"), r.b("dual"));
    let y = k.mul_Hs(&r.fs("x"));
    let l = k.fmt_Hs(Line::out().b("ok", ok)).fs("grad", &k.grad());
    k.fmt_H(l).fs("z", &k.zstored()).fs("y", &y).done()
}
fn run_unit_initialization(r: &Req) -> String {
    let (z, s) = K::of(r).unit_initialization();
    Line::out().fs("z", &z).fs("s", &s).done()
}
fn run_compute_barrier(r: &Req) -> String {
    let f = prepared(r).compute_barrier(&r.fs("z"), &r.fs("s"), &r.fs("dz"), &r.fs("ds"), r.f("a"));
    Line::out().f("f", f).done()
}
fn run_step_length(r: &Req) -> String {
    let (az, a_s) = K::of(r).step_length(&r.fs("dz"), &r.fs("ds"), &r.fs("z"), &r.fs("s"), r.f("step"), r.f("amin"), r.f("amax"));
    Line::out().f("az", az).f("as", a_s).done()
}
fn run_new(r: &Req) -> String {
    match K::of(r) {
        K::G(k) => Line::out().f("psi", hg::psi(&k)).u("dim", k.numel()).u("degree", k.degree()).done(),
        _ => "ok".into(),
    }
}
fn run_wright_omega(r: &Req) -> String {
    Line::out().f("w", hx::wright_omega(r.f("z"))).done()
}
fn run_nr_pow(r: &Req) -> String {
    Line::out().f("x", hp::newton_raphson_powcone(r.f("s3"), r.f("phi"), r.f("alpha"))).done()
}
fn run_nr_genpow(r: &Req) -> String {
    Line::out().f("x", hg::newton_raphson_genpowcone(r.f("normr"), &r.fs("p"), r.f("phi"), &r.fs("alpha"), r.f("psi"))).done()
}

// ---- packed symmetric 3x3 ----------------------------------------------------------------
fn arr6(v: &[f64]) -> [f64; 6] {
    [v[0], v[1], v[2], v[3], v[4], v[5]]
}
fn run_sym3_mul(r: &Req) -> String {
    Line::out().fs("y", &hx::sym3_mul(&arr6(&r.fs("H")), &r.fs("x"))).done()
}
fn run_sym3_quad(r: &Req) -> String {
    Line::out().f("q", hx::sym3_quad_form(&arr6(&r.fs("H")), &r.fs("y"), &r.fs("x"))).done()
}
fn run_sym3_norm(r: &Req) -> String {
    Line::out().f("n", hx::sym3_norm_fro(&arr6(&r.fs("H")))).done()
}
fn run_sym3_index(r: &Req) -> String {
    Line::out().u("i", hx::sym3_index_linear(r.u("r"), r.u("c"))).done()
}
fn run_sym3_chol(r: &Req) -> String {
    let (ok, l) = hx::sym3_cholesky_factor(&arr6(&r.fs("H")));
    if ok {
        Line::out().b("ok", true).fs("L", &l).fs("x", &hx::sym3_cholesky_solve(&l, &r.fs("b"))).done()
    } else {
        Line::out().b("ok", false).fs("L", &l).done()
    }
}

// =====================================================================================
// oracles: the property stated on the implementation's response
// =====================================================================================

fn oracle_member(r: &Req, out: &str, dual: bool) -> Result<(), String> {
    let cm = ConeMath::of(r);
    let x = r.fs(if dual { "z" } else { "s" });
    if let Some(b) = cm.info(&x, dual).member {
        if (out == "1") != b {
            return Err(format!("membership test says {} but the point is {} the open {} cone", out, if b { "inside" } else { "outside" }, if dual { "dual" } else { "primal" }));
        }
    }
    Ok(())
}
fn oracle_is_primal(r: &Req, out: &str) -> Result<(), String> {
    oracle_member(r, out, false)
}
fn oracle_is_dual(r: &Req, out: &str) -> Result<(), String> {
    oracle_member(r, out, true)
}

fn oracle_barrier_dual(r: &Req, out: &str) -> Result<(), String> {
    let cm = ConeMath::of(r);
    let z = r.fs("z");
    let inf = cm.info(&z, true);
    if inf.member != Some(true) || inf.kappa > 1e9 {
        return Ok(());
    }
    let o = resp(out).ok_or("no value returned on an interior point")?;
    let f = o.f("f");
    let want: f64 = cm.eval(&z);
    let tol = 1e-12 * inf.kappa * (1.0 + want.abs());
    if !((f - want).abs() <= tol) {
        return Err(format!("barrier_dual = {:e} but f*(z) = {:e} (tol {:e})", f, want, tol));
    }
    Ok(())
}

/// gradient / Hessian of the dual barrier at an interior point of K*
fn check_grad_H(cm: &ConeMath, z: &[f64], grad: &[f64], h: &[Vec<f64>]) -> Result<(), String> {
    let inf = cm.info(z, true);
    if inf.member != Some(true) || inf.kappa > 1e7 {
        return Ok(());
    }
    let n = z.len();
    let k = inf.kappa;
    let tol_g = 1e-12 * k * k;
    let tol_h = 1e-12 * k * k * k;
    let g = cm.grad(z);
    close_scaled("grad (vs derivative of the dual barrier)", grad, &g, &inf.sigma, tol_g)?;
    let hh = cm.hess(z);
    for i in 0..n {
        let sc: Vec<f64> = inf.sigma.iter().map(|s| s * inf.sigma[i]).collect();
        close_scaled(&format!("H_dual row {} (vs derivative of the gradient)", i), &h[i], &hh[i], &sc, tol_h)?;
    }
    // log-homogeneity: <grad, z> = -ν,  H z = -grad
    let gz = dotv(grad, z);
    if !((gz + cm.nu()).abs() <= tol_g * n as f64) {
        return Err(format!("<grad,z> = {:e}, expected -{}", gz, cm.nu()));
    }
    let hz = matvec(h, z);
    let mg: Vec<f64> = grad.iter().map(|v| -v).collect();
    close_scaled("H_dual z (vs -grad)", &hz, &mg, &inf.sigma, tol_h * n as f64)?;
    if k < 100.0 && !is_pd_scaled(h, &inf.sigma) {
        return Err("stored dual Hessian is not positive definite".into());
    }
    Ok(())
}

fn oracle_update_dual_grad_H(r: &Req, out: &str) -> Result<(), String> {
    let cm = ConeMath::of(r);
    let z = r.fs("z");
    let inf = cm.info(&z, true);
    if inf.member != Some(true) || inf.kappa > 1e7 {
        return Ok(());
    }
    if resp(out).is_none() {
        return Err(format!("no gradient/Hessian on an interior point: {}", out));
    }
    // re-run to read the dense Hessian through the accessor (same deterministic call)
    let mut k = K::of(r);
    k.update_dual_grad_H(&z);
    check_grad_H(&cm, &z, &k.grad(), &k.H_dense())
}

fn oracle_gradient_primal(r: &Req, out: &str) -> Result<(), String> {
    let cm = ConeMath::of(r);
    let s = r.fs("s");
    let inf = cm.info(&s, false);
    if inf.member != Some(true) || inf.kappa > 1e5 {
        return Ok(());
    }
    let o = resp(out).ok_or(format!("no gradient on an interior point: {}", out))?;
    let g = o.fs("g");
    let k = inf.kappa;
    let sg = dotv(&s, &g);
    let tol = 1e-6 * k;
    if !((sg + cm.nu()).abs() <= tol) {
        return Err(format!("<s, g(s)> = {:e}, expected -{} (tol {:e})", sg, cm.nu(), tol));
    }
    let mg: Vec<f64> = g.iter().map(|v| -v).collect();
    let di = cm.info(&mg, true);
    if di.member == Some(false) {
        return Err("-g(s) is not in the dual cone".into());
    }
    if di.member == Some(true) && di.kappa < 1e5 {
        // conjugacy: ∇f*(-g(s)) = -s
        let back = cm.grad(&mg);
        let ms: Vec<f64> = s.iter().map(|v| -v).collect();
        let inv: Vec<f64> = inf.sigma.iter().map(|v| 1.0 / v).collect();
        // same tolerance for all three cones (the power cone's Newton start was repaired in
        // /repo 54b486f; the former KNOWN-FINDING handling of NR-START-RIGHT-OF-ROOT is gone)
        let tolc = 1e-6 * k * di.kappa;
        let worst = (0..s.len()).map(|i| (back[i] - ms[i]).abs() * inv[i]).fold(0.0, f64::max) / tolc;
        let slot = match &cm { ConeMath::Exp => 0, ConeMath::Pow(_) => 1, ConeMath::Gen(..) => 2 };
        if worst.is_finite() {
            // non-negative finite f64s order like their bit patterns
            CONJ_HEADROOM[slot].fetch_max(worst.to_bits(), Ordering::Relaxed);
        }
        close_scaled("conjugacy ∇f*(-g(s)) (vs -s)", &back, &ms, &inv, tolc)?;
    }
    Ok(())
}

fn oracle_barrier_primal(r: &Req, out: &str) -> Result<(), String> {
    let cm = ConeMath::of(r);
    let s = r.fs("s");
    let inf = cm.info(&s, false);
    if inf.member != Some(true) || inf.kappa > 1e5 {
        return Ok(());
    }
    let o = resp(out).ok_or(format!("no value on an interior point: {}", out))?;
    let f = o.f("f");
    // f(s) = -ν - f*(-g(s)) with g(s) the conjugate gradient (validated by its own oracle)
    let g = K::of(r).gradient_primal(&s);
    let mg: Vec<f64> = g.iter().map(|v| -v).collect();
    let di = cm.info(&mg, true);
    if di.member != Some(true) || di.kappa > 1e5 {
        return Ok(());
    }
    let fd: f64 = cm.eval(&mg);
    let want = -cm.nu() - fd;
    let tol = 1e-6 * inf.kappa * di.kappa * (1.0 + want.abs());
    if !((f - want).abs() <= tol) {
        return Err(format!("barrier_primal = {:e}, expected -ν - f*(-g(s)) = {:e}", f, want));
    }
    Ok(())
}

fn oracle_higher_correction(r: &Req, out: &str) -> Result<(), String> {
    let cm = ConeMath::of(r);
    let z = r.fs("z");
    let inf = cm.info(&z, true);
    if inf.member != Some(true) || inf.kappa > 1e3 {
        return Ok(());
    }
    let o = resp(out).ok_or(format!("no correction on an interior point: {}", out))?;
    let eta = o.fs("eta");
    let ds = r.fs("ds");
    let v = r.fs("v");
    let h = cm.hess(&z);
    let u = match solve_scaled(&h, &ds, &inf.sigma) {
        Some(u) => u,
        None => return Ok(()),
    };
    // η = +½ ∇³f*(z)[H⁻¹Δs, v]  (the sign the code computes; it is subtracted in combined_ds_shift)
    let t = cm.third(&z, &u, &v);
    let want: Vec<f64> = t.iter().map(|x| 0.5 * x).collect();
    let un = (0..3).map(|i| u[i].abs() / inf.sigma[i]).fold(0.0, f64::max);
    let vn = (0..3).map(|i| v[i].abs() / inf.sigma[i]).fold(0.0, f64::max);
    let k = inf.kappa;
    let tol = 1e-10 * k * k * k * k * un * vn + 1e-300;
    close_scaled("higher_correction (vs ½∇³f*(z)[H⁻¹Δs, v])", &eta, &want, &inf.sigma, tol)
}

/// `combined_ds_shift`: shift = σμ·∇f*(z) − ½∇³f*(z)[H⁻¹Δs, Δz] for the 3-d cones (Δs = step_s,
/// Δz = step_z), and σμ·∇f*(z) (no third-order term) for the generalised power cone.
fn oracle_combined_ds_shift(r: &Req, out: &str) -> Result<(), String> {
    let cm = ConeMath::of(r);
    let z = r.fs("z");
    let inf = cm.info(&z, true);
    if inf.member != Some(true) || inf.kappa > 1e3 {
        return Ok(());
    }
    let o = resp(out).ok_or(format!("no shift on an interior point: {}", out))?;
    let shift = o.fs("shift");
    let sm = r.f("sigmamu");
    let n = z.len();
    let k = inf.kappa;
    let g = cm.grad(&z);
    let gn = (0..n).map(|i| g[i].abs() * inf.sigma[i]).fold(0.0, f64::max);
    if let ConeMath::Gen(..) = &cm {
        if !o.b("ok") {
            return Err("update_scaling refused an interior dual point".into());
        }
        let want: Vec<f64> = g.iter().map(|x| sm * x).collect();
        let tol = 1e-12 * k * k * sm.abs() * (1.0 + gn) + 1e-300;
        return close_scaled("combined_ds_shift (vs σμ·∇f*(z))", &shift, &want, &inf.sigma, tol);
    }
    let ds = r.fs("ds");
    let v = r.fs("dz");
    let h = cm.hess(&z);
    let u = match solve_scaled(&h, &ds, &inf.sigma) {
        Some(u) => u,
        None => return Ok(()),
    };
    let t = cm.third(&z, &u, &v);
    let want: Vec<f64> = (0..3).map(|i| sm * g[i] - 0.5 * t[i]).collect();
    let un = (0..3).map(|i| u[i].abs() / inf.sigma[i]).fold(0.0, f64::max);
    let vn = (0..3).map(|i| v[i].abs() / inf.sigma[i]).fold(0.0, f64::max);
    let tol = 1e-10 * k * k * k * k * un * vn + 1e-12 * k * k * sm.abs() * (1.0 + gn) + 1e-300;
    close_scaled("combined_ds_shift (vs σμ·∇f*(z) − ½∇³f*(z)[H⁻¹Δs, Δz])", &shift, &want, &inf.sigma, tol)
}

fn oracle_update_scaling(r: &Req, out: &str) -> Result<(), String> {
    let cm = ConeMath::of(r);
    let z = r.fs("z");
    let s = r.fs("s");
    let x = r.fs("x");
    let mu = r.f("mu");
    let dual = r.b("dual");
    let iz = cm.info(&z, true);
    if let ConeMath::Gen(..) = &cm {
        // the barrier derivatives exist only at interior dual points: on or outside the
        // boundary (and on NaN input) the update must be refused and the state kept
        let nan = z.iter().any(|v| v.is_nan());
        let d1 = cm.alphas().len();
        let upos = z[..d1].iter().all(|&v| v > 0.0);
        if !nan && !upos {
            // The code tests only ζ = Π(zᵢ/αᵢ)^{2αᵢ} - ‖w‖² > 0.  With a non-positive u-coordinate
            // ζ is NaN (refused) unless 2αᵢ makes the power real (αᵢ = 1, pairs of ½): then the
            // point is accepted although it is outside K*.  `is_dual_feasible` rejects such
            // points, so the line search never produces them; counted, not demanded.
            if let Some(o) = resp(out) {
                if o.b("ok") {
                    ACCEPTED_NONPOS_U.fetch_add(1, Ordering::Relaxed);
                }
            }
            return Ok(());
        }
        if nan || iz.member == Some(false) {
            let o = resp(out).ok_or(format!("update_scaling panicked on a non-interior dual point: {}", out))?;
            if o.b("ok") {
                return Err("update_scaling accepted a dual point that is not in the interior of K*".into());
            }
            let k0 = prepared(r);
            let same = |a: &[f64], b: &[f64]| a.len() == b.len() && a.iter().zip(b).all(|(x, y)| x.to_bits() == y.to_bits());
            if !same(&o.fs("grad"), &k0.grad()) || !same(&o.fs("z"), &k0.zstored()) {
                return Err("a refused update_scaling changed the stored gradient / scaling point".into());
            }
            return Ok(());
        }
        if iz.member == Some(true) {
            match resp(out) {
                Some(o) if o.b("ok") => {}
                _ => return Err(format!("update_scaling refused / failed on an interior dual point: {}", out.chars().take(80).collect::<String>())),
            }
        }
    }
    if iz.member != Some(true) || iz.kappa > 1e5 {
        return Ok(());
    }
    let o = match resp(out) {
        Some(o) => o,
        None => {
            // the primal-dual strategy evaluates gradient_primal(s): only an s inside K is a
            // legitimate argument (outside, the Wright-omega argument may leave its range)
            if !dual && cm.info(&s, false).member != Some(true) {
                return Ok(());
            }
            return Err(format!("update_scaling failed on interior points: {}", out));
        }
    };
    if o.fs("z") != z {
        return Err("stored z is not the scaling point".into());
    }
    let n = z.len();
    // the same deterministic call again, to read the stored data through the accessors
    let mut k = prepared(r);
    k.update_scaling(&s, &z, mu, dual);
    let grad = k.grad();
    let hd = k.H_dense();
    check_grad_H(&cm, &z, &grad, &hd)?;
    let y = o.fs("y");
    if let ConeMath::Gen(al, _) = &cm {
        // Hs = μ·H_dual (dual scaling only); get_Hs returns the diagonal part μ·D
        if o.f("mu") != mu {
            return Err("stored μ differs from the argument".into());
        }
        let d1 = al.len();
        let hs = o.fs("Hs");
        let dd1 = o.fs("d1");
        for i in 0..n {
            let want = mu * if i < d1 { dd1[i] } else { o.f("d2") };
            if hs[i].to_bits() != want.to_bits() {
                return Err(format!("get_Hs[{}] = {:e}, expected μ·D = {:e}", i, hs[i], want));
            }
        }
        let hx_: Vec<f64> = matvec(&cm.hess(&z), &x).iter().map(|v| mu * v).collect();
        let xn = (0..n).map(|i| x[i].abs() / iz.sigma[i]).fold(0.0, f64::max);
        let kk = iz.kappa;
        return close_scaled("mul_Hs (vs μ·∇²f*(z)·x)", &y, &hx_, &iz.sigma, 1e-11 * kk * kk * kk * mu.abs() * xn * n as f64 + 1e-300);
    }
    // 3-d cones: packed Hs
    let hs = o.fs("Hs");
    let hsd = sym3_dense(&hs);
    let hp_ = o.fs("H");
    // y = Hs x
    let yy = matvec(&hsd, &x);
    for i in 0..3 {
        let sc: f64 = (0..3).map(|j| (hsd[i][j] * x[j]).abs()).sum();
        if !((y[i] - yy[i]).abs() <= 1e-14 * sc) {
            return Err(format!("mul_Hs[{}] = {:e}, expected {:e}", i, y[i], yy[i]));
        }
    }
    let is_scaled = |m: f64| (0..6).all(|i| hs[i].to_bits() == (m * hp_[i]).to_bits());
    if dual {
        if !is_scaled(mu) {
            return Err("dual scaling: Hs is not μ·H_dual".into());
        }
        return Ok(());
    }
    let is_ = cm.info(&s, false);
    if is_.member != Some(true) || is_.kappa > 1e5 {
        return Ok(());
    }
    let zt = K::of(r).gradient_primal(&s);
    let st = grad.clone();
    let dot_sz = dotv(&s, &z);
    let mu_h = dot_sz / 3.0;
    let mut_ = dotv(&st, &zt) / 3.0;
    let de1 = mu_h * mut_ - 1.0;
    let hzt = matvec(&hd, &zt);
    let q = dotv(&zt, &hzt);
    let de2 = q - 3.0 * mut_ * mut_;
    let dsv: Vec<f64> = (0..3).map(|i| s[i] + mu_h * st[i]).collect();
    let dzv: Vec<f64> = (0..3).map(|i| z[i] + mu_h * zt[i]).collect();
    let dot_d = dotv(&dsv, &dzv);
    let fallback = (0..6).all(|i| {
        let w = (dot_sz / 3.0) * hp_[i];
        (hs[i] - w).abs() <= 1e-13 * w.abs()
    });
    // decision: must be the primal-dual branch when the four tests hold with a margin,
    // must be the fallback when one of them clearly fails
    let kk = iz.kappa * is_.kappa;
    let noise = 1e-12 * kk * kk;
    let clearly_pd = de1.abs() > 4.0 * EPS.sqrt() + noise
        && de2.abs() > 4.0 * EPS + noise * (q.abs() + 3.0 * mut_ * mut_)
        && dot_sz > 0.0
        && dot_d > noise * dot_sz.abs();
    let clearly_dual = de1.abs() < 0.25 * EPS.sqrt() - noise || (de2.abs() < 0.25 * EPS && noise * (q.abs() + 3.0 * mut_ * mut_) < 0.25 * EPS) || dot_d < -noise * dot_sz.abs();
    if clearly_pd && fallback {
        return Err(format!("primal-dual scaling expected (de1={:e}, de2={:e}, <δs,δz>={:e}) but Hs = μH", de1, de2, dot_d));
    }
    if clearly_dual && !fallback {
        return Err(format!("fallback Hs = μH expected (de1={:e}, de2={:e}, <δs,δz>={:e})", de1, de2, dot_d));
    }
    if fallback {
        return Ok(());
    }
    // primal-dual branch: Hs z = s, Hs z̃ = s̃ (z̃ = -g(s), s̃ = -∇f*(z)), Hs ≻ 0.
    // Rounding: <δs,z> and <δs,z̃>-terms cancel, the result is divided by <δs,δz> ∝ de1; the
    // amplification grows with the distance of (s,z) from the central path (factor m).
    let isg: Vec<f64> = is_.sigma.iter().map(|v| 1.0 / v).collect();
    let m = (0..3).map(|i| (s[i].abs() + (mu_h * st[i]).abs()) * isg[i] + (z[i].abs() + (mu_h * zt[i]).abs()) / iz.sigma[i]).fold(1.0, f64::max);
    let tol = 1e-12 * kk * kk * m * m / de1.abs().min(1.0);
    if !(tol <= 1e-4) {
        // too ill-conditioned for a meaningful test in double precision
        return Ok(());
    }
    let hz = matvec(&hsd, &z);
    close_scaled("Hs z (vs s)", &hz, &s, &isg, tol)?;
    let hzt2 = matvec(&hsd, &zt);
    close_scaled("Hs z̃ (vs s̃)", &hzt2, &st, &iz.sigma, tol)?;
    if kk < 1e3 && m < 1e3 && de1.abs() > 1e-4 && !is_pd_scaled(&hsd, &isg) {
        return Err("primal-dual Hs is not positive definite".into());
    }
    Ok(())
}

fn oracle_unit_initialization(r: &Req, out: &str) -> Result<(), String> {
    let cm = ConeMath::of(r);
    let o = resp(out).ok_or(format!("unit_initialization failed: {}", out))?;
    let z = o.fs("z");
    let s = o.fs("s");
    if z.iter().zip(&s).any(|(a, b)| a.to_bits() != b.to_bits()) || z.len() != cm.dim() {
        return Err("z and s differ / wrong length".into());
    }
    let iz = cm.info(&z, true);
    let is_ = cm.info(&s, false);
    if iz.member != Some(true) || is_.member != Some(true) {
        return Err("starting point is not strictly inside K × K*".into());
    }
    // central point: s = -∇f*(z), μ = <s,z>/ν = 1
    let g = cm.grad(&z);
    let mg: Vec<f64> = g.iter().map(|v| -v).collect();
    let one = vec![1.0; z.len()];
    // the exponential cone's three constants are rounded to 15 digits and are central only
    // to 5e-9 (measured); the power cones' starting point is exact
    let tol_c = if matches!(cm, ConeMath::Exp) { 2e-8 } else { 2e-14 };
    close_scaled("s (vs -∇f*(z))", &s, &mg, &one, tol_c)?;
    let mu = dotv(&s, &z) / cm.nu();
    if !((mu - 1.0).abs() <= 1e-14) {
        return Err(format!("μ = {:e} at the starting point", mu));
    }
    Ok(())
}

fn shifted(x: &[f64], dx: &[f64], a: f64) -> Vec<f64> {
    x.iter().zip(dx).map(|(x, d)| x + a * d).collect()
}

fn oracle_compute_barrier(r: &Req, out: &str) -> Result<(), String> {
    let o = match resp(out) {
        Some(o) => o,
        None => return Ok(()),
    };
    let a = r.f("a");
    let cz = shifted(&r.fs("z"), &r.fs("dz"), a);
    let cs = shifted(&r.fs("s"), &r.fs("ds"), a);
    let mut k = K::of(r);
    let bd = k.barrier_dual(&cz);
    let bp = K::of(r).barrier_primal(&cs);
    let f = o.f("f");
    if f.is_nan() && (bd + bp).is_nan() {
        return Ok(());
    }
    if !((f - (bd + bp)).abs() <= 4.0 * EPS * (bd.abs() + bp.abs())) && f != bd + bp {
        return Err(format!("compute_barrier = {:e}, expected f*(z+αΔz) + f(s+αΔs) = {:e}", f, bd + bp));
    }
    Ok(())
}

fn oracle_step_length(r: &Req, out: &str) -> Result<(), String> {
    let o = match resp(out) {
        Some(o) => o,
        None => return Ok(()),
    };
    let k = K::of(r);
    let (step, amin, amax) = (r.f("step"), r.f("amin"), r.f("amax"));
    for (key, q, dq, dual) in [("az", r.fs("z"), r.fs("dz"), true), ("as", r.fs("s"), r.fs("ds"), false)] {
        let a = o.f(key);
        let feas = |al: f64| {
            let p: Vec<f64> = q.iter().zip(&dq).map(|(q, d)| 1.0 * q + al * d).collect();
            if dual { k.is_dual_feasible(&p) } else { k.is_primal_feasible(&p) }
        };
        // candidates αmax·stepᵏ in order
        let mut c = amax;
        let mut want = 0.0;
        let mut n = 0;
        loop {
            if feas(c) {
                want = c;
                break;
            }
            c *= step;
            n += 1;
            if c < amin || n > 100000 {
                break;
            }
        }
        if a.to_bits() != want.to_bits() {
            return Err(format!("{} = {:e}: the first candidate αmax·stepᵏ ≥ αmin inside the cone is {:e}", key, a, want));
        }
        if a > 0.0 {
            // safety, stated with the independent membership description
            let p: Vec<f64> = q.iter().zip(&dq).map(|(q, d)| q + a * d).collect();
            if ConeMath::of(r).info(&p, dual).member == Some(false) {
                return Err(format!("{} = {:e} leaves the cone", key, a));
            }
        }
    }
    Ok(())
}

fn oracle_wright_omega(r: &Req, out: &str) -> Result<(), String> {
    let z = r.f("z");
    if !(z >= 0.0) || !z.is_finite() {
        return Ok(());
    }
    let o = resp(out).ok_or("wright_omega failed on z >= 0")?;
    let w = o.f("w");
    // ω + log ω = z
    let res = (w + w.ln() - z).abs();
    if !(w > 0.0) || !(res <= 1e-9 * (1.0 + z.abs())) {
        return Err(format!("ω = {:e}: ω + log ω - z = {:e}", w, res));
    }
    Ok(())
}

fn oracle_sym3_mul(r: &Req, out: &str) -> Result<(), String> {
    let o = resp(out).ok_or("failed")?;
    let h = sym3_dense(&r.fs("H"));
    let x = r.fs("x");
    let y = o.fs("y");
    for i in 0..3 {
        let sc: f64 = (0..3).map(|j| (h[i][j] * x[j]).abs()).sum();
        let w = dotv(&h[i], &x);
        if !((y[i] - w).abs() <= 4.0 * EPS * sc) && !(y[i].is_nan() && w.is_nan()) && y[i] != w {
            return Err(format!("(Hx)[{}] = {:e}, expected {:e}", i, y[i], w));
        }
    }
    Ok(())
}
fn oracle_sym3_quad(r: &Req, out: &str) -> Result<(), String> {
    let o = resp(out).ok_or("failed")?;
    let h = sym3_dense(&r.fs("H"));
    let (x, y) = (r.fs("x"), r.fs("y"));
    let mut w = 0.0;
    let mut sc = 0.0;
    for i in 0..3 {
        for j in 0..3 {
            w += y[i] * h[i][j] * x[j];
            sc += (y[i] * h[i][j] * x[j]).abs();
        }
    }
    let q = o.f("q");
    if !((q - w).abs() <= 8.0 * EPS * sc) && !(q.is_nan() && w.is_nan()) && q != w {
        return Err(format!("y'Hx = {:e}, expected {:e}", q, w));
    }
    Ok(())
}
fn oracle_sym3_norm(r: &Req, out: &str) -> Result<(), String> {
    let o = resp(out).ok_or("failed")?;
    let h = sym3_dense(&r.fs("H"));
    let w: f64 = h.iter().flatten().map(|v| v * v).sum::<f64>().sqrt();
    let n = o.f("n");
    if !((n - w).abs() <= 8.0 * EPS * w) && !(n.is_nan() && w.is_nan()) && n != w {
        return Err(format!("‖H‖_F = {:e}, expected {:e}", n, w));
    }
    Ok(())
}
fn oracle_sym3_index(r: &Req, out: &str) -> Result<(), String> {
    let o = resp(out).ok_or("failed")?;
    let (a, b) = (r.u("r").min(r.u("c")), r.u("r").max(r.u("c")));
    // packed upper triangle, column by column
    let want = b * (b + 1) / 2 + a;
    if o.u("i") != want {
        return Err(format!("index_linear = {}, expected {}", o.u("i"), want));
    }
    Ok(())
}
fn oracle_sym3_chol(r: &Req, out: &str) -> Result<(), String> {
    let o = resp(out).ok_or("failed")?;
    let hd = r.fs("H");
    if hd.iter().any(|v| !v.is_finite()) {
        return Ok(());
    }
    let h = sym3_dense(&hd);
    let dg = [h[0][0], h[1][1], h[2][2]];
    if dg.iter().any(|&d| !(d > 0.0)) {
        return if o.b("ok") && !(dg[0] > 0.0) { Err("factorisation accepted a non-positive leading entry".into()) } else { Ok(()) };
    }
    let sig: Vec<f64> = dg.iter().map(|d| 1.0 / d.sqrt()).collect();
    // smallest pivot of the scaled matrix decides how well conditioned the test is
    let pd = is_pd_scaled(&h, &sig);
    if !o.b("ok") {
        // a clearly positive definite matrix must factor
        let mut hh = h.clone();
        for i in 0..3 {
            hh[i][i] *= 1.0 - 1e-6;
        }
        if pd && is_pd_scaled(&hh, &sig) {
            return Err("Cholesky failed on a positive definite matrix".into());
        }
        return Ok(());
    }
    let l = o.fs("L");
    let ld = [[l[0], 0.0, 0.0], [l[1], l[2], 0.0], [l[3], l[4], l[5]]];
    for i in 0..3 {
        for j in 0..3 {
            let mut v = 0.0;
            for k in 0..3 {
                v += ld[i][k] * ld[j][k];
            }
            if !((v - h[i][j]).abs() <= 1e-13 * (dg[i] * dg[j]).sqrt()) {
                return Err(format!("(LL')[{},{}] = {:e}, expected {:e}", i, j, v, h[i][j]));
            }
        }
    }
    // H x = b  (residual relative to |H||x|)
    let x = o.fs("x");
    let b = r.fs("b");
    // condition estimate from the pivots
    let lmin = (0..3).map(|i| ld[i][i] * sig[i]).fold(f64::INFINITY, f64::min);
    for i in 0..3 {
        let sc: f64 = (0..3).map(|j| (h[i][j] * x[j]).abs()).sum::<f64>() + b[i].abs();
        let res = (dotv(&h[i], &x) - b[i]).abs();
        if !(res <= 1e-12 * sc / (lmin * lmin).min(1.0)) {
            return Err(format!("(Hx-b)[{}] = {:e}", i, res));
        }
    }
    Ok(())
}

// =====================================================================================
// channel table
// =====================================================================================

const T_ULP: Tol = Tol::Ulp(4);

fn ch(name: &'static str, tol: Tol, run: fn(&Req) -> String, oracle: Option<fn(&Req, &str) -> Result<(), String>>, rust_fn: &'static str, lean: &'static str) -> Channel {
    Channel { name, tol, run, oracle, modelled: true, rust_fn, lean }
}

fn sym3_channels() -> Vec<Channel> {
    vec![
        ch("sym3.mul", Tol::Exact, run_sym3_mul, Some(oracle_sym3_mul), "DenseMatrixSym3::mul", "Sym3.mul"),
        ch("sym3.quad_form", Tol::Exact, run_sym3_quad, Some(oracle_sym3_quad), "DenseMatrixSym3::quad_form", "Sym3.quadForm"),
        ch("sym3.norm_fro", Tol::Exact, run_sym3_norm, Some(oracle_sym3_norm), "DenseMatrixSym3::norm_fro", "Sym3.normFro"),
        ch("sym3.index_linear", Tol::Exact, run_sym3_index, Some(oracle_sym3_index), "DenseMatrixSym3::index_linear", "Sym3.indexLinear"),
        ch("sym3.cholesky", Tol::Exact, run_sym3_chol, Some(oracle_sym3_chol), "DenseMatrixSym3::cholesky_3x3_explicit_factor / DenseMatrixSym3::cholesky_3x3_explicit_solve", "Sym3.choleskyFactor / Sym3.choleskySolve"),
    ]
}

macro_rules! cone_channels {
    ($p:literal, $rs:literal, $ln:literal) => {
        vec![
            ch(concat!($p, ".is_primal_feasible"), Tol::Exact, run_is_primal, Some(oracle_is_primal), concat!($rs, "::is_primal_feasible"), concat!($ln, ".isPrimalFeasible / C14 membership")),
            ch(concat!($p, ".is_dual_feasible"), Tol::Exact, run_is_dual, Some(oracle_is_dual), concat!($rs, "::is_dual_feasible"), concat!($ln, ".isDualFeasible / C14 membership")),
            ch(concat!($p, ".barrier_dual"), T_ULP, run_barrier_dual, Some(oracle_barrier_dual), concat!($rs, "::barrier_dual"), concat!($ln, ".barrierDual")),
            ch(concat!($p, ".barrier_primal"), T_ULP, run_barrier_primal, Some(oracle_barrier_primal), concat!($rs, "::barrier_primal"), concat!($ln, ".barrierPrimal")),
            ch(concat!($p, ".gradient_primal"), T_ULP, run_gradient_primal, Some(oracle_gradient_primal), concat!($rs, "::gradient_primal"), concat!($ln, ".gradientPrimal / C14 conjugacy")),
            ch(concat!($p, ".update_dual_grad_H"), T_ULP, run_update_dual_grad_H, Some(oracle_update_dual_grad_H), concat!($rs, "::update_dual_grad_H"), concat!($ln, ".updateDualGradH / C14 grad_hasDerivAt, hess_hasDerivAt, log_homogeneity")),
            ch(concat!($p, ".update_scaling"), T_ULP, run_update_scaling, Some(oracle_update_scaling), concat!($rs, "::update_scaling, mul_Hs, get_Hs; Nonsymmetric3DConeUtils::update_Hs (the Dual / PrimalDual dispatch) -> use_primal_dual_scaling / use_dual_scaling (fields reached through the getter split_borrow_mut)"), concat!($ln, ".updateScaling / Nonsym.usePrimalDualScaling / C14.pd_scaling")),
            ch(concat!($p, ".unit_initialization"), Tol::Exact, run_unit_initialization, Some(oracle_unit_initialization), concat!($rs, "::unit_initialization"), concat!($ln, ".unitInitialization / C14.central_point")),
            ch(concat!($p, ".compute_barrier"), T_ULP, run_compute_barrier, Some(oracle_compute_barrier), concat!($rs, "::compute_barrier"), concat!($ln, ".computeBarrier")),
            ch(concat!($p, ".combined_ds_shift"), T_ULP, run_combined_ds_shift, Some(oracle_combined_ds_shift), concat!($rs, "::combined_ds_shift"), concat!($ln, ".combinedDsShift / C14 combined_ds_shift")),
            ch(concat!($p, ".step_length"), Tol::Exact, run_step_length, Some(oracle_step_length), concat!($rs, "::step_length, backtrack_search"), concat!($ln, ".stepLength / Nonsym.backtrackSearch")),
        ]
    };
}

fn exp_channels() -> Vec<Channel> {
    let mut v = cone_channels!("exp", "ExponentialCone", "Exp");
    v.push(ch("exp.higher_correction", T_ULP, run_higher_correction, Some(oracle_higher_correction), "ExponentialCone::higher_correction", "Exp.higherCorrection"));
    v.push(ch("exp.wright_omega", T_ULP, run_wright_omega, Some(oracle_wright_omega), "expcone::_wright_omega", "Exp.wrightOmega"));
    v
}
fn pow_channels() -> Vec<Channel> {
    let mut v = cone_channels!("pow", "PowerCone", "Pow");
    v.push(ch("pow.higher_correction", T_ULP, run_higher_correction, Some(oracle_higher_correction), "PowerCone::higher_correction", "Pow.higherCorrection"));
    v.push(ch("pow.newton_raphson", T_ULP, run_nr_pow, None, "powcone::_newton_raphson_powcone, newton_raphson_onesided", "Pow.newtonRaphson / Nonsym.newtonRaphsonOnesided"));
    v
}
fn genpow_channels() -> Vec<Channel> {
    let mut v = cone_channels!("genpow", "GenPowerCone", "GenPow");
    v.push(ch("genpow.new", T_ULP, run_new, None, "GenPowerCone::new", "GenPow.new"));
    v.push(ch("genpow.newton_raphson", T_ULP, run_nr_genpow, None, "genpowcone::_newton_raphson_genpowcone", "GenPow.newtonRaphson"));
    v
}

// =====================================================================================
// generators
// =====================================================================================

fn lm(rng: &mut Rng, lo: f64, hi: f64) -> f64 {
    10f64.powf(rng.uniform(lo, hi))
}

/// relative distance to the boundary: mostly moderate, sometimes tiny, sometimes the axis
fn gen_t(rng: &mut Rng) -> f64 {
    let u = rng.unit();
    if u < 0.06 {
        1.0
    } else if u < 0.80 {
        lm(rng, -2.0, 0.0)
    } else if u < 0.92 {
        lm(rng, -5.0, -2.0)
    } else {
        lm(rng, -10.0, -5.0)
    }
}

fn gen_alpha_vec(rng: &mut Rng, d1: usize) -> Vec<f64> {
    loop {
        let mut a: Vec<f64> = (0..d1).map(|_| rng.uniform(0.05, 1.0)).collect();
        if rng.bool(0.15) && d1 > 1 {
            a[0] = lm(rng, -3.0, -1.0);
        }
        let s: f64 = a.iter().sum();
        for v in a.iter_mut() {
            *v /= s;
        }
        if d1 > 1 {
            let head: f64 = a[..d1 - 1].iter().fold(0.0, |acc, x| acc + x);
            a[d1 - 1] = 1.0 - head;
        } else {
            a[0] = 1.0;
        }
        let sum = a.iter().fold(0.0, |acc, x| acc + x);
        if a.iter().all(|&v| v > 0.0) && (1.0 - sum).abs() < EPS * d1 as f64 * 0.5 {
            return a;
        }
    }
}

fn gen_cone(s: &mut Session, which: usize) -> ConeMath {
    let rng = &mut s.rng;
    match which {
        0 => ConeMath::Exp,
        1 => {
            let u = rng.unit();
            ConeMath::Pow(if u < 0.1 {
                0.5
            } else if u < 0.2 {
                *rng.choose(&[0.3, 0.25, 0.75, 1.0 / 3.0, 0.1, 0.9])
            } else if u < 0.27 {
                lm(rng, -3.0, -1.3)
            } else if u < 0.34 {
                1.0 - lm(rng, -3.0, -1.3)
            } else {
                rng.uniform(0.05, 0.95)
            })
        }
        _ => {
            let (m1, m2) = if s.tier == "thorough" { (6, 4) } else { (4, 3) };
            let d1 = 1 + rng.below(m1);
            let d2 = if rng.bool(0.04) { 0 } else { 1 + rng.below(m2) };
            ConeMath::Gen(gen_alpha_vec(rng, d1), d2)
        }
    }
}

fn base(cm: &ConeMath, op: &str) -> Line {
    match cm {
        ConeMath::Exp => Line::new(&format!("exp.{}", op)),
        ConeMath::Pow(a) => Line::new(&format!("pow.{}", op)).f("alpha", *a),
        ConeMath::Gen(a, d2) => Line::new(&format!("genpow.{}", op)).fs("alpha", a).u("dim2", *d2),
    }
}

/// point with relative boundary distance `t` (t < 0: outside by |t|)
fn point(rng: &mut Rng, cm: &ConeMath, dual: bool, t: f64, lo: f64, hi: f64) -> Vec<f64> {
    match cm {
        ConeMath::Exp => {
            if dual {
                let a = lm(rng, lo, hi);
                let z2 = lm(rng, lo, hi);
                let l = (z2 / a).ln();
                let psi = a * (1.0 + l.abs()) * t;
                vec![-a, -a - a * l + psi, z2]
            } else {
                let s1 = lm(rng, lo, hi);
                let s2 = lm(rng, lo, hi);
                let l = (s2 / s1).ln();
                let r = s1 * (1.0 + l.abs()) * t;
                vec![s1 * l - r, s1, s2]
            }
        }
        _ => {
            let al = cm.alphas();
            let d1 = al.len();
            let n = cm.dim();
            let mut x: Vec<f64> = (0..d1).map(|_| lm(rng, lo, hi)).collect();
            let mut lphi = 0.0;
            for i in 0..d1 {
                lphi += 2.0 * al[i] * if dual { (x[i] / al[i]).ln() } else { x[i].ln() };
            }
            let phi = lphi.exp();
            let d2 = n - d1;
            if d2 > 0 {
                let mut dir: Vec<f64> = (0..d2).map(|_| rng.normal()).collect();
                if d2 > 1 && rng.bool(0.1) {
                    dir[0] = 0.0;
                }
                let nn = dotv(&dir, &dir).sqrt().max(1e-300);
                let rad = (phi * (1.0 - t).max(0.0)).sqrt() * if t < 0.0 { (1.0 - t).sqrt() / (1.0f64).max(0.0).max(1.0) } else { 1.0 };
                let rad = if t < 0.0 { (phi * (1.0 - t)).sqrt() } else { rad };
                for v in dir {
                    x.push(v / nn * rad);
                }
            }
            x
        }
    }
}

fn interior(rng: &mut Rng, cm: &ConeMath, dual: bool) -> Vec<f64> {
    let t = gen_t(rng);
    let (lo, hi) = if rng.bool(0.3) { (-0.5, 0.5) } else { (-6.0, 6.0) };
    point(rng, cm, dual, t, lo, hi)
}
/// interior point that is reasonably conditioned
fn interior_mild(rng: &mut Rng, cm: &ConeMath, dual: bool) -> Vec<f64> {
    let t = if rng.bool(0.05) { 1.0 } else { lm(rng, -2.0, 0.0) };
    let (lo, hi) = if rng.bool(0.3) { (-0.5, 0.5) } else { (-6.0, 6.0) };
    point(rng, cm, dual, t, lo, hi)
}

/// any point: interior, outside, on an axis, wrong signs, tiny / huge
fn anypoint(rng: &mut Rng, cm: &ConeMath, dual: bool) -> Vec<f64> {
    let u = rng.unit();
    if u < 0.45 {
        return interior(rng, cm, dual);
    }
    let t = if u < 0.8 { -gen_t(rng) } else { gen_t(rng) };
    let mut x = point(rng, cm, dual, t, -6.0, 6.0);
    if u >= 0.8 {
        let i = rng.below(x.len());
        let w = rng.unit();
        if w < 0.4 {
            x[i] = -x[i];
        } else if w < 0.7 {
            x[i] = 0.0;
        } else if w < 0.85 {
            x[i] = rng.smallint(2);
        } else {
            for v in x.iter_mut() {
                *v = rng.smallint(2);
            }
        }
    }
    x
}

fn direction(rng: &mut Rng, sig: &[f64], mag: f64) -> Vec<f64> {
    sig.iter().map(|s| s * rng.normal() * mag).collect()
}

fn maybe_zprev(s: &mut Session, cm: &ConeMath, l: Line) -> Line {
    if s.rng.bool(0.6) {
        let zp = interior_mild(&mut s.rng, cm, true);
        l.fs("zprev", &zp)
    } else {
        l
    }
}

fn gen_for_cone(s: &mut Session, cm: &ConeMath, reps: usize) {
    let three = cm.dim() == 3 && !matches!(cm, ConeMath::Gen(..));
    for _ in 0..reps {
        // membership (all kinds of points)
        let p = anypoint(&mut s.rng, cm, false);
        s.submit(base(cm, "is_primal_feasible").fs("s", &p).done());
        let p = anypoint(&mut s.rng, cm, true);
        s.submit(base(cm, "is_dual_feasible").fs("z", &p).done());

        // barriers, gradients, Hessians at interior points
        let z = interior(&mut s.rng, cm, true);
        s.submit(base(cm, "barrier_dual").fs("z", &z).done());
        s.submit(base(cm, "update_dual_grad_H").fs("z", &z).done());
        let sp = interior(&mut s.rng, cm, false);
        let l = maybe_zprev(s, cm, base(cm, "gradient_primal"));
        s.submit(l.fs("s", &sp).done());
        s.submit(base(cm, "barrier_primal").fs("s", &sp).done());

        // scaling update (both strategies), mul_Hs
        let z = interior_mild(&mut s.rng, cm, true);
        let mut sp = interior_mild(&mut s.rng, cm, false);
        let iz = cm.info(&z, true);
        if s.rng.bool(0.12) {
            // a point on the central path: s = -μ ∇f*(z)
            let m = lm(&mut s.rng, -3.0, 3.0);
            sp = cm.grad(&z).iter().map(|g| -m * g).collect();
        } else if s.rng.bool(0.3) {
            // near the central path
            let m = lm(&mut s.rng, -2.0, 2.0);
            let e = lm(&mut s.rng, -9.0, -1.0);
            sp = cm.grad(&z).iter().map(|g| -m * g * (1.0 + e * s.rng.normal())).collect();
        }
        let mu = if s.rng.bool(0.7) { dotv(&sp, &z) / cm.nu() } else { lm(&mut s.rng, -4.0, 4.0) };
        let x = direction(&mut s.rng, &iz.sigma, 1.0);
        let dual = s.rng.bool(0.35);
        let l = maybe_zprev(s, cm, base(cm, "update_scaling"));
        s.submit(l.fs("s", &sp).fs("z", &z).f("mu", mu).b("dual", dual).fs("x", &x).done());
        // non-interior dual points: exterior, boundary-grazing, wrong sign / zero, NaN
        if s.rng.bool(0.25) {
            let mut zb = anypoint(&mut s.rng, cm, true);
            let u = s.rng.unit();
            if u < 0.15 {
                let i = s.rng.below(zb.len());
                zb[i] = f64::NAN;
            } else if u < 0.4 {
                // a point placed on the boundary up to rounding
                zb = point(&mut s.rng, cm, true, 0.0, -2.0, 2.0);
            }
            let l = maybe_zprev(s, cm, base(cm, "update_scaling"));
            s.submit(l.fs("s", &sp).fs("z", &zb).f("mu", mu).b("dual", true).fs("x", &x).done());
        }

        // third-order correction
        if three {
            let z = if s.rng.bool(0.9) { interior_mild(&mut s.rng, cm, true) } else { anypoint(&mut s.rng, cm, true) };
            let iz = cm.info(&z, true);
            let inv: Vec<f64> = iz.sigma.iter().map(|v| 1.0 / v).collect();
            let ds = direction(&mut s.rng, &inv, 1.0);
            let v = direction(&mut s.rng, &iz.sigma, 1.0);
            s.submit(base(cm, "higher_correction").fs("z", &z).fs("ds", &ds).fs("v", &v).done());
        }

        // combined_ds_shift: σμ·grad (− third-order correction for the 3-d cones)
        {
            let z = if s.rng.bool(0.9) { interior_mild(&mut s.rng, cm, true) } else { interior(&mut s.rng, cm, true) };
            let iz = cm.info(&z, true);
            let inv: Vec<f64> = iz.sigma.iter().map(|v| 1.0 / v).collect();
            let ds = direction(&mut s.rng, &inv, 1.0);
            let dz = direction(&mut s.rng, &iz.sigma, 1.0);
            let sm = if s.rng.bool(0.1) { 0.0 } else { lm(&mut s.rng, -6.0, 3.0) };
            s.submit(base(cm, "combined_ds_shift").fs("z", &z).fs("dz", &dz).fs("ds", &ds).f("sigmamu", sm).done());
        }

        // line search and merit function
        let z = interior_mild(&mut s.rng, cm, true);
        let sp = interior_mild(&mut s.rng, cm, false);
        let (iz, is_) = (cm.info(&z, true), cm.info(&sp, false));
        let mag = lm(&mut s.rng, -1.5, 1.5);
        let dz = direction(&mut s.rng, &iz.sigma, mag);
        let ds = direction(&mut s.rng, &is_.sigma, mag);
        let step = *s.rng.choose(&[0.8, 0.5, 0.9, 0.3]);
        let amin = *s.rng.choose(&[1e-4, 1e-2, 1e-8, 0.3]);
        let amax = if s.rng.bool(0.5) { 1.0 } else { s.rng.uniform(0.05, 2.0) };
        let out = s.submit(base(cm, "step_length").fs("z", &z).fs("s", &sp).fs("dz", &dz).fs("ds", &ds).f("step", step).f("amin", amin).f("amax", amax).done());
        // merit function at a step that keeps both points inside (as the solver calls it)
        let a = match resp(&out) {
            Some(o) => o.f("az").min(o.f("as")) * if s.rng.bool(0.5) { 1.0 } else { 0.5 },
            None => 0.0,
        };
        let l = maybe_zprev(s, cm, base(cm, "compute_barrier"));
        s.submit(l.fs("z", &z).fs("s", &sp).fs("dz", &dz).fs("ds", &ds).f("a", a).done());
    }
    s.submit(base(cm, "unit_initialization").done());
}

fn gen_sym3(s: &mut Session, reps: usize) {
    for r in 0..3 {
        for c in 0..3 {
            s.submit(Line::new("sym3.index_linear").u("r", r).u("c", c).done());
        }
    }
    for _ in 0..reps {
        let rng = &mut s.rng;
        // H = B'B + δI scaled, or an arbitrary symmetric matrix
        let mut h = [0.0; 6];
        let kind = rng.unit();
        if kind < 0.7 {
            let b: Vec<Vec<f64>> = (0..3).map(|_| (0..3).map(|_| rng.normal()).collect()).collect();
            let sc: Vec<f64> = (0..3).map(|_| lm(rng, -3.0, 3.0)).collect();
            let delta = lm(rng, -6.0, 0.0);
            let idx = [(0, 0), (0, 1), (1, 1), (0, 2), (1, 2), (2, 2)];
            for (k, &(i, j)) in idx.iter().enumerate() {
                let mut v = 0.0;
                for m in 0..3 {
                    v += b[m][i] * b[m][j];
                }
                if i == j {
                    v += delta;
                }
                h[k] = v * sc[i] * sc[j];
            }
        } else if kind < 0.85 {
            for v in h.iter_mut() {
                *v = rng.smallint(3);
            }
        } else {
            for v in h.iter_mut() {
                *v = rng.logmag(-3.0, 3.0);
            }
        }
        let x: Vec<f64> = (0..3).map(|_| rng.logmag(-3.0, 3.0)).collect();
        let y: Vec<f64> = (0..3).map(|_| rng.logmag(-3.0, 3.0)).collect();
        s.submit(Line::new("sym3.mul").fs("H", &h).fs("x", &x).done());
        s.submit(Line::new("sym3.quad_form").fs("H", &h).fs("x", &x).fs("y", &y).done());
        s.submit(Line::new("sym3.norm_fro").fs("H", &h).done());
        s.submit(Line::new("sym3.cholesky").fs("H", &h).fs("b", &y).done());
    }
}

fn gen_scalar_solvers(s: &mut Session, reps: usize) {
    for z in [0.0, 1.0, 1.0 + std::f64::consts::PI, 4.141592653589793, 4.1415926535897940, -1.0, -1e-300, 1e-7, 1e-5, 1e-3, 1e-1, 1e1, 1e3, 1e5, 1e7, 1e9] {
        s.submit(Line::new("exp.wright_omega").f("z", z).done());
    }
    let mut rng0 = s.rng.fork();
    for _ in 0..reps {
        let rng = &mut rng0;
        let z = if rng.bool(0.5) { lm(rng, -7.0, 9.0) } else { rng.uniform(0.0, 8.0) };
        s.submit(Line::new("exp.wright_omega").f("z", z).done());
        // Newton–Raphson drivers on their own
        let a = rng.uniform(0.02, 0.98);
        let s3 = lm(rng, -6.0, 6.0);
        let phi = s3 * s3 * (1.0 + lm(rng, -6.0, 3.0));
        s.submit(Line::new("pow.newton_raphson").f("s3", s3).f("phi", phi).f("alpha", a).done());
        let d1 = 1 + rng.below(4);
        let al = gen_alpha_vec(rng, d1);
        let p: Vec<f64> = (0..d1).map(|_| lm(rng, -4.0, 4.0)).collect();
        let phi = (0..d1).fold(1.0, |acc, i| acc * p[i].powf(2.0 * al[i]));
        let normr = (phi / (1.0 + lm(rng, -6.0, 3.0))).sqrt();
        let psi = 1.0 / al.iter().fold(0.0, |acc, v| acc + v * v);
        s.submit(Line::new("genpow.newton_raphson").f("normr", normr).fs("p", &p).f("phi", phi).fs("alpha", &al).f("psi", psi).done());
    }
}

fn generate(s: &mut Session) {
    // corpus: the repaired defect (gradient_primal built the tail of g from stale state)
    let cm = ConeMath::Gen(vec![0.3, 0.7], 2);
    let sfix = [1.5, 2.0, 0.3, -0.4];
    s.submit(base(&cm, "gradient_primal").fs("s", &sfix).done());
    s.submit(base(&cm, "gradient_primal").fs("zprev", &[1.0, 1.2, 0.2, 0.1]).fs("s", &sfix).done());
    s.submit(base(&cm, "barrier_primal").fs("s", &sfix).done());
    // constructor checks of the generalised power cone
    for (al, d2) in [(vec![0.3, 0.7], 2usize), (vec![1.0], 1), (vec![0.5, 0.6], 1), (vec![0.5, 0.5, 0.0], 1), (vec![1.5, -0.5], 2), (vec![0.2, 0.3, 0.5], 0)] {
        s.submit(Line::new("genpow.new").fs("alpha", &al).u("dim2", d2).done());
    }
    // exact boundary / exterior / NaN dual points for the generalised power cone's update; the last
    // one is the counterexample of theorem C14.genpow_update_scaling_test (accepted although ∉ K*)
    {
        let cm = ConeMath::Gen(vec![0.5, 0.5], 1);
        for z in [[1.0, 1.0, 2.0], [1.0, 1.0, 2.5], [1.0, 1.0, 1.5], [1.0, 0.0, 0.0], [1.0, f64::NAN, 0.1], [-1.0, 1.0, 0.0], [-1.0, -1.0, 0.5], [-1.0, -1.0, 0.0]] {
            s.submit(base(&cm, "update_scaling").fs("s", &[1.0, 1.0, 0.0]).fs("z", &z).f("mu", 1.0).b("dual", true).fs("x", &[1.0, 2.0, 3.0]).done());
            s.submit(base(&cm, "update_scaling").fs("zprev", &[1.0, 1.2, 0.2]).fs("s", &[1.0, 1.0, 0.0]).fs("z", &z).f("mu", 2.0).b("dual", true).fs("x", &[1.0, 2.0, 3.0]).done());
        }
    }
    // fixed exponents / textbook points
    for a in [0.5, 0.3] {
        let cm = ConeMath::Pow(a);
        s.submit(base(&cm, "is_primal_feasible").fs("s", &[1.0, 1.0, 1.0]).done());
        s.submit(base(&cm, "is_primal_feasible").fs("s", &[1.0, 1.0, 0.0]).done());
        s.submit(base(&cm, "gradient_primal").fs("s", &[1.0, 2.0, 0.0]).done());
        s.submit(base(&cm, "gradient_primal").fs("s", &[1.0, 2.0, 1e-17]).done());
        s.submit(base(&cm, "gradient_primal").fs("s", &[1.0, 2.0, -0.5]).done());
    }

    let n_sym = s.budget(150, 4000);
    gen_sym3(s, n_sym);
    let n_sc = s.budget(200, 5000);
    gen_scalar_solvers(s, n_sc);
    let ncones = s.budget(30, 400);
    let per = s.budget(12, 40);
    for which in 0..3 {
        let nc = if which == 0 { 1 } else { ncones };
        let reps = if which == 0 { ncones * per } else { per };
        for _ in 0..nc {
            let cm = gen_cone(s, which);
            s.count(&format!("cone:{}", match &cm { ConeMath::Exp => "exp".to_string(), ConeMath::Pow(_) => "pow".to_string(), ConeMath::Gen(a, d) => format!("genpow({},{})", a.len(), d) }));
            gen_for_cone(s, &cm, reps);
        }
    }
    let hr: Vec<f64> = CONJ_HEADROOM.iter().map(|a| f64::from_bits(a.load(Ordering::Relaxed))).collect();
    s.note(format!("gradient_primal conjugacy: largest error/tolerance seen — exp {:.2e}, pow {:.2e}, genpow {:.2e} (tolerance 1e-6·κ(s)·κ(-g); the Newton loops stop at |dx/x| < √ε ≈ 1.5e-8)", hr[0], hr[1], hr[2]));
    let a = ACCEPTED_NONPOS_U.load(Ordering::Relaxed);
    if a > 0 {
        s.note(format!("GenPowerCone::update_scaling accepted {} dual points with a non-positive u-coordinate (ζ > 0 because 2αᵢ is an integer); is_dual_feasible rejects them, so they are outside the solver's reach", a));
    }
}

fn main() {
    let mut chans = vec![];
    chans.extend(sym3_channels());
    chans.extend(exp_channels());
    chans.extend(pow_channels());
    chans.extend(genpow_channels());
    let s = Session::from_args("C14", chans);
    s.run(generate);
}
