//! C16, part 2: the dense matrix module `src/algebra/dense/**` (`sdp` feature, crate-private;
//! reached through `clarabel::verif_hooks::dense`).  Channels `dense.*`.
//!
//! * LAPACK-free code: bit-exact against the Lean model (`ClarabelModel/Dense.lean`), each
//!   with an oracle that states the dense meaning directly.
//! * BLAS wrappers: compared with `DENSE_TOL` (the reference index-order loop of the model
//!   and the blocked kernels of the library round differently).
//! * LAPACK wrappers: the LAPACK result observed on the implementation travels in the
//!   request (`lap…` keys); the model reproduces the Rust wrapper logic around it; the oracle
//!   checks the factorization contract on the implementation's output.
#![allow(dead_code)]
use clarabel::verif_hooks::dense as hk;
use hk::{Mat, Opnd};
use vharness::proto::{fb, ff, ffs, fus};
use vharness::*;

/// BLAS / LAPACK channels: |a-b| <= 1e-11 * max(|a|,|b|) + 1e-11 (the same mixed tolerance as
/// C13's PSD_TOL; data of the model channels are O(1) or exactly representable, so a wrong
/// index, a wrong beta rule or a wrong triangle is many orders of magnitude above it)
pub const DENSE_TOL: Tol = Tol::Rel(1e-11, 1e-11);
/// set VERIF_C16_DENSE_STRICT=1 to turn the recorded observations into oracle failures
fn strict() -> bool {
    std::env::var("VERIF_C16_DENSE_STRICT").map(|v| v == "1").unwrap_or(false)
}

// ---------------------------------------------------------------- wire helpers

fn put_mat(l: Line, p: &str, a: &Mat) -> Line {
    l.u(&format!("{}m", p), a.0).u(&format!("{}n", p), a.1).fs(&format!("{}d", p), &a.2)
}
fn put_opnd(l: Line, p: &str, a: &Opnd) -> Line {
    let mut l = l.u(&format!("{}m", p), a.m).u(&format!("{}n", p), a.n).fs(&format!("{}d", p), &a.data);
    if let Some((off, len)) = a.view {
        l = l.u(&format!("{}off", p), off).u(&format!("{}len", p), len);
    }
    l.s(&format!("{}v", p), match a.shape { b'T' => "t", b'S' => "s", _ => "n" })
}
fn get_mat(r: &Req, p: &str) -> Mat {
    (r.u(&format!("{}m", p)), r.u(&format!("{}n", p)), r.fs(&format!("{}d", p)))
}
fn get_opnd(r: &Req, p: &str) -> Opnd {
    let view = if r.has(&format!("{}off", p)) { Some((r.u(&format!("{}off", p)), r.u(&format!("{}len", p)))) } else { None };
    let shape = if r.has(&format!("{}v", p)) { match r.str(&format!("{}v", p)) { "t" => b'T', "s" => b'S', _ => b'N' } } else { b'N' };
    Opnd { m: r.u(&format!("{}m", p)), n: r.u(&format!("{}n", p)), data: r.fs(&format!("{}d", p)), view, shape }
}
fn fmt_mat(a: &Mat) -> String {
    put_mat(Line::out(), "", a).done()
}
fn dout(d: &[f64]) -> String {
    format!("d={}", ffs(d))
}
fn vout(d: &[f64]) -> String {
    format!("v={}", ffs(d))
}
fn val(x: f64) -> String {
    format!("v={}", ff(x))
}
fn resp(out: &str) -> Option<Req> {
    if out.starts_with("panic") || out.starts_with("err") {
        return None;
    }
    Req::parse(&format!("x {}", out))
}
fn same(a: f64, b: f64) -> bool {
    a.to_bits() == b.to_bits() || (a.is_nan() && b.is_nan())
}
fn same_vec(a: &[f64], b: &[f64]) -> bool {
    a.len() == b.len() && a.iter().zip(b).all(|(x, y)| same(*x, *y))
}

/// the slice a consistent operand stands for (None: owned with wrong length, slice out of range,
/// or a view whose length is not m*n)
fn consistent(a: &Opnd) -> Option<Vec<f64>> {
    let d = match a.view {
        None => a.data.clone(),
        Some((off, len)) => {
            if off + len > a.data.len() {
                return None;
            }
            a.data[off..off + len].to_vec()
        }
    };
    if d.len() == a.m * a.n { Some(d) } else { None }
}
/// entry (i, j) of a consistent operand under its view (mathematical meaning)
fn entry(a: &Opnd, d: &[f64], i: usize, j: usize) -> f64 {
    match a.shape {
        b'T' => d[j + a.m * i],
        b'S' => if i <= j { d[i + a.m * j] } else { d[j + a.m * i] },
        _ => d[i + a.m * j],
    }
}
fn vdims(a: &Opnd) -> (usize, usize) {
    if a.shape == b'N' { (a.m, a.n) } else { (a.n, a.m) }
}
/// an S view reads (i, j) ↦ (min, max); in range for all i < nrows, j < ncols iff square (or empty)
fn view_total(a: &Opnd) -> bool {
    a.shape != b'S' || a.m == a.n
}
/// parent buffer with the view replaced
fn store(a: &Opnd, d: &[f64]) -> Vec<f64> {
    match a.view {
        None => d.to_vec(),
        Some((off, len)) => {
            let mut p = a.data.clone();
            p.splice(off..off + len, d.iter().cloned());
            p
        }
    }
}
/// expects the response `d=<store(a, want)>` bit for bit
fn expect_d(a: &Opnd, want: &[f64], out: &str) -> Result<(), String> {
    let o = resp(out).ok_or_else(|| format!("implementation returned {}", out))?;
    let got = o.fs("d");
    let w = store(a, want);
    if !same_vec(&got, &w) {
        return Err(format!("data {:?} expected {:?}", got, w));
    }
    Ok(())
}
fn expect_v(want: &[f64], out: &str) -> Result<(), String> {
    let o = resp(out).ok_or_else(|| format!("implementation returned {}", out))?;
    let got = o.fs("v");
    if !same_vec(&got, want) {
        return Err(format!("v {:?} expected {:?}", got, want));
    }
    Ok(())
}
fn expect_mat(m: usize, n: usize, want: &[f64], out: &str) -> Result<(), String> {
    let o = resp(out).ok_or_else(|| format!("implementation returned {}", out))?;
    if o.u("m") != m || o.u("n") != n {
        return Err(format!("shape {}x{} expected {}x{}", o.u("m"), o.u("n"), m, n));
    }
    if !same_vec(&o.fs("d"), want) {
        return Err(format!("data {:?} expected {:?}", o.fs("d"), want));
    }
    Ok(())
}
fn expect_panic(out: &str, why: &str) -> Result<(), String> {
    if out.starts_with("panic") { Ok(()) } else { Err(format!("expected a panic ({}), got {}", why, out)) }
}

// ---------------------------------------------------------------- core.rs / borrowed.rs / types.rs

fn run_new(r: &Req) -> String {
    fmt_mat(&hk::new(r.u("m"), r.u("n"), r.fs("d")))
}
fn run_new_from_slice(r: &Req) -> String {
    fmt_mat(&hk::new_from_slice(r.u("m"), r.u("n"), &r.fs("d")))
}
fn oracle_new(r: &Req, out: &str) -> Result<(), String> {
    let (m, n, d) = (r.u("m"), r.u("n"), r.fs("d"));
    if m * n != d.len() {
        return expect_panic(out, "m*n != len");
    }
    expect_mat(m, n, &d, out)
}
fn run_zeros(r: &Req) -> String {
    fmt_mat(&hk::zeros(r.u("m"), r.u("n")))
}
fn oracle_zeros(r: &Req, out: &str) -> Result<(), String> {
    let (m, n) = (r.u("m"), r.u("n"));
    expect_mat(m, n, &vec![0.0; m * n], out)
}
fn run_identity(r: &Req) -> String {
    fmt_mat(&hk::identity(r.u("n")))
}
fn oracle_identity(r: &Req, out: &str) -> Result<(), String> {
    let n = r.u("n");
    let mut d = vec![0.0; n * n];
    for i in 0..n {
        d[i * n + i] = 1.0;
    }
    expect_mat(n, n, &d, out)
}
fn rows_of(r: &Req) -> Vec<Vec<f64>> {
    (0..r.u("nrows")).map(|i| r.fs(&format!("r{}", i))).collect()
}
fn run_from_rows(r: &Req) -> String {
    fmt_mat(&hk::from_rows(&rows_of(r)))
}
fn oracle_from_rows(r: &Req, out: &str) -> Result<(), String> {
    let rows = rows_of(r);
    let m = rows.len();
    let n = rows.first().map(|x| x.len()).unwrap_or(0);
    if rows.iter().any(|x| x.len() != n) {
        return expect_panic(out, "ragged rows");
    }
    let mut d = vec![];
    for j in 0..n {
        for row in rows.iter() {
            d.push(row[j]);
        }
    }
    expect_mat(m, n, &d, out)
}
fn run_resize(r: &Req) -> String {
    fmt_mat(&hk::resize(&get_mat(r, "a"), r.u("m2"), r.u("n2")))
}
fn oracle_resize(r: &Req, out: &str) -> Result<(), String> {
    let a = get_mat(r, "a");
    if a.0 * a.1 != a.2.len() {
        return expect_panic(out, "m*n != len");
    }
    let (m2, n2) = (r.u("m2"), r.u("n2"));
    let mut d = a.2.clone();
    d.resize(m2 * n2, 0.0);
    expect_mat(m2, n2, &d, out)
}
fn run_size_shape(r: &Req) -> String {
    let (nr, nc, sq, t) = hk::size_shape(&get_opnd(r, "a"));
    Line::out().u("nrows", nr).u("ncols", nc).b("sq", sq).b("t", t).done()
}
/// load failure of an operand (owned: m*n != len; view: slice out of range)
fn load_fails(a: &Opnd) -> bool {
    match a.view {
        None => a.m * a.n != a.data.len(),
        Some((off, len)) => off + len > a.data.len(),
    }
}
fn oracle_size_shape(r: &Req, out: &str) -> Result<(), String> {
    let a = get_opnd(r, "a");
    if load_fails(&a) {
        return expect_panic(out, "operand cannot be built");
    }
    let o = resp(out).ok_or("no response")?;
    let (nr, nc) = vdims(&a);
    if o.u("nrows") != nr || o.u("ncols") != nc || o.b("sq") != (nr == nc) || o.b("t") != (a.shape == b'T') {
        return Err(format!("size/shape {} expected {}x{}", out, nr, nc));
    }
    Ok(())
}
fn run_index_linear(r: &Req) -> String {
    format!("k={}", hk::index_linear(&get_opnd(r, "a"), r.u("i"), r.u("j")))
}
fn lin(a: &Opnd, i: usize, j: usize) -> usize {
    match a.shape {
        b'T' => j + a.m * i,
        b'S' => if i <= j { i + a.m * j } else { j + a.m * i },
        _ => i + a.m * j,
    }
}
fn oracle_index_linear(r: &Req, out: &str) -> Result<(), String> {
    let a = get_opnd(r, "a");
    if load_fails(&a) {
        return expect_panic(out, "operand cannot be built");
    }
    let want = lin(&a, r.u("i"), r.u("j"));
    if out != format!("k={}", want) { Err(format!("{} expected k={}", out, want)) } else { Ok(()) }
}
fn run_index(r: &Req) -> String {
    val(hk::index(&get_opnd(r, "a"), r.u("i"), r.u("j")))
}
fn view_slice(a: &Opnd) -> Vec<f64> {
    match a.view {
        None => a.data.clone(),
        Some((off, len)) => a.data[off..off + len].to_vec(),
    }
}
fn oracle_index(r: &Req, out: &str) -> Result<(), String> {
    let a = get_opnd(r, "a");
    if load_fails(&a) {
        return expect_panic(out, "operand cannot be built");
    }
    let d = view_slice(&a);
    let k = lin(&a, r.u("i"), r.u("j"));
    if k >= d.len() {
        return expect_panic(out, "linear index out of range");
    }
    expect_v(&[d[k]], out)?;
    // transposition: (Aᵀ)ᵢⱼ = Aⱼᵢ, and a symmetric view agrees with itself transposed
    let (i, j) = (r.u("i"), r.u("j"));
    if a.shape == b'T' {
        let mut b = a.clone();
        b.shape = b'N';
        let w = hk::index(&b, j, i);
        if !same(w, d[k]) {
            return Err(format!("A.t()[({},{})] = {} but A[({},{})] = {}", i, j, d[k], j, i, w));
        }
    }
    if a.shape == b'S' && lin(&a, j, i) != k {
        return Err("symmetric view is not symmetric".into());
    }
    Ok(())
}
fn run_index_mut(r: &Req) -> String {
    dout(&hk::index_mut_set(&get_opnd(r, "a"), r.u("i"), r.u("j"), r.f("x")))
}
fn oracle_index_mut(r: &Req, out: &str) -> Result<(), String> {
    let a = get_opnd(r, "a");
    if load_fails(&a) {
        return expect_panic(out, "operand cannot be built");
    }
    let mut d = view_slice(&a);
    let k = r.u("i") + a.m * r.u("j");
    if k >= d.len() {
        return expect_panic(out, "linear index out of range");
    }
    d[k] = r.f("x");
    expect_d(&a, &d, out)
}
fn run_col_slice(r: &Req) -> String {
    vout(&hk::col_slice(&get_opnd(r, "a"), r.u("col")))
}
fn oracle_col_slice(r: &Req, out: &str) -> Result<(), String> {
    let a = get_opnd(r, "a");
    let col = r.u("col");
    if load_fails(&a) {
        return expect_panic(out, "operand cannot be built");
    }
    let d = view_slice(&a);
    if col >= a.n || (col + 1) * a.m > d.len() {
        return expect_panic(out, "col >= n or slice out of range");
    }
    expect_v(&d[col * a.m..(col + 1) * a.m], out)
}
fn run_col_slice_mut(r: &Req) -> String {
    dout(&hk::col_slice_mut_set(&get_opnd(r, "a"), r.u("col"), &r.fs("vals")))
}
fn oracle_col_slice_mut(r: &Req, out: &str) -> Result<(), String> {
    let a = get_opnd(r, "a");
    let col = r.u("col");
    if load_fails(&a) {
        return expect_panic(out, "operand cannot be built");
    }
    let mut d = view_slice(&a);
    if col >= a.n || (col + 1) * a.m > d.len() {
        return expect_panic(out, "col >= n or slice out of range");
    }
    for (i, v) in r.fs("vals").iter().enumerate().take(a.m) {
        d[col * a.m + i] = *v;
    }
    expect_d(&a, &d, out)
}
fn run_borrowed_index(r: &Req) -> String {
    val(hk::borrowed_index(&r.fs("d"), r.u("m"), r.u("n"), r.u("i"), r.u("j")))
}
fn oracle_borrowed_index(r: &Req, out: &str) -> Result<(), String> {
    let d = r.fs("d");
    let k = r.u("i") + r.u("m") * r.u("j");
    if k >= d.len() {
        return expect_panic(out, "linear index out of range");
    }
    expect_v(&[d[k]], out)
}
fn run_borrowed_col_slice(r: &Req) -> String {
    vout(&hk::borrowed_col_slice(&r.fs("d"), r.u("m"), r.u("n"), r.u("col")))
}
fn oracle_borrowed_col_slice(r: &Req, out: &str) -> Result<(), String> {
    let (d, m, n, col) = (r.fs("d"), r.u("m"), r.u("n"), r.u("col"));
    if col >= n || (col + 1) * m > d.len() {
        return expect_panic(out, "col >= n or slice out of range");
    }
    expect_v(&d[col * m..(col + 1) * m], out)
}
fn run_set_identity(r: &Req) -> String {
    dout(&hk::set_identity(&get_opnd(r, "a")))
}
fn oracle_set_identity(r: &Req, out: &str) -> Result<(), String> {
    let a = get_opnd(r, "a");
    if load_fails(&a) || a.m != a.n {
        return expect_panic(out, "not square / operand cannot be built");
    }
    let mut d = vec![0.0; view_slice(&a).len()];
    for i in 0..a.n {
        if i + a.m * i >= d.len() {
            return expect_panic(out, "diagonal out of range");
        }
        d[i + a.m * i] = 1.0;
    }
    expect_d(&a, &d, out)
}
fn run_copy_from_slice(r: &Req) -> String {
    dout(&hk::copy_from_slice(&get_opnd(r, "a"), &r.fs("src")))
}
fn oracle_copy_from_slice(r: &Req, out: &str) -> Result<(), String> {
    let a = get_opnd(r, "a");
    let src = r.fs("src");
    if load_fails(&a) || view_slice(&a).len() != src.len() {
        return expect_panic(out, "length mismatch");
    }
    expect_d(&a, &src, out)
}
fn run_is_triu(r: &Req) -> String {
    fb(hk::is_triu(&get_opnd(r, "a"))).to_string()
}
fn oracle_is_triu(r: &Req, out: &str) -> Result<(), String> {
    let a = get_opnd(r, "a");
    let d = match consistent(&a) {
        Some(d) => d,
        None => return Ok(()), // inconsistent views: left to the model comparison
    };
    let mut want = true;
    for c in 0..a.n {
        for rr in (c + 1)..a.m {
            if d[rr + a.m * c] != 0.0 {
                want = false;
            }
        }
    }
    if (out == "1") != want { Err(format!("is_triu = {} expected {}", out, want)) } else { Ok(()) }
}
fn run_subsasgn(r: &Req) -> String {
    dout(&hk::subsasgn(&get_opnd(r, "a"), &r.us("rows"), &r.us("cols"), &get_opnd(r, "s")))
}
fn run_subsref(r: &Req) -> String {
    dout(&hk::subsref(&get_opnd(r, "a"), &get_opnd(r, "s"), &r.us("rows"), &r.us("cols")))
}
/// sequential re-execution on plain vectors (checked indexing); `asgn`: self[rows,cols] = S
fn subs_oracle(r: &Req, out: &str, asgn: bool) -> Result<(), String> {
    let (a, s) = (get_opnd(r, "a"), get_opnd(r, "s"));
    if load_fails(&a) || load_fails(&s) {
        return expect_panic(out, "operand cannot be built");
    }
    let (rows, cols) = (r.us("rows"), r.us("cols"));
    let mut d = view_slice(&a);
    let sd = view_slice(&s);
    for (j, &col) in cols.iter().enumerate() {
        for (i, &row) in rows.iter().enumerate() {
            let (ks, kd) = if asgn { (lin(&s, i, j), row + a.m * col) } else { (lin(&s, row, col), i + a.m * j) };
            if ks >= sd.len() || kd >= d.len() {
                return expect_panic(out, "index out of range");
            }
            d[kd] = sd[ks];
        }
    }
    expect_d(&a, &d, out)
}
fn oracle_subsasgn(r: &Req, out: &str) -> Result<(), String> { subs_oracle(r, out, true) }
fn oracle_subsref(r: &Req, out: &str) -> Result<(), String> { subs_oracle(r, out, false) }
fn tri(n: usize) -> usize {
    n * (n + 1) / 2
}
fn run_pack_triu(r: &Req) -> String {
    vout(&hk::pack_triu(&get_mat(r, "a"), &r.fs("v")))
}
fn oracle_pack_triu(r: &Req, out: &str) -> Result<(), String> {
    let a = get_mat(r, "a");
    let v = r.fs("v");
    if a.0 * a.1 != a.2.len() || v.len() != tri(a.0) {
        return expect_panic(out, "size");
    }
    let mut w = vec![];
    for c in 0..a.0 {
        for rr in 0..=c {
            let k = rr + a.0 * c;
            if k >= a.2.len() {
                return expect_panic(out, "index out of range (non-square source)");
            }
            w.push(a.2[k]);
        }
    }
    expect_v(&w, out)
}
fn run_type_markers(r: &Req) -> String {
    let (a, b, c, d) = hk::type_markers(r.b("triu"), r.b("t"));
    format!("c={},{},{},{}", a, b, c, d)
}
fn oracle_type_markers(r: &Req, out: &str) -> Result<(), String> {
    let (u, l, n, t) = (b'U', b'L', b'N', b'T');
    let want = format!("c={},{},{},{}", if r.b("triu") { u } else { l }, if r.b("triu") { l } else { u }, if r.b("t") { t } else { n }, if r.b("t") { n } else { t });
    if out != want { Err(format!("{} expected {}", out, want)) } else { Ok(()) }
}

// ---------------------------------------------------------------- block_concatenate.rs / kron.rs

fn fmt_cat(r: Result<Mat, String>) -> String {
    match r {
        Ok(a) => fmt_mat(&a),
        Err(e) => format!("err:{}", e),
    }
}
fn blocks_of(r: &Req) -> Vec<Vec<Mat>> {
    r.us("lens").iter().enumerate().map(|(i, &k)| (0..k).map(|c| get_mat(r, &format!("b{}_{}_", i, c))).collect()).collect()
}
fn run_hcat(r: &Req) -> String { fmt_cat(hk::hcat(&get_mat(r, "a"), &get_mat(r, "b"))) }
fn run_vcat(r: &Req) -> String { fmt_cat(hk::vcat(&get_mat(r, "a"), &get_mat(r, "b"))) }
fn run_hvcat(r: &Req) -> String { fmt_cat(hk::hvcat(&blocks_of(r))) }
fn run_blockdiag(r: &Req) -> String {
    let v: Vec<Mat> = (0..r.u("k")).map(|i| get_mat(r, &format!("b{}_", i))).collect();
    fmt_cat(hk::blockdiag(&v))
}
fn mat_ok(a: &Mat) -> bool {
    a.0 * a.1 == a.2.len()
}
/// dense placement of a block grid (None = incompatible)
fn grid_dense(blocks: &[Vec<Mat>]) -> Option<(usize, usize, Vec<f64>)> {
    if blocks.is_empty() || blocks[0].is_empty() {
        return None;
    }
    let nb = blocks[0].len();
    if blocks.iter().any(|r| r.len() != nb) {
        return None;
    }
    for row in blocks {
        if row.iter().any(|b| b.0 != row[0].0) {
            return None;
        }
    }
    for c in 0..nb {
        if blocks.iter().any(|r| r[c].1 != blocks[0][c].1) {
            return None;
        }
    }
    let m: usize = blocks.iter().map(|r| r[0].0).sum();
    let n: usize = blocks[0].iter().map(|b| b.1).sum();
    let mut d = vec![0.0; m * n];
    let mut r0 = 0;
    for row in blocks {
        let mut c0 = 0;
        for b in row {
            for j in 0..b.1 {
                for i in 0..b.0 {
                    d[(r0 + i) + m * (c0 + j)] = b.2[i + b.0 * j];
                }
            }
            c0 += b.1;
        }
        r0 += row[0].0;
    }
    Some((m, n, d))
}
fn cat_oracle(blocks: &[Vec<Mat>], out: &str) -> Result<(), String> {
    if blocks.iter().flatten().any(|b| !mat_ok(b)) {
        return expect_panic(out, "block cannot be built");
    }
    match grid_dense(blocks) {
        None => if out == "err:IncompatibleDimension" { Ok(()) } else { Err(format!("expected IncompatibleDimension, got {}", out)) },
        Some((m, n, d)) => expect_mat(m, n, &d, out),
    }
}
fn oracle_hcat(r: &Req, out: &str) -> Result<(), String> { cat_oracle(&[vec![get_mat(r, "a"), get_mat(r, "b")]], out) }
fn oracle_vcat(r: &Req, out: &str) -> Result<(), String> { cat_oracle(&[vec![get_mat(r, "a")], vec![get_mat(r, "b")]], out) }
fn oracle_hvcat(r: &Req, out: &str) -> Result<(), String> { cat_oracle(&blocks_of(r), out) }
fn oracle_blockdiag(r: &Req, out: &str) -> Result<(), String> {
    let v: Vec<Mat> = (0..r.u("k")).map(|i| get_mat(r, &format!("b{}_", i))).collect();
    if v.iter().any(|b| !mat_ok(b)) {
        return expect_panic(out, "block cannot be built");
    }
    if v.is_empty() {
        return if out == "err:IncompatibleDimension" { Ok(()) } else { Err(format!("expected IncompatibleDimension, got {}", out)) };
    }
    let m: usize = v.iter().map(|b| b.0).sum();
    let n: usize = v.iter().map(|b| b.1).sum();
    let mut d = vec![0.0; m * n];
    let (mut r0, mut c0) = (0, 0);
    for b in &v {
        for j in 0..b.1 {
            for i in 0..b.0 {
                d[(r0 + i) + m * (c0 + j)] = b.2[i + b.0 * j];
            }
        }
        r0 += b.0;
        c0 += b.1;
    }
    expect_mat(m, n, &d, out)
}

fn run_kron(r: &Req) -> String {
    dout(&hk::kron(&get_mat(r, "k"), &get_opnd(r, "a"), &get_opnd(r, "b")))
}
fn oracle_kron(r: &Req, out: &str) -> Result<(), String> {
    let (k, a, b) = (get_mat(r, "k"), get_opnd(r, "a"), get_opnd(r, "b"));
    let (da, db) = match (consistent(&a), consistent(&b)) {
        (Some(x), Some(y)) if view_total(&a) && view_total(&b) && mat_ok(&k) => (x, y),
        _ => return Ok(()), // inconsistent operands: left to the model comparison
    };
    let ((pp, qq), (rr, ss)) = (vdims(&a), vdims(&b));
    if k.0 != pp * rr || k.1 != qq * ss {
        return expect_panic(out, "kron shape assert");
    }
    // entry (p*rr + r, q*ss + s) = A[p,q] * B[r,s]
    let mut d = vec![0.0; k.0 * k.1];
    for p in 0..pp {
        for q in 0..qq {
            for r_ in 0..rr {
                for s_ in 0..ss {
                    d[(p * rr + r_) + k.0 * (q * ss + s_)] = entry(&a, &da, p, q) * entry(&b, &db, r_, s_);
                }
            }
        }
    }
    let o = resp(out).ok_or_else(|| format!("implementation returned {}", out))?;
    if !same_vec(&o.fs("d"), &d) {
        return Err(format!("kron data {:?} expected {:?}", o.fs("d"), d));
    }
    Ok(())
}

// ---------------------------------------------------------------- matrix_math.rs

macro_rules! run_reduce {
    ($name:ident, $f:ident) => {
        fn $name(r: &Req) -> String {
            vout(&hk::$f(&get_mat(r, "a"), &r.fs("v")))
        }
    };
}
run_reduce!(run_col_sums, col_sums);
run_reduce!(run_row_sums, row_sums);
run_reduce!(run_col_norms, col_norms);
run_reduce!(run_col_norms_nr, col_norms_no_reset);
run_reduce!(run_col_norms_sym, col_norms_sym);
run_reduce!(run_col_norms_sym_nr, col_norms_sym_no_reset);
run_reduce!(run_row_norms, row_norms);
run_reduce!(run_row_norms_nr, row_norms_no_reset);

fn close(got: f64, want: f64, scale: f64) -> bool {
    if got == want {
        return true;
    }
    if !got.is_finite() || !want.is_finite() {
        return got.is_nan() == want.is_nan() && (got.is_nan() || got == want);
    }
    (got - want).abs() <= 1e-12 * scale + 1e-300
}
/// kind: 0 col sums, 1 row sums, 2 col norms, 3 row norms, 4 symmetric col norms
fn reduction_oracle(r: &Req, out: &str, kind: u8, reset: bool) -> Result<(), String> {
    let a = get_mat(r, "a");
    let v0 = r.fs("v");
    if !mat_ok(&a) {
        return expect_panic(out, "matrix cannot be built");
    }
    let (m, n) = (a.0, a.1);
    let want_len = if kind == 1 || kind == 3 { m } else { n };
    if v0.len() != want_len || (kind == 4 && m != n) {
        return Ok(()); // wrong work-vector lengths / non-square: exact behaviour is the model's business
    }
    if a.2.iter().any(|x| x.is_nan()) || v0.iter().any(|x| x.is_nan()) {
        return Ok(());
    }
    let o = resp(out).ok_or_else(|| format!("implementation returned {}", out))?;
    let got = o.fs("v");
    if got.len() != want_len {
        return Err("length".into());
    }
    let e = |i: usize, j: usize| a.2[i + m * j];
    for k in 0..want_len {
        let (want, scale) = match kind {
            0 => ((0..m).map(|i| e(i, k)).sum::<f64>(), (0..m).map(|i| e(i, k).abs()).sum::<f64>()),
            1 => ((0..n).map(|j| e(k, j)).sum::<f64>(), (0..n).map(|j| e(k, j).abs()).sum::<f64>()),
            // max(norm, col_slice(k).norm_inf()): the inner maximum starts at 0 (matters for a negative
            // incoming value and an empty column)
            2 => (f64::max(if reset { 0.0 } else { v0[k] }, (0..m).map(|i| e(i, k).abs()).fold(0.0, f64::max)), 0.0),
            3 => ((0..n).map(|j| e(k, j).abs()).fold(if reset { 0.0 } else { v0[k] }, f64::max), 0.0),
            _ => {
                // ∞-norm of column k of the symmetric matrix given by the upper triangle
                let w = (0..n).map(|j| if j <= k { e(j, k) } else { e(k, j) });
                if strict() {
                    (w.map(|x| x.abs()).fold(if reset { 0.0 } else { v0[k] }, f64::max), 0.0)
                } else {
                    // recorded observation C16-dense-col-norms-sym-no-abs: the dense twin takes
                    // the maximum of the raw entries (no absolute value)
                    (w.fold(if reset { 0.0 } else { v0[k] }, f64::max), 0.0)
                }
            }
        };
        if !close(got[k], want, scale) {
            return Err(format!("entry {} = {:e} expected {:e}", k, got[k], want));
        }
    }
    Ok(())
}
fn oracle_col_sums(r: &Req, out: &str) -> Result<(), String> { reduction_oracle(r, out, 0, true) }
fn oracle_row_sums(r: &Req, out: &str) -> Result<(), String> { reduction_oracle(r, out, 1, true) }
fn oracle_col_norms(r: &Req, out: &str) -> Result<(), String> { reduction_oracle(r, out, 2, true) }
fn oracle_col_norms_nr(r: &Req, out: &str) -> Result<(), String> { reduction_oracle(r, out, 2, false) }
fn oracle_row_norms(r: &Req, out: &str) -> Result<(), String> { reduction_oracle(r, out, 3, true) }
fn oracle_row_norms_nr(r: &Req, out: &str) -> Result<(), String> { reduction_oracle(r, out, 3, false) }
fn oracle_sym_norms(r: &Req, out: &str) -> Result<(), String> { reduction_oracle(r, out, 4, true) }
fn oracle_sym_norms_nr(r: &Req, out: &str) -> Result<(), String> { reduction_oracle(r, out, 4, false) }

fn run_quad_form(r: &Req) -> String {
    val(hk::quad_form(&get_mat(r, "a"), &r.fs("y"), &r.fs("x")))
}
fn oracle_quad_form(r: &Req, out: &str) -> Result<(), String> {
    let a = get_mat(r, "a");
    let (y, x) = (r.fs("y"), r.fs("x"));
    if !mat_ok(&a) || a.0 != a.1 {
        return expect_panic(out, "not square");
    }
    let n = a.0;
    if y.len() != n || x.len() != n {
        return Ok(());
    }
    let o = resp(out).ok_or_else(|| format!("implementation returned {}", out))?;
    let got = o.f("v");
    let (mut want, mut scale) = (0.0, 0.0);
    for i in 0..n {
        for j in 0..n {
            let e = if i <= j { a.2[i + n * j] } else { a.2[j + n * i] };
            want += y[i] * e * x[j];
            scale += (y[i] * e * x[j]).abs();
        }
    }
    if !(want.is_finite() && scale.is_finite()) || amax(&a.2) > 1e100 || amax(&y) > 1e100 || amax(&x) > 1e100 {
        return Ok(()); // partial sums overflow in one order and not in the other
    }
    if !close(got, want, 8.0 * scale) {
        return Err(format!("quad_form = {:e} expected yᵀ sym(A) x = {:e}", got, want));
    }
    Ok(())
}
fn run_scale(r: &Req) -> String { dout(&hk::scale(&get_mat(r, "a"), r.f("c"))) }
fn run_negate(r: &Req) -> String { dout(&hk::negate(&get_mat(r, "a"))) }
fn run_lscale(r: &Req) -> String { dout(&hk::lscale(&get_mat(r, "a"), &r.fs("l"))) }
fn run_rscale(r: &Req) -> String { dout(&hk::rscale(&get_mat(r, "a"), &r.fs("r"))) }
fn run_lrscale(r: &Req) -> String { dout(&hk::lrscale(&get_mat(r, "a"), &r.fs("l"), &r.fs("r"))) }
/// diag(l)·A·diag(r)·c entrywise (None = all ones), exact for one rounding per product
fn scaling_oracle(r: &Req, out: &str, kind: u8) -> Result<(), String> {
    let a = get_mat(r, "a");
    if !mat_ok(&a) {
        return expect_panic(out, "matrix cannot be built");
    }
    let (m, n) = (a.0, a.1);
    let l = if r.has("l") { r.fs("l") } else { vec![] };
    let rr = if r.has("r") { r.fs("r") } else { vec![] };
    if (r.has("l") && l.len() != m) || (r.has("r") && rr.len() != n) {
        return Ok(()); // wrong lengths: exact behaviour is the model's business
    }
    let mut d = a.2.clone();
    for j in 0..n {
        for i in 0..m {
            let x = a.2[i + m * j];
            d[i + m * j] = match kind {
                0 => x * r.f("c"),
                1 => -x,
                2 => x * l[i],
                3 => x * rr[j],
                _ => x * (l[i] * rr[j]),
            };
        }
    }
    let o = resp(out).ok_or_else(|| format!("implementation returned {}", out))?;
    if !same_vec(&o.fs("d"), &d) {
        return Err(format!("data {:?} expected {:?}", o.fs("d"), d));
    }
    Ok(())
}
fn oracle_scale(r: &Req, out: &str) -> Result<(), String> { scaling_oracle(r, out, 0) }
fn oracle_negate(r: &Req, out: &str) -> Result<(), String> { scaling_oracle(r, out, 1) }
fn oracle_lscale(r: &Req, out: &str) -> Result<(), String> { scaling_oracle(r, out, 2) }
fn oracle_rscale(r: &Req, out: &str) -> Result<(), String> { scaling_oracle(r, out, 3) }
fn oracle_lrscale(r: &Req, out: &str) -> Result<(), String> { scaling_oracle(r, out, 4) }

fn run_symmetric_part(r: &Req) -> String { dout(&hk::symmetric_part(&get_opnd(r, "a"))) }
fn oracle_symmetric_part(r: &Req, out: &str) -> Result<(), String> {
    let a = get_opnd(r, "a");
    if load_fails(&a) || a.m != a.n {
        return expect_panic(out, "not square");
    }
    let d0 = match consistent(&a) {
        Some(d) => d,
        None => return Ok(()),
    };
    let n = a.n;
    let mut d = d0.clone();
    for i in 0..n {
        for j in 0..n {
            if i != j {
                d[i + n * j] = 0.5 * (d0[i.max(j) + n * i.min(j)] + d0[i.min(j) + n * i.max(j)]);
            }
        }
    }
    expect_d(&a, &d, out)?;
    // the result is symmetric and its diagonal is untouched
    Ok(())
}
const ISQRT2: f64 = std::f64::consts::FRAC_1_SQRT_2;
fn run_svec_to_mat(r: &Req) -> String { dout(&hk::svec_to_mat(&get_opnd(r, "a"), &r.fs("x"))) }
fn oracle_svec_to_mat(r: &Req, out: &str) -> Result<(), String> {
    let a = get_opnd(r, "a");
    let x = r.fs("x");
    let d0 = match consistent(&a) {
        Some(d) if a.m == a.n => d,
        _ => return Ok(()),
    };
    let n = a.n;
    if x.len() < tri(n) {
        return if n > 0 { expect_panic(out, "x too short") } else { Ok(()) };
    }
    let mut d = d0;
    for c in 0..n {
        for rr in 0..=c {
            let v = x[tri(c) + rr];
            if rr == c {
                d[rr + n * c] = v;
            } else {
                d[rr + n * c] = v * ISQRT2;
                d[c + n * rr] = v * ISQRT2;
            }
        }
    }
    expect_d(&a, &d, out)
}
fn run_mat_to_svec(r: &Req) -> String { vout(&hk::mat_to_svec(&r.fs("x"), &get_opnd(r, "a"))) }
fn oracle_mat_to_svec(r: &Req, out: &str) -> Result<(), String> {
    let a = get_opnd(r, "a");
    let x0 = r.fs("x");
    let d = match consistent(&a) {
        Some(d) if a.m == a.n => d,
        _ => return Ok(()),
    };
    let n = a.n;
    if x0.len() < tri(n) {
        return if n > 0 { expect_panic(out, "x too short") } else { Ok(()) };
    }
    let mut x = x0;
    for c in 0..n {
        for rr in 0..=c {
            x[tri(c) + rr] = if rr == c { entry(&a, &d, rr, c) } else { (entry(&a, &d, rr, c) + entry(&a, &d, c, rr)) * ISQRT2 };
        }
    }
    expect_v(&x, out)
}

// ---------------------------------------------------------------- BLAS wrappers

fn run_mul(r: &Req) -> String {
    dout(&hk::mul(&get_opnd(r, "c"), &get_opnd(r, "a"), &get_opnd(r, "b"), r.f("alpha"), r.f("beta")))
}
fn run_gemv(r: &Req) -> String {
    vout(&hk::gemv(&get_opnd(r, "a"), &r.fs("x"), &r.fs("y"), r.f("alpha"), r.f("beta")))
}
fn run_symv(r: &Req) -> String {
    vout(&hk::symv(&get_mat(r, "a"), &r.fs("x"), &r.fs("y"), r.f("alpha"), r.f("beta")))
}
fn run_syrk(r: &Req) -> String {
    dout(&hk::syrk(&get_mat(r, "c"), &get_opnd(r, "a"), r.f("alpha"), r.f("beta")))
}
fn run_syr2k(r: &Req) -> String {
    dout(&hk::syr2k(&get_opnd(r, "c"), &get_opnd(r, "a"), &get_opnd(r, "b"), r.f("alpha"), r.f("beta")))
}
/// |got - (alpha*acc + beta*c)| within rounding of the magnitudes involved; `c` is ignored
/// (may be NaN) when beta == 0
fn blas_close(got: f64, alpha: f64, acc: f64, acc_abs: f64, beta: f64, c: f64) -> bool {
    let (want, scale) = if beta == 0.0 { (alpha * acc, (alpha * acc_abs).abs()) } else { (alpha * acc + beta * c, (alpha * acc_abs).abs() + (beta * c).abs()) };
    if !want.is_finite() || !scale.is_finite() {
        return true; // overflow / NaN data: not judged here
    }
    (got - want).abs() <= 1e-11 * scale + 1e-300
}
/// what BLAS sees of an operand in gemm / syrk: a `sym()` view is handed over as the plain
/// buffer with shape N (the wrapper does not symmetrise)
fn blas_entry(a: &Opnd, d: &[f64], i: usize, l: usize) -> f64 {
    match a.shape {
        b'T' => d[l + a.m * i],
        b'S' => d[i + a.n * l],
        _ => d[i + a.m * l],
    }
}
fn oracle_mul(r: &Req, out: &str) -> Result<(), String> {
    let (c, a, b) = (get_opnd(r, "c"), get_opnd(r, "a"), get_opnd(r, "b"));
    let (al, be) = (r.f("alpha"), r.f("beta"));
    let (dc, da, db) = match (consistent(&c), consistent(&a), consistent(&b)) {
        (Some(x), Some(y), Some(z)) => (x, y, z),
        _ => return Ok(()),
    };
    let ((am, ak), (bk, bn)) = (vdims(&a), vdims(&b));
    if ak != bk || c.m != am || c.n != bn {
        return expect_panic(out, "gemm dimension assert");
    }
    let o = resp(out).ok_or_else(|| format!("implementation returned {}", out))?;
    let got = o.fs("d");
    let g = view_of(&c, &got)?;
    for j in 0..c.n {
        for i in 0..c.m {
            let (mut acc, mut aa) = (0.0, 0.0);
            for l in 0..ak {
                let t = blas_entry(&a, &da, i, l) * blas_entry(&b, &db, l, j);
                acc += t;
                aa += t.abs();
            }
            if !blas_close(g[i + c.m * j], al, acc, aa, be, dc[i + c.m * j]) {
                return Err(format!("C[{},{}] = {:e} expected alpha*{:e} + beta*{:e}", i, j, g[i + c.m * j], acc, dc[i + c.m * j]));
            }
        }
    }
    outside_untouched(&c, &got)
}
/// the part of the response buffer that is the view, and a check that the rest of the parent
/// buffer is bit for bit the request's
fn view_of(c: &Opnd, got: &[f64]) -> Result<Vec<f64>, String> {
    if got.len() != c.data.len() {
        return Err("buffer length changed".into());
    }
    Ok(match c.view {
        None => got.to_vec(),
        Some((off, len)) => got[off..off + len].to_vec(),
    })
}
fn outside_untouched(c: &Opnd, got: &[f64]) -> Result<(), String> {
    if let Some((off, len)) = c.view {
        for k in (0..off).chain(off + len..c.data.len()) {
            if !same(got[k], c.data[k]) {
                return Err(format!("parent buffer entry {} outside the view was modified", k));
            }
        }
    }
    Ok(())
}
fn oracle_gemv(r: &Req, out: &str) -> Result<(), String> {
    let a = get_opnd(r, "a");
    let (x, y) = (r.fs("x"), r.fs("y"));
    let (al, be) = (r.f("alpha"), r.f("beta"));
    let d = match consistent(&a) {
        Some(d) => d,
        None => return Ok(()),
    };
    let t = a.shape == b'T';
    let (rows, cols) = if t { (a.n, a.m) } else { (a.m, a.n) };
    if cols != x.len() || rows != y.len() {
        return expect_panic(out, "gemv dimension assert");
    }
    let o = resp(out).ok_or_else(|| format!("implementation returned {}", out))?;
    let got = o.fs("v");
    if a.m == 0 || a.n == 0 {
        // recorded observation C16-dense-gemv-empty: BLAS returns at once, y is not scaled by beta
        let want: Vec<f64> = if strict() { y.iter().map(|v| if be == 0.0 { 0.0 } else { be * v }).collect() } else { y.clone() };
        return if same_vec(&got, &want) { Ok(()) } else { Err(format!("empty operand: y = {:?} expected {:?}", got, want)) };
    }
    for i in 0..rows {
        let (mut acc, mut aa) = (0.0, 0.0);
        for l in 0..cols {
            let t_ = entry(&a, &d, i, l) * x[l];
            acc += t_;
            aa += t_.abs();
        }
        if !blas_close(got[i], al, acc, aa, be, y[i]) {
            return Err(format!("y[{}] = {:e} expected alpha*{:e} + beta*{:e}", i, got[i], acc, y[i]));
        }
    }
    Ok(())
}
fn oracle_symv(r: &Req, out: &str) -> Result<(), String> {
    let a = get_mat(r, "a");
    let (x, y) = (r.fs("x"), r.fs("y"));
    let (al, be) = (r.f("alpha"), r.f("beta"));
    if !mat_ok(&a) || a.0 != a.1 {
        return expect_panic(out, "not square");
    }
    let n = a.0;
    let o = resp(out).ok_or_else(|| format!("implementation returned {}", out))?;
    let got = o.fs("v");
    if got.len() != n {
        return Err("length".into());
    }
    for i in 0..n {
        let (mut acc, mut aa) = (0.0, 0.0);
        for l in 0..n {
            // upper triangle only: the strictly lower part of the buffer must not matter
            let e = if i <= l { a.2[i + n * l] } else { a.2[l + n * i] };
            acc += e * x[l];
            aa += (e * x[l]).abs();
        }
        if !blas_close(got[i], al, acc, aa, be, y[i]) {
            return Err(format!("y[{}] = {:e} expected alpha*{:e} + beta*{:e}", i, got[i], acc, y[i]));
        }
    }
    Ok(())
}
/// upper triangle: alpha*acc + beta*c; strictly lower triangle: bit for bit untouched
fn tri_update_oracle(c: &Opnd, dc: &[f64], got: &[f64], al: f64, be: f64, acc: &dyn Fn(usize, usize) -> (f64, f64)) -> Result<(), String> {
    let n = c.m;
    let g = view_of(c, got)?;
    for j in 0..n {
        for i in 0..n {
            let k = i + n * j;
            if i <= j {
                let (s, sa) = acc(i, j);
                if !blas_close(g[k], al, s, sa, be, dc[k]) {
                    return Err(format!("C[{},{}] = {:e} expected alpha*{:e} + beta*{:e}", i, j, g[k], s, dc[k]));
                }
            } else if !same(g[k], dc[k]) {
                return Err(format!("strictly lower entry C[{},{}] was modified ({:e} -> {:e})", i, j, dc[k], g[k]));
            }
        }
    }
    outside_untouched(c, got)
}
fn oracle_syrk(r: &Req, out: &str) -> Result<(), String> {
    let cm = get_mat(r, "c");
    let a = get_opnd(r, "a");
    let (al, be) = (r.f("alpha"), r.f("beta"));
    let da = match consistent(&a) {
        Some(d) if mat_ok(&cm) => d,
        _ => return Ok(()),
    };
    let (n, k) = vdims(&a);
    if cm.0 != n || cm.1 != n {
        return expect_panic(out, "syrk dimension assert");
    }
    let o = resp(out).ok_or_else(|| format!("implementation returned {}", out))?;
    let got = o.fs("d");
    if a.shape == b'T' && k == 0 && n > 0 && !strict() {
        // recorded observation C16-dense-syrk-adjoint-k0: lda = 0 is rejected by BLAS, C is left
        // as it was (not scaled by beta)
        return if same_vec(&got, &cm.2) { Ok(()) } else { Err("C changed although BLAS rejects the call".into()) };
    }
    let c = Opnd { m: cm.0, n: cm.1, data: cm.2.clone(), view: None, shape: b'N' };
    tri_update_oracle(&c, &cm.2, &got, al, be, &|i, j| {
        let (mut s, mut sa) = (0.0, 0.0);
        for l in 0..k {
            let t = blas_entry(&a, &da, i, l) * blas_entry(&a, &da, j, l);
            s += t;
            sa += t.abs();
        }
        (s, sa)
    })
}
fn oracle_syr2k(r: &Req, out: &str) -> Result<(), String> {
    let (c, a, b) = (get_opnd(r, "c"), get_opnd(r, "a"), get_opnd(r, "b"));
    let (al, be) = (r.f("alpha"), r.f("beta"));
    let (dc, da, db) = match (consistent(&c), consistent(&a), consistent(&b)) {
        (Some(x), Some(y), Some(z)) => (x, y, z),
        _ => return Ok(()),
    };
    if c.m != a.m || c.m != b.m || c.n != b.m || a.n != b.n {
        return expect_panic(out, "syr2k dimension assert");
    }
    let o = resp(out).ok_or_else(|| format!("implementation returned {}", out))?;
    let got = o.fs("d");
    let (n, k) = (c.m, a.n);
    tri_update_oracle(&c, &dc, &got, al, be, &|i, j| {
        let (mut s, mut sa) = (0.0, 0.0);
        for l in 0..k {
            let t = da[i + n * l] * db[j + n * l] + db[i + n * l] * da[j + n * l];
            s += t;
            sa += (da[i + n * l] * db[j + n * l]).abs() + (db[i + n * l] * da[j + n * l]).abs();
        }
        (s, sa)
    })
}

// ---------------------------------------------------------------- LAPACK wrappers

fn rcode(r: &Result<(), String>) -> String {
    match r {
        Ok(()) => "ok".into(),
        Err(e) => e.clone(),
    }
}
fn all_finite(d: &[f64]) -> bool {
    d.iter().all(|x| x.is_finite())
}
fn amax(d: &[f64]) -> f64 {
    d.iter().fold(0.0, |a, x| a.max(x.abs()))
}
/// symmetric completion of the upper triangle of an n×n column-major buffer
fn sym_of_triu(d: &[f64], n: usize) -> Vec<f64> {
    let mut s = vec![0.0; n * n];
    for j in 0..n {
        for i in 0..n {
            s[i + n * j] = if i <= j { d[i + n * j] } else { d[j + n * i] };
        }
    }
    s
}
/// C = A·B for column-major (m×k)(k×n), with the entrywise sum of magnitudes
fn mm(a: &[f64], b: &[f64], m: usize, k: usize, n: usize) -> (Vec<f64>, Vec<f64>) {
    let (mut c, mut ca) = (vec![0.0; m * n], vec![0.0; m * n]);
    for j in 0..n {
        for i in 0..m {
            for l in 0..k {
                let t = a[i + m * l] * b[l + k * j];
                c[i + m * j] += t;
                ca[i + m * j] += t.abs();
            }
        }
    }
    (c, ca)
}
fn tr(a: &[f64], m: usize, n: usize) -> Vec<f64> {
    let mut t = vec![0.0; m * n];
    for j in 0..n {
        for i in 0..m {
            t[j + n * i] = a[i + m * j];
        }
    }
    t
}

fn run_chol_factor(r: &Req) -> String {
    let mut eng = hk::Chol::from_L(&get_mat(r, "l"));
    let (res, a_after) = eng.factor(&get_opnd(r, "a"));
    format!("r={} l={} a={}", rcode(&res), ffs(&eng.L().2), ffs(&a_after))
}
fn oracle_chol_factor(r: &Req, out: &str) -> Result<(), String> {
    let l0 = get_mat(r, "l");
    let a = get_opnd(r, "a");
    let o = match resp(out) {
        Some(o) => o,
        None => return if load_fails(&a) || !mat_ok(&l0) { Ok(()) } else { Err(format!("implementation returned {}", out)) },
    };
    let (code, l1, a1) = (o.str("r").to_string(), o.fs("l"), o.fs("a"));
    if !same_vec(&a1, &a.data) {
        return Err("factor modified its input matrix".into());
    }
    if (a.m, a.n) != (l0.0, l0.1) {
        return if code == "IncompatibleDimension" && same_vec(&l1, &l0.2) { Ok(()) } else { Err(format!("size mismatch gave {} / changed L", code)) };
    }
    let n = l0.0;
    if n == 0 {
        // recorded observation C16-dense-lapack-empty: lda = 0 is an illegal LAPACK argument
        let want = if strict() { "ok" } else { "Cholesky(-4)" };
        return if code == want { Ok(()) } else { Err(format!("0x0 input gave {} expected {}", code, want)) };
    }
    let da = match consistent(&a) {
        Some(d) => d,
        None => return Ok(()),
    };
    // the strictly upper triangle of L is whatever it was
    for j in 0..n {
        for i in 0..j {
            if !same(l1[i + n * j], l0.2[i + n * j]) {
                return Err(format!("strictly upper entry L[{},{}] changed", i, j));
            }
        }
    }
    let s = sym_of_triu(&da, n);
    if !all_finite(&s) {
        return Ok(());
    }
    let kind = r.str("kind");
    if code == "ok" {
        if kind == "indef" {
            return Err("factor succeeded on a matrix with a clearly negative eigenvalue".into());
        }
        let mut low = vec![0.0; n * n];
        for j in 0..n {
            for i in j..n {
                low[i + n * j] = l1[i + n * j];
            }
        }
        let (p, pa) = mm(&low, &tr(&low, n, n), n, n, n);
        for k in 0..n * n {
            if (p[k] - s[k]).abs() > 1e-11 * (pa[k] + s[k].abs()) + 1e-300 {
                return Err(format!("L·Lᵀ differs from A at linear index {}: {:e} vs {:e}", k, p[k], s[k]));
            }
        }
        for i in 0..n {
            if !(low[i + n * i] > 0.0) {
                return Err("non-positive diagonal in the factor".into());
            }
        }
    } else {
        let k: i64 = code.strip_prefix("Cholesky(").and_then(|x| x.strip_suffix(')')).and_then(|x| x.parse().ok()).ok_or(format!("unexpected result {}", code))?;
        if kind == "spd" {
            return Err(format!("factor failed ({}) on a well conditioned positive definite matrix", code));
        }
        if k < 1 || k as usize > n {
            return Err(format!("info {} out of 1..=n", k));
        }
    }
    Ok(())
}
fn run_chol_solve(r: &Req) -> String {
    let mut eng = hk::Chol::from_L(&get_mat(r, "l"));
    dout(&eng.solve(&get_opnd(r, "b")))
}
fn oracle_chol_solve(r: &Req, out: &str) -> Result<(), String> {
    let l = get_mat(r, "l");
    let b = get_opnd(r, "b");
    let n = l.0;
    if !mat_ok(&l) || load_fails(&b) {
        return expect_panic(out, "operand cannot be built");
    }
    if n == 0 || b.m < n {
        return expect_panic(out, "potrs rejects lda / ldb");
    }
    let db = match consistent(&b) {
        Some(d) => d,
        None => return Ok(()),
    };
    let o = resp(out).ok_or_else(|| format!("implementation returned {}", out))?;
    let got = o.fs("d");
    let x = view_of(&b, &got)?;
    outside_untouched(&b, &got)?;
    // rows >= n of B are not part of the system
    for j in 0..b.n {
        for i in n..b.m {
            if !same(x[i + b.m * j], db[i + b.m * j]) {
                return Err("row beyond n modified".into());
            }
        }
    }
    if !all_finite(&l.2) || !all_finite(&db) {
        return Ok(());
    }
    // (L Lᵀ) X = B with the lower triangle of L: backward error of two triangular solves
    let mut low = vec![0.0; n * n];
    for j in 0..n {
        for i in j..n {
            low[i + n * j] = l.2[i + n * j];
        }
    }
    if (0..n).any(|i| low[i + n * i] == 0.0) {
        return Ok(());
    }
    let (a, aa) = mm(&low, &tr(&low, n, n), n, n, n);
    for j in 0..b.n {
        for i in 0..n {
            let (mut s, mut sa) = (0.0, 0.0);
            for k in 0..n {
                s += a[i + n * k] * x[k + b.m * j];
                sa += aa[i + n * k] * x[k + b.m * j].abs();
            }
            if !(s.is_finite() && sa.is_finite()) {
                continue;
            }
            if (s - db[i + b.m * j]).abs() > 1e-10 * (sa + db[i + b.m * j].abs()) + 1e-300 {
                return Err(format!("(L·Lᵀ)·X differs from B at ({},{}): {:e} vs {:e}", i, j, s, db[i + b.m * j]));
            }
        }
    }
    Ok(())
}
fn run_chol_logdet(r: &Req) -> String {
    val(hk::Chol::from_L(&get_mat(r, "l")).logdet())
}
fn oracle_chol_logdet(r: &Req, out: &str) -> Result<(), String> {
    let l = get_mat(r, "l");
    if !mat_ok(&l) {
        return expect_panic(out, "matrix cannot be built");
    }
    let o = resp(out).ok_or_else(|| format!("implementation returned {}", out))?;
    let mut s = 0.0;
    for i in 0..l.0 {
        if i + l.0 * i >= l.2.len() {
            return Ok(());
        }
        s += l.2[i + l.0 * i].ln();
    }
    let want = 2.0 * s;
    let got = o.f("v");
    if same(got, want) || (got - want).abs() <= 1e-12 * want.abs() {
        Ok(())
    } else {
        Err(format!("logdet = {:e} expected {:e}", got, want))
    }
}

/// engine of size n0 after `prev` (0 nothing, 1 eigvals(pa), 2 eigen(pa))
fn eig_engine(r: &Req) -> hk::Eig {
    let n0 = r.u("n0");
    let mut e = hk::Eig::new(n0);
    let prev = r.u("prev");
    if prev > 0 {
        let pa = Opnd { m: n0, n: n0, data: r.fs("pa"), view: None, shape: b'N' };
        let _ = if prev == 1 { e.eigvals(&pa) } else { e.eigen(&pa) };
    }
    e
}
fn fmt_eig(res: &Result<(), String>, e: &hk::Eig, a_after: &[f64]) -> String {
    let (hasv, vm, vn, v) = match e.V() {
        Some((m, n, d)) => (1, m, n, d),
        None => (0, 0, 0, vec![]),
    };
    let (l0, l1, l2) = e.work_lens();
    format!("r={} lam={} hasv={} vm={} vn={} v={} a={} lens={},{},{}", rcode(res), ffs(&e.lambda()), hasv, vm, vn, ffs(&v), ffs(a_after), l0, l1, l2)
}
fn run_eig(r: &Req) -> String {
    let mut e = eig_engine(r);
    let a = get_opnd(r, "a");
    let (res, a_after) = if r.b("want") { e.eigen(&a) } else { e.eigvals(&a) };
    fmt_eig(&res, &e, &a_after)
}
fn oracle_eig(r: &Req, out: &str) -> Result<(), String> {
    let a = get_opnd(r, "a");
    let n0 = r.u("n0");
    let o = match resp(out) {
        Some(o) => o,
        None => return if load_fails(&a) { Ok(()) } else { Err(format!("implementation returned {}", out)) },
    };
    let code = o.str("r").to_string();
    if a.m != a.n || a.m != n0 {
        return if code == "IncompatibleDimension" && same_vec(&o.fs("a"), &a.data) { Ok(()) } else { Err(format!("size mismatch gave {}", code)) };
    }
    let n = a.m;
    if n == 0 {
        let want = if strict() { "ok" } else { "Eigen(-6)" };
        return if code == want { Ok(()) } else { Err(format!("0x0 input gave {} expected {}", code, want)) };
    }
    let da = match consistent(&a) {
        Some(d) => d,
        None => return Ok(()),
    };
    outside_untouched(&a, &o.fs("a"))?;
    let s = sym_of_triu(&da, n);
    if !all_finite(&s) {
        return Ok(());
    }
    if code != "ok" {
        return Err(format!("eigen decomposition of a finite symmetric matrix failed: {}", code));
    }
    let lam = o.fs("lam");
    let nrm = amax(&s).max(f64::MIN_POSITIVE);
    if lam.len() != n || lam.windows(2).any(|w| !(w[0] <= w[1])) {
        return Err(format!("eigenvalues not ascending: {:?}", lam));
    }
    // trace and Frobenius norm
    let trs: f64 = (0..n).map(|i| s[i + n * i]).sum();
    let ls: f64 = lam.iter().sum();
    if (trs - ls).abs() > 1e-10 * n as f64 * nrm {
        return Err(format!("sum of eigenvalues {:e} differs from the trace {:e}", ls, trs));
    }
    if r.b("want") {
        if o.u("hasv") != 1 || o.u("vm") != n || o.u("vn") != n {
            return Err("eigenvectors not allocated as n×n".into());
        }
        let v = o.fs("v");
        let (av, _) = mm(&s, &v, n, n, n);
        for k in 0..n {
            for i in 0..n {
                if (av[i + n * k] - lam[k] * v[i + n * k]).abs() > 1e-10 * n as f64 * nrm {
                    return Err(format!("A·v ≠ λ·v for eigenpair {} (row {})", k, i));
                }
            }
        }
        let (vtv, _) = mm(&tr(&v, n, n), &v, n, n, n);
        for j in 0..n {
            for i in 0..n {
                let want = if i == j { 1.0 } else { 0.0 };
                if (vtv[i + n * j] - want).abs() > 1e-10 * n as f64 {
                    return Err("eigenvectors not orthonormal".into());
                }
            }
        }
    }
    // workspace: both work vectors sized as LAPACK asked
    let lens = o.us("lens");
    if lens[0] != 2 * n0 || lens[1] < 1 || lens[2] < 1 {
        return Err(format!("workspace lengths {:?}", lens));
    }
    Ok(())
}

fn svd_engine(r: &Req) -> hk::Svd {
    let mut e = hk::Svd::new(r.u("em"), r.u("en"));
    if r.b("rs") {
        e.resize(r.u("rm"), r.u("rn"));
    }
    e.set_qr(r.b("qr"));
    e
}
fn fmt_svd(res: &Result<(), String>, e: &hk::Svd, a_after: &[f64]) -> String {
    let (s, u, vt) = e.factors();
    let (w, iw) = e.work_lens();
    format!("r={} s={} um={} un={} u={} vm={} vn={} vt={} a={} lens={},{}", rcode(res), ffs(&s), u.0, u.1, ffs(&u.2), vt.0, vt.1, ffs(&vt.2), ffs(a_after), w, iw)
}
fn run_svd_factor(r: &Req) -> String {
    let mut e = svd_engine(r);
    let (res, a_after) = e.factor(&get_opnd(r, "a"));
    fmt_svd(&res, &e, &a_after)
}
fn oracle_svd_factor(r: &Req, out: &str) -> Result<(), String> {
    let a = get_opnd(r, "a");
    let o = match resp(out) {
        Some(o) => o,
        None => return if load_fails(&a) { Ok(()) } else { Err(format!("implementation returned {}", out)) },
    };
    let code = o.str("r").to_string();
    let (em, en) = if r.b("rs") { (r.u("rm"), r.u("rn")) } else { (r.u("em"), r.u("en")) };
    let k = em.min(en);
    if o.u("um") != em || o.u("un") != k || o.u("vm") != k || o.u("vn") != en || o.fs("s").len() != k {
        return Err("engine shapes are not (m×k, k, k×n)".into());
    }
    if a.m != em || a.n != en {
        return if code == "IncompatibleDimension" && same_vec(&o.fs("a"), &a.data) { Ok(()) } else { Err(format!("size mismatch gave {}", code)) };
    }
    let (m, n) = (a.m, a.n);
    if m == 0 || n == 0 {
        let want = if strict() { "ok".to_string() } else {
            format!("SVD({})", if m == 0 { if r.b("qr") { -6 } else { -5 } } else if r.b("qr") { -11 } else { -10 })
        };
        return if code == want { Ok(()) } else { Err(format!("empty input gave {} expected {}", code, want)) };
    }
    let da = match consistent(&a) {
        Some(d) => d,
        None => return Ok(()),
    };
    outside_untouched(&a, &o.fs("a"))?;
    if !all_finite(&da) {
        return Ok(());
    }
    if code != "ok" {
        return Err(format!("SVD of a finite matrix failed: {}", code));
    }
    let (s, u, vt) = (o.fs("s"), o.fs("u"), o.fs("vt"));
    if s.iter().any(|x| !(*x >= 0.0)) || s.windows(2).any(|w| !(w[0] >= w[1])) {
        return Err(format!("singular values not non-negative descending: {:?}", s));
    }
    let nrm = amax(&da).max(f64::MIN_POSITIVE);
    if nrm > 1e150 {
        return Ok(()); // the reconstruction below would overflow
    }
    let mut us = u.clone();
    for c in 0..k {
        for i in 0..m {
            us[i + m * c] *= s[c];
        }
    }
    let (p, _) = mm(&us, &vt, m, k, n);
    for q in 0..m * n {
        if (p[q] - da[q]).abs() > 1e-10 * (m.max(n) as f64) * nrm {
            return Err(format!("U·Σ·Vᵀ differs from A at linear index {}: {:e} vs {:e}", q, p[q], da[q]));
        }
    }
    let (utu, _) = mm(&tr(&u, m, k), &u, k, m, k);
    let (vvt, _) = mm(&vt, &tr(&vt, k, n), k, n, k);
    for j in 0..k {
        for i in 0..k {
            let want = if i == j { 1.0 } else { 0.0 };
            if (utu[i + k * j] - want).abs() > 1e-10 * m as f64 || (vvt[i + k * j] - want).abs() > 1e-10 * n as f64 {
                return Err("singular vectors not orthonormal".into());
            }
        }
    }
    Ok(())
}
fn run_svd_solve(r: &Req) -> String {
    let (u, vt) = (get_mat(r, "u"), get_mat(r, "vt"));
    let mut e = hk::Svd::new(u.0, vt.1);
    e.set_factors(&r.fs("s"), &u, &vt);
    dout(&e.solve(&get_opnd(r, "b")))
}
fn oracle_svd_solve(r: &Req, out: &str) -> Result<(), String> {
    let (s, u, vt) = (r.fs("s"), get_mat(r, "u"), get_mat(r, "vt"));
    let b = get_opnd(r, "b");
    if !mat_ok(&u) || !mat_ok(&vt) || load_fails(&b) {
        return expect_panic(out, "operand cannot be built");
    }
    let (m, n) = (u.0, vt.1);
    if m != n || b.m != m || s.is_empty() {
        return expect_panic(out, "assert / s[0]");
    }
    let db = match consistent(&b) {
        Some(d) => d,
        None => return Ok(()),
    };
    let o = resp(out).ok_or_else(|| format!("implementation returned {}", out))?;
    let got = o.fs("d");
    let x = view_of(&b, &got)?;
    outside_untouched(&b, &got)?;
    if !r.has("ao") {
        return Ok(());
    }
    // normal equations Aᵀ(A·X − B) = 0 when every singular value is clearly kept or clearly dropped
    let a = r.fs("ao");
    if !all_finite(&a) || !all_finite(&db) || !all_finite(&s) {
        return Ok(());
    }
    let tol = f64::EPSILON * s[0].abs() * n as f64;
    if s.iter().any(|v| !(v.abs() > 1e-6 * s[0].abs() || v.abs() < 0.5 * tol)) {
        return Ok(());
    }
    let (ax, axa) = mm(&a, &x, n, n, b.n);
    let res: Vec<f64> = ax.iter().zip(&db).map(|(p, q)| p - q).collect();
    let (g, _) = mm(&tr(&a, n, n), &res, n, n, b.n);
    let scale = amax(&a) * (amax(&axa) + amax(&db));
    for q in 0..g.len() {
        if g[q].abs() > 1e-8 * scale + 1e-300 {
            return Err(format!("Aᵀ(A·X − B) = {:e} at linear index {} (scale {:e})", g[q], q, scale));
        }
    }
    Ok(())
}

fn lu_engine(prev: usize) -> hk::Lu {
    let mut lu = hk::Lu::new();
    if prev > 0 {
        let (i, _, _) = hk::identity(prev);
        let _ = i;
        let id = hk::identity(prev);
        let _ = lu.lusolve(&id, &(prev, 1, vec![1.0; prev]));
    }
    lu
}
fn run_lu(r: &Req) -> String {
    let mut lu = lu_engine(r.u("prev"));
    let (res, a1, b1) = lu.lusolve(&get_mat(r, "a"), &get_mat(r, "b"));
    let ip: Vec<i64> = lu.ipiv().iter().map(|&x| x as i64).collect();
    format!("r={} a={} b={} ipiv={}", rcode(&res), ffs(&a1), ffs(&b1), vharness::proto::fis(&ip))
}
fn oracle_lu(r: &Req, out: &str) -> Result<(), String> {
    let (a, b) = (get_mat(r, "a"), get_mat(r, "b"));
    if !mat_ok(&a) || !mat_ok(&b) {
        return expect_panic(out, "matrix cannot be built");
    }
    let o = resp(out).ok_or_else(|| format!("implementation returned {}", out))?;
    let code = o.str("r").to_string();
    if a.0 != a.1 || a.1 != b.0 {
        return if code == "IncompatibleDimension" && same_vec(&o.fs("a"), &a.2) && same_vec(&o.fs("b"), &b.2) { Ok(()) } else { Err(format!("size mismatch gave {}", code)) };
    }
    let n = a.0;
    if n == 0 {
        let want = if strict() { "ok" } else { "LU(-4)" };
        return if code == want { Ok(()) } else { Err(format!("0x0 input gave {} expected {}", code, want)) };
    }
    if !all_finite(&a.2) || !all_finite(&b.2) {
        return Ok(());
    }
    let kind = r.str("kind");
    if code == "ok" {
        // with no right-hand side the library returns at once (nothing to solve, A is not factorised)
        if kind == "zerocol" && b.1 > 0 {
            return Err("lusolve succeeded on a matrix with a zero column".into());
        }
        let x = o.fs("b");
        // partial pivoting is backward stable in the normwise sense (not row by row):
        // |A·X − B| <= c·n·eps·(‖A‖·‖X‖ + ‖B‖) for the diagonally dominant family
        let (ax, _) = mm(&a.2, &x, n, n, b.1);
        let tol = 1e-10 * n as f64 * (amax(&a.2) * amax(&x) * n as f64 + amax(&b.2)) + 1e-300;
        for q in 0..ax.len() {
            if !ax[q].is_finite() || !tol.is_finite() {
                continue;
            }
            if (ax[q] - b.2[q]).abs() > tol && kind == "wellcond" {
                return Err(format!("A·X differs from B at linear index {}: {:e} vs {:e} (tolerance {:e})", q, ax[q], b.2[q], tol));
            }
        }
    } else {
        let k: i64 = code.strip_prefix("LU(").and_then(|x| x.strip_suffix(')')).and_then(|x| x.parse().ok()).ok_or(format!("unexpected result {}", code))?;
        if k < 1 || k as usize > n {
            return Err(format!("info {} out of 1..=n", k));
        }
        if kind == "wellcond" {
            return Err(format!("lusolve failed ({}) on a well conditioned matrix", code));
        }
        if !same_vec(&o.fs("b"), &b.2) {
            return Err("right-hand side modified although the factorization failed".into());
        }
    }
    Ok(())
}

// ---------------------------------------------------------------- channel table

macro_rules! dch {
    ($name:expr, $tol:expr, $run:expr, $oracle:expr, $rust:expr, $lean:expr) => {
        Channel { name: $name, tol: $tol, run: $run, oracle: Some($oracle), modelled: true, rust_fn: $rust, lean: $lean }
    };
}

pub fn channels() -> Vec<Channel> {
    let e = Tol::Exact;
    let t = DENSE_TOL;
    vec![
        dch!("dense.new", e, run_new, oracle_new, "dense::Matrix::new", "Dense.new / C16.dense_new_spec"),
        dch!("dense.new_from_slice", e, run_new_from_slice, oracle_new, "dense::Matrix::new_from_slice", "Dense.newFromSlice / C16.dense_new_spec"),
        dch!("dense.zeros", e, run_zeros, oracle_zeros, "dense::Matrix::zeros", "Dense.zeros / C16.dense_zeros_spec"),
        dch!("dense.identity", e, run_identity, oracle_identity, "dense::Matrix::identity, set_identity", "Dense.identity / C16.dense_identity_spec"),
        dch!("dense.from_rows", e, run_from_rows, oracle_from_rows, "From<rows> for dense::Matrix", "Dense.fromRows / C16.dense_fromRows_spec"),
        dch!("dense.resize", e, run_resize, oracle_resize, "dense::Matrix::resize", "Dense.resize / C16.dense_resize_spec"),
        dch!("dense.size_shape", e, run_size_shape, oracle_size_shape, "ShapedMatrix for DenseStorageMatrix / Adjoint / Symmetric", "Dense.nrowsV, ncolsV, isSquareV, shapeIsT / C16.dense_view_shape"),
        dch!("dense.index_linear", e, run_index_linear, oracle_index_linear, "DenseMatrix::index_linear (storage, Adjoint, Symmetric)", "Dense.indexLinear / C16.dense_transpose_entry, dense_sym_entry"),
        dch!("dense.index", e, run_index, oracle_index, "Index<(usize,usize)> (storage, Adjoint, Symmetric)", "Dense.get / C16.dense_transpose_entry, dense_transpose_involution, dense_sym_entry"),
        dch!("dense.index_mut", e, run_index_mut, oracle_index_mut, "IndexMut<(usize,usize)>", "Dense.set / C16.dense_set_get"),
        dch!("dense.col_slice", e, run_col_slice, oracle_col_slice, "DenseStorageMatrix::col_slice", "Dense.colSlice / C16.dense_colSlice_spec"),
        dch!("dense.col_slice_mut", e, run_col_slice_mut, oracle_col_slice_mut, "DenseStorageMatrix::col_slice_mut", "Dense.colSliceMutSet"),
        dch!("dense.borrowed_index", e, run_borrowed_index, oracle_borrowed_index, "BorrowedMatrix::from_slice + index", "Dense.fromSlice, Dense.get"),
        dch!("dense.borrowed_col_slice", e, run_borrowed_col_slice, oracle_borrowed_col_slice, "BorrowedMatrix::from_slice + col_slice", "Dense.fromSlice, Dense.colSlice"),
        dch!("dense.set_identity", e, run_set_identity, oracle_set_identity, "DenseStorageMatrix::set_identity", "Dense.setIdentity / C16.dense_setIdentity_spec"),
        dch!("dense.copy_from_slice", e, run_copy_from_slice, oracle_copy_from_slice, "DenseStorageMatrix::copy_from_slice", "Dense.copyFromSlice / C16.dense_copyFromSlice_spec"),
        dch!("dense.is_triu", e, run_is_triu, oracle_is_triu, "DenseStorageMatrix::is_triu", "Dense.isTriu / C16.dense_isTriu_iff"),
        dch!("dense.subsasgn", e, run_subsasgn, oracle_subsasgn, "DenseStorageMatrix::subsasgn", "Dense.subsasgn / C16.dense_subsasgn_spec"),
        dch!("dense.subsref", e, run_subsref, oracle_subsref, "DenseStorageMatrix::subsref", "Dense.subsref / C16.dense_subsref_spec"),
        dch!("dense.pack_triu", e, run_pack_triu, oracle_pack_triu, "Symmetric<Matrix>::pack_triu", "Dense.packTriu / C16.dense_packTriu_spec"),
        dch!("dense.type_markers", e, run_type_markers, oracle_type_markers, "MatrixTriangle / MatrixShape ::{as_blas_char, t}", "Dense.typeMarkers"),
        dch!("dense.hcat", e, run_hcat, oracle_hcat, "BlockConcatenate::hcat for dense::Matrix", "Dense.hcat / C16.dense_hcat_spec"),
        dch!("dense.vcat", e, run_vcat, oracle_vcat, "BlockConcatenate::vcat for dense::Matrix", "Dense.vcat / C16.dense_vcat_spec"),
        dch!("dense.hvcat", e, run_hvcat, oracle_hvcat, "BlockConcatenate::hvcat for dense::Matrix + hvcat_dim_check", "Dense.hvcat, Dense.hvcatDimCheck / C16.dense_hvcat_spec, dense_hvcat_error_iff, dense_hvcatDimCheck_iff"),
        dch!("dense.blockdiag", e, run_blockdiag, oracle_blockdiag, "BlockConcatenate::blockdiag for dense::Matrix", "Dense.blockdiag / C16.dense_blockdiag_spec, dense_blockdiag_error_iff"),
        dch!("dense.kron", e, run_kron, oracle_kron, "dense::Matrix::kron", "Dense.kron / C16.dense_kron_spec, dense_kron_identity"),
        dch!("dense.col_sums", e, run_col_sums, oracle_col_sums, "MatrixMath::col_sums for dense::Matrix", "Dense.colSums / C16.dense_colSums_spec"),
        dch!("dense.row_sums", e, run_row_sums, oracle_row_sums, "MatrixMath::row_sums for dense::Matrix", "Dense.rowSums / C16.dense_rowSums_spec"),
        dch!("dense.col_norms", e, run_col_norms, oracle_col_norms, "MatrixMath::col_norms for dense::Matrix", "Dense.colNorms / C16.dense_colNorms_spec"),
        dch!("dense.col_norms_no_reset", e, run_col_norms_nr, oracle_col_norms_nr, "MatrixMath::col_norms_no_reset for dense::Matrix", "Dense.colNormsNoReset / C16.dense_colNormsNoReset_spec"),
        dch!("dense.col_norms_sym", e, run_col_norms_sym, oracle_sym_norms, "MatrixMath::col_norms_sym for dense::Matrix", "Dense.colNormsSym / C16.dense_colNormsSym_spec, dense_colNormsSym_no_abs"),
        dch!("dense.col_norms_sym_no_reset", e, run_col_norms_sym_nr, oracle_sym_norms_nr, "MatrixMath::col_norms_sym_no_reset for dense::Matrix", "Dense.colNormsSymNoReset / C16.dense_colNormsSymNoReset_spec"),
        dch!("dense.row_norms", e, run_row_norms, oracle_row_norms, "MatrixMath::row_norms for dense::Matrix", "Dense.rowNorms / C16.dense_rowNorms_spec"),
        dch!("dense.row_norms_no_reset", e, run_row_norms_nr, oracle_row_norms_nr, "MatrixMath::row_norms_no_reset for dense::Matrix", "Dense.rowNormsNoReset / C16.dense_rowNormsNoReset_spec"),
        dch!("dense.quad_form", e, run_quad_form, oracle_quad_form, "MatrixMath::quad_form for dense::Matrix", "Dense.quadForm / C16.dense_quad_form_spec"),
        dch!("dense.scale", e, run_scale, oracle_scale, "MatrixMathMut::scale for dense::Matrix", "Dense.scale / C16.dense_scale_spec"),
        dch!("dense.negate", e, run_negate, oracle_negate, "MatrixMathMut::negate for dense::Matrix", "Dense.negate / C16.dense_scale_spec"),
        dch!("dense.lscale", e, run_lscale, oracle_lscale, "MatrixMathMut::lscale for dense::Matrix", "Dense.lscale / C16.dense_lscale_spec"),
        dch!("dense.rscale", e, run_rscale, oracle_rscale, "MatrixMathMut::rscale for dense::Matrix", "Dense.rscale / C16.dense_rscale_spec"),
        dch!("dense.lrscale", e, run_lrscale, oracle_lrscale, "MatrixMathMut::lrscale for dense::Matrix", "Dense.lrscale / C16.dense_lrscale_spec"),
        dch!("dense.symmetric_part", e, run_symmetric_part, oracle_symmetric_part, "DenseStorageMatrix::symmetric_part", "Dense.symmetricPart / C16.dense_symmetricPart_spec"),
        dch!("dense.svec_to_mat", e, run_svec_to_mat, oracle_svec_to_mat, "dense::svec_to_mat", "Dense.svecToMat / C16.dense_svec_to_mat_spec"),
        dch!("dense.mat_to_svec", e, run_mat_to_svec, oracle_mat_to_svec, "dense::mat_to_svec", "Dense.matToSvec / C16.dense_mat_to_svec_spec"),
        dch!("dense.mul", t, run_mul, oracle_mul, "MultiplyGEMM::mul (?gemm)", "Dense.mul / C16.dense_mul_spec, dense_mul_beta_zero"),
        dch!("dense.gemv", t, run_gemv, oracle_gemv, "MultiplyGEMV::gemv (?gemv)", "Dense.gemv / C16.dense_gemv_spec, dense_gemv_empty_unscaled"),
        dch!("dense.symv", t, run_symv, oracle_symv, "MultiplySYMV::symv (?symv)", "Dense.symv / C16.dense_symv_spec"),
        dch!("dense.syrk", t, run_syrk, oracle_syrk, "MultiplySYRK::syrk (?syrk)", "Dense.syrk / C16.dense_syrk_spec"),
        dch!("dense.syr2k", t, run_syr2k, oracle_syr2k, "MultiplySYR2K::syr2k (?syr2k)", "Dense.syr2k / C16.dense_syr2k_spec"),
        dch!("dense.chol_factor", t, run_chol_factor, oracle_chol_factor, "CholeskyEngine::factor (?potrf result as input)", "Dense.cholFactor / C16.dense_cholFactor_contract, dense_cholFactor_dim, dense_cholFactor_empty"),
        dch!("dense.chol_solve", t, run_chol_solve, oracle_chol_solve, "CholeskyEngine::solve (?potrs result as input)", "Dense.cholSolve / C16.dense_cholSolve_ok, dense_cholSolve_panic_empty, dense_cholSolve_panic_rows"),
        dch!("dense.chol_logdet", e, run_chol_logdet, oracle_chol_logdet, "CholeskyEngine::logdet", "Dense.cholLogdet / C16.dense_cholLogdet_spec"),
        dch!("dense.eig", t, run_eig, oracle_eig, "EigEngine::{new, eigvals, eigen} (?syevr result as input)", "Dense.eigSyevr / C16.dense_eig_run, dense_eig_dim, dense_eig_empty"),
        dch!("dense.svd_factor", t, run_svd_factor, oracle_svd_factor, "SVDEngine::{new, resize, factor} (?gesdd / ?gesvd result as input)", "Dense.svdFactor / C16.dense_svd_run, dense_svd_dim, dense_svd_norows, dense_svd_nocols"),
        dch!("dense.svd_solve", t, run_svd_solve, oracle_svd_solve, "SVDEngine::solve", "Dense.svdSolve / C16.dense_svdSolve_entry, dense_svdSolve_normal_equations"),
        dch!("dense.lu", t, run_lu, oracle_lu, "LuSolver::lusolve (?gesv result as input)", "Dense.luSolve / C16.dense_lu_run, dense_lu_dim, dense_lu_empty"),
    ]
}

// ---------------------------------------------------------------- generators

#[derive(Clone, Copy, PartialEq)]
enum Fam {
    /// small integers (every sum / product exact in any order)
    Int,
    /// standard normals
    Normal,
    /// normals with ±0, denormals, huge / tiny magnitudes, NaN, ±inf mixed in
    Special,
    /// sign·10^U(-120,120)
    LogMag,
}
fn special(s: &mut Session) -> f64 {
    *s.rng.choose(&[0.0, -0.0, f64::NAN, f64::INFINITY, f64::NEG_INFINITY, 1.0, -1.0, 5e-324, -1e-310, 1e-310, 1e300, -1e300, 1e-300, f64::MIN_POSITIVE, f64::MAX])
}
fn value(s: &mut Session, f: Fam) -> f64 {
    match f {
        Fam::Int => s.rng.smallint(3),
        Fam::Normal => s.rng.normal(),
        Fam::Special => if s.rng.bool(0.3) { special(s) } else { s.rng.normal() },
        Fam::LogMag => s.rng.logmag(-120.0, 120.0),
    }
}
fn vals(s: &mut Session, k: usize, f: Fam) -> Vec<f64> {
    (0..k).map(|_| value(s, f)).collect()
}
fn dim(s: &mut Session) -> usize {
    *s.rng.choose(&[0, 0, 1, 1, 2, 2, 3, 3, 4, 5, 6])
}
fn fam_any(s: &mut Session) -> Fam {
    *s.rng.choose(&[Fam::Int, Fam::Int, Fam::Normal, Fam::Special, Fam::LogMag])
}
fn owned(s: &mut Session, m: usize, n: usize, f: Fam) -> Mat {
    (m, n, vals(s, m * n, f))
}
/// a consistent operand: owned, or a view into a larger parent buffer (also a block of
/// columns of a larger matrix: offset a multiple of m)
fn opnd_ok(s: &mut Session, m: usize, n: usize, f: Fam, shapes: &[u8]) -> Opnd {
    let shape = *s.rng.choose(shapes);
    if s.rng.bool(0.55) {
        return Opnd { m, n, data: vals(s, m * n, f), view: None, shape };
    }
    let pre = if s.rng.bool(0.5) { m * s.rng.below(3) } else { s.rng.below(4) };
    let post = s.rng.below(4);
    Opnd { m, n, data: vals(s, pre + m * n + post, f), view: Some((pre, m * n)), shape }
}
/// as `opnd_ok`, but one case in six is an operand the dimensions of which do not fit its
/// buffer (owned: `Matrix::new` panics; view: nothing is checked until an index is out of range)
fn opnd_any(s: &mut Session, m: usize, n: usize, f: Fam, shapes: &[u8]) -> Opnd {
    let mut a = opnd_ok(s, m, n, f, shapes);
    if s.rng.bool(1.0 / 6.0) {
        s.count("dense:inconsistent-operand");
        match a.view {
            None => {
                if s.rng.bool(0.5) { a.data.push(1.5) } else { a.data.pop(); }
            }
            Some((off, len)) => match s.rng.below(3) {
                0 => a.view = Some((off, len + 1 + s.rng.below(2))), // may run past the parent
                1 => a.view = Some((off, len.saturating_sub(1 + s.rng.below(2)))),
                _ => a.view = Some((off + s.rng.below(3), len)),
            },
        }
    }
    a
}
fn idx(s: &mut Session, bound: usize) -> usize {
    // mostly in range, sometimes the bound itself or beyond
    if bound == 0 || s.rng.bool(0.06) { bound + s.rng.below(2) } else { s.rng.below(bound) }
}
fn coef(s: &mut Session, f: Fam) -> f64 {
    match s.rng.below(7) {
        0 => 0.0,
        1 => 1.0,
        2 => -1.0,
        3 => -0.0,
        4 => 0.5,
        _ => if f == Fam::Int { s.rng.smallint(3) } else { s.rng.normal() },
    }
}
const ALL: &[u8] = &[b'N', b'T', b'S'];
const NT: &[u8] = &[b'N', b'T'];
const NONLY: &[u8] = &[b'N'];

fn core_cases(s: &mut Session) {
    let (m, n) = (dim(s), dim(s));
    let (m, n) = if s.rng.bool(0.35) { (m, m) } else { (m, n) };
    let f = fam_any(s);
    // constructors
    let len = if s.rng.bool(0.85) { m * n } else { m * n + 1 - 2 * s.rng.below(2).min(m * n) };
    let d = vals(s, len, f);
    s.submit(Line::new("dense.new").u("m", m).u("n", n).fs("d", &d).done());
    s.submit(Line::new("dense.new_from_slice").u("m", m).u("n", n).fs("d", &d).done());
    s.submit(Line::new("dense.zeros").u("m", m).u("n", n).done());
    s.submit(Line::new("dense.identity").u("n", n).done());
    let mut l = Line::new("dense.from_rows").u("nrows", m);
    let ragged = m > 0 && s.rng.bool(0.1);
    for i in 0..m {
        let k = if ragged && i == s.rng.below(m) { n + 1 } else { n };
        l = l.fs(&format!("r{}", i), &vals(s, k, f));
    }
    s.submit(l.done());
    let a = owned(s, m, n, f);
    let (m2, n2) = (dim(s), dim(s));
    s.submit(put_mat(Line::new("dense.resize"), "a", &a).u("m2", m2).u("n2", n2).done());
    // views and indexing
    let a = opnd_any(s, m, n, f, ALL);
    s.submit(put_opnd(Line::new("dense.size_shape"), "a", &a).done());
    for _ in 0..3 {
        let (rb, cb) = vdims(&a);
        let (i, j) = (idx(s, rb), idx(s, cb));
        s.submit(put_opnd(Line::new("dense.index_linear"), "a", &a).u("i", i).u("j", j).done());
        s.submit(put_opnd(Line::new("dense.index"), "a", &a).u("i", i).u("j", j).done());
    }
    let a = opnd_any(s, m, n, f, NONLY);
    let (i, j) = (idx(s, m), idx(s, n));
    let x = value(s, f);
    s.submit(put_opnd(Line::new("dense.index_mut"), "a", &a).u("i", i).u("j", j).f("x", x).done());
    let col = idx(s, n);
    s.submit(put_opnd(Line::new("dense.col_slice"), "a", &a).u("col", col).done());
    let k = if s.rng.bool(0.8) { m } else { s.rng.below(m + 3) };
    let v = vals(s, k, f);
    s.submit(put_opnd(Line::new("dense.col_slice_mut"), "a", &a).u("col", col).fs("vals", &v).done());
    let bl = if s.rng.bool(0.8) { m * n } else { s.rng.below(m * n + 3) };
    let bd = vals(s, bl, f);
    s.submit(Line::new("dense.borrowed_index").fs("d", &bd).u("m", m).u("n", n).u("i", i).u("j", j).done());
    s.submit(Line::new("dense.borrowed_col_slice").fs("d", &bd).u("m", m).u("n", n).u("col", col).done());
    // mutators
    let sqa = if s.rng.bool(0.8) { opnd_any(s, n, n, f, NONLY) } else { a.clone() };
    s.submit(put_opnd(Line::new("dense.set_identity"), "a", &sqa).done());
    let sl = view_len(&a);
    let sl = if s.rng.bool(0.85) { sl } else { sl + 1 };
    let src = vals(s, sl, f);
    s.submit(put_opnd(Line::new("dense.copy_from_slice"), "a", &a).fs("src", &src).done());
    // is_triu: random, exactly upper triangular, one lower entry (also NaN / -0)
    let mut t = opnd_any(s, m, n, f, NONLY);
    match s.rng.below(3) {
        0 => {}
        k_ => {
            if let Some(mut d) = consistent(&t) {
                for c in 0..n {
                    for rr in (c + 1)..m {
                        d[rr + m * c] = if s.rng.bool(0.3) { -0.0 } else { 0.0 };
                    }
                }
                if k_ == 2 && m > 1 && n > 0 {
                    let c = s.rng.below(n.min(m - 1));
                    let rr = c + 1 + s.rng.below(m - c - 1);
                    d[rr + m * c] = *s.rng.choose(&[1.0, f64::NAN, 5e-324, -2.0]);
                }
                t.data = store(&t, &d);
            }
        }
    }
    s.submit(put_opnd(Line::new("dense.is_triu"), "a", &t).done());
    // subsasgn / subsref: index lists with repetitions, any order, sometimes out of range
    let src = {
        let (sm, sn) = (dim(s), dim(s));
        opnd_any(s, sm, sn, f, ALL)
    };
    let (sr, sc) = vdims(&src);
    let wild = s.rng.bool(0.2);
    let nr = s.rng.below(4);
    let nc = s.rng.below(4);
    // subsasgn: self[rows, cols] = S[0..nr, 0..nc]
    let rows: Vec<usize> = (0..nr.min(sr + wild as usize)).map(|_| if m == 0 && !wild { 0 } else { idx(s, m) }).take(if m == 0 && !wild { 0 } else { 4 }).collect();
    let cols: Vec<usize> = (0..nc.min(sc + wild as usize)).map(|_| if n == 0 && !wild { 0 } else { idx(s, n) }).take(if n == 0 && !wild { 0 } else { 4 }).collect();
    s.submit(put_opnd(put_opnd(Line::new("dense.subsasgn"), "a", &a), "s", &src).us("rows", &rows).us("cols", &cols).done());
    // subsref: self[0..nr, 0..nc] = S[rows, cols]
    let rows: Vec<usize> = (0..nr.min(m + wild as usize)).map(|_| if sr == 0 && !wild { 0 } else { idx(s, sr) }).take(if sr == 0 && !wild { 0 } else { 4 }).collect();
    let cols: Vec<usize> = (0..nc.min(n + wild as usize)).map(|_| if sc == 0 && !wild { 0 } else { idx(s, sc) }).take(if sc == 0 && !wild { 0 } else { 4 }).collect();
    s.submit(put_opnd(put_opnd(Line::new("dense.subsref"), "a", &a), "s", &src).us("rows", &rows).us("cols", &cols).done());
    // pack_triu: square, sometimes non-square source or wrong target length
    let pm = if s.rng.bool(0.8) { (m, m) } else { (m, n) };
    let pa = owned(s, pm.0, pm.1, f);
    let vl = if s.rng.bool(0.9) { tri(pm.0) } else { tri(pm.0) + 1 };
    let v0 = vals(s, vl, Fam::Int);
    s.submit(put_mat(Line::new("dense.pack_triu"), "a", &pa).fs("v", &v0).done());
    let (b0, b1) = (s.rng.bool(0.5), s.rng.bool(0.5));
    s.submit(Line::new("dense.type_markers").b("triu", b0).b("t", b1).done());
}
fn view_len(a: &Opnd) -> usize {
    match a.view {
        None => a.data.len(),
        Some((off, len)) => if off + len <= a.data.len() { len } else { 0 },
    }
}

fn concat_kron_cases(s: &mut Session) {
    let f = fam_any(s);
    // hcat / vcat: compatible most of the time
    let (m, n, k) = (dim(s), dim(s), dim(s));
    let a = owned(s, m, n, f);
    let b = if s.rng.bool(0.8) { owned(s, m, k, f) } else { let (x, y) = (dim(s), dim(s)); owned(s, x, y, f) };
    s.submit(put_mat(put_mat(Line::new("dense.hcat"), "a", &a), "b", &b).done());
    let b = if s.rng.bool(0.8) { owned(s, k, n, f) } else { let (x, y) = (dim(s), dim(s)); owned(s, x, y, f) };
    s.submit(put_mat(put_mat(Line::new("dense.vcat"), "a", &a), "b", &b).done());
    // hvcat on a grid (sizes 0..3 per block row / column), sometimes broken
    let (gr, gc) = (s.rng.below(4), s.rng.below(4));
    let hs: Vec<usize> = (0..gr).map(|_| s.rng.below(4)).collect();
    let ws: Vec<usize> = (0..gc).map(|_| s.rng.below(4)).collect();
    let broken = s.rng.bool(0.2);
    let mut lens = vec![];
    let mut l = Line::new("dense.hvcat");
    for (i, &h) in hs.iter().enumerate() {
        let cnt = if broken && gr > 1 && i == gr - 1 && s.rng.bool(0.3) { gc + 1 } else { gc };
        lens.push(cnt);
        for c in 0..cnt {
            let mut blk = owned(s, h, *ws.get(c).unwrap_or(&1), f);
            if broken && s.rng.bool(0.2) {
                blk = owned(s, h + 1, blk.1, f);
            } else if broken && s.rng.bool(0.2) {
                blk = owned(s, h, blk.1 + 1, f);
            }
            l = put_mat(l, &format!("b{}_{}_", i, c), &blk);
        }
    }
    s.submit(l.us("lens", &lens).done());
    let k = s.rng.below(4);
    let mut l = Line::new("dense.blockdiag").u("k", k);
    for i in 0..k {
        let (x, y) = (s.rng.below(4), s.rng.below(4));
        l = put_mat(l, &format!("b{}_", i), &owned(s, x, y, f));
    }
    s.submit(l.done());
    // kron: all nine view combinations, target of the right or (rarely) a wrong shape
    let (p, q, r_, t) = (s.rng.below(4), s.rng.below(4), s.rng.below(4), s.rng.below(4));
    let sq = s.rng.bool(0.4);
    let a = opnd_any(s, p, if sq { p } else { q }, f, ALL);
    let b = opnd_any(s, r_, if sq { r_ } else { t }, f, ALL);
    let ((pp, qq), (rr, ss)) = (vdims(&a), vdims(&b));
    let km = if s.rng.bool(0.9) { (pp * rr, qq * ss) } else { (pp * rr + 1, qq * ss) };
    let kmat = owned(s, km.0, km.1, Fam::Int);
    s.submit(put_opnd(put_opnd(put_mat(Line::new("dense.kron"), "k", &kmat), "a", &a), "b", &b).done());
    // kron of identities
    if s.rng.bool(0.3) {
        let (i1, i2) = (hk::identity(p), hk::identity(r_));
        let a = Opnd { m: p, n: p, data: i1.2, view: None, shape: *s.rng.choose(ALL) };
        let b = Opnd { m: r_, n: r_, data: i2.2, view: None, shape: *s.rng.choose(ALL) };
        let kmat = owned(s, p * r_, p * r_, Fam::Int);
        s.submit(put_opnd(put_opnd(put_mat(Line::new("dense.kron"), "k", &kmat), "a", &a), "b", &b).done());
    }
}

fn math_cases(s: &mut Session) {
    let (m, n) = (dim(s), dim(s));
    let (m, n) = if s.rng.bool(0.4) { (m, m) } else { (m, n) };
    let f = fam_any(s);
    let a = owned(s, m, n, f);
    let wl = |s: &mut Session, k: usize| if s.rng.bool(0.88) { k } else if s.rng.bool(0.5) { k + 1 } else { k.saturating_sub(1) };
    for (ch, k) in [("dense.col_sums", n), ("dense.row_sums", m), ("dense.col_norms", n), ("dense.col_norms_no_reset", n),
                    ("dense.col_norms_sym", n), ("dense.col_norms_sym_no_reset", n), ("dense.row_norms", m), ("dense.row_norms_no_reset", m)] {
        let k = wl(s, k);
        let v0 = if ch.ends_with("no_reset") { vals(s, k, if f == Fam::Special { Fam::Special } else { Fam::Normal }) } else { vals(s, k, Fam::Int) };
        s.submit(put_mat(Line::new(ch), "a", &a).fs("v", &v0).done());
    }
    let qa = if m == n || s.rng.bool(0.15) { a.clone() } else { owned(s, n, n, f) };
    let (ky, kx) = (wl(s, n), wl(s, n));
    let (y, x) = (vals(s, ky, f), vals(s, kx, f));
    s.submit(put_mat(Line::new("dense.quad_form"), "a", &qa).fs("y", &y).fs("x", &x).done());
    let c = if s.rng.bool(0.3) { special(s) } else { coef(s, f) };
    s.submit(put_mat(Line::new("dense.scale"), "a", &a).f("c", c).done());
    s.submit(put_mat(Line::new("dense.negate"), "a", &a).done());
    let (kl, kr) = (wl(s, m), wl(s, n));
    let (l, r) = (vals(s, kl, f), vals(s, kr, f));
    s.submit(put_mat(Line::new("dense.lscale"), "a", &a).fs("l", &l).done());
    s.submit(put_mat(Line::new("dense.rscale"), "a", &a).fs("r", &r).done());
    s.submit(put_mat(Line::new("dense.lrscale"), "a", &a).fs("l", &l).fs("r", &r).done());
    let sqn = if s.rng.bool(0.9) { m } else { n };
    let sq = opnd_any(s, m, sqn, f, NONLY);
    s.submit(put_opnd(Line::new("dense.symmetric_part"), "a", &sq).done());
    let kx = wl(s, tri(sq.n));
    let x = vals(s, kx, f);
    s.submit(put_opnd(Line::new("dense.svec_to_mat"), "a", &sq).fs("x", &x).done());
    let mvn = if s.rng.bool(0.9) { m } else { n };
    let mv = opnd_any(s, m, mvn, f, ALL);
    let kx = wl(s, tri(vdims(&mv).1));
    let x0 = vals(s, kx, Fam::Int);
    s.submit(put_opnd(Line::new("dense.mat_to_svec"), "a", &mv).fs("x", &x0).done());
}

/// families for the toleranced channels: exact small integers, O(1) normals, or normals
/// scaled down by a power of two; non-finite values only where BLAS must not read them
fn blas_fam(s: &mut Session) -> Fam {
    if s.rng.bool(0.45) { Fam::Int } else { Fam::Normal }
}
fn blas_coefs(s: &mut Session, f: Fam) -> (f64, f64) {
    // alpha != 0 unless the data are finite anyway (implementations differ on whether
    // alpha == 0 skips reading A); beta == 0 is the interesting case
    let al = loop {
        let a = coef(s, f);
        if a != 0.0 || s.rng.bool(0.3) {
            break a;
        }
    };
    let be = if s.rng.bool(0.35) { if s.rng.bool(0.8) { 0.0 } else { -0.0 } } else { coef(s, f) };
    (al, be)
}
/// when beta == 0 the target may hold anything (NaN, inf, huge): BLAS does not read it
fn poison_if_beta_zero(s: &mut Session, be: f64, d: &mut [f64]) {
    if be == 0.0 && s.rng.bool(0.6) {
        for x in d.iter_mut() {
            if s.rng.bool(0.5) {
                *x = *s.rng.choose(&[f64::NAN, f64::INFINITY, f64::NEG_INFINITY, 1e308, -0.0]);
            }
        }
    }
}
fn blas_cases(s: &mut Session) {
    let f = blas_fam(s);
    let (m, n, k) = (dim(s), dim(s), dim(s));
    let (al, be) = blas_coefs(s, f);
    // gemm: all view combinations (a sym() view is handed to BLAS as the plain buffer)
    let (sa, sb) = (*s.rng.choose(ALL), *s.rng.choose(ALL));
    let adim = if sa == b'N' { (m, k) } else { (k, m) };
    let bdim = if sb == b'N' { (k, n) } else { (n, k) };
    let a = opnd_ok(s, adim.0, adim.1, f, &[sa]);
    let b = opnd_ok(s, bdim.0, bdim.1, f, &[sb]);
    let (cm, cn) = if s.rng.bool(0.92) { (m, n) } else { (m + 1, n) };
    let mut c = opnd_ok(s, cm, cn, f, NONLY);
    poison_if_beta_zero(s, be, &mut c.data);
    s.submit(put_opnd(put_opnd(put_opnd(Line::new("dense.mul"), "c", &c), "a", &a), "b", &b).f("alpha", al).f("beta", be).done());
    // gemv
    let (al, be) = blas_coefs(s, f);
    let a = opnd_ok(s, m, n, f, NT);
    let (xl, yl) = if a.shape == b'T' { (m, n) } else { (n, m) };
    let (xl, yl) = if s.rng.bool(0.92) { (xl, yl) } else { (xl + 1, yl) };
    let x = vals(s, xl, f);
    let mut y = vals(s, yl, f);
    if m > 0 && n > 0 {
        poison_if_beta_zero(s, be, &mut y);
    }
    s.submit(put_opnd(Line::new("dense.gemv"), "a", &a).fs("x", &x).fs("y", &y).f("alpha", al).f("beta", be).done());
    // symv: the strictly lower triangle of the buffer is arbitrary (also NaN): never read
    let (al, be) = blas_coefs(s, f);
    let sq = if s.rng.bool(0.92) { (n, n) } else { (n, n + 1) };
    let mut a = owned(s, sq.0, sq.1, f);
    if sq.0 == sq.1 && s.rng.bool(0.5) {
        for j in 0..n {
            for i in (j + 1)..n {
                a.2[i + n * j] = if s.rng.bool(0.5) { f64::NAN } else { 99.0 };
            }
        }
    }
    let x = vals(s, n, f);
    let mut y = vals(s, n, f);
    poison_if_beta_zero(s, be, &mut y);
    s.submit(put_mat(Line::new("dense.symv"), "a", &a).fs("x", &x).fs("y", &y).f("alpha", al).f("beta", be).done());
    // syrk: A any view; strictly lower triangle of C arbitrary, must come back bit for bit
    let (al, be) = blas_coefs(s, f);
    let sa = *s.rng.choose(ALL);
    let adim = if sa == b'N' { (n, k) } else { (k, n) };
    let a = opnd_ok(s, adim.0, adim.1, f, &[sa]);
    let cn = if s.rng.bool(0.92) { n } else { n + 1 };
    let mut c = owned(s, cn, cn, f);
    tri_poison(s, be, &mut c.2, cn);
    s.submit(put_opnd(put_mat(Line::new("dense.syrk"), "c", &c), "a", &a).f("alpha", al).f("beta", be).done());
    // syr2k
    let (al, be) = blas_coefs(s, f);
    let a = opnd_ok(s, n, k, f, NONLY);
    let b = if s.rng.bool(0.92) { opnd_ok(s, n, k, f, NONLY) } else { opnd_ok(s, n, k + 1, f, NONLY) };
    let mut c = opnd_ok(s, n, n, f, NONLY);
    if let Some(mut d) = consistent(&c) {
        tri_poison(s, be, &mut d, n);
        c.data = store(&c, &d);
    }
    s.submit(put_opnd(put_opnd(put_opnd(Line::new("dense.syr2k"), "c", &c), "a", &a), "b", &b).f("alpha", al).f("beta", be).done());
}
/// strictly lower triangle: arbitrary (never read, never written); upper: poisoned only when
/// beta == 0
fn tri_poison(s: &mut Session, be: f64, d: &mut [f64], n: usize) {
    let pu = be == 0.0 && s.rng.bool(0.6);
    for j in 0..n {
        for i in 0..n {
            if i > j && s.rng.bool(0.4) {
                d[i + n * j] = *s.rng.choose(&[f64::NAN, f64::INFINITY, 7.0, -0.0]);
            }
            if i <= j && pu && s.rng.bool(0.5) {
                d[i + n * j] = *s.rng.choose(&[f64::NAN, f64::NEG_INFINITY, 1e308]);
            }
        }
    }
}

fn info_of(code: &str) -> i64 {
    code.split_once('(').and_then(|(_, x)| x.strip_suffix(')')).and_then(|x| x.parse().ok()).unwrap_or(0)
}
/// symmetric test matrices: kind "spd" (G·Gᵀ + n·I, integer or normal G), "indef" (the same
/// with one diagonal entry made clearly negative), "other" (anything, incl. NaN / singular)
fn sym_matrix(s: &mut Session, n: usize) -> (Vec<f64>, &'static str) {
    let int = s.rng.bool(0.5);
    let g: Vec<f64> = (0..n * n).map(|_| if int { s.rng.smallint(2) } else { s.rng.normal() }).collect();
    let (mut a, _) = mm(&g, &tr(&g, n, n), n, n, n);
    for i in 0..n {
        a[i + n * i] += n as f64;
    }
    match s.rng.below(5) {
        0 if n > 0 => {
            let i = s.rng.below(n);
            a[i + n * i] = -1.0 - s.rng.unit();
            (a, "indef")
        }
        1 if n > 0 => {
            let kind = s.rng.below(4);
            match kind {
                0 => a[s.rng.below(n * n)] = f64::NAN,
                1 => {
                    // singular: a zero row and column
                    let i = s.rng.below(n);
                    for j in 0..n {
                        a[i + n * j] = 0.0;
                        a[j + n * i] = 0.0;
                    }
                }
                2 => a[s.rng.below(n * n)] = f64::INFINITY,
                _ => {
                    for x in a.iter_mut() {
                        *x *= 1e-300;
                    }
                }
            }
            (a, "other")
        }
        _ => (a, "spd"),
    }
}
/// only the upper triangle of the input counts: scribble on the strictly lower one
fn scribble_lower(s: &mut Session, a: &mut [f64], n: usize) {
    if s.rng.bool(0.5) {
        for j in 0..n {
            for i in (j + 1)..n {
                a[i + n * j] = *s.rng.choose(&[0.0, 99.0, f64::NAN, -5.0]);
            }
        }
    }
}
fn as_opnd(s: &mut Session, m: usize, n: usize, d: Vec<f64>) -> Opnd {
    if s.rng.bool(0.6) {
        Opnd { m, n, data: d, view: None, shape: b'N' }
    } else {
        let (pre, post) = (s.rng.below(3), s.rng.below(3));
        let mut p = vals(s, pre, Fam::Int);
        p.extend(d.iter());
        p.extend(vals(s, post, Fam::Int));
        Opnd { m, n, data: p, view: Some((pre, m * n)), shape: b'N' }
    }
}
fn slice_of(a: &Opnd, parent_after: &[f64]) -> Vec<f64> {
    match a.view {
        None => parent_after.to_vec(),
        Some((off, len)) => parent_after[off..off + len].to_vec(),
    }
}

fn chol_cases(s: &mut Session) {
    let n = dim(s);
    let (mut a, kind) = sym_matrix(s, n);
    scribble_lower(s, &mut a, n);
    // engine state: fresh, or a stale L (after another factorisation / a resize: garbage above
    // the diagonal), or of another size
    let ln = if s.rng.bool(0.9) { n } else { n + 1 };
    let l0: Mat = if s.rng.bool(0.5) { hk::zeros(ln, ln) } else { owned(s, ln, ln, Fam::Int) };
    let ao = as_opnd(s, n, n, a.clone());
    let mut eng = hk::Chol::from_L(&l0);
    let (res, _) = eng.factor(&ao);
    let l1 = eng.L();
    s.submit(put_opnd(put_mat(Line::new("dense.chol_factor"), "l", &l0), "a", &ao)
        .i("info", info_of(&rcode(&res))).fs("lap", &l1.2).s("kind", kind).done());
    if res.is_ok() {
        s.count("dense:chol-ok");
    } else {
        s.count(&format!("dense:chol-{}", rcode(&res).split('(').next().unwrap_or("err")));
    }
    // logdet of the factor (and of arbitrary square "factors": negative / zero / NaN diagonal)
    s.submit(put_mat(Line::new("dense.chol_logdet"), "l", &l1).done());
    let lx = owned(s, n, n, Fam::Special);
    s.submit(put_mat(Line::new("dense.chol_logdet"), "l", &lx).done());
    // solve with the factor just computed; right-hand sides with 0..3 columns, sometimes with
    // too few / extra rows
    if res.is_ok() || n == 0 {
        let nrhs = s.rng.below(4);
        let bm = if s.rng.bool(0.85) { n } else if s.rng.bool(0.5) { n + 1 } else { n.saturating_sub(1) };
        let bf = if s.rng.bool(0.5) { Fam::Int } else { Fam::Normal };
        let bd = vals(s, bm * nrhs, bf);
        let bo = as_opnd(s, bm, nrhs, bd);
        let mut e2 = hk::Chol::from_L(&l1);
        let lap = guarded_vec(|| slice_of(&bo, &e2.solve(&bo)));
        s.submit(put_opnd(put_mat(Line::new("dense.chol_solve"), "l", &l1), "b", &bo).fs("lap", &lap).done());
    }
}
/// the LAPACK result to put in a request; empty when the implementation panics
fn guarded_vec<F: FnOnce() -> Vec<f64>>(f: F) -> Vec<f64> {
    std::panic::catch_unwind(std::panic::AssertUnwindSafe(f)).unwrap_or_default()
}

fn eig_cases(s: &mut Session) {
    let n = dim(s);
    let (mut a, _) = sym_matrix(s, n);
    scribble_lower(s, &mut a, n);
    let n0 = if s.rng.bool(0.9) { n } else { n + 1 };
    let am = if s.rng.bool(0.93) { (n, n) } else { (n, n + 1) };
    let ad = if am == (n, n) { a } else { vals(s, am.0 * am.1, Fam::Normal) };
    let prev = s.rng.below(3);
    let mut want = s.rng.bool(0.6);
    // recorded observation C16-dense-eigen-nan-hang: ?syevr with jobz = 'V' never returns when the
    // referenced triangle of an n >= 3 matrix holds a NaN (eigvals, jobz = 'N', returns NaN values)
    if want && am == (n, n) && n >= 3 && (0..n).any(|j| (0..=j).any(|i| !ad[i + n * j].is_finite())) {
        want = false;
        s.count("dense:eigen-nan-hang-avoided");
    }
    let ao = as_opnd(s, am.0, am.1, ad);
    let pa = if prev > 0 { sym_matrix(s, n0).0.iter().map(|x| if x.is_finite() { *x } else { 1.0 }).collect() } else { vec![] };
    let base = Line::new("dense.eig").u("n0", n0).u("prev", prev).fs("pa", &pa).b("want", want);
    let req0 = Req::parse(&put_opnd(base.clone(), "a", &ao).done()).unwrap();
    // engine state before the call
    let e0 = eig_engine(&req0);
    let (lam0, v0, lens0) = (e0.lambda(), e0.V(), e0.work_lens());
    // the call itself: LAPACK's output for the request
    let mut e1 = eig_engine(&req0);
    let (res, a_after) = if want { e1.eigen(&ao) } else { e1.eigvals(&ao) };
    let lens1 = e1.work_lens();
    let l = put_opnd(base, "a", &ao)
        .fs("lam0", &lam0).u("hasv", v0.is_some() as usize).fs("v0", &v0.map(|v| v.2).unwrap_or_default())
        .us("lens", &[lens0.0, lens0.1, lens0.2])
        .i("info", info_of(&rcode(&res))).fs("la", &slice_of(&ao, &a_after)).fs("lw", &e1.lambda())
        .fs("lz", &e1.V().map(|v| v.2).unwrap_or_default()).u("lwork", lens1.1).u("liwork", lens1.2);
    s.submit(l.done());
}

fn svd_cases(s: &mut Session) {
    let (m, n) = (dim(s), dim(s));
    let (m, n) = if s.rng.bool(0.5) { (m, m) } else { (m, n) };
    let f = *s.rng.choose(&[Fam::Int, Fam::Normal, Fam::Normal, Fam::Special]);
    let mut ad = vals(s, m * n, f);
    if m > 1 && n > 0 && s.rng.bool(0.25) {
        // rank deficient: second row a multiple of the first
        for j in 0..n {
            ad[1 + m * j] = 2.0 * ad[m * j];
        }
    }
    // recorded observation C16-dense-svd-inf-hang: ?gesdd and ?gesvd never return on a matrix with
    // min(m, n) >= 3 that holds an infinite entry (a NaN is rejected / reported)
    // (?gesvd can also loop on a NaN next to huge / tiny entries; ?gesdd rejects every NaN with info = -4)
    let qr = s.rng.bool(0.4);
    if m.min(n) >= 3 && ad.iter().any(|x| !x.is_finite()) {
        for x in ad.iter_mut() {
            if x.is_infinite() || (qr && x.is_nan()) {
                *x = if qr { 1.0 } else { f64::NAN };
            }
        }
        s.count("dense:svd-nonfinite-hang-avoided");
    }
    let ao = as_opnd(s, m, n, ad.clone());
    // engine: built for the right size, or resized to it from another one, or a wrong one
    let rs = s.rng.bool(0.3);
    let (em, en) = if rs { (dim(s), dim(s)) } else if s.rng.bool(0.92) { (m, n) } else { (m + 1, n) };
    let (rm, rn) = if s.rng.bool(0.92) { (m, n) } else { (m, n + 1) };
    let base = Line::new("dense.svd_factor").u("em", em).u("en", en).b("rs", rs).u("rm", rm).u("rn", rn).b("qr", qr);
    let req0 = Req::parse(&put_opnd(base.clone(), "a", &ao).done()).unwrap();
    if std::env::var("VERIF_C16_DENSE_TRACE").is_ok() {
        eprintln!("{}", put_opnd(base.clone(), "a", &ao).done());
    }
    let mut e1 = svd_engine(&req0);
    let (res, a_after) = e1.factor(&ao);
    let (s1, u1, vt1) = e1.factors();
    let l = put_opnd(base, "a", &ao).i("info", info_of(&rcode(&res))).fs("la", &slice_of(&ao, &a_after))
        .fs("ls", &s1).fs("lu", &u1.2).fs("lvt", &vt1.2).u("lwork", e1.work_lens().0);
    s.submit(l.done());
    // pseudo-inverse solve with the factors just computed (square only) or with hand-made ones
    if res.is_ok() && m == n && m > 0 {
        let nrhs = s.rng.below(4);
        let bm = if s.rng.bool(0.9) { m } else { m + 1 };
        let bd = vals(s, bm * nrhs, if f == Fam::Int { Fam::Int } else { Fam::Normal });
        let bo = as_opnd(s, bm, nrhs, bd);
        let mut l = put_opnd(put_mat(put_mat(Line::new("dense.svd_solve").fs("s", &s1), "u", &u1), "vt", &vt1), "b", &bo);
        if f != Fam::Special {
            l = l.fs("ao", &ad);
        }
        s.submit(l.done());
    }
    if s.rng.bool(0.3) {
        // arbitrary "factors": exact zeros, tiny and negative singular values, empty engine
        let k = s.rng.below(4);
        let sv: Vec<f64> = (0..k).map(|_| *s.rng.choose(&[2.0, 1.0, 0.0, 1e-17, -3.0, 0.5])).collect();
        let (u, vt) = (owned(s, k, k, Fam::Int), owned(s, k, k, Fam::Int));
        let nrhs = s.rng.below(3);
        let bd = vals(s, k * nrhs, Fam::Int);
        let bo = as_opnd(s, k, nrhs, bd);
        s.submit(put_opnd(put_mat(put_mat(Line::new("dense.svd_solve").fs("s", &sv), "u", &u), "vt", &vt), "b", &bo).done());
    }
}

fn lu_cases(s: &mut Session) {
    let n = dim(s);
    let nrhs = s.rng.below(4);
    let (mut a, kind): (Vec<f64>, &str) = match s.rng.below(5) {
        0 => (vals(s, n * n, Fam::Special), "other"),
        1 => {
            let mut a = vals(s, n * n, Fam::Normal);
            if n > 0 {
                let c = s.rng.below(n);
                for i in 0..n {
                    a[i + n * c] = 0.0;
                }
            }
            (a, if n > 0 { "zerocol" } else { "other" })
        }
        _ => {
            // diagonally dominant: well conditioned
            let af = if s.rng.bool(0.5) { Fam::Int } else { Fam::Normal };
            let mut a = vals(s, n * n, af);
            for i in 0..n {
                let rs: f64 = (0..n).map(|j| a[i + n * j].abs()).sum();
                a[i + n * i] = (rs + 1.0) * if s.rng.bool(0.5) { 1.0 } else { -1.0 };
            }
            (a, "wellcond")
        }
    };
    let (am, bm) = match s.rng.below(12) {
        0 => ((n, n + 1), n),
        1 => ((n, n), n + 1),
        _ => ((n, n), n),
    };
    if am != (n, n) {
        a = vals(s, am.0 * am.1, Fam::Normal);
    }
    let amat: Mat = (am.0, am.1, a);
    let bf = if s.rng.bool(0.5) { Fam::Int } else { Fam::Normal };
    let bmat = owned(s, bm, nrhs, bf);
    let prev = if s.rng.bool(0.3) { 1 + s.rng.below(3) } else { 0 };
    let mut lu = lu_engine(prev);
    let (res, a1, b1) = lu.lusolve(&amat, &bmat);
    let ip: Vec<i64> = lu.ipiv().iter().map(|&x| x as i64).collect();
    s.submit(put_mat(put_mat(Line::new("dense.lu"), "a", &amat), "b", &bmat).u("prev", prev)
        .i("info", info_of(&rcode(&res))).fs("la", &a1).fs("lb", &b1).is("lipiv", &ip).s("kind", kind).done());
}

pub fn generate(s: &mut Session) {
    if !s.is_searching() {
        s.note("dense.* channels: src/algebra/dense/** through clarabel::verif_hooks::dense. LAPACK-free functions bit-exact; \
BLAS wrappers (gemm, gemv, symv, syrk, syr2k) against the reference index-order loops of the model with |a-b| <= 1e-11*max(|a|,|b|) + 1e-11 \
on exact small-integer or O(1) data (beta == 0: the target holds NaN / inf and must not be read; strictly lower triangles hold \
NaN and must come back bit for bit); LAPACK wrappers (potrf/potrs, syevr, gesdd/gesvd, gesv) with the routine's output as a \
request parameter, the factorization contract checked by the oracle on the implementation's output".to_string());
        s.note("recorded observations on the unchanged /repo (strict oracles with VERIF_C16_DENSE_STRICT=1; replays under \
/verif/findings/C16-dense-*): every LAPACK wrapper passes lda = n and therefore reports an argument error on an empty matrix \
(Cholesky(-4), Eigen(-6), SVD(-5/-6/-10/-11), LU(-4)) instead of succeeding trivially; gemv leaves y unscaled by beta when the \
matrix has no rows or no columns (BLAS quick return / lda = 0); syrk with a t() view that has no columns passes lda = 0, BLAS \
rejects the call and C is not scaled by beta; dense col_norms_sym(_no_reset) takes no absolute value (its CSC twin does); \
CholeskyEngine::resize leaves stale values above the diagonal of L; symv hands x and y to BLAS without a length check and \
BorrowedMatrix::from_slice does not tie the dimensions to the buffer length (never sent to the BLAS channels: undefined behaviour)".to_string());
        for n in 0..7 {
            s.submit(Line::new("dense.identity").u("n", n).done());
            for m in 0..4 {
                s.submit(Line::new("dense.zeros").u("m", m).u("n", n).done());
            }
        }
        for (tr_, t) in [(false, false), (false, true), (true, false), (true, true)] {
            s.submit(Line::new("dense.type_markers").b("triu", tr_).b("t", t).done());
        }
    }
    for _ in 0..s.budget(60, 3000) {
        core_cases(s);
        concat_kron_cases(s);
        math_cases(s);
        blas_cases(s);
    }
    for _ in 0..s.budget(40, 2000) {
        chol_cases(s);
        eig_cases(s);
        svd_cases(s);
        lu_cases(s);
    }
}
