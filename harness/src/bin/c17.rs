//! C17 — chordal analysis yields a valid clique tree that covers the sparsity pattern.
//!
//! Channels compare the real implementation (through `clarabel::verif_hooks::chordal`) with
//! the Lean model (`lean/ClarabelModel/Chordal/*.lean`, driver `cm_c17`); the oracles state
//! clique-tree validity directly on the implementation's output.
//!
//! Every call of the analysis runs in a child process (batched) under a watchdog and an
//! address-space cap: a former defect made `post_order` loop forever allocating memory.
use clarabel::algebra::*;
use clarabel::verif_hooks::chordal as hk;
use clarabel::verif_hooks::chordal_cg as hkcg;
use std::collections::{BTreeSet, HashMap};
use std::sync::Mutex;
use vharness::proto::fus;
use vharness::*;

const NO_PARENT: usize = usize::MAX;
const INACTIVE: usize = usize::MAX - 1;

// ------------------------------------------------------------------ isolation

static CACHE: Mutex<Option<HashMap<String, String>>> = Mutex::new(None);

fn in_child() -> bool {
    std::env::args().any(|a| a == "--one")
}

fn canonical_key(r: &Req) -> String {
    let mut s = r.chan.clone();
    for (k, v) in r.kv.iter() {
        s.push(' ');
        s.push_str(k);
        s.push('=');
        s.push_str(v);
    }
    s
}

fn cache_get(k: &str) -> Option<String> {
    CACHE.lock().unwrap().as_ref().and_then(|m| m.get(k).cloned())
}
fn cache_put(k: String, v: String) {
    let mut g = CACHE.lock().unwrap();
    g.get_or_insert_with(HashMap::new).insert(k, v);
}

const CHILD_TIMEOUT_S: f64 = 10.0;

/// Like `vharness::run_isolated`, but drains the child's stdout while it runs (a batch
/// response can exceed the pipe buffer, which would block the child until the watchdog fires).
fn run_isolated(line: &str, timeout_s: f64, mem_mb: u64) -> String {
    use std::io::{Read, Write};
    use std::process::{Command, Stdio};
    let exe = std::env::current_exe().expect("current exe");
    let script = format!("ulimit -v {}; exec \"$0\" --one", mem_mb * 1024);
    let mut child = Command::new("sh")
        .arg("-c")
        .arg(&script)
        .arg(exe)
        .stdin(Stdio::piped())
        .stdout(Stdio::piped())
        .stderr(Stdio::null())
        .spawn()
        .expect("spawn child");
    let mut stdin = child.stdin.take().unwrap();
    let payload = format!("{}\n", line);
    let writer = std::thread::spawn(move || {
        let _ = stdin.write_all(payload.as_bytes());
    });
    let mut stdout = child.stdout.take().unwrap();
    let reader = std::thread::spawn(move || {
        let mut s = String::new();
        let _ = stdout.read_to_string(&mut s);
        s
    });
    let t0 = std::time::Instant::now();
    let status = loop {
        match child.try_wait() {
            Ok(Some(st)) => break Some(st),
            Ok(None) => {
                if t0.elapsed().as_secs_f64() > timeout_s {
                    let _ = child.kill();
                    let _ = child.wait();
                    break None;
                }
                std::thread::sleep(std::time::Duration::from_millis(1));
            }
            Err(_) => return "abort:wait".to_string(),
        }
    };
    let _ = writer.join();
    let out = reader.join().unwrap_or_default();
    match status {
        None => "hang".to_string(),
        Some(st) => {
            let out = out.trim().to_string();
            if st.success() && !out.is_empty() {
                out
            } else {
                format!("abort:{:?}", st.code())
            }
        }
    }
}
const CHILD_MEM_MB: u64 = 6144;

/// run `f` here when we are the child, otherwise fetch the cached / isolated response
fn isolated(r: &Req, f: fn(&Req) -> String) -> String {
    if in_child() {
        return f(r);
    }
    let key = canonical_key(r);
    if let Some(v) = cache_get(&key) {
        return v;
    }
    let out = run_isolated(&key, CHILD_TIMEOUT_S, CHILD_MEM_MB);
    cache_put(key, out.clone());
    out
}

fn inner_run(chan: &str) -> Option<fn(&Req) -> String> {
    match chan {
        "analysis" => Some(analysis_inner),
        "analysis.cg" => Some(analysis_inner),
        "sntree.new" => Some(sntree_new_inner),
        "cg.trace" => Some(cg_trace_inner),
        "post_order" => Some(post_order_inner),
        "info.new" => Some(info_new_inner),
        _ => None,
    }
}

/// `batch k=<n> r0=<line with ' ' -> ';'> ...` : responses joined with '|'
fn run_batch(r: &Req) -> String {
    let k = r.u("k");
    let mut outs = vec![];
    for i in 0..k {
        let line = r.str(&format!("r{}", i)).replace(';', " ");
        let req = Req::parse(&line).expect("inner request");
        let f = inner_run(&req.chan).expect("inner channel");
        outs.push(guarded(|| f(&req)).replace('|', "_"));
    }
    outs.join("|")
}

/// Execute the lines in child processes (several per child), fill the cache.
fn prefetch(lines: &[String], per_child: usize) {
    for chunk in lines.chunks(per_child.max(1)) {
        let todo: Vec<(String, String)> = chunk
            .iter()
            .filter(|l| inner_run(&Req::parse(l).unwrap().chan).is_some()) // only the isolated channels
            .map(|l| (canonical_key(&Req::parse(l).unwrap()), l.clone()))
            .filter(|(k, _)| cache_get(k).is_none())
            .collect();
        if todo.is_empty() {
            continue;
        }
        let mut bl = format!("batch k={}", todo.len());
        for (i, (k, _)) in todo.iter().enumerate() {
            bl.push_str(&format!(" r{}={}", i, k.replace(' ', ";")));
        }
        let resp = run_isolated(&bl, CHILD_TIMEOUT_S + 0.05 * todo.len() as f64, CHILD_MEM_MB);
        let parts: Vec<&str> = resp.split('|').collect();
        if (resp == "hang" || resp.starts_with("abort:") || parts.len() != todo.len()) && todo.len() > 1 {
            // find the culprit(s) one by one
            let mut hung_patterns: Vec<String> = vec![];
            for (k, l) in todo.iter() {
                // `cg.trace` runs the same `merge_cliques` as `analysis.cg`: when the analysis of this
                // symbolic factor already hung, do not wait for the second hang
                let r = Req::parse(l).unwrap();
                let pat = format!("{}|{}|{}", r.str("n"), r.str("colptr"), r.str("rowval"));
                if r.chan == "cg.trace" && hung_patterns.contains(&pat) {
                    cache_put(k.clone(), "hang".to_string());
                    continue;
                }
                let out = run_isolated(k, CHILD_TIMEOUT_S, CHILD_MEM_MB);
                if r.chan == "analysis.cg" && out == "hang" {
                    hung_patterns.push(pat);
                }
                cache_put(k.clone(), out);
            }
        } else if parts.len() == todo.len() {
            for ((k, _), p) in todo.iter().zip(parts.iter()) {
                cache_put(k.clone(), p.to_string());
            }
        } else {
            cache_put(todo[0].0.clone(), resp);
        }
    }
}

// ------------------------------------------------------------------ wire helpers

fn fmt_sets(k: &str, s: &[Vec<usize>]) -> String {
    let lens: Vec<usize> = s.iter().map(|v| v.len()).collect();
    let flat: Vec<usize> = s.iter().flatten().copied().collect();
    format!("{}_len={} {}={}", k, fus(&lens), k, fus(&flat))
}
fn parse_sets(r: &Req, k: &str) -> Vec<Vec<usize>> {
    let lens = r.us(&format!("{}_len", k));
    let flat = r.us(k);
    let mut out = vec![];
    let mut p = 0;
    for l in lens {
        out.push(flat[p..p + l].to_vec());
        p += l;
    }
    assert_eq!(p, flat.len());
    out
}
fn fmt_tree(t: &hk::TreeDump) -> String {
    let nb = match &t.nblk {
        None => "hasnblk=0 nblk=".to_string(),
        Some(v) => format!("hasnblk=1 nblk={}", fus(v)),
    };
    format!(
        "ncl={} {} {} par={} {} spost={} post={} {}",
        t.n_cliques,
        fmt_sets("snode", &t.snode),
        fmt_sets("sep", &t.separators),
        fus(&t.snode_parent),
        fmt_sets("ch", &t.snode_children),
        fus(&t.snode_post),
        fus(&t.post),
        nb
    )
}
fn parse_tree(r: &Req) -> hk::TreeDump {
    hk::TreeDump {
        snode: parse_sets(r, "snode"),
        snode_post: r.us("spost"),
        snode_parent: r.us("par"),
        snode_children: parse_sets(r, "ch"),
        post: r.us("post"),
        separators: parse_sets(r, "sep"),
        nblk: if r.b("hasnblk") { Some(r.us("nblk")) } else { None },
        n_cliques: r.u("ncl"),
    }
}
fn lpat(r: &Req) -> CscMatrix<f64> {
    let n = r.u("n");
    let colptr = r.us("colptr");
    let rowval = r.us("rowval");
    let nz = rowval.len();
    CscMatrix { m: n, n, colptr, rowval, nzval: vec![1.0; nz] }
}

// ------------------------------------------------------------------ channels: union-find

fn run_dsu_ops(r: &Req) -> String {
    let n = r.u("n");
    let (kind, a, b) = (r.us("kind"), r.us("a"), r.us("b"));
    let mut d = hk::Dsu::new(n);
    let mut ans: Vec<i64> = vec![];
    for i in 0..kind.len() {
        match kind[i] {
            0 => {
                d.union(a[i], b[i]);
                ans.push(-1);
            }
            1 => ans.push(d.in_same_set(a[i], b[i]) as i64),
            _ => ans.push(d.root(a[i]) as i64),
        }
    }
    let (p, rk) = d.state();
    Line::out().is("ans", &ans).us("parents", &p).us("ranks", &rk).done()
}

fn oracle_dsu_ops(r: &Req, out: &str) -> Result<(), String> {
    let n = r.u("n");
    let (kind, a, b) = (r.us("kind"), r.us("a"), r.us("b"));
    if kind.iter().enumerate().any(|(i, &k)| a[i] >= n || (k != 2 && b[i] >= n)) {
        return Ok(()); // out-of-range operations: only the correspondence is checked
    }
    let o = Req::parse(&format!("x {}", out)).ok_or("unparsable")?;
    if !o.has("ans") {
        return Err(format!("operation history failed: {}", out));
    }
    let ans = o.is("ans");
    // reference: naive class labels
    let mut cls: Vec<usize> = (0..n).collect();
    let mut last_root: HashMap<usize, i64> = HashMap::new(); // class label -> root answered since last union
    for i in 0..kind.len() {
        match kind[i] {
            0 => {
                let (ca, cb) = (cls[a[i]], cls[b[i]]);
                if ca != cb {
                    for c in cls.iter_mut() {
                        if *c == cb {
                            *c = ca;
                        }
                    }
                }
                last_root.clear();
            }
            1 => {
                let want = (cls[a[i]] == cls[b[i]]) as i64;
                if ans[i] != want {
                    return Err(format!("op {}: in_same_set({},{}) = {} but reference says {}", i, a[i], b[i], ans[i], want));
                }
            }
            _ => {
                let rr = ans[i];
                if rr < 0 || rr as usize >= n || cls[rr as usize] != cls[a[i]] {
                    return Err(format!("op {}: root({}) = {} is not in the class of the argument", i, a[i], rr));
                }
                if let Some(&prev) = last_root.get(&cls[a[i]]) {
                    if prev != rr {
                        return Err(format!("op {}: root({}) = {} but an earlier query of the same class gave {}", i, a[i], rr, prev));
                    }
                }
                last_root.insert(cls[a[i]], rr);
            }
        }
    }
    // final state: every element walks to one fixed point per class
    let p = o.us("parents");
    if p.len() != n || p.iter().any(|&x| x >= n) {
        return Err("parents out of range".into());
    }
    let mut rep_of_class: HashMap<usize, usize> = HashMap::new();
    for x in 0..n {
        let mut y = x;
        let mut steps = 0;
        while p[y] != y {
            y = p[y];
            steps += 1;
            if steps > n {
                return Err(format!("parent pointers from {} cycle", x));
            }
        }
        if cls[y] != cls[x] {
            return Err(format!("element {} walks to {} of another class", x, y));
        }
        if *rep_of_class.entry(cls[x]).or_insert(y) != y {
            return Err(format!("class of {} has two fixed points", x));
        }
    }
    Ok(())
}

// ------------------------------------------------------------------ channels: post_order

fn post_order_inner(r: &Req) -> String {
    let parent = r.us("parent");
    let ch = parse_sets(r, "ch");
    let nc = r.u("nc");
    let (post, ch2) = hk::post_order(&parent, &ch, nc);
    format!("post={} {}", fus(&post), fmt_sets("ch", &ch2))
}
fn run_post_order(r: &Req) -> String {
    isolated(r, post_order_inner)
}
fn reachable_from_first_root(parent: &[usize]) -> Option<(usize, Vec<bool>)> {
    let root = parent.iter().position(|&x| x == NO_PARENT)?;
    let n = parent.len();
    let mut reach = vec![false; n];
    for v in 0..n {
        // walk up
        let mut y = v;
        let mut steps = 0;
        loop {
            if y == root {
                reach[v] = true;
                break;
            }
            if y >= n || parent[y] >= n || steps > n {
                break;
            }
            y = parent[y];
            steps += 1;
        }
    }
    Some((root, reach))
}
fn oracle_post_order(r: &Req, out: &str) -> Result<(), String> {
    let parent = r.us("parent");
    let nc = r.u("nc");
    let n = parent.len();
    if r.has("invalid") {
        return Ok(());
    }
    let o = Req::parse(&format!("x {}", out)).ok_or("unparsable")?;
    if !o.has("post") {
        return Err(format!("post_order failed on a forest: {}", out));
    }
    let post = o.us("post");
    let (root, reach) = reachable_from_first_root(&parent).ok_or("no root")?;
    let nreach = reach.iter().filter(|&&b| b).count();
    if post.len() != nc.min(n) {
        return Err(format!("post has length {} expected {}", post.len(), nc.min(n)));
    }
    let mut pos = vec![usize::MAX; n];
    for (i, &v) in post.iter().enumerate() {
        if v >= n || pos[v] != usize::MAX {
            return Err("post is not duplicate-free / in range".into());
        }
        pos[v] = i;
    }
    if nc >= nreach {
        for v in 0..n {
            if reach[v] && pos[v] >= nreach {
                return Err(format!("reachable vertex {} is not among the first {} of post", v, nreach));
            }
        }
        if pos[root] != nreach - 1 {
            return Err("root is not last".into());
        }
        for v in 0..n {
            if reach[v] && v != root && pos[v] >= pos[parent[v]] {
                return Err(format!("vertex {} does not precede its parent {}", v, parent[v]));
            }
        }
    }
    Ok(())
}

// ------------------------------------------------------------------ channels: triangular index maps

fn run_tri_batch(r: &Req) -> String {
    let (lo, hi) = (r.u("lo"), r.u("hi"));
    let ks: Vec<usize> = (lo..hi).collect();
    // k(k+3) must fit in usize: the number / index functions are only compared below 2^31
    let small = hi <= (1usize << 31);
    let tn: Vec<usize> = ks.iter().filter(|_| small).map(|&k| hk::triangular_number(k)).collect();
    let ti: Vec<usize> = ks.iter().filter(|_| small).map(|&k| hk::triangular_index(k)).collect();
    let rc: Vec<(usize, usize)> = ks.iter().map(|&k| hk::upper_triangular_index_to_coord(k)).collect();
    let row: Vec<usize> = rc.iter().map(|p| p.0).collect();
    let col: Vec<usize> = rc.iter().map(|p| p.1).collect();
    let back: Vec<usize> = rc.iter().map(|&p| hk::coord_to_upper_triangular_index(p)).collect();
    let backt: Vec<usize> = rc.iter().map(|&p| hk::coord_to_upper_triangular_index((p.1, p.0))).collect();
    Line::out().us("tn", &tn).us("ti", &ti).us("row", &row).us("col", &col).us("back", &back).us("backt", &backt).done()
}
fn oracle_tri_batch(r: &Req, out: &str) -> Result<(), String> {
    let (lo, hi) = (r.u("lo"), r.u("hi"));
    let o = Req::parse(&format!("x {}", out)).ok_or("unparsable")?;
    let (tn, ti, row, col, back, backt) = (o.us("tn"), o.us("ti"), o.us("row"), o.us("col"), o.us("back"), o.us("backt"));
    for (i, k) in (lo..hi).enumerate() {
        // independent enumeration of the packed upper triangle
        let mut c = 0usize;
        while (c + 1) * (c + 2) / 2 <= k {
            c += 1;
        }
        let rr = k - c * (c + 1) / 2;
        if (row[i], col[i]) != (rr, c) {
            return Err(format!("index {} -> ({},{}) expected ({},{})", k, row[i], col[i], rr, c));
        }
        if back[i] != k || backt[i] != k {
            return Err(format!("coord->index of ({},{}) = {}/{} expected {}", rr, c, back[i], backt[i], k));
        }
        if tn.is_empty() {
            continue;
        }
        if tn[i] != (0..=k).sum::<usize>() && k < 2000 {
            return Err(format!("triangular_number({})", k));
        }
        if ti[i] + 1 != (k + 1) * (k + 2) / 2 {
            return Err(format!("triangular_index({})", k));
        }
    }
    Ok(())
}

// ------------------------------------------------------------------ channels: split_cliques

fn run_split_cliques(r: &Req) -> String {
    let (sn, sp) = hk::split_cliques(&parse_sets(r, "snode"), &parse_sets(r, "sep"), &r.us("par"), &r.us("spost"), r.u("nc"));
    format!("{} {}", fmt_sets("snode", &sn), fmt_sets("sep", &sp))
}
fn oracle_split_cliques(r: &Req, out: &str) -> Result<(), String> {
    let cl = parse_sets(r, "snode");
    let par = r.us("par");
    let post = r.us("spost");
    let nc = r.u("nc");
    let o = Req::parse(&format!("x {}", out)).ok_or("unparsable")?;
    if !o.has("snode") {
        return Err(format!("split_cliques failed: {}", out));
    }
    let sn = parse_sets(&o, "snode");
    let sp = parse_sets(&o, "sep");
    for j in 0..nc - 1 {
        let c = post[j];
        let p = par[c];
        let want_sep: BTreeSet<usize> = cl[c].iter().copied().filter(|v| cl[p].contains(v)).collect();
        let want_sn: BTreeSet<usize> = cl[c].iter().copied().filter(|v| !cl[p].contains(v)).collect();
        let got_sep: BTreeSet<usize> = sp[c].iter().copied().collect();
        let got_sn: BTreeSet<usize> = sn[c].iter().copied().collect();
        if want_sep != got_sep || got_sep.len() != sp[c].len() {
            return Err(format!("separator of clique {} is not clique ∩ parent clique", c));
        }
        if want_sn != got_sn || got_sn.len() != sn[c].len() {
            return Err(format!("supernode of clique {} is not clique minus separator", c));
        }
    }
    let root = post[nc - 1];
    if sn[root] != cl[root] {
        return Err("root clique changed".into());
    }
    Ok(())
}

// ------------------------------------------------------------------ channels: analysis

fn sntree_new_inner(r: &Req) -> String {
    fmt_tree(&hk::supernode_tree_new(&lpat(r)))
}
fn run_sntree_new(r: &Req) -> String {
    isolated(r, sntree_new_inner)
}

/// Response of the channels `analysis` / `analysis.cg`: the tree, the ordering, and the verdict
/// `valid=<0|1>` of `check_clique_tree` on them.  The Lean driver appends the verdict of the
/// machine-checked predicate `Clarabel.Chordal.validCliqueTreeB` (proved equivalent to the
/// Prop-level `ValidCliqueTree`, `ClarabelProofs/Lemmas/ChordalValid.lean`) evaluated on the
/// MODEL's tree, so the exact comparison also flags any disagreement of the two checkers.
fn analysis_inner(r: &Req) -> String {
    let (t, ord) = hk::sparsity_pattern_new(lpat(r), r.us("ordering"), 0, r.str("merge"));
    // (a checker panic on a garbage tree counts as "invalid"; the tree itself stays visible)
    let (n, edges) = (r.u("n"), req_edges(r));
    let valid = std::panic::catch_unwind(std::panic::AssertUnwindSafe(|| check_clique_tree(n, &edges, &t, &ord).is_ok()))
        .unwrap_or(false);
    format!("{} ordering={} valid={}", fmt_tree(&t), fus(&ord), valid as usize)
}
fn run_analysis(r: &Req) -> String {
    isolated(r, analysis_inner)
}

/// edges (i<j) of the request's pattern
fn req_edges(r: &Req) -> Vec<(usize, usize)> {
    let ei = r.us("ei");
    let ej = r.us("ej");
    ei.into_iter().zip(ej).collect()
}

/// Direct validity of the clique tree returned for pattern `edges` on `n` vertices.
fn check_clique_tree(n: usize, edges: &[(usize, usize)], t: &hk::TreeDump, ordering: &[usize]) -> Result<(), String> {
    // ordering is a permutation
    let mut seen = vec![false; n];
    if ordering.len() != n {
        return Err("ordering has the wrong length".into());
    }
    for &o in ordering {
        if o >= n || seen[o] {
            return Err("ordering is not a permutation".into());
        }
        seen[o] = true;
    }
    let nc = t.n_cliques;
    let k = t.snode.len();
    if nc == 0 || t.separators.len() != k || t.snode_parent.len() != k || t.snode_post.len() != nc {
        return Err(format!("inconsistent sizes: n_cliques={} snode={} sep={} par={} post={}",
            nc, k, t.separators.len(), t.snode_parent.len(), t.snode_post.len()));
    }
    if nc == 1 {
        // everything merged into one clique: the pattern stays undecomposed and only the
        // supernode of the surviving clique is meaningful (ChordalInfo drops the pattern)
        let c = t.snode_post[0];
        if c >= k {
            return Err("snode_post out of range".into());
        }
        let mut sn = t.snode[c].clone();
        sn.sort();
        if sn != (0..n).collect::<Vec<_>>() {
            return Err("single clique does not contain every vertex".into());
        }
        return Ok(());
    }
    // live cliques = those listed in snode_post (distinct, in range)
    let mut live = vec![false; k];
    for &c in &t.snode_post {
        if c >= k || live[c] {
            return Err("snode_post is not a duplicate-free list of clique indices".into());
        }
        live[c] = true;
    }
    for c in 0..k {
        if !live[c] && (!t.snode[c].is_empty() || !t.separators[c].is_empty()) {
            return Err(format!("clique {} is not in the post-order but is not empty", c));
        }
        if live[c] && t.snode[c].is_empty() {
            return Err(format!("live clique {} has an empty supernode", c));
        }
    }
    // supernodes partition the vertices; consecutive numbering in post-order
    let mut owner = vec![usize::MAX; n];
    let mut next = 0usize;
    for &c in &t.snode_post {
        let mut sn = t.snode[c].clone();
        sn.sort();
        for (q, &v) in sn.iter().enumerate() {
            if v >= n || owner[v] != usize::MAX {
                return Err(format!("vertex {} is in two supernodes / out of range", v));
            }
            owner[v] = c;
            if v != next + q {
                return Err(format!("supernode {} is not the consecutive range starting at {}", c, next));
            }
        }
        next += sn.len();
    }
    if next != n {
        return Err(format!("supernodes cover {} of {} vertices", next, n));
    }
    // clique sets
    let clique: Vec<BTreeSet<usize>> = (0..k)
        .map(|c| t.snode[c].iter().chain(t.separators[c].iter()).copied().collect())
        .collect();
    for c in 0..k {
        if clique[c].len() != t.snode[c].len() + t.separators[c].len() {
            return Err(format!("supernode and separator of clique {} overlap / repeat", c));
        }
        if clique[c].iter().any(|&v| v >= n) {
            return Err("clique vertex out of range".into());
        }
    }
    // single root, parents live, acyclic, children before parents in snode_post
    let mut pos = vec![usize::MAX; k];
    for (i, &c) in t.snode_post.iter().enumerate() {
        pos[c] = i;
    }
    let roots: Vec<usize> = (0..k).filter(|&c| live[c] && t.snode_parent[c] == NO_PARENT).collect();
    if roots.len() != 1 {
        return Err(format!("{} roots among the live cliques", roots.len()));
    }
    if pos[roots[0]] != nc - 1 {
        return Err("the root is not last in the post-order".into());
    }
    for c in 0..k {
        if !live[c] || c == roots[0] {
            continue;
        }
        let p = t.snode_parent[c];
        if p >= k || !live[p] {
            return Err(format!("clique {} has parent {} which is not a live clique", c, p as i64));
        }
        if pos[c] >= pos[p] {
            return Err(format!("clique {} does not precede its parent {} in the post-order", c, p));
        }
        // separator = clique ∩ parent clique
        let inter: BTreeSet<usize> = clique[c].intersection(&clique[p]).copied().collect();
        let sep: BTreeSet<usize> = t.separators[c].iter().copied().collect();
        if inter != sep {
            return Err(format!("separator of clique {} = {:?} but clique ∩ parent clique = {:?}", c, sep, inter));
        }
    }
    if !t.separators[roots[0]].is_empty() {
        return Err("the root has a separator".into());
    }
    // children lists agree with parents (for live cliques)
    if t.snode_children.len() == k {
        for c in 0..k {
            if !live[c] {
                continue;
            }
            let want: BTreeSet<usize> = (0..k).filter(|&d| live[d] && t.snode_parent[d] == c).collect();
            let got: BTreeSet<usize> = t.snode_children[c].iter().copied().collect();
            if want != got {
                return Err(format!("children of clique {} = {:?} but parent array says {:?}", c, got, want));
            }
        }
    }
    // running intersection: the cliques containing v form a connected subtree
    for v in 0..n {
        let tops = (0..k)
            .filter(|&c| live[c] && clique[c].contains(&v))
            .filter(|&c| c == roots[0] || !clique[t.snode_parent[c]].contains(&v))
            .count();
        if tops != 1 {
            return Err(format!("running intersection fails for vertex {} ({} top cliques)", v, tops));
        }
    }
    // nblk
    match &t.nblk {
        None => return Err("nblk not populated".into()),
        Some(nb) => {
            if nb.len() != nc {
                return Err("nblk has the wrong length".into());
            }
            for i in 0..nc {
                if nb[i] != clique[t.snode_post[i]].len() {
                    return Err(format!("nblk[{}] = {} but the clique has {} vertices", i, nb[i], clique[t.snode_post[i]].len()));
                }
            }
        }
    }
    // coverage of the pattern (original coordinates: vertex v of the tree is ordering[v])
    let mut inv = vec![0usize; n];
    for (v, &o) in ordering.iter().enumerate() {
        inv[o] = v;
    }
    'edges: for &(i, j) in edges {
        let (a, b) = (inv[i], inv[j]);
        // by running intersection it suffices to look at the cliques containing a
        for c in 0..k {
            if live[c] && clique[c].contains(&a) && clique[c].contains(&b) {
                continue 'edges;
            }
        }
        return Err(format!("entry ({},{}) of the pattern is in no clique block", i, j));
    }
    Ok(())
}

fn oracle_analysis(r: &Req, out: &str) -> Result<(), String> {
    if out == "hang" || out.starts_with("abort") || out.starts_with("panic") {
        return Err(format!("analysis did not return: {}", out));
    }
    let o = Req::parse(&format!("x {}", out)).ok_or("unparsable")?;
    let t = parse_tree(&o);
    let ord = o.us("ordering");
    check_clique_tree(r.u("n"), &req_edges(r), &t, &ord)?;
    // the verdict travelling in the response (compared with the Lean checker's verdict on the
    // model's tree) must be the one just recomputed
    if !o.has("valid") || o.str("valid") != "1" {
        return Err(format!("response carries valid={} for a tree that passes check_clique_tree",
            if o.has("valid") { o.str("valid") } else { "<missing>" }));
    }
    Ok(())
}

// ---- tree.valid: the two validity checkers against each other, mostly on INVALID trees
//
// The channels `analysis*` only ever show the Lean checker `validCliqueTreeB` valid trees.  Here
// the tree returned by the implementation is corrupted in one random place (a separator vertex
// dropped / added, a parent pointer redirected, the post-order permuted, `nblk` off by one, a
// vertex moved to another supernode, an extra pattern entry, ...) and the verdict of the Rust
// oracle `check_clique_tree` is compared with the verdict of the machine-checked Lean checker.

fn run_tree_valid(r: &Req) -> String {
    let t = parse_tree(r);
    let ord = r.us("ordering");
    let (n, edges) = (r.u("n"), req_edges(r));
    let valid = std::panic::catch_unwind(std::panic::AssertUnwindSafe(|| check_clique_tree(n, &edges, &t, &ord).is_ok()))
        .unwrap_or(false);
    format!("valid={}", valid as usize)
}
fn oracle_tree_valid(r: &Req, out: &str) -> Result<(), String> {
    // kind 0 = the implementation's tree, unchanged: it has to be accepted
    if r.u("kind") == 0 && out != "valid=1" {
        return Err(format!("the uncorrupted tree of the implementation is rejected: {}", out));
    }
    Ok(())
}

// ---- the hypotheses of the pipeline theorems, evaluated on every analysis case
//
// `filled`: `LPat.Filled` (lean/ClarabelProofs/Lemmas/ChordalEtree.lean) re-stated independently;
// `perm`: the ordering is a permutation; `edges`: every pattern entry is an entry of L at the
// positions of its endpoints in the ordering.  The model side evaluates the machine-checked
// executable forms `LPat.filledB` (⇔ `LPat.Filled`), `clOrderingPerm`, `LPat.edgesInB`.

fn lpat_filled(n: usize, colptr: &[usize], rowval: &[usize]) -> bool {
    if n == 0 || colptr.len() != n + 1 {
        return false;
    }
    if (0..n).any(|v| colptr[v] > colptr[v + 1]) || colptr[n] > rowval.len() {
        return false;
    }
    let col = |v: usize| &rowval[colptr[v]..colptr[v + 1]];
    for v in 0..n {
        let c = col(v);
        if c.iter().any(|&r| r <= v || r >= n) || c.windows(2).any(|w| w[0] >= w[1]) {
            return false;
        }
        if v + 1 < n {
            if c.is_empty() {
                return false;
            }
            // closure: col(v) minus its first row p lies in col(p)
            let p = c[0];
            if c[1..].iter().any(|r| !col(p).contains(r)) {
                return false;
            }
        }
    }
    true
}

fn run_analysis_hyp(r: &Req) -> String {
    let (n, colptr, rowval, ord) = (r.u("n"), r.us("colptr"), r.us("rowval"), r.us("ordering"));
    let filled = lpat_filled(n, &colptr, &rowval);
    let mut seen = vec![false; n];
    let perm = ord.len() == n && ord.iter().all(|&x| x < n && !std::mem::replace(&mut seen[x], true));
    // same total semantics as `LPat.edgesInB` (defined on every input, also malformed ones)
    let getd = |v: usize| colptr.get(v).copied().unwrap_or(0);
    let col = |v: usize| -> &[usize] {
        let (lo, hi) = (getd(v), getd(v + 1).min(rowval.len()));
        if lo < hi { &rowval[lo..hi] } else { &[] }
    };
    let pos = |x: usize| ord.iter().position(|&y| y == x).unwrap_or(ord.len());
    let edges = req_edges(r).iter().all(|&(i, j)| {
        let (a, b) = (pos(i), pos(j));
        a < n && b < n && a < ord.len() && b < ord.len() && (col(a).contains(&b) || col(b).contains(&a))
    });
    format!("filled={} perm={} edges={}", filled as usize, perm as usize, edges as usize)
}
fn oracle_analysis_hyp(_r: &Req, out: &str) -> Result<(), String> {
    // the symbolic factor and ordering produced by the implementation (find_graph) must satisfy
    // the hypotheses under which the analysis is proved correct
    if out != "filled=1 perm=1 edges=1" {
        return Err(format!("find_graph's output violates a hypothesis of the C17 pipeline theorems: {}", out));
    }
    Ok(())
}

// ------------------------------------------------------------------ channel: cg.trace
//
// The clique-graph merge strategy pass by pass.  The implementation's strategy state
// (edge matrix, workspace `p`, adjacency table, clique sets, counter) after `initialise` and
// after every pass of the loop of `merge_cliques` is digested and compared with the model's
// (`CGStrategy.mergeTrace`, `CGSnap.digest`); on each state the LOOP INVARIANT `CGInv`
// (`ClarabelProofs/Lemmas/ChordalCGDefs.lean`) is evaluated by the independent checker
// `cg_inv_clause` below (the Lean side evaluates its own executable form `cgInvClauses`);
// `rip` = the supernodes of the tree returned by `merge_cliques` are pairwise disjoint, `ne` = the
// live ones are not empty: the two tested hypotheses of `C17.analysis_clique_graph_valid_partial`.

fn cg_mix(h: u64, x: u64) -> u64 {
    (h ^ x).wrapping_mul(1099511628211)
}
fn cg_mix_us(h: u64, xs: &[usize]) -> u64 {
    xs.iter().fold(cg_mix(h, xs.len() as u64), |h, &x| cg_mix(h, x as u64))
}
fn cg_digest(x: &hkcg::CgSnapshot) -> u64 {
    let mut h: u64 = 14695981039346656037;
    h = cg_mix(cg_mix(h, x.m as u64), x.n as u64);
    h = cg_mix_us(h, &x.colptr);
    h = cg_mix_us(h, &x.rowval);
    h = x.nzval.iter().fold(cg_mix(h, x.nzval.len() as u64), |h, &v| cg_mix(h, v as u64));
    h = cg_mix_us(h, &x.p);
    for (k, set) in x.adjacency.iter() {
        h = cg_mix_us(cg_mix(h, *k as u64), set);
    }
    h = x.snode.iter().fold(cg_mix(h, x.snode.len() as u64), |h, s| cg_mix_us(h, s));
    h = cg_mix(h, x.n_cliques as u64);
    cg_mix(h, x.stop as u64)
}

/// 1-based index of the first clause of the loop invariant `CGInv nn nv` violated by the
/// implementation's state `x` (0 = the invariant holds).  Clauses, in the order of
/// `cgInvClauses`: 1 sizes, 2 wfe, 3 lower-sorted, 4 nonzero, 5 edge-live, 6 connected,
/// 7 adj-keys, 8 adj-iff, 9 adj-nodup, 10 ncl, 11 psize, 12 sn-nodup, 13 sn-range.
fn cg_inv_clause(nn: usize, nv: usize, x: &hkcg::CgSnapshot) -> usize {
    let live = |c: usize| c < x.snode.len() && !x.snode[c].is_empty();
    let distinct = |v: &[usize]| v.iter().collect::<BTreeSet<_>>().len() == v.len();
    // 1 sizes
    if !(x.snode.len() == nn && x.m == nn && x.n == nn) {
        return 1;
    }
    // 2 wfe
    let nnz = x.rowval.len();
    if !(x.colptr.len() == nn + 1
        && x.colptr[0] == 0
        && x.colptr.windows(2).all(|w| w[0] <= w[1])
        && x.colptr[nn] == nnz
        && x.nzval.len() == nnz
        && x.rowval.iter().all(|&r| r < nn))
    {
        return 2;
    }
    // 3 strictly lower triangular, rows strictly increasing in every column
    let mut pairs: Vec<(usize, usize)> = vec![];
    for c in 0..nn {
        let rows = &x.rowval[x.colptr[c]..x.colptr[c + 1]];
        if !(rows.iter().all(|&r| c < r) && rows.windows(2).all(|w| w[0] < w[1])) {
            return 3;
        }
        pairs.extend(rows.iter().map(|&r| (r, c)));
    }
    // 4 no stored zero
    if x.nzval.iter().any(|&v| v == 0) {
        return 4;
    }
    // 5 entries join live cliques only
    if !pairs.iter().all(|&(r, c)| live(r) && live(c)) {
        return 5;
    }
    // 6 the live cliques are connected by the entries
    let lives: Vec<usize> = (0..nn).filter(|&c| live(c)).collect();
    if let Some(&a) = lives.first() {
        let mut comp: Vec<usize> = (0..nn).collect();
        fn find(comp: &mut Vec<usize>, mut v: usize) -> usize {
            while comp[v] != v {
                comp[v] = comp[comp[v]];
                v = comp[v];
            }
            v
        }
        for &(r, c) in pairs.iter() {
            let (a, b) = (find(&mut comp, r), find(&mut comp, c));
            comp[a] = b;
        }
        let ra = find(&mut comp, a);
        if !lives.iter().all(|&b| find(&mut comp, b) == ra) {
            return 6;
        }
    }
    // 7 the keys of the adjacency table are exactly the live cliques
    let keys: Vec<usize> = x.adjacency.iter().map(|kv| kv.0).collect();
    if keys != lives {
        return 7;
    }
    // 8 b ∈ table[a] iff (max,min) is stored and a != b  (in particular: no removed clique)
    let pair_set: std::collections::HashSet<(usize, usize)> = pairs.iter().copied().collect();
    let adj = |a: usize, b: usize| a != b && pair_set.contains(&(a.max(b), a.min(b)));
    for (a, set) in x.adjacency.iter() {
        if !(set.iter().all(|&b| adj(*a, b)) && (0..nn).all(|b| !adj(*a, b) || set.contains(&b))) {
            return 8;
        }
    }
    // 9 adjacency sets without repetition
    if !x.adjacency.iter().all(|kv| distinct(&kv.1)) {
        return 9;
    }
    // 10 the counter
    if x.n_cliques != lives.len() {
        return 10;
    }
    // 11 the workspace is long enough for `traverse`
    if x.nzval.len() > x.p.len() {
        return 11;
    }
    // 12, 13 clique sets
    if !x.snode.iter().all(|s| distinct(s)) {
        return 12;
    }
    if !x.snode.iter().all(|s| s.iter().all(|&v| v < nv)) {
        return 13;
    }
    0
}

fn cg_trace_inner(r: &Req) -> String {
    let d = hk::supernode_tree_new(&lpat(r));
    if d.n_cliques <= 1 {
        return "steps=0 rip=1 ne=1".to_string();
    }
    let nn = d.snode.len();
    let nv = r.u("n");
    let (tr, fin) = hkcg::merge_cliques_cg_trace(&d);
    let cr: Vec<usize> = tr.iter().map(|x| x.cand.map_or(NO_PARENT, |c| c.0)).collect();
    let cc: Vec<usize> = tr.iter().map(|x| x.cand.map_or(NO_PARENT, |c| c.1)).collect();
    let dm: Vec<usize> = tr.iter().map(|x| x.do_merge as usize).collect();
    let ncl: Vec<usize> = tr.iter().map(|x| x.n_cliques).collect();
    let nnz: Vec<usize> = tr.iter().map(|x| x.nzval.len()).collect();
    let dg: Vec<String> = tr.iter().map(|x| cg_digest(x).to_string()).collect();
    let inv: Vec<usize> = tr.iter().map(|x| cg_inv_clause(nn, nv, x)).collect();
    let flat: Vec<usize> = fin.snode.iter().flatten().copied().collect();
    let rip = flat.iter().collect::<BTreeSet<_>>().len() == flat.len();
    let ne = (0..fin.snode.len()).all(|c| fin.snode_parent.get(c).copied().unwrap_or(0) == INACTIVE || !fin.snode[c].is_empty());
    format!(
        "steps={} cr={} cc={} dm={} ncl={} nnz={} dg={} inv={} rip={} ne={}",
        tr.len(),
        fus(&cr),
        fus(&cc),
        fus(&dm),
        fus(&ncl),
        fus(&nnz),
        dg.join(","),
        fus(&inv),
        rip as usize,
        ne as usize
    )
}
fn run_cg_trace(r: &Req) -> String {
    isolated(r, cg_trace_inner)
}
fn oracle_cg_trace(_r: &Req, out: &str) -> Result<(), String> {
    let o = Req::parse(&format!("x {}", out)).ok_or("unparsable response")?;
    if o.u("steps") > 0 {
        let inv = o.us("inv");
        if let Some(k) = inv.iter().position(|&c| c != 0) {
            const NAMES: [&str; 14] = [
                "", "sizes", "wfe", "lower-sorted", "nonzero", "edge-live", "connected", "adj-keys", "adj-iff",
                "adj-nodup", "ncl", "psize", "sn-nodup", "sn-range",
            ];
            return Err(format!(
                "the loop invariant CGInv of the clique-graph strategy fails on the implementation's state after pass {}: clause `{}`",
                k,
                NAMES.get(inv[k]).copied().unwrap_or("?")
            ));
        }
    }
    if !o.b("rip") {
        return Err("the supernodes of the tree returned by merge_cliques (clique_graph) are not pairwise disjoint (hypothesis cgRipB of C17.analysis_clique_graph_valid_partial)".into());
    }
    if !o.b("ne") {
        return Err("a live clique of the tree returned by merge_cliques (clique_graph) has an empty supernode (hypothesis cgNonemptyB of C17.analysis_clique_graph_valid_partial)".into());
    }
    Ok(())
}

fn hash_line(s: &str) -> u64 {
    let mut h = 0xcbf29ce484222325u64;
    for b in s.bytes() {
        h = (h ^ b as u64).wrapping_mul(0x100000001b3);
    }
    h
}

/// A copy of the tree returned for the analysis request `req`, corrupted in one place
/// (`kind` 0: unchanged).  Uses its own random stream so that the session's stream is untouched.
fn corrupted_tree_line(req: &Req, out: &Req, rng: &mut Rng) -> Option<String> {
    let n = req.u("n");
    let mut edges = req_edges(req);
    let mut t = parse_tree(out);
    let mut ord = out.us("ordering");
    let k = t.snode.len();
    if n == 0 || k == 0 || t.snode_post.is_empty() || t.separators.len() != k || t.snode_parent.len() != k {
        return None;
    }
    let live = t.snode_post.clone();
    let lc = live[rng.below(live.len())].min(k - 1); // a live clique
    let kind = if rng.bool(0.1) { 0 } else { 1 + rng.below(19) };
    match kind {
        0 => {}
        1 => {
            // drop a vertex of a separator
            let c = (0..k).filter(|&c| !t.separators[c].is_empty()).collect::<Vec<_>>();
            if let Some(&c) = c.get(rng.below(c.len().max(1))) {
                let i = rng.below(t.separators[c].len());
                t.separators[c].remove(i);
            }
        }
        2 => t.separators[lc].push(rng.below(n)), // extra separator vertex (possibly a repetition)
        3 => {
            // replace a separator vertex
            if !t.separators[lc].is_empty() {
                let i = rng.below(t.separators[lc].len());
                t.separators[lc][i] = rng.below(n);
            }
        }
        4 => {
            // redirect a parent pointer
            let cands = [NO_PARENT, INACTIVE, rng.below(k), live[rng.below(live.len())], k];
            t.snode_parent[lc] = cands[rng.below(cands.len())];
        }
        5 => {
            // permute the post-order
            let (i, j) = (rng.below(live.len()), rng.below(live.len()));
            t.snode_post.swap(i, j);
        }
        6 => {
            // nblk off by one / swapped / missing
            match t.nblk.as_mut() {
                Some(nb) if !nb.is_empty() && rng.bool(0.8) => {
                    let i = rng.below(nb.len());
                    match rng.below(3) {
                        0 => nb[i] += 1,
                        1 => nb[i] = nb[i].saturating_sub(1),
                        _ => {
                            let j = rng.below(nb.len());
                            nb.swap(i, j);
                        }
                    }
                }
                _ => t.nblk = None,
            }
        }
        7 => {
            // move a vertex to another supernode
            let to = live[rng.below(live.len())].min(k - 1);
            if let Some(v) = t.snode[lc].pop() {
                t.snode[to].push(v);
            }
        }
        8 => {
            // a live clique disappears from the post-order
            t.snode_post.pop();
            t.n_cliques = t.n_cliques.saturating_sub(1);
        }
        9 => {
            // children list: drop / add an entry
            if t.snode_children.len() == k {
                if !t.snode_children[lc].is_empty() && rng.bool(0.5) {
                    t.snode_children[lc].pop();
                } else {
                    t.snode_children[lc].push(rng.below(k));
                }
            }
        }
        10 => t.n_cliques = if rng.bool(0.5) { t.n_cliques + 1 } else { t.n_cliques.saturating_sub(1) },
        11 => {
            // an extra pattern entry (covered or not)
            let (i, j) = (rng.below(n), rng.below(n));
            edges.push((i.min(j), i.max(j)));
        }
        12 => {
            // ordering: transposition (a permutation, coverage may break)
            let (i, j) = (rng.below(ord.len().max(1)), rng.below(ord.len().max(1)));
            if !ord.is_empty() {
                ord.swap(i, j);
            }
        }
        13 => {
            // ordering: not a permutation any more
            if !ord.is_empty() {
                let i = rng.below(ord.len());
                ord[i] = if rng.bool(0.5) { n } else { ord[rng.below(ord.len())] };
            }
        }
        14 => {
            // a dead clique becomes non-empty, or a second root
            let dead: Vec<usize> = (0..k).filter(|c| !live.contains(c)).collect();
            if !dead.is_empty() && rng.bool(0.6) {
                let d = dead[rng.below(dead.len())];
                if rng.bool(0.5) { t.snode[d].push(rng.below(n)) } else { t.separators[d].push(rng.below(n)) }
            } else {
                t.snode_parent[lc] = NO_PARENT;
            }
        }
        15 => {
            // supernode: replace a vertex (breaks the partition) or append a separator vertex to it
            if !t.snode[lc].is_empty() {
                let i = rng.below(t.snode[lc].len());
                t.snode[lc][i] = rng.below(n + 1);
            }
        }
        16 => {
            // post-order: a repeated / out-of-range entry
            let i = rng.below(t.snode_post.len());
            t.snode_post[i] = if rng.bool(0.5) { k } else { live[rng.below(live.len())] };
        }
        17 => {
            // the last clique of the post-order loses its largest vertex (the ranges stay consecutive)
            let c = (*t.snode_post.last().unwrap()).min(k - 1);
            if let Some(m) = t.snode[c].iter().copied().max() {
                t.snode[c].retain(|&v| v != m);
            }
        }
        18 => {
            // swap two entries of the post-order and renumber the supernodes consecutively in the
            // new order (separators keep their labels)
            let (i, j) = (rng.below(live.len()), live.len() - 1);
            t.snode_post.swap(i, j);
            let mut next = 0;
            for &c in &t.snode_post {
                if c < k {
                    let len = t.snode[c].len();
                    t.snode[c] = (next..next + len).collect();
                    next += len;
                }
            }
        }
        _ => {
            // two corruptions that may cancel: swap two vertices between the separators of two cliques
            let c2 = live[rng.below(live.len())].min(k - 1);
            if !t.separators[lc].is_empty() && !t.separators[c2].is_empty() {
                let (i, j) = (rng.below(t.separators[lc].len()), rng.below(t.separators[c2].len()));
                let (a, b) = (t.separators[lc][i], t.separators[c2][j]);
                t.separators[lc][i] = b;
                t.separators[c2][j] = a;
            }
        }
    }
    // half of the time the derived fields are made consistent with the corrupted ones again, so
    // that a single clause (separator = intersection, parents, ...) decides the verdict
    if kind != 0 && kind != 6 && rng.bool(0.5) {
        if let Some(nb) = t.nblk.as_mut() {
            if nb.len() == t.snode_post.len() {
                for (i, &c) in t.snode_post.iter().enumerate() {
                    if c < k {
                        nb[i] = t.snode[c].len() + t.separators[c].len();
                    }
                }
            }
        }
    }
    if (kind == 4 || kind == 14) && t.snode_children.len() == k && rng.bool(0.5) {
        for &c in &live {
            if c < k {
                t.snode_children[c] = live.iter().copied().filter(|&d| d < k && t.snode_parent[d] == c).collect();
            }
        }
    }
    let ei: Vec<usize> = edges.iter().map(|p| p.0).collect();
    let ej: Vec<usize> = edges.iter().map(|p| p.1).collect();
    Some(format!("tree.valid n={} ei={} ej={} {} ordering={} kind={}", n, fus(&ei), fus(&ej), fmt_tree(&t), fus(&ord), kind))
}

// ---- find_graph (symbolic factor + AMD ordering; external code, oracle only)

fn mask_of(n: usize, edges: &[(usize, usize)]) -> Vec<bool> {
    let mut m = vec![false; n * (n + 1) / 2];
    for k in 0..n {
        m[k * (k + 3) / 2] = true;
    }
    for &(i, j) in edges {
        let (i, j) = if i <= j { (i, j) } else { (j, i) };
        m[j * (j + 1) / 2 + i] = true;
    }
    m
}
fn run_find_graph(r: &Req) -> String {
    let n = r.u("n");
    let (l, ord) = hk::find_graph(&mask_of(n, &req_edges(r)));
    Line::out().u("n", l.n).us("colptr", &l.colptr).us("rowval", &l.rowval).us("ordering", &ord).done()
}
fn oracle_find_graph(r: &Req, out: &str) -> Result<(), String> {
    let n = r.u("n");
    let o = Req::parse(&format!("x {}", out)).ok_or("unparsable")?;
    if !o.has("colptr") {
        return Err(format!("find_graph failed: {}", out));
    }
    let (colptr, rowval, ord) = (o.us("colptr"), o.us("rowval"), o.us("ordering"));
    let mut inv = vec![usize::MAX; n];
    for (v, &x) in ord.iter().enumerate() {
        if x >= n || inv[x] != usize::MAX {
            return Err("ordering is not a permutation".into());
        }
        inv[x] = v;
    }
    if colptr.len() != n + 1 || colptr[n] != rowval.len() {
        return Err("colptr malformed".into());
    }
    let col = |j: usize| &rowval[colptr[j]..colptr[j + 1]];
    for j in 0..n {
        let c = col(j);
        if c.iter().any(|&i| i <= j || i >= n) || c.windows(2).any(|w| w[0] >= w[1]) {
            return Err(format!("column {} of L is not strictly lower / sorted", j));
        }
        if j + 1 < n && c.is_empty() {
            return Err(format!("column {} of L is empty (graph not connected)", j));
        }
        // elimination closure: the higher neighbours of j form a clique in L
        for (a, &i1) in c.iter().enumerate() {
            for &i2 in &c[a + 1..] {
                if !col(i1).contains(&i2) {
                    return Err(format!("L is not a chordal fill: ({},{}) missing", i2, i1));
                }
            }
        }
    }
    for (i, j) in req_edges(r) {
        let (a, b) = (inv[i].min(inv[j]), inv[i].max(inv[j]));
        if a != b && !col(a).contains(&b) {
            return Err(format!("pattern entry ({},{}) is not in L", i, j));
        }
    }
    Ok(())
}

// ---- ChordalInfo::new on [A;b] with one or several PSD cones (decision "decompose or not")

fn info_new_inner(r: &Req) -> String {
    use clarabel::solver::*;
    let dims = r.us("dims");
    let merge = r.str("merge");
    let nrows: usize = dims.iter().map(|&d| d * (d + 1) / 2).sum();
    let rows = r.us("rows"); // rows of [A;b] that are structurally nonzero
    let a = CscMatrix::new_from_triplets(nrows, 1, rows.clone(), vec![0; rows.len()], vec![1.0; rows.len()]);
    let b = vec![0.0; nrows];
    let cones: Vec<SupportedConeT<f64>> = dims.iter().map(|&d| SupportedConeT::PSDTriangleConeT(d)).collect();
    let settings = DefaultSettingsBuilder::default()
        .chordal_decomposition_merge_method(merge.to_string())
        .build()
        .unwrap();
    let info = hk::Info::new(&a, &b, &cones, &settings);
    let pats = info.patterns();
    let idx: Vec<usize> = pats.iter().map(|p| p.2).collect();
    let ncl: Vec<usize> = pats.iter().map(|p| p.0.n_cliques).collect();
    Line::out().us("decomposed", &idx).us("ncl", &ncl).done()
}
fn run_info_new(r: &Req) -> String {
    isolated(r, info_new_inner)
}
fn oracle_info_new(r: &Req, out: &str) -> Result<(), String> {
    if out == "hang" || out.starts_with("abort") || out.starts_with("panic") {
        return Err(format!("ChordalInfo::new did not return: {}", out));
    }
    let o = Req::parse(&format!("x {}", out)).ok_or("unparsable")?;
    let dec = o.us("decomposed");
    let ncl = o.us("ncl");
    let dims = r.us("dims");
    let rows: BTreeSet<usize> = r.us("rows").into_iter().collect();
    let dense = r.us("dense"); // per cone: 1 if the generator made the block dense
    let mut off = 0;
    for (ci, &d) in dims.iter().enumerate() {
        let len = d * (d + 1) / 2;
        // dense (with the diagonal forced) ?
        let mut all = true;
        for k in 0..len {
            let (mut c, mut acc) = (0usize, 0usize);
            while acc + c + 1 <= k {
                acc += c + 1;
                c += 1;
            }
            let is_diag = k - acc == c;
            if !is_diag && !rows.contains(&(off + k)) {
                all = false;
            }
        }
        if all != (dense[ci] == 1) {
            return Err("generator bookkeeping".into());
        }
        let is_dec = dec.contains(&ci);
        if all && is_dec {
            return Err(format!("dense cone {} was decomposed", ci));
        }
        if is_dec {
            let k = dec.iter().position(|&x| x == ci).unwrap();
            if ncl[k] < 2 {
                return Err(format!("cone {} recorded as decomposed with {} clique(s)", ci, ncl[k]));
            }
        }
        off += len;
    }
    if dec.windows(2).any(|w| w[0] >= w[1]) {
        return Err("decomposed cone indices not increasing".into());
    }
    Ok(())
}

fn channels() -> Vec<Channel> {
    vec![
        Channel { name: "dsu.ops", tol: Tol::Exact, run: run_dsu_ops, oracle: Some(oracle_dsu_ops), modelled: true,
            rust_fn: "DisjointSetUnion::{new,union,in_same_set,root}", lean: "Chordal.Dsu.runOps / C17.dsu_*" },
        Channel { name: "post_order", tol: Tol::Exact, run: run_post_order, oracle: Some(oracle_post_order), modelled: true,
            rust_fn: "supernode_tree::post_order", lean: "Chordal.postOrder / C17.post_order*" },
        Channel { name: "tri.batch", tol: Tol::Exact, run: run_tri_batch, oracle: Some(oracle_tri_batch), modelled: true,
            rust_fn: "scalarmath::{triangular_number,triangular_index,upper_triangular_index_to_coord,coord_to_upper_triangular_index}",
            lean: "Chordal.{triangularNumber,triangularIndex,upperTriangularIndexToCoord,coordToUpperTriangularIndex} / C17.tri_index*" },
        Channel { name: "split_cliques", tol: Tol::Exact, run: run_split_cliques, oracle: Some(oracle_split_cliques), modelled: true,
            rust_fn: "clique_graph::split_cliques", lean: "Chordal.splitCliques / C17.split_cliques" },
        Channel { name: "find_graph", tol: Tol::Exact, run: run_find_graph, oracle: Some(oracle_find_graph), modelled: false,
            rust_fn: "chordal_info::find_graph (QDLDL symbolic + AMD, connect_graph)", lean: "(input of the model)" },
        Channel { name: "sntree.new", tol: Tol::Exact, run: run_sntree_new, oracle: None, modelled: true,
            rust_fn: "SuperNodeTree::new (parent_from_L, post_order, pothen_sun, find_supernodes, find_separators; new_vertex_sets = the empty sets these start from; the accessor get_post_order has no caller)",
            lean: "Chordal.SuperNodeTree.new" },
        Channel { name: "analysis", tol: Tol::Exact, run: run_analysis, oracle: Some(oracle_analysis), modelled: true,
            rust_fn: "SparsityPattern::new (none / parent_child merge: MergeStrategy::merge_cliques loop `while !is_done`, ParentChildMergeStrategy::{initialise, is_done, traverse, evaluate, merge_two_cliques, update_strategy, post_process_merge}, determine_parent; reorder_snode_consecutively, calculate_block_dimensions)",
            lean: "Chordal.sparsityPatternNew" },
        Channel { name: "analysis.cg", tol: Tol::Exact, run: run_analysis, oracle: Some(oracle_analysis), modelled: true,
            rust_fn: "SparsityPattern::new (clique_graph merge: merge_cliques loop `while !is_done`, CliqueGraphMergeStrategy::is_done, find_components / DFS_hashtable inside compute_reduced_clique_graph, determine_parent_cliques)", lean: "Chordal.sparsityPatternNewCG (CGStrategy.{initialise,traverse,evaluate,mergeTwoCliques,updateStrategy,postProcessMerge}, IMat, kruskal, ...)" },
        Channel { name: "cg.trace", tol: Tol::Exact, run: run_cg_trace, oracle: Some(oracle_cg_trace), modelled: true,
            rust_fn: "CliqueGraphMergeStrategy::{initialise,traverse,evaluate,merge_two_cliques,update_strategy} pass by pass (compute_reduced_clique_graph, compute_weights, new_from_triplets, compute_adjacency_table, max_elem, ispermissible, set_entry, dropzeros)",
            lean: "Chordal.CGStrategy.mergeTrace / CGSnap.digest, cgInvClauses (= CGInv, Lemmas/ChordalCGDefs.lean), cgRipB, cgNonemptyB / C17.analysis_clique_graph_valid_partial" },
        Channel { name: "tree.valid", tol: Tol::Exact, run: run_tree_valid, oracle: Some(oracle_tree_valid), modelled: true,
            rust_fn: "(harness oracle check_clique_tree, on corrupted copies of the analysis output)",
            lean: "Chordal.validCliqueTreeB / Chordal.validCliqueTreeB_iff" },
        Channel { name: "hyp.analysis", tol: Tol::Exact, run: run_analysis_hyp, oracle: Some(oracle_analysis_hyp), modelled: true,
            rust_fn: "(hypotheses of the pipeline theorems on find_graph's output: filled pattern, permutation, pattern ⊆ L)",
            lean: "Chordal.LPat.filledB / LPat.filledB_iff, clOrderingPerm, LPat.edgesInB / LPat.edgesInB_sound" },
        Channel { name: "info.new", tol: Tol::Exact, run: run_info_new, oracle: Some(oracle_info_new), modelled: false,
            rust_fn: "ChordalInfo::new / analyse_psdtriangle_sparsity_pattern", lean: "(oracle only)" },
        Channel { name: "batch", tol: Tol::Exact, run: run_batch, oracle: None, modelled: false,
            rust_fn: "(isolation wrapper)", lean: "" },
    ]
}

// ------------------------------------------------------------------ generators

type Graph = (usize, Vec<(usize, usize)>);

fn all_graphs(n: usize) -> Vec<Graph> {
    let pairs: Vec<(usize, usize)> = (0..n).flat_map(|j| (0..j).map(move |i| (i, j))).collect();
    (0u64..(1u64 << pairs.len()))
        .map(|m| (n, pairs.iter().enumerate().filter(|(k, _)| m >> k & 1 == 1).map(|(_, &p)| p).collect()))
        .collect()
}

fn random_graph(rng: &mut Rng, nmax: usize) -> (Graph, &'static str) {
    let n = 2 + rng.below(nmax - 1);
    let mut e: BTreeSet<(usize, usize)> = BTreeSet::new();
    let fam = rng.below(8);
    let name = match fam {
        0 => {
            // banded
            let bw = 1 + rng.below(4.min(n - 1));
            for j in 0..n {
                for i in j.saturating_sub(bw)..j {
                    if rng.bool(0.9) {
                        e.insert((i, j));
                    }
                }
            }
            "banded"
        }
        1 => {
            // arrow (dense last rows + band)
            let w = 1 + rng.below(3.min(n - 1));
            for j in 0..n {
                for i in 0..j {
                    if j >= n - w || i + 1 == j && rng.bool(0.5) {
                        e.insert((i, j));
                    }
                }
            }
            "arrow"
        }
        2 => {
            // block diagonal with dense / sparse blocks
            let mut s = 0;
            while s < n {
                let b = 1 + rng.below(6.min(n - s));
                let p = *rng.choose(&[1.0, 0.6, 0.3]);
                for j in s..s + b {
                    for i in s..j {
                        if rng.bool(p) {
                            e.insert((i, j));
                        }
                    }
                }
                s += b;
            }
            "blockdiag"
        }
        3 => {
            // disconnected sparse
            let p = 1.2 / n as f64;
            for j in 0..n {
                for i in 0..j {
                    if rng.bool(p) {
                        e.insert((i, j));
                    }
                }
            }
            "disconnected"
        }
        4 => {
            // random chordal: k-tree like construction, then relabel
            let k = 1 + rng.below(3);
            let perm = rng.perm(n);
            let mut cliques: Vec<Vec<usize>> = vec![];
            for v in 0..n {
                if v <= k {
                    for u in 0..v {
                        e.insert(ord(perm[u], perm[v]));
                    }
                    if v == k || v == n - 1 {
                        cliques.push((0..=v).collect());
                    }
                } else {
                    let c = cliques[rng.below(cliques.len())].clone();
                    let mut sub = c.clone();
                    rng.shuffle(&mut sub);
                    sub.truncate(k.min(sub.len()));
                    for &u in &sub {
                        e.insert(ord(perm[u], perm[v]));
                    }
                    sub.push(v);
                    cliques.push(sub);
                }
            }
            "chordal"
        }
        5 => {
            // cycles and grids (non-chordal)
            let w = 2 + rng.below(6);
            for v in 0..n {
                if (v + 1) % w != 0 && v + 1 < n {
                    e.insert((v, v + 1));
                }
                if v + w < n {
                    e.insert((v, v + w));
                }
            }
            if rng.bool(0.5) {
                e.insert((0, n - 1));
            }
            "grid"
        }
        6 => {
            // random with given density
            let p = *rng.choose(&[0.05, 0.1, 0.2, 0.4, 0.7]);
            for j in 0..n {
                for i in 0..j {
                    if rng.bool(p) {
                        e.insert((i, j));
                    }
                }
            }
            "random"
        }
        _ => {
            // overlapping blocks along the diagonal (the typical decomposable SDP)
            let mut s = 0;
            while s + 1 < n {
                let b = 2 + rng.below(5.min(n - s - 1));
                let hi = (s + b).min(n);
                for j in s..hi {
                    for i in s..j {
                        e.insert((i, j));
                    }
                }
                let ov = 1 + rng.below((b - 1).max(1));
                s = hi - ov.min(hi - s - 1).max(0);
                if hi == n {
                    break;
                }
            }
            "overlap-blocks"
        }
    };
    e.remove(&(0, 0));
    ((n, e.into_iter().filter(|&(i, j)| i < j && j < n).collect()), name)
}
fn ord(a: usize, b: usize) -> (usize, usize) {
    (a.min(b), a.max(b))
}

fn graph_line(chan: &str, g: &Graph) -> Line {
    let ei: Vec<usize> = g.1.iter().map(|p| p.0).collect();
    let ej: Vec<usize> = g.1.iter().map(|p| p.1).collect();
    Line::new(chan).u("n", g.0).us("ei", &ei).us("ej", &ej)
}

/// find_graph in-process (symbolic factorisation; cannot loop), then the analysis lines
fn analysis_lines(s: &mut Session, g: &Graph, with_sntree: bool) -> Vec<String> {
    let fg = s.submit(graph_line("find_graph", g).done());
    let o = match Req::parse(&format!("x {}", fg)) {
        Some(o) if o.has("colptr") => o,
        _ => return vec![],
    };
    let mut lines = vec![];
    let ei: Vec<usize> = g.1.iter().map(|p| p.0).collect();
    let ej: Vec<usize> = g.1.iter().map(|p| p.1).collect();
    for (chan, merge) in [("analysis", "none"), ("analysis", "parent_child"), ("analysis.cg", "clique_graph")] {
        lines.push(
            Line::new(chan)
                .u("n", g.0)
                .us("colptr", &o.us("colptr"))
                .us("rowval", &o.us("rowval"))
                .us("ordering", &o.us("ordering"))
                .s("merge", merge)
                .us("ei", &ei)
                .us("ej", &ej)
                .done(),
        );
    }
    // the hypotheses of the pipeline theorems on this symbolic factor / ordering / pattern
    lines.push(
        Line::new("hyp.analysis")
            .u("n", g.0)
            .us("colptr", &o.us("colptr"))
            .us("rowval", &o.us("rowval"))
            .us("ordering", &o.us("ordering"))
            .us("ei", &ei)
            .us("ej", &ej)
            .done(),
    );
    // the clique-graph strategy pass by pass on this symbolic factor
    lines.push(Line::new("cg.trace").u("n", g.0).us("colptr", &o.us("colptr")).us("rowval", &o.us("rowval")).done());
    if with_sntree {
        lines.push(Line::new("sntree.new").u("n", g.0).us("colptr", &o.us("colptr")).us("rowval", &o.us("rowval")).done());
    }
    lines
}

fn run_lines(s: &mut Session, lines: Vec<String>, per_child: usize) {
    prefetch(&lines, per_child);
    let mut corrupted = vec![];
    for l in lines {
        let is_analysis = l.starts_with("analysis");
        let merge = if l.contains("merge=none") { "none" } else if l.contains("merge=parent_child") { "parent_child" } else { "clique_graph" };
        let out = s.submit(l.clone());
        if is_analysis {
            if let Some(o) = Req::parse(&format!("x {}", out)) {
                if o.has("ncl") && o.has("snode_len") && o.has("ordering") {
                    // the two validity checkers against each other on a corrupted copy (own random
                    // stream, derived from the request; every third small case, every large one)
                    let mut rng = Rng::new(hash_line(&l) ^ s.seed);
                    let req = Req::parse(&l).unwrap();
                    if req.u("n") > 7 || rng.below(3) == 0 {
                        let made = std::panic::catch_unwind(std::panic::AssertUnwindSafe(|| corrupted_tree_line(&req, &o, &mut rng)));
                        if let Ok(Some(cl)) = made {
                            corrupted.push(cl);
                        }
                    }
                }
                if o.has("ncl") && o.has("snode_len") {
                    let ncl = o.u("ncl");
                    let before = o.us("snode_len").len();
                    let bucket = if ncl == 1 { "1" } else if ncl <= 3 { "2-3" } else if ncl <= 10 { "4-10" } else { ">10" };
                    s.count(&format!("result:{}:cliques={}", merge, bucket));
                    if before > ncl {
                        s.count(&format!("result:{}:merged-some", merge));
                    }
                }
            }
        }
    }
    for cl in corrupted {
        let kind = cl.rsplit("kind=").next().unwrap_or("?").to_string();
        let out = s.submit(cl);
        s.count(&format!("tree.valid:kind={}:{}", kind, out));
    }
}

fn gen_dsu(s: &mut Session) {
    // exhaustive: every sequence of <= 3 unions over ordered pairs (self pairs included),
    // followed by root of every element and in_same_set of every pair
    if !s.is_searching() {
        let nmax = if s.thorough() { 5 } else { 4 };
        for n in 1..=nmax {
            let pairs: Vec<(usize, usize)> = (0..n).flat_map(|x| (0..n).map(move |y| (x, y))).collect();
            let depth = if n <= 3 { 4 } else { 3 };
            let mut seqs: Vec<Vec<(usize, usize)>> = vec![vec![]];
            for _ in 0..depth {
                let mut next = vec![];
                for sq in &seqs {
                    if sq.len() + 1 > depth {
                        continue;
                    }
                    for &p in &pairs {
                        let mut q = sq.clone();
                        q.push(p);
                        next.push(q);
                    }
                }
                for sq in next.iter() {
                    dsu_case(s, n, sq, true);
                }
                seqs = next;
            }
            s.count(&format!("dsu-exhaustive:n={}", n));
        }
    }
    // tournaments: build rank-k trees (depth k) over 2^k elements, then query everything
    for _ in 0..s.budget(150, 4000) {
        let k = 2 + s.rng.below(3); // 4, 8, 16 elements
        let n = (1usize << k) + s.rng.below(3);
        let perm = s.rng.perm(n);
        let mut unions = vec![];
        let mut stride = 1;
        while stride < (1 << k) {
            let mut i = 0;
            while i + stride < (1 << k) {
                // any member of each block
                let x = perm[i + s.rng.below(stride)];
                let y = perm[i + stride + s.rng.below(stride)];
                unions.push(if s.rng.bool(0.5) { (x, y) } else { (y, x) });
                i += 2 * stride;
            }
            stride *= 2;
        }
        s.count("dsu-tournament");
        dsu_case(s, n, &unions, true);
    }
    // random histories with interleaved queries
    for _ in 0..s.budget(300, 8000) {
        let n = 1 + s.rng.below(if s.thorough() { 40 } else { 24 });
        let len = s.rng.below(3 * n + 2);
        let (mut kind, mut a, mut b) = (vec![], vec![], vec![]);
        for _ in 0..len {
            let kd = *s.rng.choose(&[0usize, 0, 0, 1, 1, 2]);
            kind.push(kd);
            a.push(s.rng.below(n));
            b.push(s.rng.below(n));
        }
        // final sweep
        for x in 0..n {
            kind.push(2);
            a.push(x);
            b.push(0);
        }
        for _ in 0..n {
            kind.push(1);
            a.push(s.rng.below(n));
            b.push(s.rng.below(n));
        }
        s.count("dsu-random");
        s.submit(Line::new("dsu.ops").u("n", n).us("kind", &kind).us("a", &a).us("b", &b).done());
    }
}
fn dsu_case(s: &mut Session, n: usize, unions: &[(usize, usize)], sweep: bool) {
    let (mut kind, mut a, mut b) = (vec![], vec![], vec![]);
    for &(x, y) in unions {
        kind.push(0);
        a.push(x);
        b.push(y);
    }
    if sweep {
        for x in 0..n {
            for y in 0..n {
                if n <= 8 || s.rng.bool(0.3) {
                    kind.push(1);
                    a.push(x);
                    b.push(y);
                }
            }
        }
        for x in 0..n {
            kind.push(2);
            a.push(x);
            b.push(0);
        }
    }
    s.submit(Line::new("dsu.ops").u("n", n).us("kind", &kind).us("a", &a).us("b", &b).done());
}

fn gen_post_order(s: &mut Session) {
    let mut lines = vec![];
    for _ in 0..s.budget(400, 10000) {
        let cap = if s.rng.bool(0.8) { 12 } else { 60 };
        let n = 1 + s.rng.below(cap);
        let label = s.rng.perm(n);
        let mut parent = vec![NO_PARENT; n];
        // random recursive forest on positions, relabelled
        let n_inactive = if s.rng.bool(0.4) { s.rng.below(n) } else { 0 };
        let n_live = n - n_inactive;
        let extra_roots = if s.rng.bool(0.15) { 1 + s.rng.below(2) } else { 0 };
        for k in 0..n {
            let v = label[k];
            if k >= n_live {
                parent[v] = INACTIVE;
            } else if k == 0 || (k <= extra_roots) {
                parent[v] = NO_PARENT;
            } else {
                let shape = s.rng.below(3);
                let pk = match shape {
                    0 => s.rng.below(k),         // random recursive
                    1 => k - 1,                  // path
                    _ => s.rng.below(k.min(2)),  // bushy
                };
                parent[v] = label[pk];
            }
        }
        if n_live == 0 {
            continue;
        }
        let mut ch: Vec<Vec<usize>> = vec![vec![]; n];
        let mut order: Vec<usize> = (0..n).collect();
        s.rng.shuffle(&mut order);
        for &v in &order {
            if parent[v] < n {
                ch[parent[v]].push(v);
            }
        }
        let (_, reach) = reachable_from_first_root(&parent).unwrap();
        let nreach = reach.iter().filter(|&&b| b).count();
        let nc = if s.rng.bool(0.85) { nreach } else { nreach + s.rng.below(n - nreach + 1) };
        s.count(if nc == n { "post_order:full" } else { "post_order:truncated" });
        lines.push(format!("post_order parent={} {} nc={}", fus(&parent), fmt_sets("ch", &ch), nc));
    }
    run_lines(s, lines, 200);
}

fn gen_tri(s: &mut Session) {
    let hi = if s.thorough() { 200_000 } else { 10_000 };
    let step = 2500;
    let mut lo = 0;
    while lo < hi {
        s.submit(Line::new("tri.batch").u("lo", lo).u("hi", (lo + step).min(hi)).done());
        lo += step;
    }
    // far out (isqrt through f64 is exact below 2^52)
    for _ in 0..s.budget(20, 200) {
        let lo = (s.rng.next_u64() % (1u64 << 40)) as usize;
        s.submit(Line::new("tri.batch").u("lo", lo).u("hi", lo + 50).done());
    }
    // column boundaries
    for c in [1usize, 2, 3, 100, 1000, 65535, 65536, 1 << 20, (1 << 26) - 1] {
        let k = c * (c + 1) / 2;
        s.submit(Line::new("tri.batch").u("lo", k.saturating_sub(3)).u("hi", k + 3).done());
    }
}

fn gen_split(s: &mut Session) {
    for _ in 0..s.budget(300, 8000) {
        let k = 2 + s.rng.below(7);
        let nv = 3 + s.rng.below(14);
        // random tree on k cliques with a post-order (children before parents)
        let label = s.rng.perm(k);
        let mut par = vec![NO_PARENT; k];
        for q in 1..k {
            par[label[q]] = label[s.rng.below(q)];
        }
        // post: reverse of the creation order is a valid children-first order
        let post: Vec<usize> = (0..k).rev().map(|q| label[q]).collect();
        let mut cl: Vec<Vec<usize>> = vec![vec![]; k];
        for q in 0..k {
            let c = label[q];
            let mut set: BTreeSet<usize> = BTreeSet::new();
            if q > 0 {
                for &v in &cl[par[c]] {
                    if s.rng.bool(0.5) {
                        set.insert(v);
                    }
                }
            }
            for _ in 0..1 + s.rng.below(4) {
                set.insert(s.rng.below(nv));
            }
            let mut v: Vec<usize> = set.into_iter().collect();
            s.rng.shuffle(&mut v);
            cl[c] = v;
        }
        // some trailing dead cliques
        let dead = s.rng.below(3);
        for _ in 0..dead {
            cl.push(vec![]);
            par.push(INACTIVE);
        }
        let seps: Vec<Vec<usize>> = cl.iter().map(|_| if s.rng.bool(0.5) { vec![] } else { vec![s.rng.below(nv)] }).collect();
        s.submit(format!("split_cliques {} {} par={} spost={} nc={}", fmt_sets("snode", &cl), fmt_sets("sep", &seps), fus(&par), fus(&post), k));
    }
}

fn gen_analysis(s: &mut Session) {
    // exhaustive small graphs
    if !s.is_searching() {
        let nmax = if s.thorough() { 6 } else { 5 };
        for n in 2..=nmax {
            let mut lines = vec![];
            for g in all_graphs(n) {
                lines.extend(analysis_lines(s, &g, n <= 4));
            }
            s.count(&format!("graphs-exhaustive:n={}", n));
            run_lines(s, lines, 400);
        }
        if !s.thorough() {
            // quick tier: samples of the graphs on 6 and 7 vertices (exhaustive n = 6 in thorough)
            let mut lines = vec![];
            for (nv, cnt) in [(6usize, 1500usize), (7, 700)] {
                let pairs: Vec<(usize, usize)> = (0..nv).flat_map(|j| (0..j).map(move |i| (i, j))).collect();
                for _ in 0..cnt {
                    let m = s.rng.next_u64() & ((1u64 << pairs.len()) - 1);
                    // vary the density: and-ing two masks thins the graph out
                    let m = if s.rng.bool(0.5) { m & s.rng.next_u64() } else { m };
                    let g: Graph = (nv, pairs.iter().enumerate().filter(|(k, _)| m >> k & 1 == 1).map(|(_, &p)| p).collect());
                    lines.extend(analysis_lines(s, &g, false));
                }
                s.count(&format!("graphs-sampled:n={}", nv));
            }
            run_lines(s, lines, 400);
        }
        if s.thorough() {
            // n = 7: a sample of the 2^21 graphs
            let mut lines = vec![];
            for _ in 0..30000 {
                let m = s.rng.next_u64() & ((1 << 21) - 1);
                let pairs: Vec<(usize, usize)> = (0..7usize).flat_map(|j| (0..j).map(move |i| (i, j))).collect();
                let g: Graph = (7, pairs.iter().enumerate().filter(|(k, _)| m >> k & 1 == 1).map(|(_, &p)| p).collect());
                lines.extend(analysis_lines(s, &g, false));
            }
            s.count("graphs-sampled:n=7");
            run_lines(s, lines, 400);
        }
    }
    // random families
    let nmax = if s.thorough() { 300 } else { 120 };
    let mut lines = vec![];
    for k in 0..s.budget(1200, 4000) {
        let cap = if k % 8 == 0 { nmax } else { 40 };
        let (g, fam) = random_graph(&mut s.rng, cap);
        s.count(&format!("graph:{}", fam));
        s.count(&format!("graph-size:{}", if g.0 <= 10 { "<=10" } else if g.0 <= 40 { "<=40" } else { ">40" }));
        lines.extend(analysis_lines(s, &g, true));
    }
    run_lines(s, lines, 40);

    // ChordalInfo::new : several PSD cones, dense / sparse / tiny
    let mut lines = vec![];
    for _ in 0..s.budget(150, 2000) {
        let ncones = 1 + s.rng.below(3);
        let mut dims = vec![];
        let mut rows = vec![];
        let mut dense = vec![];
        let mut off = 0;
        for _ in 0..ncones {
            let mode = s.rng.below(4);
            let ((n, e), is_dense) = match mode {
                0 => {
                    let n = 2 + s.rng.below(6);
                    ((n, (0..n).flat_map(|j| (0..j).map(move |i| (i, j))).collect::<Vec<_>>()), true)
                }
                _ => {
                    let (g, _) = random_graph(&mut s.rng, 14);
                    let full = g.1.len() == g.0 * (g.0 - 1) / 2;
                    (g, full)
                }
            };
            for &(i, j) in &e {
                rows.push(off + j * (j + 1) / 2 + i);
            }
            // sometimes also mark a few diagonal entries
            for d in 0..n {
                if s.rng.bool(0.5) {
                    rows.push(off + d * (d + 3) / 2);
                }
            }
            dims.push(n);
            dense.push(is_dense as usize);
            off += n * (n + 1) / 2;
        }
        rows.sort();
        rows.dedup();
        let merge = *s.rng.choose(&["none", "parent_child", "clique_graph"]);
        lines.push(Line::new("info.new").us("dims", &dims).us("rows", &rows).us("dense", &dense).s("merge", merge).done());
    }
    run_lines(s, lines, 30);
}

fn generate(s: &mut Session) {
    gen_dsu(s);
    gen_tri(s);
    gen_split(s);
    gen_post_order(s);
    gen_analysis(s);
}

fn main() {
    Session::from_args("C17", channels()).run(generate)
}
