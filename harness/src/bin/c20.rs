//! C20 — solver output is routed faithfully and says what the solver did.
//!
//! Channels
//!   print.exp_reformat   `_exp_str_reformat` (hook) vs `Print.expStrReformat`
//!   print.conedims       `_print_conedims_by_type` (hook) vs `Print.printConedimsByType`
//!   print.status_line    `DefaultInfo::print_status` vs `Print.statusLine`
//!   print.footer         `DefaultInfo::print_footer` (first two lines) vs `Print.footerHead`
//!   print.log            iteration column / extra line / footer of a whole solve vs the skeleton
//!   print.targets        implementation-only: buffer = stream = file, table and header vs solver
//!   print.stdout         implementation-only, in a child process: stdout with verbose on / off
#![allow(non_snake_case)]
#![allow(dead_code)]
use vharness::*;

#[path = "c04.rs"]
#[allow(unused_imports)]
mod c04;
use c04::common::*;

use clarabel::algebra::*;
use clarabel::io::ConfigurablePrintTarget;
use clarabel::solver::traits::InfoPrint;
use clarabel::solver::*;
use clarabel::verif_hooks::cones::{CompositeCone, Cone};
use std::io::Write;
use std::sync::{Arc, Mutex};
use vharness::gen::Vals;

fn hex(s: &str) -> String {
    if s.is_empty() {
        return "-".into();
    }
    s.bytes().map(|b| format!("{:02x}", b)).collect()
}
fn unhex(h: &str) -> String {
    if h == "-" {
        return String::new();
    }
    let b: Vec<u8> = (0..h.len() / 2).map(|i| u8::from_str_radix(&h[2 * i..2 * i + 2], 16).unwrap()).collect();
    String::from_utf8(b).unwrap()
}

// ---------------------------------------------------------------- print.exp_reformat

fn run_exp_reformat(r: &Req) -> String {
    let s = unhex(r.str("s"));
    format!("ok s={}", hex(&verif_hooks_info::print::exp_str_reformat(s)))
}
fn oracle_exp_reformat(r: &Req, out: &str) -> Result<(), String> {
    let s = unhex(r.str("s"));
    // the shape Rust's LowerExp produces: mantissa 'e' ['-'] digits
    let shaped = match s.split_once('e') {
        Some((m, e)) => {
            !m.is_empty() && !m.contains('e')
                && { let d = e.strip_prefix('-').unwrap_or(e); !d.is_empty() && d.bytes().all(|c| c.is_ascii_digit()) }
        }
        None => false,
    };
    if !shaped {
        return Ok(());
    }
    let o = out.strip_prefix("ok s=").ok_or_else(|| format!("well-formed input rejected: {}", out))?;
    let o = unhex(o);
    let (m0, e0) = s.split_once('e').unwrap();
    let (m1, e1) = o.split_once('e').ok_or("no e in output")?;
    if m0 != m1 {
        return Err(format!("mantissa changed: {} -> {}", s, o));
    }
    let sign = e1.as_bytes()[0];
    if sign != b'+' && sign != b'-' {
        return Err(format!("no exponent sign in {}", o));
    }
    let d = &e1[1..];
    if d.len() < 2 || !d.bytes().all(|c| c.is_ascii_digit()) {
        return Err(format!("exponent of {} has fewer than two digits", o));
    }
    let v0: i64 = e0.parse().map_err(|_| "exp")?;
    let v1: i64 = e1.parse().map_err(|_| "exp")?;
    if v0 != v1 {
        return Err(format!("exponent value changed: {} -> {}", s, o));
    }
    if d.len() > 2 && d.starts_with('0') {
        return Err(format!("superfluous leading zero in {}", o));
    }
    Ok(())
}

// ---------------------------------------------------------------- print.conedims

fn cones_from(tags: &[usize], numel: &[usize]) -> Vec<SupportedConeT<f64>> {
    tags.iter().zip(numel).map(|(&t, &k)| match t {
        0 => ZeroConeT(k),
        1 => NonnegativeConeT(k),
        2 => SecondOrderConeT(k),
        3 => ExponentialConeT(),
        4 => PowerConeT(0.5),
        5 => GenPowerConeT(vec![0.5, 0.5], k - 2),
        6 => {
            let mut n = 0;
            while n * (n + 1) / 2 < k { n += 1; }
            PSDTriangleConeT(n)
        }
        _ => panic!("tag"),
    }).collect()
}
fn run_conedims(r: &Req) -> String {
    let cones = cones_from(&r.us("tags"), &r.us("numel"));
    let cc = CompositeCone::<f64>::new(&cones);
    format!("s={}", hex(&verif_hooks_info::print::conedims_by_type(&cc, r.u("tag"))))
}
fn oracle_conedims(r: &Req, out: &str) -> Result<(), String> {
    let tags = r.us("tags");
    let numel = r.us("numel");
    let tag = r.u("tag");
    let mine: Vec<usize> = tags.iter().zip(&numel).filter(|(t, _)| **t == tag).map(|(_, k)| *k).collect();
    let text = unhex(out.strip_prefix("s=").ok_or("no text")?);
    if mine.is_empty() {
        return if text.is_empty() { Ok(()) } else { Err("line printed for an absent cone type".into()) };
    }
    // "    : <name> = <count>,  numel = ..."
    let after = text.split(" = ").nth(1).ok_or("no count")?;
    let count: usize = after.split(',').next().unwrap().trim().parse().map_err(|_| "count")?;
    if count != mine.len() {
        return Err(format!("printed count {} but {} cones of that type", count, mine.len()));
    }
    let nums: Vec<usize> = text.split("numel = ").nth(1).ok_or("no numel")?
        .trim().trim_matches(|c| c == '(' || c == ')').split(',').filter_map(|t| t.parse().ok()).collect();
    let want: Vec<usize> = if mine.len() <= 5 { mine.clone() } else {
        let mut w = mine[..4].to_vec(); w.push(*mine.last().unwrap()); w };
    if nums != want {
        return Err(format!("printed numels {:?} expected {:?}", nums, want));
    }
    if (mine.len() > 5) != text.contains("...") {
        return Err("elision marker".into());
    }
    Ok(())
}

// ---------------------------------------------------------------- print.status_line / footer

fn run_status_line(r: &Req) -> String {
    let v = r.fs("vals");
    let mut i = DefaultInfo::<f64>::new();
    i.iterations = r.u("iters") as u32;
    i.cost_primal = v[0];
    i.cost_dual = v[1];
    i.gap_abs = v[2];
    i.gap_rel = v[2];
    i.res_primal = v[3];
    i.res_dual = v[4];
    i.ktratio = v[5];
    i.μ = v[6];
    i.step_length = v[7];
    i.print_to_buffer();
    let s = DefaultSettings::<f64>::default();
    i.print_status(&s).unwrap();
    format!("s={}", hex(&i.get_print_buffer().unwrap()))
}
fn run_footer(r: &Req) -> String {
    let mut i = DefaultInfo::<f64>::new();
    i.status = c04_status(r.str("status"));
    i.print_to_buffer();
    let s = DefaultSettings::<f64>::default();
    i.print_footer(&s).unwrap();
    let b = i.get_print_buffer().unwrap();
    let two: String = b.split_inclusive('\n').take(2).collect();
    format!("s={}", hex(&two))
}
fn c04_status(s: &str) -> SolverStatus {
    use SolverStatus::*;
    match s {
        "Unsolved" => Unsolved, "Solved" => Solved, "PrimalInfeasible" => PrimalInfeasible,
        "DualInfeasible" => DualInfeasible, "AlmostSolved" => AlmostSolved,
        "AlmostPrimalInfeasible" => AlmostPrimalInfeasible, "AlmostDualInfeasible" => AlmostDualInfeasible,
        "MaxIterations" => MaxIterations, "MaxTime" => MaxTime, "NumericalError" => NumericalError,
        "InsufficientProgress" => InsufficientProgress, _ => panic!("status {}", s),
    }
}

// ---------------------------------------------------------------- print.log

fn footer_status(log: &str) -> String {
    log.lines().find_map(|l| l.strip_prefix("Terminated with status = ")).unwrap_or("-").trim().to_string()
}
fn run_log(r: &Req) -> String {
    let p = req_prob(r);
    let s = req_settings(r);
    let o = solve_observed(&p, s);
    let col = iteration_column(&o.log);
    let rows: Vec<String> = col.iter().map(|x| x.to_string()).collect();
    format!("rows={} nstatus={} extra={} footer={} status={:?} iterations={}",
        rows.join(","), col.len(), (o.info_step_length == 0.0) as u8, footer_status(&o.log), o.status, o.iterations)
}
fn oracle_log(r: &Req, out: &str) -> Result<(), String> {
    if out.starts_with("panic") {
        return Err(out.to_string());
    }
    let verbose = r.b("verbose");
    let rows: Vec<usize> = field(out, "rows").unwrap_or("").split(',').filter(|s| !s.is_empty())
        .map(|s| s.parse().unwrap_or(usize::MAX)).collect();
    let footer = field(out, "footer").unwrap_or("");
    let status = field(out, "status").unwrap_or("");
    let iterations: usize = field(out, "iterations").unwrap_or("0").parse().unwrap_or(usize::MAX);
    if !verbose {
        if !rows.is_empty() || footer != "-" {
            return Err("output although verbose = false".into());
        }
        return Ok(());
    }
    if rows.first() != Some(&0) {
        return Err(format!("iteration column starts with {:?}", rows.first()));
    }
    if rows.windows(2).any(|w| w[1] < w[0]) {
        return Err(format!("iteration column decreases: {:?}", rows));
    }
    if rows.last() != Some(&iterations) {
        return Err(format!("last row {:?} but solution.iterations = {}", rows.last(), iterations));
    }
    if footer != status {
        return Err(format!("footer says {} but solution.status = {}", footer, status));
    }
    Ok(())
}

// ---------------------------------------------------------------- print.targets

/// a user stream; `write` may legally accept fewer bytes than offered (at most `.1` per call):
/// the delivered bytes must not depend on that
struct SharedVec(Arc<Mutex<Vec<u8>>>, usize);
static CHUNK_NO: std::sync::atomic::AtomicUsize = std::sync::atomic::AtomicUsize::new(0);
fn next_chunk() -> usize {
    const CHUNKS: [usize; 5] = [usize::MAX, 1, 7, 64, 3];
    CHUNKS[CHUNK_NO.fetch_add(1, std::sync::atomic::Ordering::SeqCst) % CHUNKS.len()]
}
impl Write for SharedVec {
    fn write(&mut self, buf: &[u8]) -> std::io::Result<usize> {
        let k = buf.len().min(self.1);
        self.0.lock().unwrap().extend_from_slice(&buf[..k]);
        Ok(k)
    }
    fn flush(&mut self) -> std::io::Result<()> {
        Ok(())
    }
}

/// the clock-dependent line is the only one allowed to differ between runs
fn mask_time(log: &str) -> String {
    log.lines().map(|l| if l.starts_with("solve time = ") { "solve time = <t>" } else { l })
        .collect::<Vec<_>>().join("\n")
}

fn tag_index(c: &SupportedConeT<f64>) -> usize {
    match c {
        ZeroConeT(_) => 0, NonnegativeConeT(_) => 1, SecondOrderConeT(_) => 2, ExponentialConeT() => 3,
        PowerConeT(_) => 4, GenPowerConeT(..) => 5, PSDTriangleConeT(_) => 6,
    }
}

fn header_value(log: &str, key: &str) -> Option<usize> {
    log.lines().find_map(|l| {
        let l = l.trim_start();
        l.strip_prefix(key).and_then(|r| r.trim_start().strip_prefix('=')).and_then(|v| v.trim().parse().ok())
    })
}

fn check_log_against_solver(log: &str, solver: &DefaultSolver<f64>, user_m: usize, rollback: bool) -> Result<(), String> {
    // header
    let d = &solver.data;
    for (key, want) in [("variables", d.n), ("constraints", d.m), ("nnz(P)", d.P.nnz()), ("nnz(A)", d.A.nnz()),
        ("cones (total)", solver.cones.len())] {
        let got = header_value(log, key).ok_or_else(|| format!("header line `{}` missing", key))?;
        if got != want {
            return Err(format!("header {} = {} but solver has {}", key, got, want));
        }
    }
    if d.cones.len() != solver.cones.len() {
        return Err("data.cones and composite cone disagree".into());
    }
    // per type lines, from data.cones (the internal cone list)
    let names = ["Zero", "Nonnegative", "SecondOrder", "Exponential", "Power", "GenPower", "PSDTriangle"];
    for (t, name) in names.iter().enumerate() {
        let mine: Vec<usize> = d.cones.iter().filter(|c| tag_index(c) == t).map(cone_nvars).collect();
        let line = log.lines().find(|l| l.starts_with("    : ") && l[6..].split('=').next().unwrap().trim() == *name);
        match (mine.is_empty(), line) {
            (true, None) => {}
            (true, Some(l)) => return Err(format!("line for absent cone type: {}", l)),
            (false, None) => return Err(format!("no line for cone type {}", name)),
            (false, Some(l)) => {
                let count: usize = l.split(" = ").nth(1).and_then(|a| a.split(',').next()).and_then(|c| c.trim().parse().ok())
                    .ok_or("count")?;
                if count != mine.len() {
                    return Err(format!("{}: count {} expected {}", name, count, mine.len()));
                }
                let nums: Vec<usize> = l.split("numel = ").nth(1).ok_or("numel")?
                    .trim().trim_matches(|c| c == '(' || c == ')').split(',').filter_map(|t| t.parse().ok()).collect();
                let want: Vec<usize> = if mine.len() <= 5 { mine.clone() } else {
                    let mut w = mine[..4].to_vec(); w.push(*mine.last().unwrap()); w };
                if nums != want {
                    return Err(format!("{}: numel {:?} expected {:?}", name, nums, want));
                }
            }
        }
    }
    // presolve line: present iff rows were removed (no decomposition in these problems)
    let removed = log.lines().find_map(|l| l.strip_prefix("presolve: removed ")).and_then(|r| r.split(' ').next())
        .and_then(|k| k.parse::<usize>().ok());
    let has_psd = d.cones.iter().any(|c| matches!(c, PSDTriangleConeT(_)));
    if !has_psd {
        if let Some(k) = removed {
            if user_m - d.m != k {
                return Err(format!("presolve line says {} removed, but m went {} -> {}", k, user_m, d.m));
            }
        } else if user_m != d.m {
            return Err(format!("m went {} -> {} without a presolve line", user_m, d.m));
        }
    }
    // settings echo
    let st = &solver.settings;
    let want = format!("max iter = {},", st.max_iter);
    if !log.contains(&want) {
        return Err(format!("settings echo lacks `{}`", want));
    }
    // table
    let rows = table_rows(log);
    let col = iteration_column(log);
    if col.first() != Some(&0) || col.windows(2).any(|w| w[1] < w[0] || w[1] > w[0] + 1) {
        return Err(format!("iteration column {:?}", col));
    }
    if *col.last().unwrap() != solver.solution.iterations as usize || solver.solution.iterations != solver.info.iterations {
        return Err(format!("last row {} / solution.iterations {} / info.iterations {}", col.last().unwrap(),
            solver.solution.iterations, solver.info.iterations));
    }
    // last row vs the result
    let i = &solver.info;
    let cells: Vec<&str> = rows.last().unwrap().split_whitespace().collect();
    let f = verif_hooks_info::print::expformat_cost;
    let g = verif_hooks_info::print::expformat_res;
    let mut want: Vec<String> = vec![format!("{}", i.iterations), f(i.cost_primal), f(i.cost_dual),
        g(f64::min(i.gap_abs, i.gap_rel)), g(i.res_primal), g(i.res_dual), g(i.ktratio), g(i.μ)];
    if i.iterations > 0 {
        want.push(verif_hooks_info::print::expformat_step(i.step_length));
    } else {
        want.push("------".into());
    }
    let want: Vec<String> = want.iter().map(|s| s.trim().to_string()).collect();
    // `reset_to_prev_iterate` restores costs, residuals and gaps, not κ/τ, μ and the step length:
    // after a rollback only the figures the returned solution carries are compared
    let ncmp = if rollback { 6 } else { want.len() };
    if cells.len() != want.len() || cells[..ncmp] != want.iter().map(|s| s.as_str()).collect::<Vec<_>>()[..ncmp] {
        return Err(format!("last table row {:?} does not show the returned info {:?}", cells, want));
    }
    if !solver.solution.status.to_string().contains("Infeasible")
        && (solver.solution.obj_val.to_bits() != i.cost_primal.to_bits() || solver.solution.r_prim.to_bits() != i.res_primal.to_bits()) {
        return Err("solution.obj_val / r_prim differ from info".into());
    }
    // footer
    let fs = footer_status(log);
    if fs != format!("{:?}", solver.solution.status) {
        return Err(format!("footer status {} but solution.status {:?}", fs, solver.solution.status));
    }
    Ok(())
}

static FILE_NO: std::sync::atomic::AtomicUsize = std::sync::atomic::AtomicUsize::new(0);

fn run_targets(r: &Req) -> String {
    let p = req_prob(r);
    let s = req_settings(r);
    let verbose = s.verbose;
    let mk = || DefaultSolver::new(&p.P, &p.q, &p.A, &p.b, &p.cones, s.clone());
    // buffer
    let mut sb = mk();
    sb.print_to_buffer();
    clarabel::verif_hooks::observer::start();
    sb.solve();
    let rollback = passes_of(&clarabel::verif_hooks::observer::take()).iter()
        .any(|q| q.ip.as_deref().map(|x| x != "NoUpdate").unwrap_or(false));
    let lb = sb.get_print_buffer().unwrap();
    if std::env::var("VERIF_DUMP_LOG").is_ok() {
        eprintln!("{}", lb);
        eprintln!("solution: status={:?} iterations={} obj_val={:e} r_prim={:e} r_dual={:e}", sb.solution.status,
            sb.solution.iterations, sb.solution.obj_val, sb.solution.r_prim, sb.solution.r_dual);
    }
    // stream
    let shared = Arc::new(Mutex::new(Vec::new()));
    let mut ss = mk();
    ss.print_to_stream(Box::new(SharedVec(shared.clone(), next_chunk())));
    ss.solve();
    let ls = String::from_utf8_lossy(&shared.lock().unwrap()).to_string();
    // file
    let path = format!("/tmp/c20-{}-{}.log", std::process::id(), FILE_NO.fetch_add(1, std::sync::atomic::Ordering::SeqCst));
    let mut sf = mk();
    sf.print_to_file(std::fs::File::create(&path).unwrap());
    sf.solve();
    sf.print_to_sink(); // drops (closes) the file
    let lf = std::fs::read_to_string(&path).unwrap_or_else(|_| "<unreadable>".into());
    let _ = std::fs::remove_file(&path);
    // sink
    let mut sk = mk();
    sk.print_to_sink();
    sk.solve();
    let sink_err = sk.get_print_buffer().is_err();
    // buffer -> other target: the buffer is no longer retrievable
    let same = mask_time(&lb) == mask_time(&ls) && mask_time(&lb) == mask_time(&lf);
    let same_result = sb.solution.status == ss.solution.status && sb.solution.status == sf.solution.status
        && sb.solution.status == sk.solution.status && sb.solution.iterations == sk.solution.iterations;
    let consistent = if verbose && !lb.is_empty() {
        match check_log_against_solver(&lb, &sb, p.b.len(), rollback) {
            Ok(()) => "ok".to_string(),
            Err(e) if rollback && e.starts_with("last table row") => hex(&format!(
                "after an insufficient-progress rollback the log still ends with the discarded iterate: {}", e)),
            Err(e) => hex(&e),
        }
    } else { "ok".into() };
    format!("len={},{},{} same={} sameresult={} sinkerr={} consistent={} status={:?}",
        lb.len(), ls.len(), lf.len(), same as u8, same_result as u8, sink_err as u8, consistent, sb.solution.status)
}
fn oracle_targets(r: &Req, out: &str) -> Result<(), String> {
    if out.starts_with("panic") {
        return Err(out.to_string());
    }
    let verbose = r.b("verbose");
    let lens: Vec<usize> = field(out, "len").ok_or("len")?.split(',').map(|x| x.parse().unwrap()).collect();
    if !verbose {
        if lens.iter().any(|&l| l != 0) {
            return Err(format!("verbose = false but {:?} bytes were written", lens));
        }
    } else {
        if lens.iter().any(|&l| l == 0) {
            return Err(format!("verbose = true but a target stayed empty: {:?}", lens));
        }
    }
    if field(out, "same") != Some("1") {
        return Err("buffer, stream and file received different bytes".into());
    }
    if field(out, "sameresult") != Some("1") {
        return Err("the print target changed the result".into());
    }
    if field(out, "sinkerr") != Some("1") {
        return Err("get_print_buffer succeeded on a sink".into());
    }
    let c = field(out, "consistent").unwrap_or("");
    if c != "ok" {
        return Err(unhex(c));
    }
    Ok(())
}

// ---------------------------------------------------------------- print.stdout (child process)

fn run_stdout(r: &Req) -> String {
    // default print target (stdout); whatever the solver prints precedes the response line
    let p = req_prob(r);
    let s = req_settings(r);
    let mut solver = DefaultSolver::new(&p.P, &p.q, &p.A, &p.b, &p.cones, s);
    solver.solve();
    std::io::stdout().flush().ok();
    format!("done status={:?}", solver.solution.status)
}

fn channels() -> Vec<Channel> {
    vec![
        Channel { name: "print.exp_reformat", tol: Tol::Exact, run: run_exp_reformat, oracle: Some(oracle_exp_reformat),
            modelled: true, rust_fn: "info_print::_exp_str_reformat", lean: "Print.expStrReformat / C20.exp_format" },
        Channel { name: "print.conedims", tol: Tol::Exact, run: run_conedims, oracle: Some(oracle_conedims),
            modelled: true, rust_fn: "info_print::_print_conedims_by_type", lean: "Print.printConedimsByType / C20.header_counts" },
        Channel { name: "print.status_line", tol: Tol::Exact, run: run_status_line, oracle: None,
            modelled: true, rust_fn: "DefaultInfo::print_status", lean: "Print.statusLine" },
        Channel { name: "print.footer", tol: Tol::Exact, run: run_footer, oracle: None,
            modelled: true, rust_fn: "DefaultInfo::print_footer", lean: "Print.footerHead / C20.footer" },
        Channel { name: "print.log", tol: Tol::Exact, run: run_log, oracle: Some(oracle_log),
            modelled: true, rust_fn: "Solver::solve print call sites; DefaultInfo::print_status/print_footer",
            lean: "Loop.solve + Print.eventsOf / C20.iteration_column, C20.silent, C20.footer" },
        Channel { name: "print.targets", tol: Tol::Exact, run: run_targets, oracle: Some(oracle_targets),
            modelled: false, rust_fn: "io::PrintTarget (Write impl, print_to_*), print_configuration", lean: "C20.target_independent" },
        Channel { name: "print.stdout", tol: Tol::Exact, run: run_stdout, oracle: None,
            modelled: false, rust_fn: "io::PrintTarget::Stdout", lean: "C20.silent" },
    ]
}

// ---------------------------------------------------------------- generators

fn rand_float(rng: &mut Rng) -> f64 {
    match rng.below(12) {
        0 => 0.0,
        1 => -0.0,
        2 => 1.0,
        3 => rng.logmag(-320.0, 308.0),
        4 => rng.logmag(-12.0, 12.0),
        5 => rng.logmag(-2.0, 2.0),
        6 => 9.9995 * 10f64.powi(rng.range(-12, 12) as i32),
        7 => 9.995e9,
        8 => 1e10,
        9 => 1e-10,
        10 => f64::from_bits(rng.next_u64() & 0x7fef_ffff_ffff_ffff),
        _ => (rng.range(-1000, 1000) as f64) / 8.0,
    }
}

fn problem(rng: &mut Rng) -> Prob {
    let kinds = *rng.choose(&["zn", "znq", "n", "nq", "znqe", "ep", "nqepg", "znqt", "nnnnnnz"]);
    let cones = cone_list(rng, kinds, if kinds.len() > 6 { 9 } else { 4 });
    let n = 1 + rng.below(5);
    let pdiag = *rng.choose(&[0.0, 1.0, 1.0]);
    let vals = *rng.choose(&[Vals::SmallInt(3), Vals::Normal]);
    let mut p = planted(rng, n, cones, pdiag, vals);
    match rng.below(7) {
        0 => { for v in p.b.iter_mut() { *v = -(v.abs() + 5.0); } }
        1 => { p.P = CscMatrix::zeros((p.q.len(), p.q.len())); }
        2 => {
            // some infinite bounds so that presolve removes rows
            for (i, v) in p.b.iter_mut().enumerate() { if i % 2 == 0 { *v = 1e20; } }
        }
        _ => {}
    }
    p
}

fn settings(rng: &mut Rng) -> DefaultSettings<f64> {
    let mut s = DefaultSettings::<f64>::default();
    s.verbose = rng.bool(0.75);
    s.max_iter = *rng.choose(&[0u32, 1, 2, 4, 7, 200, 200, 200]);
    s.time_limit = *rng.choose(&[f64::INFINITY, f64::INFINITY, f64::INFINITY, 0.0]);
    s.presolve_enable = rng.bool(0.8);
    s.equilibrate_enable = rng.bool(0.8);
    s.chordal_decomposition_enable = false;
    if rng.bool(0.15) {
        s.min_terminate_step_length = *rng.choose(&[1e-2, 0.5]);
    }
    if rng.bool(0.1) {
        s.tol_feas = 1e-14;
        s.tol_gap_abs = 1e-15;
        s.tol_gap_rel = 1e-15;
    }
    s
}

fn generate(s: &mut Session) {
    // ---- exponent re-formatter -----------------------------------------------------------
    let fixed = ["1e5", "1e-5", "1.5e10", "1.5e-10", "-2.25e100", "2.25e-100", "+0.0000e0", "1e", "e", "e5", "e-", "e-5",
        "abc", "", "1.0", "1e-", "1.0e+5", "1ee5", "1e5e", "-1e-1", "NaN", "inf", "1e123456"];
    for f in fixed {
        s.submit(Line::new("print.exp_reformat").s("s", &hex(f)).done());
    }
    for _ in 0..s.budget(1500, 60000) {
        let v = rand_float(&mut s.rng);
        let t = match s.rng.below(4) {
            0 => format!("{:+8.4e}", v),
            1 => format!("{:6.2e}", v),
            2 => format!("{:>.2e}", v),
            _ => format!("{:e}", v),
        };
        if t.contains(' ') {
            continue;
        }
        s.submit(Line::new("print.exp_reformat").s("s", &hex(&t)).done());
    }
    // ---- cone-count lines -------------------------------------------------------------------
    for _ in 0..s.budget(400, 10000) {
        let k = s.rng.below(12);
        let mut tags = vec![];
        let mut numel = vec![];
        let ntags = 1 + s.rng.below(7);
        for _ in 0..k {
            let t = s.rng.below(ntags);
            tags.push(t);
            numel.push(match t { 0 | 1 => s.rng.below(6), 2 => 2 + s.rng.below(4), 3 | 4 => 3, 5 => 2 + s.rng.below(3),
                _ => { let n = 1 + s.rng.below(3); n * (n + 1) / 2 } });
        }
        let tag = s.rng.below(7);
        s.submit(Line::new("print.conedims").us("tags", &tags).us("numel", &numel).u("tag", tag).done());
    }
    // ---- table rows / footer ------------------------------------------------------------------
    for _ in 0..s.budget(600, 20000) {
        let iters = *s.rng.choose(&[0usize, 0, 1, 2, 9, 10, 99, 100, 999, 1000, 12345]);
        let vals: Vec<f64> = (0..8).map(|_| if s.rng.bool(0.05) { *s.rng.choose(&[f64::NAN, f64::INFINITY, f64::NEG_INFINITY]) }
            else { rand_float(&mut s.rng) }).collect();
        let p = &verif_hooks_info::print::expformat_cost;
        let g = &verif_hooks_info::print::expformat_res;
        let cells = vec![p(vals[0]), p(vals[1]), g(vals[2]), g(vals[3]), g(vals[4]), g(vals[5]), g(vals[6]),
            verif_hooks_info::print::expformat_step(vals[7])];
        let cells: Vec<String> = cells.iter().map(|c| hex(c)).collect();
        s.submit(Line::new("print.status_line").u("iters", iters).fs("vals", &vals).s("cells", &cells.join(",")).done());
    }
    for st in ["Unsolved", "Solved", "PrimalInfeasible", "DualInfeasible", "AlmostSolved", "AlmostPrimalInfeasible",
        "AlmostDualInfeasible", "MaxIterations", "MaxTime", "NumericalError", "InsufficientProgress"] {
        s.submit(Line::new("print.footer").s("status", st).done());
    }
    // ---- whole solves ---------------------------------------------------------------------------
    // corpus first: problems on which the solve ends after an insufficient-progress rollback
    // (the path on which the log used to end with the discarded iterate)
    let corpus: Vec<(Prob, DefaultSettings<f64>)> = if s.is_searching() { vec![] } else {
        include_str!("c20_corpus.txt").lines().filter(|l| !l.trim().is_empty()).map(|l| {
            let r = Req::parse(l).expect("corpus line");
            (req_prob(&r), req_settings(&r))
        }).collect()
    };
    let ncorpus = corpus.len();
    for k in 0..ncorpus + s.budget(350, 6000) {
        let mut rng = s.rng.fork();
        let (p, st) = if k < ncorpus { s.count("corpus"); corpus[k].clone() } else { (problem(&mut rng), settings(&mut rng)) };
        let pc = p.clone();
        let st2 = st.clone();
        if let Ok(o) = std::panic::catch_unwind(std::panic::AssertUnwindSafe(|| solve_observed(&pc, st2))) {
            let mut l = line_prob(Line::new("print.log"), &p);
            l = line_settings(l, &st);
            l = line_oracles(l, &o);
            s.count(&format!("log-status:{:?}", o.status));
            if o.passes.iter().any(|q| q.ip.as_deref().map(|x| x != "NoUpdate").unwrap_or(false)) {
                s.count("log-rollback");
            }
            s.submit(l.done());
        }
        let mut l = line_prob(Line::new("print.targets"), &p);
        l = line_settings(l, &st);
        s.submit(l.done());
        // stdout in a child process: a few silent ones and one loud control
        if !s.is_searching() && k < 6 {
            let mut stq = st.clone();
            stq.verbose = k != 0;
            stq.verbose = !stq.verbose; // k = 0 is the loud control
            let mut l = line_prob(Line::new("print.stdout"), &p);
            l = line_settings(l, &stq);
            let line = l.done();
            let out = run_isolated(&line, 30.0, 4096);
            s.count(if stq.verbose { "stdout-loud" } else { "stdout-silent" });
            let lines: Vec<&str> = out.lines().collect();
            if stq.verbose {
                if !(out.contains("Clarabel.rs") && out.contains("Terminated with status") && lines.last().map(|l| l.starts_with("done status=")).unwrap_or(false)) {
                    s.fail("print.stdout", line, out.clone(), "verbose = true with the default target: the log did not reach stdout".into());
                }
            } else if !(lines.len() == 1 && lines[0].starts_with("done status=")) {
                s.fail("print.stdout", line, out.clone(), "verbose = false but the child wrote to stdout".into());
            }
        }
    }
}

fn main() {
    Session::from_args("C20", channels()).run(generate)
}
