//! C20 — solver output is routed faithfully and says what the solver did.
//!
//! Channels
//!   print.exp_reformat   `_exp_str_reformat` (hook) vs `Print.expStrReformat`
//!   print.conedims       `_print_conedims_by_type` (hook) vs `Print.printConedimsByType`
//!   print.status_line    `DefaultInfo::print_status` vs `Print.statusLine`
//!   print.footer         `DefaultInfo::print_footer` (first two lines) vs `Print.footerHead`
//!   print.log            iteration column / extra line / footer of a whole solve vs the skeleton
//!   print.targets        implementation-only: buffer = stream = file, table and header vs solver
//!   print.stdout         implementation-only, in a child process: stdout with verbose on / off
//!   print.configuration  `print_configuration` incl. `print_settings`, `print_nthreads`,
//!                        `_get_precision_string`, `print_chordal_decomposition` vs `Print.printConfiguration`
//!                        (summary computed by the model of `DefaultProblemData::new`, or passed in)
//!   print.status_header  `print_status_header` vs `Print.printStatusHeader`
//!   print.footer_full    `print_footer` (all three lines) vs `Print.printFooter`
//!   print.whole          the whole log of a real solve vs `Print.wholeLog` (banner, header, rows, footer)
//!   print.write_impl     `impl Write for PrintTarget` driven with write / write_all / flush against a
//!                        scripted sink (short writes, Interrupted, errors, Ok(0)) vs `Print.Target.run`
//!   print.target_kind    `impl Debug / Clone for PrintTarget` vs `Print.Target.debugName / clone`
#![allow(non_snake_case)]
#![allow(dead_code)]
use vharness::*;

#[path = "c04.rs"]
#[allow(unused_imports)]
mod c04;
use c04::common::*;
#[path = "common_cones.rs"]
mod common_cones;

use clarabel::algebra::*;
use clarabel::io::ConfigurablePrintTarget;
use clarabel::solver::traits::InfoPrint;
use clarabel::solver::*;
use clarabel::verif_hooks::cones::{CompositeCone, Cone};
use std::io::Write;
use std::sync::{Arc, Mutex};
use vharness::gen::Vals;

fn hex(s: &str) -> String {
    if s.is_empty() {
        return "-".into();
    }
    s.bytes().map(|b| format!("{:02x}", b)).collect()
}
fn unhex(h: &str) -> String {
    if h == "-" {
        return String::new();
    }
    let b: Vec<u8> = (0..h.len() / 2).map(|i| u8::from_str_radix(&h[2 * i..2 * i + 2], 16).unwrap()).collect();
    String::from_utf8(b).unwrap()
}

// ---------------------------------------------------------------- print.exp_reformat

fn run_exp_reformat(r: &Req) -> String {
    let s = unhex(r.str("s"));
    format!("ok s={}", hex(&verif_hooks_info::print::exp_str_reformat(s)))
}
fn oracle_exp_reformat(r: &Req, out: &str) -> Result<(), String> {
    let s = unhex(r.str("s"));
    // the shape Rust's LowerExp produces: mantissa 'e' ['-'] digits
    let shaped = match s.split_once('e') {
        Some((m, e)) => {
            !m.is_empty() && !m.contains('e')
                && { let d = e.strip_prefix('-').unwrap_or(e); !d.is_empty() && d.bytes().all(|c| c.is_ascii_digit()) }
        }
        None => false,
    };
    if !shaped {
        return Ok(());
    }
    let o = out.strip_prefix("ok s=").ok_or_else(|| format!("well-formed input rejected: {}", out))?;
    let o = unhex(o);
    let (m0, e0) = s.split_once('e').unwrap();
    let (m1, e1) = o.split_once('e').ok_or("no e in output")?;
    if m0 != m1 {
        return Err(format!("mantissa changed: {} -> {}", s, o));
    }
    let sign = e1.as_bytes()[0];
    if sign != b'+' && sign != b'-' {
        return Err(format!("no exponent sign in {}", o));
    }
    let d = &e1[1..];
    if d.len() < 2 || !d.bytes().all(|c| c.is_ascii_digit()) {
        return Err(format!("exponent of {} has fewer than two digits", o));
    }
    let v0: i64 = e0.parse().map_err(|_| "exp")?;
    let v1: i64 = e1.parse().map_err(|_| "exp")?;
    if v0 != v1 {
        return Err(format!("exponent value changed: {} -> {}", s, o));
    }
    if d.len() > 2 && d.starts_with('0') {
        return Err(format!("superfluous leading zero in {}", o));
    }
    Ok(())
}

// ---------------------------------------------------------------- print.conedims

fn cones_from(tags: &[usize], numel: &[usize]) -> Vec<SupportedConeT<f64>> {
    tags.iter().zip(numel).map(|(&t, &k)| match t {
        0 => ZeroConeT(k),
        1 => NonnegativeConeT(k),
        2 => SecondOrderConeT(k),
        3 => ExponentialConeT(),
        4 => PowerConeT(0.5),
        5 => GenPowerConeT(vec![0.5, 0.5], k - 2),
        6 => {
            let mut n = 0;
            while n * (n + 1) / 2 < k { n += 1; }
            PSDTriangleConeT(n)
        }
        _ => panic!("tag"),
    }).collect()
}
fn run_conedims(r: &Req) -> String {
    let cones = cones_from(&r.us("tags"), &r.us("numel"));
    let cc = CompositeCone::<f64>::new(&cones);
    format!("s={}", hex(&verif_hooks_info::print::conedims_by_type(&cc, r.u("tag"))))
}
fn oracle_conedims(r: &Req, out: &str) -> Result<(), String> {
    let tags = r.us("tags");
    let numel = r.us("numel");
    let tag = r.u("tag");
    let mine: Vec<usize> = tags.iter().zip(&numel).filter(|(t, _)| **t == tag).map(|(_, k)| *k).collect();
    let text = unhex(out.strip_prefix("s=").ok_or("no text")?);
    if mine.is_empty() {
        return if text.is_empty() { Ok(()) } else { Err("line printed for an absent cone type".into()) };
    }
    // "    : <name> = <count>,  numel = ..."
    let after = text.split(" = ").nth(1).ok_or("no count")?;
    let count: usize = after.split(',').next().unwrap().trim().parse().map_err(|_| "count")?;
    if count != mine.len() {
        return Err(format!("printed count {} but {} cones of that type", count, mine.len()));
    }
    let nums: Vec<usize> = text.split("numel = ").nth(1).ok_or("no numel")?
        .trim().trim_matches(|c| c == '(' || c == ')').split(',').filter_map(|t| t.parse().ok()).collect();
    let want: Vec<usize> = if mine.len() <= 5 { mine.clone() } else {
        let mut w = mine[..4].to_vec(); w.push(*mine.last().unwrap()); w };
    if nums != want {
        return Err(format!("printed numels {:?} expected {:?}", nums, want));
    }
    if (mine.len() > 5) != text.contains("...") {
        return Err("elision marker".into());
    }
    Ok(())
}

// ---------------------------------------------------------------- print.status_line / footer

fn run_status_line(r: &Req) -> String {
    let v = r.fs("vals");
    let mut i = DefaultInfo::<f64>::new();
    i.iterations = r.u("iters") as u32;
    i.cost_primal = v[0];
    i.cost_dual = v[1];
    i.gap_abs = v[2];
    i.gap_rel = v[2];
    i.res_primal = v[3];
    i.res_dual = v[4];
    i.ktratio = v[5];
    i.μ = v[6];
    i.step_length = v[7];
    i.print_to_buffer();
    let s = DefaultSettings::<f64>::default();
    i.print_status(&s).unwrap();
    format!("s={}", hex(&i.get_print_buffer().unwrap()))
}
fn run_footer(r: &Req) -> String {
    let mut i = DefaultInfo::<f64>::new();
    i.status = c04_status(r.str("status"));
    i.print_to_buffer();
    let s = DefaultSettings::<f64>::default();
    i.print_footer(&s).unwrap();
    let b = i.get_print_buffer().unwrap();
    let two: String = b.split_inclusive('\n').take(2).collect();
    format!("s={}", hex(&two))
}
fn c04_status(s: &str) -> SolverStatus {
    use SolverStatus::*;
    match s {
        "Unsolved" => Unsolved, "Solved" => Solved, "PrimalInfeasible" => PrimalInfeasible,
        "DualInfeasible" => DualInfeasible, "AlmostSolved" => AlmostSolved,
        "AlmostPrimalInfeasible" => AlmostPrimalInfeasible, "AlmostDualInfeasible" => AlmostDualInfeasible,
        "MaxIterations" => MaxIterations, "MaxTime" => MaxTime, "NumericalError" => NumericalError,
        "InsufficientProgress" => InsufficientProgress, _ => panic!("status {}", s),
    }
}

// ---------------------------------------------------------------- print.log

fn footer_status(log: &str) -> String {
    log.lines().find_map(|l| l.strip_prefix("Terminated with status = ")).unwrap_or("-").trim().to_string()
}
fn run_log(r: &Req) -> String {
    let p = req_prob(r);
    let s = req_settings(r);
    let o = solve_observed(&p, s);
    let col = iteration_column(&o.log);
    let rows: Vec<String> = col.iter().map(|x| x.to_string()).collect();
    format!("rows={} nstatus={} extra={} footer={} status={:?} iterations={}",
        rows.join(","), col.len(), (o.info_step_length == 0.0) as u8, footer_status(&o.log), o.status, o.iterations)
}
fn oracle_log(r: &Req, out: &str) -> Result<(), String> {
    if out.starts_with("panic") {
        return Err(out.to_string());
    }
    let verbose = r.b("verbose");
    let rows: Vec<usize> = field(out, "rows").unwrap_or("").split(',').filter(|s| !s.is_empty())
        .map(|s| s.parse().unwrap_or(usize::MAX)).collect();
    let footer = field(out, "footer").unwrap_or("");
    let status = field(out, "status").unwrap_or("");
    let iterations: usize = field(out, "iterations").unwrap_or("0").parse().unwrap_or(usize::MAX);
    if !verbose {
        if !rows.is_empty() || footer != "-" {
            return Err("output although verbose = false".into());
        }
        return Ok(());
    }
    if rows.first() != Some(&0) {
        return Err(format!("iteration column starts with {:?}", rows.first()));
    }
    if rows.windows(2).any(|w| w[1] < w[0]) {
        return Err(format!("iteration column decreases: {:?}", rows));
    }
    if rows.last() != Some(&iterations) {
        return Err(format!("last row {:?} but solution.iterations = {}", rows.last(), iterations));
    }
    if footer != status {
        return Err(format!("footer says {} but solution.status = {}", footer, status));
    }
    Ok(())
}

// ---------------------------------------------------------------- print.targets

/// a user stream; `write` may legally accept fewer bytes than offered (at most `.1` per call):
/// the delivered bytes must not depend on that
struct SharedVec(Arc<Mutex<Vec<u8>>>, usize);
static CHUNK_NO: std::sync::atomic::AtomicUsize = std::sync::atomic::AtomicUsize::new(0);
fn next_chunk() -> usize {
    const CHUNKS: [usize; 5] = [usize::MAX, 1, 7, 64, 3];
    CHUNKS[CHUNK_NO.fetch_add(1, std::sync::atomic::Ordering::SeqCst) % CHUNKS.len()]
}
impl Write for SharedVec {
    fn write(&mut self, buf: &[u8]) -> std::io::Result<usize> {
        let k = buf.len().min(self.1);
        self.0.lock().unwrap().extend_from_slice(&buf[..k]);
        Ok(k)
    }
    fn flush(&mut self) -> std::io::Result<()> {
        Ok(())
    }
}

/// the clock-dependent line is the only one allowed to differ between runs
fn mask_time(log: &str) -> String {
    log.lines().map(|l| if l.starts_with("solve time = ") { "solve time = <t>" } else { l })
        .collect::<Vec<_>>().join("\n")
}

fn tag_index(c: &SupportedConeT<f64>) -> usize {
    match c {
        ZeroConeT(_) => 0, NonnegativeConeT(_) => 1, SecondOrderConeT(_) => 2, ExponentialConeT() => 3,
        PowerConeT(_) => 4, GenPowerConeT(..) => 5, PSDTriangleConeT(_) => 6,
    }
}

fn header_value(log: &str, key: &str) -> Option<usize> {
    log.lines().find_map(|l| {
        let l = l.trim_start();
        l.strip_prefix(key).and_then(|r| r.trim_start().strip_prefix('=')).and_then(|v| v.trim().parse().ok())
    })
}

fn check_log_against_solver(log: &str, solver: &DefaultSolver<f64>, user_m: usize, rollback: bool) -> Result<(), String> {
    // header
    let d = &solver.data;
    for (key, want) in [("variables", d.n), ("constraints", d.m), ("nnz(P)", d.P.nnz()), ("nnz(A)", d.A.nnz()),
        ("cones (total)", solver.cones.len())] {
        let got = header_value(log, key).ok_or_else(|| format!("header line `{}` missing", key))?;
        if got != want {
            return Err(format!("header {} = {} but solver has {}", key, got, want));
        }
    }
    if d.cones.len() != solver.cones.len() {
        return Err("data.cones and composite cone disagree".into());
    }
    // per type lines, from data.cones (the internal cone list)
    let names = ["Zero", "Nonnegative", "SecondOrder", "Exponential", "Power", "GenPower", "PSDTriangle"];
    for (t, name) in names.iter().enumerate() {
        let mine: Vec<usize> = d.cones.iter().filter(|c| tag_index(c) == t).map(cone_nvars).collect();
        let line = log.lines().find(|l| l.starts_with("    : ") && l[6..].split('=').next().unwrap().trim() == *name);
        match (mine.is_empty(), line) {
            (true, None) => {}
            (true, Some(l)) => return Err(format!("line for absent cone type: {}", l)),
            (false, None) => return Err(format!("no line for cone type {}", name)),
            (false, Some(l)) => {
                let count: usize = l.split(" = ").nth(1).and_then(|a| a.split(',').next()).and_then(|c| c.trim().parse().ok())
                    .ok_or("count")?;
                if count != mine.len() {
                    return Err(format!("{}: count {} expected {}", name, count, mine.len()));
                }
                let nums: Vec<usize> = l.split("numel = ").nth(1).ok_or("numel")?
                    .trim().trim_matches(|c| c == '(' || c == ')').split(',').filter_map(|t| t.parse().ok()).collect();
                let want: Vec<usize> = if mine.len() <= 5 { mine.clone() } else {
                    let mut w = mine[..4].to_vec(); w.push(*mine.last().unwrap()); w };
                if nums != want {
                    return Err(format!("{}: numel {:?} expected {:?}", name, nums, want));
                }
            }
        }
    }
    // presolve line: present iff rows were removed (no decomposition in these problems)
    let removed = log.lines().find_map(|l| l.strip_prefix("presolve: removed ")).and_then(|r| r.split(' ').next())
        .and_then(|k| k.parse::<usize>().ok());
    let has_psd = d.cones.iter().any(|c| matches!(c, PSDTriangleConeT(_)));
    if !has_psd {
        if let Some(k) = removed {
            if user_m - d.m != k {
                return Err(format!("presolve line says {} removed, but m went {} -> {}", k, user_m, d.m));
            }
        } else if user_m != d.m {
            return Err(format!("m went {} -> {} without a presolve line", user_m, d.m));
        }
    }
    // settings echo
    let st = &solver.settings;
    let want = format!("max iter = {},", st.max_iter);
    if !log.contains(&want) {
        return Err(format!("settings echo lacks `{}`", want));
    }
    // table
    let rows = table_rows(log);
    let col = iteration_column(log);
    if col.first() != Some(&0) || col.windows(2).any(|w| w[1] < w[0] || w[1] > w[0] + 1) {
        return Err(format!("iteration column {:?}", col));
    }
    if *col.last().unwrap() != solver.solution.iterations as usize || solver.solution.iterations != solver.info.iterations {
        return Err(format!("last row {} / solution.iterations {} / info.iterations {}", col.last().unwrap(),
            solver.solution.iterations, solver.info.iterations));
    }
    // last row vs the result
    let i = &solver.info;
    let cells: Vec<&str> = rows.last().unwrap().split_whitespace().collect();
    let f = verif_hooks_info::print::expformat_cost;
    let g = verif_hooks_info::print::expformat_res;
    let mut want: Vec<String> = vec![format!("{}", i.iterations), f(i.cost_primal), f(i.cost_dual),
        g(f64::min(i.gap_abs, i.gap_rel)), g(i.res_primal), g(i.res_dual), g(i.ktratio), g(i.μ)];
    if i.iterations > 0 {
        want.push(verif_hooks_info::print::expformat_step(i.step_length));
    } else {
        want.push("------".into());
    }
    let want: Vec<String> = want.iter().map(|s| s.trim().to_string()).collect();
    // `reset_to_prev_iterate` restores costs, residuals and gaps, not κ/τ, μ and the step length:
    // after a rollback only the figures the returned solution carries are compared
    let ncmp = if rollback { 6 } else { want.len() };
    if cells.len() != want.len() || cells[..ncmp] != want.iter().map(|s| s.as_str()).collect::<Vec<_>>()[..ncmp] {
        return Err(format!("last table row {:?} does not show the returned info {:?}", cells, want));
    }
    if !solver.solution.status.to_string().contains("Infeasible")
        && (solver.solution.obj_val.to_bits() != i.cost_primal.to_bits() || solver.solution.r_prim.to_bits() != i.res_primal.to_bits()) {
        return Err("solution.obj_val / r_prim differ from info".into());
    }
    // footer
    let fs = footer_status(log);
    if fs != format!("{:?}", solver.solution.status) {
        return Err(format!("footer status {} but solution.status {:?}", fs, solver.solution.status));
    }
    Ok(())
}

static FILE_NO: std::sync::atomic::AtomicUsize = std::sync::atomic::AtomicUsize::new(0);

fn run_targets(r: &Req) -> String {
    let p = req_prob(r);
    let s = req_settings(r);
    let verbose = s.verbose;
    let mk = || DefaultSolver::new(&p.P, &p.q, &p.A, &p.b, &p.cones, s.clone());
    // buffer
    let mut sb = mk();
    sb.print_to_buffer();
    clarabel::verif_hooks::observer::start();
    sb.solve();
    let rollback = passes_of(&clarabel::verif_hooks::observer::take()).iter()
        .any(|q| q.ip.as_deref().map(|x| x != "NoUpdate").unwrap_or(false));
    let lb = sb.get_print_buffer().unwrap();
    if std::env::var("VERIF_DUMP_LOG").is_ok() {
        eprintln!("{}", lb);
        eprintln!("solution: status={:?} iterations={} obj_val={:e} r_prim={:e} r_dual={:e}", sb.solution.status,
            sb.solution.iterations, sb.solution.obj_val, sb.solution.r_prim, sb.solution.r_dual);
    }
    // stream
    let shared = Arc::new(Mutex::new(Vec::new()));
    let mut ss = mk();
    ss.print_to_stream(Box::new(SharedVec(shared.clone(), next_chunk())));
    ss.solve();
    let ls = String::from_utf8_lossy(&shared.lock().unwrap()).to_string();
    // file
    let path = format!("/tmp/c20-{}-{}.log", std::process::id(), FILE_NO.fetch_add(1, std::sync::atomic::Ordering::SeqCst));
    let mut sf = mk();
    sf.print_to_file(std::fs::File::create(&path).unwrap());
    sf.solve();
    sf.print_to_sink(); // drops (closes) the file
    let lf = std::fs::read_to_string(&path).unwrap_or_else(|_| "<unreadable>".into());
    let _ = std::fs::remove_file(&path);
    // sink
    let mut sk = mk();
    sk.print_to_sink();
    sk.solve();
    let sink_err = sk.get_print_buffer().is_err();
    // buffer -> other target: the buffer is no longer retrievable
    let same = mask_time(&lb) == mask_time(&ls) && mask_time(&lb) == mask_time(&lf);
    let same_result = sb.solution.status == ss.solution.status && sb.solution.status == sf.solution.status
        && sb.solution.status == sk.solution.status && sb.solution.iterations == sk.solution.iterations;
    let consistent = if verbose && !lb.is_empty() {
        match check_log_against_solver(&lb, &sb, p.b.len(), rollback) {
            Ok(()) => "ok".to_string(),
            Err(e) if rollback && e.starts_with("last table row") => hex(&format!(
                "after an insufficient-progress rollback the log still ends with the discarded iterate: {}", e)),
            Err(e) => hex(&e),
        }
    } else { "ok".into() };
    format!("len={},{},{} same={} sameresult={} sinkerr={} consistent={} status={:?}",
        lb.len(), ls.len(), lf.len(), same as u8, same_result as u8, sink_err as u8, consistent, sb.solution.status)
}
fn oracle_targets(r: &Req, out: &str) -> Result<(), String> {
    if out.starts_with("panic") {
        return Err(out.to_string());
    }
    let verbose = r.b("verbose");
    let lens: Vec<usize> = field(out, "len").ok_or("len")?.split(',').map(|x| x.parse().unwrap()).collect();
    if !verbose {
        if lens.iter().any(|&l| l != 0) {
            return Err(format!("verbose = false but {:?} bytes were written", lens));
        }
    } else {
        if lens.iter().any(|&l| l == 0) {
            return Err(format!("verbose = true but a target stayed empty: {:?}", lens));
        }
    }
    if field(out, "same") != Some("1") {
        return Err("buffer, stream and file received different bytes".into());
    }
    if field(out, "sameresult") != Some("1") {
        return Err("the print target changed the result".into());
    }
    if field(out, "sinkerr") != Some("1") {
        return Err("get_print_buffer succeeded on a sink".into());
    }
    let c = field(out, "consistent").unwrap_or("");
    if c != "ok" {
        return Err(unhex(c));
    }
    Ok(())
}

// ---------------------------------------------------------------- print.stdout (child process)

fn run_stdout(r: &Req) -> String {
    // default print target (stdout); whatever the solver prints precedes the response line
    let p = req_prob(r);
    let s = req_settings(r);
    let mut solver = DefaultSolver::new(&p.P, &p.q, &p.A, &p.b, &p.cones, s);
    solver.solve();
    std::io::stdout().flush().ok();
    format!("done status={:?}", solver.solution.status)
}


// ================================================================ round 3: header / footer / Write impl

use clarabel::solver::implementations::default::verif_problemdata_header as hdr_hooks;

fn hexb(b: &[u8]) -> String {
    if b.is_empty() {
        return "-".into();
    }
    b.iter().map(|x| format!("{:02x}", x)).collect()
}
fn unhexb(h: &str) -> Vec<u8> {
    if h == "-" {
        return vec![];
    }
    (0..h.len() / 2).map(|i| u8::from_str_radix(&h[2 * i..2 * i + 2], 16).unwrap()).collect()
}

// ---- the echoed settings on the wire ------------------------------------------------------------

fn echo_su(s: &DefaultSettings<f64>) -> Vec<usize> {
    vec![s.max_iter as usize, s.iterative_refinement_max_iter as usize, s.equilibrate_max_iter as usize]
}
fn echo_sb(s: &DefaultSettings<f64>) -> Vec<bool> {
    vec![s.static_regularization_enable, s.dynamic_regularization_enable, s.iterative_refinement_enable,
        s.equilibrate_enable, s.chordal_decomposition_compact, s.chordal_decomposition_complete_dual]
}
fn echo_sf(s: &DefaultSettings<f64>) -> Vec<f64> {
    vec![s.time_limit, s.max_step_fraction, s.tol_feas, s.tol_gap_abs, s.tol_gap_rel,
        s.static_regularization_constant, s.static_regularization_proportional,
        s.dynamic_regularization_eps, s.dynamic_regularization_delta,
        s.iterative_refinement_reltol, s.iterative_refinement_abstol, s.iterative_refinement_stop_ratio,
        s.equilibrate_min_scaling, s.equilibrate_max_scaling]
}
/// format kind of every entry of `echo_sf`: 0 `{:.1e}`, 1 `{:.3}`, 2 `{:.1}`, 3 `{:?}`
const SF_KIND: [usize; 14] = [3, 1, 0, 0, 0, 0, 0, 0, 0, 0, 0, 2, 0, 0];

fn fmt_kind(kind: usize, v: f64) -> String {
    match kind {
        0 => format!("{:.1e}", v),
        1 => format!("{:.3}", v),
        2 => format!("{:.1}", v),
        3 => format!("{:?}", v),
        4 => format!("{:?}", std::time::Duration::from_secs_f64(v)),
        _ => panic!("format kind"),
    }
}

/// the formatter table: Rust's own rendering of every float the log shows
fn line_fmt_table(l: Line, s: &DefaultSettings<f64>, duration: Option<(f64, String)>) -> Line {
    let mut ks: Vec<usize> = SF_KIND.to_vec();
    let mut vs = echo_sf(s);
    let mut ts: Vec<String> = ks.iter().zip(&vs).map(|(k, v)| hex(&fmt_kind(*k, *v))).collect();
    if let Some((t, tok)) = duration {
        ks.push(4);
        vs.push(t);
        ts.push(hex(&tok));
    }
    l.us("fk", &ks).fs("fv", &vs).s("ft", &ts.join(","))
}

fn line_echo(l: Line, s: &DefaultSettings<f64>, lin: &LinearSolverInfo) -> Line {
    l.b("verbose", s.verbose)
        .us("su", &echo_su(s))
        .bs("sb", &echo_sb(s))
        .fs("sf", &echo_sf(s))
        .s("merge", &hex(&s.chordal_decomposition_merge_method))
        .s("lname", &hex(&lin.name))
        .u("threads", lin.threads)
        .b("direct", lin.direct)
}
fn apply_echo(r: &Req, s: &mut DefaultSettings<f64>) {
    s.verbose = r.b("verbose");
    let su = r.us("su");
    let sb = r.bs("sb");
    let sf = r.fs("sf");
    s.max_iter = su[0] as u32;
    s.iterative_refinement_max_iter = su[1] as u32;
    s.equilibrate_max_iter = su[2] as u32;
    s.static_regularization_enable = sb[0];
    s.dynamic_regularization_enable = sb[1];
    s.iterative_refinement_enable = sb[2];
    s.equilibrate_enable = sb[3];
    s.chordal_decomposition_compact = sb[4];
    s.chordal_decomposition_complete_dual = sb[5];
    s.time_limit = sf[0];
    s.max_step_fraction = sf[1];
    s.tol_feas = sf[2];
    s.tol_gap_abs = sf[3];
    s.tol_gap_rel = sf[4];
    s.static_regularization_constant = sf[5];
    s.static_regularization_proportional = sf[6];
    s.dynamic_regularization_eps = sf[7];
    s.dynamic_regularization_delta = sf[8];
    s.iterative_refinement_reltol = sf[9];
    s.iterative_refinement_abstol = sf[10];
    s.iterative_refinement_stop_ratio = sf[11];
    s.equilibrate_min_scaling = sf[12];
    s.equilibrate_max_scaling = sf[13];
    s.chordal_decomposition_merge_method = unhex(r.str("merge"));
}
fn req_lin(r: &Req) -> LinearSolverInfo {
    LinearSolverInfo { name: unhex(r.str("lname")), threads: r.u("threads"), direct: r.b("direct"), nnzA: 0, nnzL: 0 }
}

// ---- the summary of the internal problem, read from the live solver --------------------------------

struct Summary {
    n: usize,
    m: usize,
    nnz_p: usize,
    nnz_a: usize,
    tags: Vec<usize>,
    numel: Vec<usize>,
    removed: Option<usize>,
    chordal: Option<[usize; 4]>,
}
fn summary_of(solver: &DefaultSolver<f64>) -> Summary {
    let d = &solver.data;
    // `(as_tag, numel)` of the internal cones: from the composite cone the solver iterates over
    let tags: Vec<usize> = d.cones.iter().map(tag_index).collect();
    let numel: Vec<usize> = solver.cones.iter().map(|c| c.numel()).collect();
    Summary { n: d.n, m: d.m, nnz_p: d.P.colptr[d.P.n], nnz_a: d.A.colptr[d.A.n], tags, numel,
        removed: hdr_hooks::presolve_count_reduced(d), chordal: hdr_hooks::chordal_counts(d) }
}
fn line_summary(l: Line, s: &Summary) -> Line {
    let l = l.u("n", s.n).u("m", s.m).u("nnzP", s.nnz_p).u("nnzA", s.nnz_a).us("tags", &s.tags).us("numel", &s.numel);
    let l = match s.removed { Some(k) => l.u("removed", k), None => l.s("removed", "-") };
    match s.chordal { Some(c) => l.us("chordalc", &c), None => l.s("chordalc", "-") }
}

// ---------------------------------------------------------------- print.configuration

fn req_prob9(r: &Req) -> Prob {
    Prob { P: r.csc("P"), q: r.fs("q"), A: r.csc("A"), b: r.fs("b"), cones: common_cones::parse_cones(r.str("cones9")) }
}
fn line_prob9(l: Line, p: &Prob) -> Line {
    let c = common_cones::fmt_cones(&p.cones);
    l.csc("P", &p.P).fs("q", &p.q).csc("A", &p.A).fs("b", &p.b).s("cones9", if c.is_empty() { "" } else { &c })
}
fn setup_solver(p: &Prob, presolve: bool, chordal: bool) -> DefaultSolver<f64> {
    let mut base = DefaultSettings::<f64>::default();
    base.verbose = false;
    base.presolve_enable = presolve;
    base.chordal_decomposition_enable = chordal;
    DefaultSolver::new(&p.P, &p.q, &p.A, &p.b, &p.cones, base)
}
fn run_configuration(r: &Req) -> String {
    let p = req_prob9(r);
    let mut solver = setup_solver(&p, r.b("presolve"), r.b("chordal"));
    let mut set = DefaultSettings::<f64>::default();
    apply_echo(r, &mut set);
    solver.info.linsolver = req_lin(r);
    solver.info.print_to_buffer();
    solver.info.print_configuration(&set, &solver.data, &solver.cones).unwrap();
    format!("s={}", hex(&solver.info.get_print_buffer().unwrap()))
}

/// token after `label` up to the next ',' / end of line
fn after<'a>(line: &'a str, label: &str) -> Result<&'a str, String> {
    let i = line.find(label).ok_or_else(|| format!("no `{}` in `{}`", label, line))?;
    let rest = &line[i + label.len()..];
    Ok(rest.split(',').next().unwrap().trim())
}
fn parse_tok(t: &str) -> Result<f64, String> {
    t.parse::<f64>().map_err(|_| format!("`{}` is not a number", t))
}
/// the shown token is the field rounded to the precision of its format
fn shows(t: &str, v: f64, kind: usize, what: &str) -> Result<(), String> {
    let x = parse_tok(t)?;
    let ok = if v.is_nan() { x.is_nan() }
        else if v.is_infinite() { x == v }
        else {
            match kind {
                0 => (x - v).abs() <= 0.0500001 * v.abs() || (x.is_infinite() && v.abs() > 1.7e308 && x.signum() == v.signum()),
                1 => (x - v).abs() <= f64::max(0.00050001, v.abs() * 1e-15),
                2 => (x - v).abs() <= f64::max(0.050001, v.abs() * 1e-15),
                _ => x.to_bits() == v.to_bits() || x == v,
            }
        };
    if ok { Ok(()) } else { Err(format!("{} is shown as {} but the settings hold {:e}", what, t, v)) }
}
fn shows_bool(t: &str, v: bool, what: &str) -> Result<(), String> {
    if (t == "on") == v && (t == "on" || t == "false") { Ok(()) } else { Err(format!("{} is shown as `{}` but the settings hold {}", what, t, v)) }
}
fn shows_nat(t: &str, v: usize, what: &str) -> Result<(), String> {
    if t.parse::<usize>() == Ok(v) { Ok(()) } else { Err(format!("{} is shown as `{}` but the solver holds {}", what, t, v)) }
}

/// the property, stated on the header text alone: every figure shown is the figure the solver holds
fn check_header_text(text: &str, r: &Req) -> Result<(), String> {
    let verbose = r.b("verbose");
    if !verbose {
        return if text.is_empty() { Ok(()) } else { Err("verbose = false but print_configuration wrote something".into()) };
    }
    let lines: Vec<&str> = text.split('\n').collect();
    let mut k = 0;
    let mut next = |k: &mut usize| -> Result<&str, String> {
        let l = lines.get(*k).ok_or("header ends early")?;
        *k += 1;
        Ok(*l)
    };
    let mut l = next(&mut k)?;
    if !l.is_empty() {
        return Err(format!("header does not start with an empty line: `{}`", l));
    }
    l = next(&mut k)?;
    // presolve line
    let removed = r.str("removed");
    if let Some(rest) = l.strip_prefix("presolve: removed ") {
        if removed == "-" {
            return Err("presolve line although no presolver exists".into());
        }
        shows_nat(rest.strip_suffix(" constraints").ok_or("presolve line tail")?, removed.parse().unwrap(), "presolver.count_reduced")?;
        if !next(&mut k)?.is_empty() { return Err("no empty line after the presolve line".into()); }
        l = next(&mut k)?;
    } else if removed != "-" {
        return Err(format!("the presolver removed {} rows but the header has no presolve line", removed));
    }
    // chordal block
    let cc = r.str("chordalc");
    let sb = r.bs("sb");
    if l == "chordal decomposition:" {
        if cc == "-" {
            return Err("chordal block although the problem was not decomposed".into());
        }
        let c = r.us("chordalc");
        let l1 = next(&mut k)?;
        shows_bool(after(l1, "compact format = ")?, sb[4], "chordal_decomposition_compact")?;
        shows_bool(after(l1, "dual completion = ")?, sb[5], "chordal_decomposition_complete_dual")?;
        let l2 = next(&mut k)?;
        if after(l2, "merge method = ")? != unhex(r.str("merge")) { return Err(format!("merge method line `{}`", l2)); }
        for (label, want) in [("PSD cones initial             = ", c[0]), ("PSD cones decomposable        = ", c[1]),
            ("PSD cones after decomposition = ", c[2]), ("PSD cones after merges        = ", c[3])] {
            let li = next(&mut k)?;
            shows_nat(after(li, label)?, want, label.trim())?;
        }
        if !next(&mut k)?.is_empty() { return Err("no empty line after the chordal block".into()); }
        l = next(&mut k)?;
    } else if cc != "-" {
        return Err("the problem was decomposed but the header has no chordal block".into());
    }
    if l != "problem:" {
        return Err(format!("expected `problem:`, found `{}`", l));
    }
    let tags = r.us("tags");
    let numel = r.us("numel");
    for (label, want) in [("  variables     = ", r.u("n")), ("  constraints   = ", r.u("m")), ("  nnz(P)        = ", r.u("nnzP")),
        ("  nnz(A)        = ", r.u("nnzA")), ("  cones (total) = ", tags.len())] {
        let li = next(&mut k)?;
        if !li.starts_with(label) { return Err(format!("expected `{}…`, found `{}`", label, li)); }
        shows_nat(&li[label.len()..], want, label.trim())?;
    }
    // cone lines: in tag order, one per type present
    let names = ["Zero", "Nonnegative", "SecondOrder", "Exponential", "Power", "GenPower", "PSDTriangle"];
    let mut total = 0;
    let mut rows_total = 0;
    for (t, name) in names.iter().enumerate() {
        let mine: Vec<usize> = tags.iter().zip(&numel).filter(|(tt, _)| **tt == t).map(|(_, k)| *k).collect();
        if mine.is_empty() { continue; }
        let li = next(&mut k)?;
        let head = format!("    : {:>11} = ", name);
        if !li.starts_with(&head) { return Err(format!("expected the line of {} cones, found `{}`", name, li)); }
        let count: usize = li[head.len()..].split(',').next().unwrap().trim().parse().map_err(|_| "cone count")?;
        if count != mine.len() { return Err(format!("{}: count {} expected {}", name, count, mine.len())); }
        total += count;
        let nums: Vec<usize> = li.split("numel = ").nth(1).ok_or("numel")?
            .trim().trim_matches(|c| c == '(' || c == ')').split(',').filter_map(|t| t.parse().ok()).collect();
        let want: Vec<usize> = if mine.len() <= 5 { mine.clone() } else {
            let mut w = mine[..4].to_vec(); w.push(*mine.last().unwrap()); w };
        if nums != want { return Err(format!("{}: numel {:?} expected {:?}", name, nums, want)); }
        if nums.len() > 5 { return Err("more than five dimensions listed".into()); }
        if (mine.len() > 5) != li.contains("...") { return Err("elision marker".into()); }
        rows_total += mine.iter().sum::<usize>();
    }
    if total != tags.len() { return Err(format!("per-type counts add up to {} but there are {} cones", total, tags.len())); }
    if rows_total != r.u("m") { return Err(format!("cone dimensions add up to {} but m = {}", rows_total, r.u("m"))); }
    if !next(&mut k)?.is_empty() { return Err("no empty line after the cone lines".into()); }
    // settings echo
    if next(&mut k)? != "settings:" { return Err("expected `settings:`".into()); }
    let su = r.us("su");
    let sf = r.fs("sf");
    let lin = req_lin(r);
    let l1 = next(&mut k)?;
    let want_dir = if lin.direct { "direct" } else { "indirect" };
    let la = l1.strip_prefix("  linear algebra: ").ok_or("linear algebra line")?;
    let (dir, rest) = la.split_once(" / ").ok_or("linear algebra line")?;
    if dir != want_dir { return Err(format!("solver class shown as `{}` but linsolver.direct = {}", dir, lin.direct)); }
    let (name, rest) = rest.split_once(", precision: ").ok_or("precision")?;
    if name != lin.name { return Err(format!("linear solver shown as `{}` but linsolver.name = `{}`", name, lin.name)); }
    let want_tail = match lin.threads { 0 => "64 bit ".to_string(), 1 => "64 bit (1 thread)".to_string(), n => format!("64 bit ({} threads)", n) };
    if rest != want_tail { return Err(format!("precision / threads shown as `{}` expected `{}`", rest, want_tail)); }
    let l2 = next(&mut k)?;
    shows_nat(after(l2, "max iter = ")?, su[0], "max_iter")?;
    let tl = after(l2, "time limit = ")?;
    if sf[0].is_infinite() { if tl != "Inf" { return Err(format!("infinite time limit shown as `{}`", tl)); } }
    else { if tl == "Inf" { return Err("finite time limit shown as Inf".into()); } shows(tl, sf[0], 3, "time_limit")?; }
    shows(after(l2, "max step = ")?, sf[1], 1, "max_step_fraction")?;
    let l3 = next(&mut k)?;
    shows(after(l3, "tol_feas = ")?, sf[2], 0, "tol_feas")?;
    shows(after(l3, "tol_gap_abs = ")?, sf[3], 0, "tol_gap_abs")?;
    shows(after(l3, "tol_gap_rel = ")?, sf[4], 0, "tol_gap_rel")?;
    let l4 = next(&mut k)?;
    shows_bool(after(l4, "static reg : ")?, sb[0], "static_regularization_enable")?;
    shows(after(l4, "ϵ1 = ")?, sf[5], 0, "static_regularization_constant")?;
    shows(after(l4, "ϵ2 = ")?, sf[6], 0, "static_regularization_proportional")?;
    let l5 = next(&mut k)?;
    shows_bool(after(l5, "dynamic reg: ")?, sb[1], "dynamic_regularization_enable")?;
    shows(after(l5, "ϵ = ")?, sf[7], 0, "dynamic_regularization_eps")?;
    shows(after(l5, "δ = ")?, sf[8], 0, "dynamic_regularization_delta")?;
    let l6 = next(&mut k)?;
    shows_bool(after(l6, "iter refine: ")?, sb[2], "iterative_refinement_enable")?;
    shows(after(l6, "reltol = ")?, sf[9], 0, "iterative_refinement_reltol")?;
    shows(after(l6, "abstol = ")?, sf[10], 0, "iterative_refinement_abstol")?;
    let l7 = next(&mut k)?;
    shows_nat(after(l7, "max iter = ")?, su[1], "iterative_refinement_max_iter")?;
    shows(after(l7, "stop ratio = ")?, sf[11], 2, "iterative_refinement_stop_ratio")?;
    let l8 = next(&mut k)?;
    shows_bool(after(l8, "equilibrate: ")?, sb[3], "equilibrate_enable")?;
    shows(after(l8, "min_scale = ")?, sf[12], 0, "equilibrate_min_scaling")?;
    shows(after(l8, "max_scale = ")?, sf[13], 0, "equilibrate_max_scaling")?;
    let l9 = next(&mut k)?;
    shows_nat(after(l9, "max iter = ")?, su[2], "equilibrate_max_iter")?;
    if !next(&mut k)?.is_empty() || !next(&mut k)?.is_empty() || k != lines.len() {
        return Err("the header does not end with one empty line".into());
    }
    Ok(())
}
fn oracle_configuration(r: &Req, out: &str) -> Result<(), String> {
    let text = unhex(out.strip_prefix("s=").ok_or_else(|| out.to_string())?);
    check_header_text(&text, r)
}

// ---------------------------------------------------------------- print.status_header / print.footer_full

fn run_status_header(r: &Req) -> String {
    let mut i = DefaultInfo::<f64>::new();
    i.print_to_buffer();
    let mut s = DefaultSettings::<f64>::default();
    s.verbose = r.b("verbose");
    i.print_status_header(&s).unwrap();
    format!("s={}", hex(&i.get_print_buffer().unwrap()))
}
fn run_footer_full(r: &Req) -> String {
    let mut i = DefaultInfo::<f64>::new();
    i.status = c04_status(r.str("status"));
    i.solve_time = r.f("time");
    i.print_to_buffer();
    let mut s = DefaultSettings::<f64>::default();
    s.verbose = r.b("verbose");
    i.print_footer(&s).unwrap();
    format!("s={}", hex(&i.get_print_buffer().unwrap()))
}
fn oracle_footer_full(r: &Req, out: &str) -> Result<(), String> {
    let text = unhex(out.strip_prefix("s=").ok_or_else(|| out.to_string())?);
    if !r.b("verbose") {
        return if text.is_empty() { Ok(()) } else { Err("verbose = false but print_footer wrote something".into()) };
    }
    let lines: Vec<&str> = text.split('\n').collect();
    if lines.len() != 4 || !lines[3].is_empty() || !lines[0].starts_with("-----") {
        return Err(format!("footer has {} lines", lines.len()));
    }
    if lines[1].strip_prefix("Terminated with status = ") != Some(r.str("status")) {
        return Err(format!("footer shows `{}` for status {}", lines[1], r.str("status")));
    }
    // the time is shown in s / ms / µs / ns with Duration's rounding: parse it back
    let t = lines[2].strip_prefix("solve time = ").ok_or("no solve time line")?;
    let (num, scale) = if let Some(x) = t.strip_suffix("ms") { (x, 1e-3) } else if let Some(x) = t.strip_suffix("µs") { (x, 1e-6) }
        else if let Some(x) = t.strip_suffix("ns") { (x, 1e-9) } else if let Some(x) = t.strip_suffix('s') { (x, 1.0) } else { return Err(format!("unit of `{}`", t)) };
    let shown = num.parse::<f64>().map_err(|_| format!("`{}`", t))? * scale;
    let want = r.f("time");
    if (shown - want).abs() > 1.0000001e-9 + want * 1e-12 {
        return Err(format!("solve time shown as {} but info.solve_time = {:e}", t, want));
    }
    Ok(())
}

// ---------------------------------------------------------------- print.whole

/// the settings of a whole solve: the c04 keys, overridden by the echoed fields, plus the engine
fn line_fullsettings(l: Line, s: &DefaultSettings<f64>) -> Line {
    line_settings(l, s).s("method", &hex(&s.direct_solve_method)).u("maxthreads", s.max_threads as usize)
}
fn req_fullsettings(r: &Req) -> DefaultSettings<f64> {
    let mut s = req_settings(r);
    apply_echo(r, &mut s);
    s.direct_solve_method = unhex(r.str("method"));
    s.max_threads = r.u("maxthreads") as u32;
    s
}
fn mask_time_line(log: &str) -> String {
    log.split_inclusive('\n').map(|l| if l.starts_with("solve time = ") { "solve time = <t>\n".to_string() } else { l.to_string() }).collect()
}
fn run_whole(r: &Req) -> String {
    let p = req_prob(r);
    let s = req_fullsettings(r);
    let mut solver = DefaultSolver::new(&p.P, &p.q, &p.A, &p.b, &p.cones, s);
    solver.print_to_buffer();
    solver.solve();
    let log = solver.get_print_buffer().unwrap();
    format!("s={}", hex(&mask_time_line(&log)))
}
fn oracle_whole(r: &Req, out: &str) -> Result<(), String> {
    let text = unhex(out.strip_prefix("s=").ok_or_else(|| out.to_string())?);
    if !r.b("verbose") {
        return if text.is_empty() { Ok(()) } else { Err("verbose = false but the solve wrote a log".into()) };
    }
    // banner (6 lines), then the configuration header up to the table header
    let start = text.match_indices('\n').nth(5).map(|(i, _)| i + 1).ok_or("log shorter than the banner")?;
    let end = text.find("iter    pcost").ok_or("no table header")?;
    check_header_text(&text[start..end], r)
}

fn crate_version() -> String {
    let toml = std::fs::read_to_string("/repo/Cargo.toml").unwrap_or_default();
    toml.lines().skip_while(|l| l.trim() != "[package]").find_map(|l| l.trim().strip_prefix("version")
        .and_then(|r| r.trim().strip_prefix('=')).map(|v| v.trim().trim_matches('"').to_string())).unwrap_or_default()
}

fn row_cells(cp: f64, cd: f64, gap: f64, rp: f64, rd: f64, kt: f64, mu: f64, step: f64) -> Vec<String> {
    let f = verif_hooks_info::print::expformat_cost;
    let g = verif_hooks_info::print::expformat_res;
    vec![f(cp), f(cd), g(gap), g(rp), g(rd), g(kt), g(mu), verif_hooks_info::print::expformat_step(step)]
}

/// solve once with the observer on and build the request whose model side re-assembles the whole log
/// from independent sources: the rows of pass k from the observer's snapshot of `info` at pass k, the
/// last row from the returned `info`, the header from `solver.data` / `solver.settings`.
fn whole_request(p: &Prob, st: &DefaultSettings<f64>) -> Option<String> {
    let mut solver = DefaultSolver::new(&p.P, &p.q, &p.A, &p.b, &p.cones, st.clone());
    solver.print_to_buffer();
    clarabel::verif_hooks::observer::start();
    let r = std::panic::catch_unwind(std::panic::AssertUnwindSafe(|| solver.solve()));
    let passes = passes_of(&clarabel::verif_hooks::observer::take());
    if r.is_err() {
        return None;
    }
    let log = solver.get_print_buffer().unwrap();
    let logrows = table_rows(&log);
    let mut ri: Vec<usize> = vec![];
    let mut rc: Vec<String> = vec![];
    let i = &solver.info;
    for (k, row) in logrows.iter().enumerate() {
        let (it, cells) = if k < passes.len() && k + 1 < logrows.len() {
            let q = &passes[k].snap;
            (q.iterations as usize, row_cells(q.cost_primal, q.cost_dual, f64::min(q.gap_abs, q.gap_rel), q.res_primal,
                q.res_dual, q.ktratio, q.mu, q.step_length))
        } else if k + 1 == logrows.len() {
            (i.iterations as usize, row_cells(i.cost_primal, i.cost_dual, f64::min(i.gap_abs, i.gap_rel), i.res_primal,
                i.res_dual, i.ktratio, i.μ, i.step_length))
        } else {
            // a row between the last pass and the last row: taken from the log
            let t: Vec<&str> = row.split_whitespace().collect();
            if t.len() != 9 || t.iter().any(|x| x.contains("NaN") || x.contains("inf")) { return None; }
            (t[0].parse().ok()?, t[1..].iter().map(|x| x.to_string()).collect())
        };
        ri.push(it);
        rc.extend(cells.iter().map(|c| hex(c)));
    }
    let sm = summary_of(&solver);
    let mut l = line_prob(Line::new("print.whole"), p).u("nextra", logrows.len().saturating_sub(passes.len()));
    l = line_fullsettings(l, st);
    l = line_echo(l, &solver.settings, &solver.info.linsolver);
    l = line_fmt_table(l, &solver.settings, Some((0.0, "<t>".into())));
    l = line_summary(l, &sm);
    l = l.s("version", &hex(&crate_version())).us("ri", &ri).s("rc", &rc.join(","))
        .s("fstatus", &format!("{:?}", solver.info.status)).f("time", 0.0).b("debug", cfg!(debug_assertions));
    Some(l.done())
}

// ---------------------------------------------------------------- print.write_impl / print.target_kind

#[derive(Default)]
struct DevState {
    got: Vec<u8>,
    script: std::collections::VecDeque<i64>,
    calls: Vec<usize>,
    flushes: usize,
}
/// a user stream whose `write` answers from a script: `k ≥ 0` accepts `min(k, len)` bytes, `-1` is
/// `Interrupted`, anything else an error; once the script is used up everything is accepted
struct ScriptedDev(Arc<Mutex<DevState>>);
impl Write for ScriptedDev {
    fn write(&mut self, buf: &[u8]) -> std::io::Result<usize> {
        let mut d = self.0.lock().unwrap();
        d.calls.push(buf.len());
        match d.script.pop_front() {
            None => { d.got.extend_from_slice(buf); Ok(buf.len()) }
            Some(k) if k >= 0 => { let k = (k as usize).min(buf.len()); d.got.extend_from_slice(&buf[..k]); Ok(k) }
            Some(-1) => Err(std::io::Error::new(std::io::ErrorKind::Interrupted, "interrupted")),
            Some(_) => Err(std::io::Error::new(std::io::ErrorKind::Other, "device error")),
        }
    }
    fn flush(&mut self) -> std::io::Result<()> {
        self.0.lock().unwrap().flushes += 1;
        Ok(())
    }
}
fn io_err(e: &std::io::Error) -> &'static str {
    match e.kind() {
        std::io::ErrorKind::Interrupted => "err:interrupted",
        std::io::ErrorKind::WriteZero => "err:writeZero",
        _ => "err:other",
    }
}
fn parse_ops(s: &str) -> Vec<(char, Vec<u8>)> {
    if s == "-" {
        return vec![];
    }
    s.split(';').map(|t| if t == "f" { ('f', vec![]) } else { (t.as_bytes()[0] as char, unhexb(&t[2..])) }).collect()
}
fn run_write_impl(r: &Req) -> String {
    let kind = r.str("target");
    let script: std::collections::VecDeque<i64> = r.is("script").into_iter().collect();
    let ops = parse_ops(r.str("ops"));
    let mut info = DefaultInfo::<f64>::new();
    let dev = Arc::new(Mutex::new(DevState { script, ..Default::default() }));
    let path = format!("/tmp/c20-w-{}-{}.log", std::process::id(), FILE_NO.fetch_add(1, std::sync::atomic::Ordering::SeqCst));
    match kind {
        "buffer" => info.print_to_buffer(),
        "stream" => info.print_to_stream(Box::new(ScriptedDev(dev.clone()))),
        "file" => info.print_to_file(std::fs::File::create(&path).unwrap()),
        "sink" => info.print_to_sink(),
        _ => panic!("target"),
    }
    let mut res = vec![];
    for (o, buf) in &ops {
        let out = info.print_target();
        res.push(match o {
            'w' => match out.write(buf) { Ok(k) => format!("w{}", k), Err(e) => io_err(&e).to_string() },
            'a' => match out.write_all(buf) { Ok(()) => "ok".to_string(), Err(e) => io_err(&e).to_string() },
            _ => match out.flush() { Ok(()) => "ok".to_string(), Err(e) => io_err(&e).to_string() },
        });
    }
    let got: Vec<u8> = match kind {
        "buffer" => info.get_print_buffer().unwrap().into_bytes(),
        "stream" => dev.lock().unwrap().got.clone(),
        "file" => { info.print_to_sink(); let b = std::fs::read(&path).unwrap_or_default(); let _ = std::fs::remove_file(&path); b }
        _ => vec![],
    };
    let base = format!("res={} got={}", res.join(","), hexb(&got));
    if kind == "stream" {
        let d = dev.lock().unwrap();
        format!("{} calls={} flushes={} left={}", base, proto::fus(&d.calls), d.flushes, d.script.len())
    } else { base }
}
/// every byte a successful call reports as written reaches the sink exactly once and in order
fn oracle_write_impl(r: &Req, out: &str) -> Result<(), String> {
    let kind = r.str("target");
    let ops = parse_ops(r.str("ops"));
    let res: Vec<&str> = field(out, "res").unwrap_or("").split(',').filter(|s| !s.is_empty()).collect();
    let got = unhexb(field(out, "got").unwrap_or("-"));
    if res.len() != ops.len() {
        return Err(out.to_string());
    }
    if kind == "sink" {
        return if got.is_empty() { Ok(()) } else { Err("a sink delivered bytes".into()) };
    }
    // the possible positions in `got` after each op (a failed write_all may have delivered any prefix)
    let mut pos: Vec<usize> = vec![0];
    for ((o, buf), rs) in ops.iter().zip(&res) {
        let mut nextpos = vec![];
        for &p in &pos {
            let lens: Vec<usize> = match (*o, *rs) {
                ('f', _) => vec![0],
                ('w', x) if x.starts_with('w') => vec![x[1..].parse().map_err(|_| "count")?],
                ('a', "ok") => vec![buf.len()],
                ('a', _) => (0..=buf.len()).collect(),
                _ => vec![0],
            };
            for k in lens {
                if k <= buf.len() && p + k <= got.len() && got[p..p + k] == buf[..k] && !nextpos.contains(&(p + k)) {
                    nextpos.push(p + k);
                }
            }
        }
        if nextpos.is_empty() {
            return Err(format!("the bytes the sink holds are not the accepted bytes in order: {}", out));
        }
        pos = nextpos;
    }
    if !pos.contains(&got.len()) {
        return Err(format!("the sink holds {} bytes, which the reported results do not account for", got.len()));
    }
    Ok(())
}

fn stream_field(dbg: &str) -> String {
    dbg.rsplit("stream: ").next().unwrap_or("").trim_end_matches(|c| c == '}' || c == ' ' || c == ',').to_string()
}
fn run_target_kind(r: &Req) -> String {
    let kind = r.str("target");
    let pre = unhexb(r.str("pre"));
    let mut info = DefaultInfo::<f64>::new();
    let dev = Arc::new(Mutex::new(DevState::default()));
    let path = format!("/tmp/c20-k-{}-{}.log", std::process::id(), FILE_NO.fetch_add(1, std::sync::atomic::Ordering::SeqCst));
    match kind {
        "buffer" => info.print_to_buffer(),
        "stream" => info.print_to_stream(Box::new(ScriptedDev(dev.clone()))),
        "file" => info.print_to_file(std::fs::File::create(&path).unwrap()),
        "sink" => info.print_to_sink(),
        "stdout" => info.print_to_stdout(),
        _ => panic!("target"),
    }
    if kind != "stdout" {
        info.print_target().write_all(&pre).unwrap();
    }
    let mut c = info.clone();
    let ck = stream_field(&format!("{:?}", c));
    if kind != "stdout" {
        c.print_target().write_all(b"!").unwrap();
    }
    let cb = c.get_print_buffer().map(|s| hex(&s)).unwrap_or_else(|_| "-".into());
    let ob = info.get_print_buffer().map(|s| hex(&s)).unwrap_or_else(|_| "-".into());
    let k = stream_field(&format!("{:?}", info));
    drop(c);
    info.print_to_sink();
    let _ = std::fs::remove_file(&path);
    format!("kind={} clone={} clonebuf={} origbuf={}", k, ck, cb, ob)
}

fn channels() -> Vec<Channel> {
    vec![
        Channel { name: "print.exp_reformat", tol: Tol::Exact, run: run_exp_reformat, oracle: Some(oracle_exp_reformat),
            modelled: true, rust_fn: "info_print::_exp_str_reformat", lean: "Print.expStrReformat / C20.exp_format" },
        Channel { name: "print.conedims", tol: Tol::Exact, run: run_conedims, oracle: Some(oracle_conedims),
            modelled: true, rust_fn: "info_print::_print_conedims_by_type (the printed count is CompositeCone::get_type_count of a real CompositeCone: both the present and the absent-tag branch)", lean: "Print.printConedimsByType ((nvarsOf cones tag).length) / C20.header_counts" },
        Channel { name: "print.status_line", tol: Tol::Exact, run: run_status_line, oracle: None,
            modelled: true, rust_fn: "DefaultInfo::print_status", lean: "Print.statusLine" },
        Channel { name: "print.footer", tol: Tol::Exact, run: run_footer, oracle: None,
            modelled: true, rust_fn: "DefaultInfo::print_footer", lean: "Print.footerHead / C20.footer" },
        Channel { name: "print.log", tol: Tol::Exact, run: run_log, oracle: Some(oracle_log),
            modelled: true, rust_fn: "Solver::solve print call sites; DefaultInfo::print_status/print_footer",
            lean: "Loop.solve + Print.eventsOf / C20.iteration_column, C20.silent, C20.footer" },
        Channel { name: "print.targets", tol: Tol::Exact, run: run_targets, oracle: Some(oracle_targets),
            modelled: false, rust_fn: "io::PrintTarget (Write impl, print_to_*), print_configuration", lean: "C20.target_independent" },
        Channel { name: "print.stdout", tol: Tol::Exact, run: run_stdout, oracle: None,
            modelled: false, rust_fn: "io::PrintTarget::Stdout", lean: "C20.silent" },
        Channel { name: "print.configuration", tol: Tol::Exact, run: run_configuration, oracle: Some(oracle_configuration),
            modelled: true, rust_fn: "DefaultInfo::print_configuration, print_settings, print_nthreads, _get_precision_string, print_chordal_decomposition, _bool_on_off",
            lean: "Print.printConfiguration (+ ProblemData.new, Summary.ofData) / C20.header_reports_data, C20.settings_echo_determines, C20.header_silent" },
        Channel { name: "print.status_header", tol: Tol::Exact, run: run_status_header, oracle: None,
            modelled: true, rust_fn: "DefaultInfo::print_status_header", lean: "Print.printStatusHeader / C20.log_silent" },
        Channel { name: "print.footer_full", tol: Tol::Exact, run: run_footer_full, oracle: Some(oracle_footer_full),
            modelled: true, rust_fn: "DefaultInfo::print_footer", lean: "Print.printFooter / C20.footer_status_injective" },
        Channel { name: "print.whole", tol: Tol::Exact, run: run_whole, oracle: Some(oracle_whole),
            modelled: true, rust_fn: "Solver::solve print call sites, _print_banner, print_configuration, print_status_header, print_status, print_footer",
            lean: "Print.wholeLog / C20.whole_log_silent" },
        Channel { name: "print.write_impl", tol: Tol::Exact, run: run_write_impl, oracle: Some(oracle_write_impl),
            modelled: true, rust_fn: "io::PrintTarget::{write, flush} (Write impl, std write_all), print_to_*, InfoPrint::print_target",
            lean: "Print.Target.run / C20.write_all_forwards, C20.write_target_independent" },
        Channel { name: "print.target_kind", tol: Tol::Exact, run: run_target_kind, oracle: None,
            modelled: true, rust_fn: "io::PrintTarget::{fmt, clone}", lean: "Print.Target.debugName / Print.Target.clone" },
    ]
}

// ---------------------------------------------------------------- generators

fn rand_float(rng: &mut Rng) -> f64 {
    match rng.below(12) {
        0 => 0.0,
        1 => -0.0,
        2 => 1.0,
        3 => rng.logmag(-320.0, 308.0),
        4 => rng.logmag(-12.0, 12.0),
        5 => rng.logmag(-2.0, 2.0),
        6 => 9.9995 * 10f64.powi(rng.range(-12, 12) as i32),
        7 => 9.995e9,
        8 => 1e10,
        9 => 1e-10,
        10 => f64::from_bits(rng.next_u64() & 0x7fef_ffff_ffff_ffff),
        _ => (rng.range(-1000, 1000) as f64) / 8.0,
    }
}

fn problem(rng: &mut Rng) -> Prob {
    let kinds = *rng.choose(&["zn", "znq", "n", "nq", "znqe", "ep", "nqepg", "znqt", "nnnnnnz"]);
    let cones = cone_list(rng, kinds, if kinds.len() > 6 { 9 } else { 4 });
    let n = 1 + rng.below(5);
    let pdiag = *rng.choose(&[0.0, 1.0, 1.0]);
    let vals = *rng.choose(&[Vals::SmallInt(3), Vals::Normal]);
    let mut p = planted(rng, n, cones, pdiag, vals);
    match rng.below(7) {
        0 => { for v in p.b.iter_mut() { *v = -(v.abs() + 5.0); } }
        1 => { p.P = CscMatrix::zeros((p.q.len(), p.q.len())); }
        2 => {
            // some infinite bounds so that presolve removes rows
            for (i, v) in p.b.iter_mut().enumerate() { if i % 2 == 0 { *v = 1e20; } }
        }
        _ => {}
    }
    p
}

fn settings(rng: &mut Rng) -> DefaultSettings<f64> {
    let mut s = DefaultSettings::<f64>::default();
    s.verbose = rng.bool(0.75);
    s.max_iter = *rng.choose(&[0u32, 1, 2, 4, 7, 200, 200, 200]);
    s.time_limit = *rng.choose(&[f64::INFINITY, f64::INFINITY, f64::INFINITY, 0.0]);
    s.presolve_enable = rng.bool(0.8);
    s.equilibrate_enable = rng.bool(0.8);
    s.chordal_decomposition_enable = false;
    if rng.bool(0.15) {
        s.min_terminate_step_length = *rng.choose(&[1e-2, 0.5]);
    }
    if rng.bool(0.1) {
        s.tol_feas = 1e-14;
        s.tol_gap_abs = 1e-15;
        s.tol_gap_rel = 1e-15;
    }
    s
}

fn generate(s: &mut Session) {
    if std::env::var("C20_DEBUG_PANIC").is_ok() {
        std::panic::set_hook(Box::new(|i| eprintln!("{}", i)));
    }
    generate_round3(s);
    // ---- exponent re-formatter -----------------------------------------------------------
    let fixed = ["1e5", "1e-5", "1.5e10", "1.5e-10", "-2.25e100", "2.25e-100", "+0.0000e0", "1e", "e", "e5", "e-", "e-5",
        "abc", "", "1.0", "1e-", "1.0e+5", "1ee5", "1e5e", "-1e-1", "NaN", "inf", "1e123456"];
    for f in fixed {
        s.submit(Line::new("print.exp_reformat").s("s", &hex(f)).done());
    }
    for _ in 0..s.budget(1500, 60000) {
        let v = rand_float(&mut s.rng);
        let t = match s.rng.below(4) {
            0 => format!("{:+8.4e}", v),
            1 => format!("{:6.2e}", v),
            2 => format!("{:>.2e}", v),
            _ => format!("{:e}", v),
        };
        if t.contains(' ') {
            continue;
        }
        s.submit(Line::new("print.exp_reformat").s("s", &hex(&t)).done());
    }
    // ---- cone-count lines -------------------------------------------------------------------
    for _ in 0..s.budget(400, 10000) {
        let k = s.rng.below(12);
        let mut tags = vec![];
        let mut numel = vec![];
        let ntags = 1 + s.rng.below(7);
        for _ in 0..k {
            let t = s.rng.below(ntags);
            tags.push(t);
            numel.push(match t { 0 | 1 => s.rng.below(6), 2 => 2 + s.rng.below(4), 3 | 4 => 3, 5 => 2 + s.rng.below(3),
                _ => { let n = 1 + s.rng.below(3); n * (n + 1) / 2 } });
        }
        let tag = s.rng.below(7);
        s.submit(Line::new("print.conedims").us("tags", &tags).us("numel", &numel).u("tag", tag).done());
    }
    // ---- table rows / footer ------------------------------------------------------------------
    for _ in 0..s.budget(600, 20000) {
        let iters = *s.rng.choose(&[0usize, 0, 1, 2, 9, 10, 99, 100, 999, 1000, 12345]);
        let vals: Vec<f64> = (0..8).map(|_| if s.rng.bool(0.05) { *s.rng.choose(&[f64::NAN, f64::INFINITY, f64::NEG_INFINITY]) }
            else { rand_float(&mut s.rng) }).collect();
        let p = &verif_hooks_info::print::expformat_cost;
        let g = &verif_hooks_info::print::expformat_res;
        let cells = vec![p(vals[0]), p(vals[1]), g(vals[2]), g(vals[3]), g(vals[4]), g(vals[5]), g(vals[6]),
            verif_hooks_info::print::expformat_step(vals[7])];
        let cells: Vec<String> = cells.iter().map(|c| hex(c)).collect();
        s.submit(Line::new("print.status_line").u("iters", iters).fs("vals", &vals).s("cells", &cells.join(",")).done());
    }
    for st in ["Unsolved", "Solved", "PrimalInfeasible", "DualInfeasible", "AlmostSolved", "AlmostPrimalInfeasible",
        "AlmostDualInfeasible", "MaxIterations", "MaxTime", "NumericalError", "InsufficientProgress"] {
        s.submit(Line::new("print.footer").s("status", st).done());
    }
    // ---- whole solves ---------------------------------------------------------------------------
    // corpus first: problems on which the solve ends after an insufficient-progress rollback
    // (the path on which the log used to end with the discarded iterate)
    let corpus: Vec<(Prob, DefaultSettings<f64>)> = if s.is_searching() { vec![] } else {
        include_str!("c20_corpus.txt").lines().filter(|l| !l.trim().is_empty()).map(|l| {
            let r = Req::parse(l).expect("corpus line");
            (req_prob(&r), req_settings(&r))
        }).collect()
    };
    let ncorpus = corpus.len();
    for k in 0..ncorpus + s.budget(350, 6000) {
        let mut rng = s.rng.fork();
        let (p, st) = if k < ncorpus { s.count("corpus"); corpus[k].clone() } else { (problem(&mut rng), settings(&mut rng)) };
        let pc = p.clone();
        let st2 = st.clone();
        if let Ok(o) = std::panic::catch_unwind(std::panic::AssertUnwindSafe(|| solve_observed(&pc, st2))) {
            let mut l = line_prob(Line::new("print.log"), &p);
            l = line_settings(l, &st);
            l = line_oracles(l, &o);
            s.count(&format!("log-status:{:?}", o.status));
            if o.passes.iter().any(|q| q.ip.as_deref().map(|x| x != "NoUpdate").unwrap_or(false)) {
                s.count("log-rollback");
            }
            s.submit(l.done());
        }
        let mut l = line_prob(Line::new("print.targets"), &p);
        l = line_settings(l, &st);
        s.submit(l.done());
        // stdout in a child process: a few silent ones and one loud control
        if !s.is_searching() && k < 6 {
            let mut stq = st.clone();
            stq.verbose = k != 0;
            stq.verbose = !stq.verbose; // k = 0 is the loud control
            let mut l = line_prob(Line::new("print.stdout"), &p);
            l = line_settings(l, &stq);
            let line = l.done();
            let out = run_isolated(&line, 30.0, 4096);
            s.count(if stq.verbose { "stdout-loud" } else { "stdout-silent" });
            let lines: Vec<&str> = out.lines().collect();
            if stq.verbose {
                if !(out.contains("Clarabel.rs") && out.contains("Terminated with status") && lines.last().map(|l| l.starts_with("done status=")).unwrap_or(false)) {
                    s.fail("print.stdout", line, out.clone(), "verbose = true with the default target: the log did not reach stdout".into());
                }
            } else if !(lines.len() == 1 && lines[0].starts_with("done status=")) {
                s.fail("print.stdout", line, out.clone(), "verbose = false but the child wrote to stdout".into());
            }
        }
    }
}

// ---------------------------------------------------------------- generators of round 3

fn extreme_float(rng: &mut Rng) -> f64 {
    match rng.below(16) {
        0 => 0.0,
        1 => -0.0,
        2 => f64::MAX,
        3 => f64::MIN_POSITIVE,
        4 => 5e-324,
        5 => 1e20,
        6 => f64::INFINITY,
        7 => f64::NEG_INFINITY,
        8 => f64::NAN,
        9 => 9.95e-9,   // rounds up to the next decade in `{:.1e}`
        10 => 0.9995,   // rounds up to 1.000 in `{:.3}`
        11 => -rng.logmag(-10.0, 10.0),
        12 => rng.logmag(-300.0, 300.0),
        13 => (rng.range(-100000, 100000) as f64) / 1000.0,
        _ => rng.logmag(-12.0, 6.0),
    }
}

/// any value in every echoed field (the unit channel does not solve)
fn echo_settings_any(rng: &mut Rng) -> DefaultSettings<f64> {
    let mut s = DefaultSettings::<f64>::default();
    s.verbose = rng.bool(0.9);
    let nat = |rng: &mut Rng| *rng.choose(&[0u32, 1, 2, 10, 200, 4294967295, 12345]);
    s.max_iter = nat(rng);
    s.iterative_refinement_max_iter = nat(rng);
    s.equilibrate_max_iter = nat(rng);
    s.static_regularization_enable = rng.bool(0.5);
    s.dynamic_regularization_enable = rng.bool(0.5);
    s.iterative_refinement_enable = rng.bool(0.5);
    s.equilibrate_enable = rng.bool(0.5);
    s.chordal_decomposition_compact = rng.bool(0.5);
    s.chordal_decomposition_complete_dual = rng.bool(0.5);
    s.chordal_decomposition_merge_method = rng.choose(&["clique_graph", "parent_child", "none"]).to_string();
    if rng.bool(0.8) {
        s.time_limit = *rng.choose(&[f64::INFINITY, 0.0, 1e20, f64::MAX, 1.5, 1e-3, 3600.0, f64::NEG_INFINITY, f64::NAN]);
        s.max_step_fraction = extreme_float(rng);
        s.tol_feas = extreme_float(rng);
        s.tol_gap_abs = extreme_float(rng);
        s.tol_gap_rel = extreme_float(rng);
        s.static_regularization_constant = extreme_float(rng);
        s.static_regularization_proportional = extreme_float(rng);
        s.dynamic_regularization_eps = extreme_float(rng);
        s.dynamic_regularization_delta = extreme_float(rng);
        s.iterative_refinement_reltol = extreme_float(rng);
        s.iterative_refinement_abstol = extreme_float(rng);
        s.iterative_refinement_stop_ratio = extreme_float(rng);
        s.equilibrate_min_scaling = extreme_float(rng);
        s.equilibrate_max_scaling = extreme_float(rng);
    }
    s
}
fn rand_lin(rng: &mut Rng) -> LinearSolverInfo {
    LinearSolverInfo { name: rng.choose(&["qdldl", "faer", "mkl", "x", "pardiso_panua"]).to_string(),
        threads: *rng.choose(&[0usize, 1, 1, 2, 8, 1000]), direct: rng.bool(0.7), nnzA: 0, nnzL: 0 }
}

/// a cone list that need not be solvable: all seven kinds, none, many of one kind, singletons that
/// `new_collapsed` folds into nonnegative cones
fn header_cones(rng: &mut Rng) -> Vec<SupportedConeT<f64>> {
    let count = *rng.choose(&[0usize, 1, 2, 3, 5, 6, 7, 9, 14]);
    let kinds = *rng.choose(&["znqepgt", "q", "nq", "qe", "zq", "t", "znq", "pg", "e", "zn"]);
    (0..count).map(|_| {
        let k = kinds.as_bytes()[rng.below(kinds.len())] as char;
        match k {
            'z' => ZeroConeT(1 + rng.below(3)),
            'n' => NonnegativeConeT(1 + rng.below(4)),
            'q' => SecondOrderConeT(1 + rng.below(4)),
            'e' => ExponentialConeT(),
            'p' => PowerConeT(0.5),
            'g' => GenPowerConeT(vec![0.5, 0.5], 1 + rng.below(2)),
            _ => PSDTriangleConeT(1 + rng.below(4)),
        }
    }).collect()
}
fn header_problem(rng: &mut Rng) -> Prob {
    let cones = header_cones(rng);
    let m: usize = cones.iter().map(cone_nvars).sum();
    let n = 1 + rng.below(4);
    let dens = *rng.choose(&[0.0, 0.3, 0.7, 1.0]);
    let A = gen::csc(rng, m, n, dens, Vals::SmallInt(3));
    let P = match rng.below(4) {
        0 => CscMatrix::zeros((n, n)),
        1 => gen::csc(rng, n, n, 0.6, Vals::SmallInt(3)),   // not upper triangular: `to_triu` changes nnz(P)
        _ => gen::csc_triu(rng, n, 0.5, true, Vals::SmallInt(3)),
    };
    let mut b = gen::vec_of(rng, m, Vals::Normal);
    if rng.bool(0.6) {
        for v in b.iter_mut() { if rng.bool(0.4) { *v = *rng.choose(&[1e20, 5e20, 9.999e19]); } }
    }
    let q = gen::vec_of(rng, n, Vals::Normal);
    Prob { P, q, A, b, cones }
}
/// index of entry (i, j), i ≤ j, in the scaled upper triangle
fn svec_index(i: usize, j: usize) -> usize { j * (j + 1) / 2 + i }
/// `min 0  s.t.  2 I - Σ x_k E_k ⪰ 0` on a band pattern (plus some other cones): decomposable and solved in a few steps
fn chordal_problem(rng: &mut Rng) -> Prob {
    let nn = 4 + rng.below(5);
    let band = 1 + rng.below(2);
    let tri = nn * (nn + 1) / 2;
    let mut entries: Vec<(usize, usize)> = vec![];
    for j in 0..nn { for i in 0..=j { if j - i <= band && i != j { entries.push((i, j)); } } }
    let n = entries.len();
    let extra = rng.below(3);
    let m = tri + extra;
    // column k has one entry, in the row of entries[k]
    let mut colptr = vec![0];
    let mut rowval = vec![];
    let mut nzval = vec![];
    for (i, j) in &entries {
        rowval.push(extra + svec_index(*i, *j));
        nzval.push(1.0);
        colptr.push(rowval.len());
    }
    let A = CscMatrix::new(m, n, colptr, rowval, nzval);
    let mut b = vec![0.0; m];
    for v in b.iter_mut().take(extra) { *v = 1.0; }
    for d in 0..nn { b[extra + svec_index(d, d)] = 2.0; }
    let mut cones = vec![];
    if extra > 0 { cones.push(NonnegativeConeT(extra)); }
    cones.push(PSDTriangleConeT(nn));
    Prob { P: CscMatrix::zeros((n, n)), q: vec![0.0; n], A, b, cones }
}

/// settings a solve survives, with every branch of the echo reachable
fn full_settings(rng: &mut Rng) -> DefaultSettings<f64> {
    let mut s = DefaultSettings::<f64>::default();
    s.verbose = rng.bool(0.85);
    s.max_iter = *rng.choose(&[0u32, 1, 3, 200, 200, 200, 50]);
    s.time_limit = *rng.choose(&[f64::INFINITY, f64::INFINITY, 0.0, 1e20, f64::MAX, 3600.0]);
    s.max_step_fraction = *rng.choose(&[0.99, 0.9, 0.9995, 0.95]);
    if rng.bool(0.3) {
        s.tol_feas = *rng.choose(&[1e-8, 1e-6, 9.95e-9, 1e-14]);
        s.tol_gap_abs = *rng.choose(&[1e-8, 1e-5, 0.0]);
        s.tol_gap_rel = *rng.choose(&[1e-8, 1e-5, 0.0]);
    }
    s.static_regularization_enable = rng.bool(0.85);
    s.static_regularization_constant = *rng.choose(&[1e-8, 1e-7, 1e-9]);
    s.static_regularization_proportional = *rng.choose(&[f64::EPSILON * f64::EPSILON, 1e-30]);
    s.dynamic_regularization_enable = rng.bool(0.8);
    s.dynamic_regularization_eps = *rng.choose(&[1e-13, 1e-12]);
    s.dynamic_regularization_delta = *rng.choose(&[2e-7, 1e-7]);
    s.iterative_refinement_enable = rng.bool(0.8);
    s.iterative_refinement_reltol = *rng.choose(&[1e-13, 1e-10]);
    s.iterative_refinement_abstol = *rng.choose(&[1e-12, 1e-10]);
    s.iterative_refinement_max_iter = *rng.choose(&[10u32, 0, 3]);
    s.iterative_refinement_stop_ratio = *rng.choose(&[5.0, 2.0, 1.25]);
    s.equilibrate_enable = rng.bool(0.8);
    s.equilibrate_min_scaling = *rng.choose(&[1e-4, 1e-2]);
    s.equilibrate_max_scaling = *rng.choose(&[1e4, 1e2]);
    s.equilibrate_max_iter = *rng.choose(&[10u32, 0, 1]);
    s.presolve_enable = rng.bool(0.8);
    s.chordal_decomposition_enable = rng.bool(0.7);
    s.chordal_decomposition_compact = rng.bool(0.5);
    s.chordal_decomposition_complete_dual = rng.bool(0.5);
    s.chordal_decomposition_merge_method = rng.choose(&["clique_graph", "parent_child", "none"]).to_string();
    s.direct_solve_method = rng.choose(&["qdldl", "qdldl", "auto", "faer"]).to_string();
    // a multi-threaded factorisation may differ in the last bits from run to run, and the log is
    // compared with a second solve: more than one thread only for the single-threaded engine
    s.max_threads = if s.direct_solve_method == "qdldl" { *rng.choose(&[0u32, 1, 2, 4]) } else { 1 };
    s
}

fn rand_bytes(rng: &mut Rng) -> Vec<u8> {
    let n = *rng.choose(&[0usize, 1, 2, 3, 5, 8, 13, 40]);
    (0..n).map(|_| 32 + rng.below(95) as u8).collect()
}

fn generate_round3(s: &mut Session) {
    // ---- configuration header, without solving ----------------------------------------------
    let inf = clarabel::get_infinity();
    for k in 0..s.budget(250, 6000) {
        let mut rng = s.rng.fork();
        let chordalish = k % 5 == 4;
        let p = if chordalish { chordal_problem(&mut rng) } else { header_problem(&mut rng) };
        let presolve = rng.bool(0.8);
        let chordal = chordalish || rng.bool(0.3);
        let solver = match std::panic::catch_unwind(std::panic::AssertUnwindSafe(|| setup_solver(&p, presolve, chordal))) {
            Ok(x) => x,
            Err(_) => { s.count("header-setup-panic"); continue; }
        };
        let sm = summary_of(&solver);
        let set = echo_settings_any(&mut rng);
        let lin = if rng.bool(0.3) { solver.info.linsolver.clone() } else { rand_lin(&mut rng) };
        let mode = if sm.chordal.is_none() && rng.bool(0.8) { "data" } else { "summary" };
        s.count(&format!("header-mode:{}", mode));
        if sm.chordal.is_some() { s.count("header-chordal"); }
        if sm.removed.is_some() { s.count("header-presolved"); }
        if (0..7).any(|t| sm.tags.iter().filter(|x| **x == t).count() > 5) { s.count("header-elided"); }
        if sm.tags.is_empty() { s.count("header-nocones"); }
        let mut l = line_prob9(Line::new("print.configuration"), &p).b("presolve", presolve).b("chordal", chordal).f("inf", inf)
            .s("mode", mode);
        l = line_echo(l, &set, &lin);
        l = line_fmt_table(l, &set, None);
        l = line_summary(l, &sm);
        s.submit(l.done());
    }
    // ---- table header / footer -------------------------------------------------------------------
    for v in [true, false] {
        s.submit(Line::new("print.status_header").b("verbose", v).done());
    }
    for st in ["Unsolved", "Solved", "PrimalInfeasible", "DualInfeasible", "AlmostSolved", "AlmostPrimalInfeasible",
        "AlmostDualInfeasible", "MaxIterations", "MaxTime", "NumericalError", "InsufficientProgress"] {
        for k in 0..s.budget(4, 40) {
            let t = match k % 8 { 0 => 0.0, 1 => 1e-9, 2 => 1.5e-6, 3 => 2.5e-3, 4 => 1.0, 5 => 0.9999999995,
                6 => s.rng.logmag(-9.0, 6.0).abs(), _ => s.rng.uniform(0.0, 100.0) };
            let verbose = k % 4 != 3;
            let set = DefaultSettings::<f64>::default();
            let l = Line::new("print.footer_full").s("status", st).b("verbose", verbose).f("time", t);
            let l = l.us("fk", &[4]).fs("fv", &[t]).s("ft", &hex(&fmt_kind(4, t)));
            let _ = set;
            s.submit(l.done());
        }
    }
    // ---- whole logs ------------------------------------------------------------------------------
    // corpus first: solves that end after an insufficient-progress rollback (one more row is printed)
    let corpus: Vec<(Prob, DefaultSettings<f64>)> = if s.is_searching() { vec![] } else {
        include_str!("c20_corpus.txt").lines().filter(|l| !l.trim().is_empty()).map(|l| {
            let r = Req::parse(l).expect("corpus line");
            (req_prob(&r), req_settings(&r))
        }).collect()
    };
    let ncorpus = corpus.len();
    for k in 0..ncorpus + s.budget(120, 3000) {
        let mut rng = s.rng.fork();
        let (p, st) = if k < ncorpus {
            let (p, mut st) = corpus[k].clone();
            st.verbose = true;
            s.count("whole-corpus");
            (p, st)
        } else {
            (if k % 4 == 3 { chordal_problem(&mut rng) } else { problem(&mut rng) }, full_settings(&mut rng))
        };
        match whole_request(&p, &st) {
            Some(line) => {
                if line.contains(" nextra=1 ") { s.count("whole-extra-row:1"); }
                if line.contains(" nextra=2 ") { s.count("whole-extra-row:2"); }
                let out = s.submit(line);
                if k % 4 == 3 && out.contains(&hex("chordal decomposition:")) { s.count("whole-chordal"); }
            }
            None => s.count("whole-skipped"),
        }
    }
    // ---- the Write impl ----------------------------------------------------------------------------
    for _ in 0..s.budget(400, 10000) {
        let kind = *s.rng.choose(&["stream", "stream", "stream", "buffer", "file", "sink"]);
        let script: Vec<i64> = if kind == "stream" {
            let n = s.rng.below(7);
            (0..n).map(|_| *s.rng.choose(&[1i64, 1, 2, 3, 7, 64, 1000, -1, -1, 0, -2])).collect()
        } else { vec![] };
        let nops = s.rng.below(6);
        let ops: Vec<String> = (0..nops).map(|_| {
            let b = rand_bytes(&mut s.rng);
            match s.rng.below(8) { 0 => "f".to_string(), 1 | 2 => format!("w:{}", hexb(&b)), _ => format!("a:{}", hexb(&b)) }
        }).collect();
        let ops = if ops.is_empty() { "-".to_string() } else { ops.join(";") };
        s.submit(Line::new("print.write_impl").s("target", kind).is("script", &script).s("ops", &ops).done());
    }
    for kind in ["buffer", "stream", "file", "sink", "stdout"] {
        for _ in 0..3 {
            let b = rand_bytes(&mut s.rng);
            s.submit(Line::new("print.target_kind").s("target", kind).s("pre", &hexb(&b)).done());
        }
    }
}

fn main() {
    Session::from_args("C20", channels()).run(generate)
}
