//! C19 — saving a problem to JSON and loading it back reproduces the same problem.
//!
//! Modelled channels (`ClarabelModel/Json.lean`, `JsonLoad.lean`, `JsonCones.lean`):
//!   `json.save`      the numbers `save_to_file` writes for a given internal state
//!   `json.sanitize`  `sanitize_settings` / `desanitize_settings`
//!   `json.load`      `load_from_file` after the parse: a parsed record (well-formed or with
//!                    one / several defects, huge declared sizes in a child process) written
//!                    with an independent JSON writer; verdict (ok + loaded data and settings /
//!                    which error class / panic) against `JsonLoad.loadRecord` + `buildFromInput`
//!   `json.conedec`   serde's `Deserialize` of a cone list (texts written by the derive, the
//!                    cone arrays of real saved files, corrupted texts) against
//!                    `JsonCones.decodeCones` on the token level
//!   `json.coneenc`   serde's `Serialize` of a cone list against `JsonCones.encodeCones`
//! Implementation-only oracles:
//!   `json.roundtrip` save → independent parse → compare with the user's data; load →
//!                    compare data / settings / solve; settings override
//!   `json.fault`     truncations, byte deletions and token-level mutations of a valid file
//!                    must give `Err` or a solver, never a panic
#![allow(non_snake_case)]
use clarabel::algebra::*;
use clarabel::solver::*;
use serde_json::{json, Value};
use std::fs::{File, OpenOptions};
use std::io::{Read, Seek, SeekFrom, Write};
use std::panic::{catch_unwind, AssertUnwindSafe};
use std::sync::atomic::{AtomicU64, Ordering};
use vharness::proto::{ff, parse_f};
use vharness::*;

#[path = "common_cones.rs"]
mod common_cones;

type Cone = SupportedConeT<f64>;

// ---------------------------------------------------------------- helpers

static COUNTER: AtomicU64 = AtomicU64::new(0);

fn temp_file() -> (File, String) {
    let k = COUNTER.fetch_add(1, Ordering::Relaxed);
    let path = format!("/tmp/verif-c19-{}-{}.json", std::process::id(), k);
    let f = OpenOptions::new().read(true).write(true).create(true).truncate(true).open(&path).expect("temp file");
    (f, path)
}

fn save_text(s: &DefaultSolver<f64>) -> Result<String, String> {
    let (mut f, path) = temp_file();
    let r = s.save_to_file(&mut f);
    let mut text = String::new();
    f.seek(SeekFrom::Start(0)).unwrap();
    f.read_to_string(&mut text).unwrap();
    drop(f);
    std::fs::remove_file(&path).ok();
    r.map_err(|e| format!("save_to_file failed: {}", e))?;
    Ok(text)
}

fn load_text(text: &[u8], settings: Option<DefaultSettings<f64>>) -> Result<DefaultSolver<f64>, std::io::Error> {
    let (mut f, path) = temp_file();
    f.write_all(text).unwrap();
    f.seek(SeekFrom::Start(0)).unwrap();
    let r = DefaultSolver::<f64>::load_from_file(&mut f, settings);
    drop(f);
    std::fs::remove_file(&path).ok();
    r
}

fn enc_cones(c: &[Cone]) -> String {
    let v: Vec<String> = c
        .iter()
        .map(|c| match c {
            Cone::ZeroConeT(k) => format!("z{}", k),
            Cone::NonnegativeConeT(k) => format!("n{}", k),
            Cone::SecondOrderConeT(k) => format!("s{}", k),
            Cone::ExponentialConeT() => "e".to_string(),
            Cone::PowerConeT(a) => format!("w{}", ff(*a)),
            Cone::GenPowerConeT(a, d) => {
                let mut s = format!("g{}", d);
                for x in a {
                    s.push('_');
                    s.push_str(&ff(*x));
                }
                s
            }
            Cone::PSDTriangleConeT(k) => format!("t{}", k),
        })
        .collect();
    v.join(",")
}
fn dec_cones(s: &str) -> Vec<Cone> {
    if s.is_empty() {
        return vec![];
    }
    s.split(',')
        .map(|t| {
            let (k, n) = t.split_at(1);
            match k {
                "z" => Cone::ZeroConeT(n.parse().unwrap()),
                "n" => Cone::NonnegativeConeT(n.parse().unwrap()),
                "s" => Cone::SecondOrderConeT(n.parse().unwrap()),
                "e" => Cone::ExponentialConeT(),
                "w" => Cone::PowerConeT(parse_f(n).unwrap()),
                "g" => {
                    let mut it = n.split('_');
                    let d: usize = it.next().unwrap().parse().unwrap();
                    Cone::GenPowerConeT(it.map(|x| parse_f(x).unwrap()).collect(), d)
                }
                "t" => Cone::PSDTriangleConeT(n.parse().unwrap()),
                _ => panic!("cone"),
            }
        })
        .collect()
}

fn nvars(c: &Cone) -> usize {
    match c {
        Cone::ZeroConeT(k) | Cone::NonnegativeConeT(k) | Cone::SecondOrderConeT(k) => *k,
        Cone::ExponentialConeT() | Cone::PowerConeT(_) => 3,
        Cone::GenPowerConeT(a, d) => a.len() + d,
        Cone::PSDTriangleConeT(k) => k * (k + 1) / 2,
    }
}

/// independent statement of the cone-list consolidation: empty cones vanish, maximal runs
/// of nonnegative cones / one-dimensional SOC and PSD cones become one nonnegative cone
fn collapse(c: &[Cone]) -> Vec<Cone> {
    let mut out: Vec<Cone> = vec![];
    let mut run: Option<usize> = None;
    for k in c {
        if nvars(k) == 0 {
            continue;
        }
        let d = match k {
            Cone::NonnegativeConeT(d) => Some(*d),
            Cone::SecondOrderConeT(1) | Cone::PSDTriangleConeT(1) => Some(1),
            _ => None,
        };
        match d {
            Some(d) => run = Some(run.unwrap_or(0) + d),
            None => {
                if let Some(t) = run.take() {
                    out.push(Cone::NonnegativeConeT(t));
                }
                out.push(k.clone());
            }
        }
    }
    if let Some(t) = run.take() {
        out.push(Cone::NonnegativeConeT(t));
    }
    out
}

/// serde's externally tagged form, written by hand (independent of the crate's derive)
fn cone_value(c: &Cone) -> Value {
    match c {
        Cone::ZeroConeT(k) => json!({ "ZeroConeT": k }),
        Cone::NonnegativeConeT(k) => json!({ "NonnegativeConeT": k }),
        Cone::SecondOrderConeT(k) => json!({ "SecondOrderConeT": k }),
        Cone::ExponentialConeT() => json!({ "ExponentialConeT": [] }),
        Cone::PowerConeT(a) => json!({ "PowerConeT": a }),
        Cone::GenPowerConeT(a, d) => json!({ "GenPowerConeT": [a, d] }),
        Cone::PSDTriangleConeT(k) => json!({ "PSDTriangleConeT": k }),
    }
}

fn floats_of(v: &Value) -> Option<Vec<f64>> {
    v.as_array()?.iter().map(|x| x.as_f64()).collect()
}
fn usizes_of(v: &Value) -> Option<Vec<usize>> {
    v.as_array()?.iter().map(|x| x.as_u64().map(|u| u as usize)).collect()
}
fn csc_of(v: &Value) -> Option<CscMatrix<f64>> {
    Some(CscMatrix {
        m: v.get("m")?.as_u64()? as usize,
        n: v.get("n")?.as_u64()? as usize,
        colptr: usizes_of(v.get("colptr")?)?,
        rowval: usizes_of(v.get("rowval")?)?,
        nzval: floats_of(v.get("nzval")?)?,
    })
}

fn triu_of(P: &CscMatrix<f64>) -> CscMatrix<f64> {
    let mut colptr = vec![0];
    let mut rowval = vec![];
    let mut nzval = vec![];
    for c in 0..P.n {
        for k in P.colptr[c]..P.colptr[c + 1] {
            if P.rowval[k] <= c {
                rowval.push(P.rowval[k]);
                nzval.push(P.nzval[k]);
            }
        }
        colptr.push(rowval.len());
    }
    CscMatrix { m: P.m, n: P.n, colptr, rowval, nzval }
}

fn same_vals(a: &[f64], b: &[f64], exact: bool) -> bool {
    a.len() == b.len()
        && a.iter().zip(b).all(|(x, y)| {
            if exact {
                x.to_bits() == y.to_bits()
            } else {
                x == y || (x - y).abs() <= 1e-13 * x.abs().max(y.abs())
            }
        })
}

// ---------------------------------------------------------------- problems / settings

#[derive(Clone, Debug)]
struct Prob {
    P: CscMatrix<f64>,
    q: Vec<f64>,
    A: CscMatrix<f64>,
    b: Vec<f64>,
    cones: Vec<Cone>,
}

fn prob_line(l: Line, p: &Prob) -> Line {
    l.csc("uP", &p.P).fs("uq", &p.q).csc("uA", &p.A).fs("ub", &p.b).s("cones", &enc_cones(&p.cones))
}
fn prob_of(r: &Req) -> Prob {
    Prob { P: r.csc("uP"), q: r.fs("uq"), A: r.csc("uA"), b: r.fs("ub"), cones: dec_cones(r.str("cones")) }
}

/// settings are described by a seed so that every field can vary without a long request
fn settings_of(seed: u64, equil: bool, tl: f64) -> DefaultSettings<f64> {
    let mut s = DefaultSettings::<f64>::default();
    s.verbose = false;
    s.equilibrate_enable = equil;
    s.time_limit = tl;
    if seed == 0 {
        return s;
    }
    let mut r = Rng::new(seed);
    s.max_iter = 50 + r.below(200) as u32;
    s.max_threads = 1 + r.below(4) as u32;
    s.max_step_fraction = r.uniform(0.9, 0.999);
    s.tol_gap_abs = r.uniform(0.5e-8, 2e-8);
    s.tol_gap_rel = r.uniform(0.5e-8, 2e-8);
    s.tol_feas = r.uniform(0.5e-8, 2e-8);
    s.tol_infeas_abs = r.uniform(0.5e-8, 2e-8);
    s.tol_infeas_rel = r.uniform(0.5e-8, 2e-8);
    s.tol_ktratio = r.uniform(0.5e-6, 2e-6);
    s.reduced_tol_gap_abs = r.uniform(1e-5, 1e-4);
    s.reduced_tol_feas = r.uniform(1e-5, 1e-3);
    s.equilibrate_max_iter = 5 + r.below(10) as u32;
    s.equilibrate_min_scaling = r.uniform(1e-5, 1e-3);
    s.equilibrate_max_scaling = r.uniform(1e3, 1e5);
    s.linesearch_backtrack_step = r.uniform(0.5, 0.9);
    s.min_switch_step_length = r.uniform(0.05, 0.2);
    s.direct_solve_method = r.choose(&["qdldl", "auto", "faer"]).to_string();
    s.static_regularization_enable = r.bool(0.8);
    s.static_regularization_constant = r.uniform(1e-9, 1e-7);
    s.dynamic_regularization_enable = r.bool(0.8);
    s.iterative_refinement_enable = r.bool(0.8);
    s.iterative_refinement_max_iter = 5 + r.below(10) as u32;
    s.presolve_enable = r.bool(0.7);
    s.chordal_decomposition_enable = r.bool(0.5);
    s.chordal_decomposition_merge_method = r.choose(&["clique_graph", "parent_child", "none"]).to_string();
    s.chordal_decomposition_compact = r.bool(0.5);
    s.chordal_decomposition_complete_dual = r.bool(0.5);
    s
}

fn build(p: &Prob, s: DefaultSettings<f64>) -> DefaultSolver<f64> {
    DefaultSolver::new(&p.P, &p.q, &p.A, &p.b, &p.cones, s)
}

/// `(field, value text)` pairs of a `Debug`-printed `DefaultSettings` — the field list is
/// taken from `derive(Debug)`, which no serde attribute can change, so that fields which are
/// skipped by the (de)serialiser are still known here
fn debug_fields(s: &DefaultSettings<f64>) -> Vec<(String, String)> {
    let d = format!("{:?}", s);
    let inner = d.trim_start_matches("DefaultSettings").trim().trim_start_matches('{').trim_end_matches('}').trim();
    let mut out = vec![];
    let mut depth = 0i32;
    let mut in_str = false;
    let mut cur = String::new();
    for ch in inner.chars() {
        match ch {
            '"' => { in_str = !in_str; cur.push(ch); }
            '{' | '[' | '(' if !in_str => { depth += 1; cur.push(ch); }
            '}' | ']' | ')' if !in_str => { depth -= 1; cur.push(ch); }
            ',' if !in_str && depth == 0 => { out.push(cur.clone()); cur.clear(); }
            _ => cur.push(ch),
        }
    }
    if !cur.trim().is_empty() {
        out.push(cur);
    }
    out.iter()
        .filter_map(|f| f.trim().split_once(": ").map(|(k, v)| (k.trim().to_string(), v.trim().to_string())))
        .collect()
}

fn first_settings_difference(a: &DefaultSettings<f64>, b: &DefaultSettings<f64>) -> Option<String> {
    let (fa, fb) = (debug_fields(a), debug_fields(b));
    if fa.len() != fb.len() {
        return Some("different number of fields".into());
    }
    for ((ka, va), (kb, vb)) in fa.iter().zip(fb.iter()) {
        if ka != kb || va != vb {
            return Some(format!("{}: {} vs {}", ka, va, vb));
        }
    }
    None
}

/// valid alternatives of the string-valued options
fn string_choices(field: &str) -> &'static [&'static str] {
    match field {
        "direct_solve_method" => &["auto", "qdldl", "faer"],
        "chordal_decomposition_merge_method" => &["clique_graph", "parent_child", "none"],
        _ => &[],
    }
}

/// Settings in which (almost) every field differs from its default: the field list and the
/// field kinds are read off the `Debug` form of the default settings at run time, each field
/// is moved away from its default with probability 0.85 (booleans flipped, integers
/// increased, floats rescaled, strings replaced by another valid choice) and the result is
/// built through the deserialiser.  `direct_kkt_solver` stays `true` (the constructor
/// requires it).  Returns the settings and the number of fields that differ from the default.
fn nondefault_settings(seed: u64, quiet: bool) -> (DefaultSettings<f64>, usize) {
    let def = DefaultSettings::<f64>::default();
    let mut r = Rng::new(seed ^ 0xabcdef);
    let mut m = serde_json::Map::new();
    for (k, v) in debug_fields(&def) {
        let change = r.bool(0.85);
        let val: Value = if v == "true" || v == "false" {
            let b = v == "true";
            if k == "direct_kkt_solver" { json!(true) }
            else if k == "verbose" { json!(!quiet) }
            else { json!(if change { !b } else { b }) }
        } else if v.starts_with('"') {
            let cur = v.trim_matches('"').to_string();
            let alts: Vec<&&str> = string_choices(&k).iter().filter(|c| **c != cur).collect();
            if change && !alts.is_empty() { json!(**r.choose(&alts)) } else { json!(cur) }
        } else if let Ok(i) = v.parse::<u64>() {
            json!(if change { i + 1 + r.below(5) as u64 } else { i })
        } else if let Ok(f) = v.parse::<f64>() {
            if !f.is_finite() { json!(if change { 1234.5 + r.unit() } else { f64::MAX }) }
            else if f == 0.0 { json!(if change { 0.5 } else { 0.0 }) }
            else { json!(if change { f * r.uniform(1.1, 1.9) } else { f }) }
        } else {
            continue; // unknown kind: left to the default (shows up in the count below)
        };
        m.insert(k, val);
    }
    let s: DefaultSettings<f64> = serde_json::from_value(Value::Object(m)).expect("settings from field map");
    let n = debug_fields(&s).iter().zip(debug_fields(&def).iter()).filter(|(a, b)| a.1 != b.1).count();
    (s, n)
}

fn settings_repr(s: &DefaultSettings<f64>) -> String {
    format!("{:?}", s)
}

// ---------------------------------------------------------------- channel json.save

/// a solver with the request's internal state: the patterns come from a placeholder
/// construction (equilibration off), the values and the scaling vectors are overwritten
fn solver_with_state(r: &Req) -> DefaultSolver<f64> {
    let P = r.csc("P");
    let A = r.csc("A");
    let q = r.fs("q");
    let b = r.fs("b");
    let mut st = DefaultSettings::<f64>::default();
    st.verbose = false;
    st.equilibrate_enable = false;
    st.presolve_enable = false;
    st.chordal_decomposition_enable = false;
    let cones = vec![Cone::ZeroConeT(b.len())];
    let zeros = |m: &CscMatrix<f64>| CscMatrix { nzval: vec![1.0; m.nzval.len()], ..m.clone() };
    let mut s = DefaultSolver::new(&zeros(&P), &vec![0.0; q.len()], &zeros(&A), &vec![0.0; b.len()], &cones, st);
    s.data.P.nzval = P.nzval.clone();
    s.data.A.nzval = A.nzval.clone();
    s.data.q = q;
    s.data.b = b;
    s.data.equilibration.dinv = r.fs("dinv");
    s.data.equilibration.einv = r.fs("einv");
    s.data.equilibration.c = r.f("c");
    s
}

fn run_save(r: &Req) -> String {
    let s = solver_with_state(r);
    let text = match save_text(&s) {
        Ok(t) => t,
        Err(e) => return format!("err:{}", e.replace(' ', "_")),
    };
    let v: Value = match serde_json::from_str(&text) {
        Ok(v) => v,
        Err(_) => return "err:unparsable-output".into(),
    };
    // non-finite numbers are written as `null`
    let fl = |v: &Value| -> String {
        match v.as_array() {
            None => "bad".into(),
            Some(a) => a.iter().map(|x| x.as_f64().map(ff).unwrap_or_else(|| "null".into())).collect::<Vec<_>>().join(","),
        }
    };
    format!("P={} q={} A={} b={}", fl(&v["P"]["nzval"]), fl(&v["q"]), fl(&v["A"]["nzval"]), fl(&v["b"]))
}

fn oracle_save(r: &Req, out: &str) -> Result<(), String> {
    if out.starts_with("panic") || out.starts_with("err") {
        return Err(format!("save_to_file failed on a well-formed state: {}", out));
    }
    if !r.has("uPnzval") {
        return Ok(());
    }
    // the state came from a real solver: the saved numbers are the user's originals
    let o = Req::parse(&format!("x {}", out)).ok_or("unparsable response")?;
    if out.contains("null") {
        return Err("a finite problem was saved with non-finite numbers".into());
    }
    let exact = !r.b("equil");
    for (k, uk) in [("P", "uPnzval"), ("q", "uq"), ("A", "uAnzval"), ("b", "ub")] {
        if !same_vals(&o.fs(k), &r.fs(uk), exact) {
            return Err(format!("saved {} differs from the user's data (exact={})", k, exact));
        }
    }
    Ok(())
}

// ---------------------------------------------------------------- channel json.saverec

/// a cone of the file, read by hand from serde's externally tagged form
fn cone_of_value(v: &Value) -> Option<Cone> {
    let o = v.as_object()?;
    if o.len() != 1 {
        return None;
    }
    let (k, p) = o.iter().next()?;
    Some(match k.as_str() {
        "ZeroConeT" => Cone::ZeroConeT(p.as_u64()? as usize),
        "NonnegativeConeT" => Cone::NonnegativeConeT(p.as_u64()? as usize),
        "SecondOrderConeT" => Cone::SecondOrderConeT(p.as_u64()? as usize),
        "ExponentialConeT" => { if !p.as_array()?.is_empty() { return None; } Cone::ExponentialConeT() }
        "PowerConeT" => Cone::PowerConeT(p.as_f64()?),
        "GenPowerConeT" => {
            let a = p.as_array()?;
            if a.len() != 2 { return None; }
            Cone::GenPowerConeT(floats_of(&a[0])?, a[1].as_u64()? as usize)
        }
        "PSDTriangleConeT" => Cone::PSDTriangleConeT(p.as_u64()? as usize),
        _ => return None,
    })
}

/// the whole record `save_to_file` writes for a given solver state (internal data, scaling,
/// cone list, settings), read back from the file with an independent reader
fn run_saverec(r: &Req) -> String {
    let mut s = solver_with_state(r);
    s.data.cones = common_cones::parse_cones(r.str("cones"));
    s.settings.time_limit = r.f("tl");
    s.settings.direct_solve_method = r.str("dsm").to_string();
    s.settings.chordal_decomposition_merge_method = r.str("mm").to_string();
    s.settings.presolve_enable = r.b("pre");
    s.settings.chordal_decomposition_enable = r.b("chord");
    let text = match save_text(&s) {
        Ok(t) => t,
        Err(e) => return format!("err:{}", e.replace(' ', "_")),
    };
    let v: Value = match serde_json::from_str(&text) {
        Ok(v) => v,
        Err(_) => return "err:unparsable-output".into(),
    };
    let fl = |v: &Value| -> String {
        match v.as_array() {
            None => "bad".into(),
            Some(a) => a.iter().map(|x| x.as_f64().map(ff).unwrap_or_else(|| "null".into())).collect::<Vec<_>>().join(","),
        }
    };
    let us = |v: &Value| -> String { usizes_of(v).map(|x| vharness::proto::fus(&x)).unwrap_or_else(|| "bad".into()) };
    let cones: Option<Vec<Cone>> = v["cones"].as_array().and_then(|a| a.iter().map(cone_of_value).collect());
    let st = &v["settings"];
    format!(
        "Pm={} Pn={} Pcolptr={} Prowval={} P={} q={} Am={} An={} Acolptr={} Arowval={} A={} b={} cones={} tl={} dsm={} mm={} pre={} chord={}",
        v["P"]["m"], v["P"]["n"], us(&v["P"]["colptr"]), us(&v["P"]["rowval"]), fl(&v["P"]["nzval"]), fl(&v["q"]),
        v["A"]["m"], v["A"]["n"], us(&v["A"]["colptr"]), us(&v["A"]["rowval"]), fl(&v["A"]["nzval"]), fl(&v["b"]),
        cones.map(|c| common_cones::fmt_cones(&c)).unwrap_or_else(|| "bad".into()),
        st["time_limit"].as_f64().map(ff).unwrap_or_else(|| "null".into()),
        st["direct_solve_method"].as_str().unwrap_or("bad"),
        st["chordal_decomposition_merge_method"].as_str().unwrap_or("bad"),
        st["presolve_enable"].as_bool().map(|b| b as u8).unwrap_or(9),
        st["chordal_decomposition_enable"].as_bool().map(|b| b as u8).unwrap_or(9),
    )
}
fn oracle_saverec(r: &Req, out: &str) -> Result<(), String> {
    if out.starts_with("panic") || out.starts_with("err") {
        return Err(format!("save_to_file failed on a well-formed state: {}", out));
    }
    let o = Req::parse(&format!("x {}", out)).ok_or("unparsable response")?;
    // the cone list and the patterns are the solver's, verbatim
    if o.str("cones") != r.str("cones") {
        return Err(format!("saved cones {} differ from the solver's {}", o.str("cones"), r.str("cones")));
    }
    let (P, A) = (r.csc("P"), r.csc("A"));
    if o.us("Pcolptr") != P.colptr || o.us("Prowval") != P.rowval || o.us("Acolptr") != A.colptr || o.us("Arowval") != A.rowval || o.u("Pm") != P.m || o.u("Pn") != P.n || o.u("Am") != A.m || o.u("An") != A.n {
        return Err("saved patterns differ from the solver's".into());
    }
    // a finite or +inf time limit is written as a finite number
    let tl = r.f("tl");
    if (tl.is_finite() || tl == f64::INFINITY) && o.str("tl") == "null" {
        return Err("time_limit was written as null".into());
    }
    Ok(())
}

// ---------------------------------------------------------------- channel json.sanitize

fn run_sanitize(r: &Req) -> String {
    let tl = r.f("tl");
    let mut s = settings_of(r.u("seed") as u64, true, tl);
    let before = s.clone();
    clarabel::verif_hooks::c19::sanitize(&mut s);
    let san = s.time_limit;
    let mut others_ok = {
        let mut t = s.clone();
        t.time_limit = before.time_limit;
        settings_repr(&t) == settings_repr(&before)
    };
    clarabel::verif_hooks::c19::desanitize(&mut s);
    let back = s.time_limit;
    let mut d = before.clone();
    clarabel::verif_hooks::c19::desanitize(&mut d);
    {
        let mut t = s.clone();
        t.time_limit = before.time_limit;
        others_ok &= settings_repr(&t) == settings_repr(&before);
        let mut t = d.clone();
        t.time_limit = before.time_limit;
        others_ok &= settings_repr(&t) == settings_repr(&before);
    }
    if !others_ok {
        return "err:other-fields-changed".into();
    }
    format!("san={} back={} desan={}", ff(san), ff(back), ff(d.time_limit))
}
fn oracle_sanitize(r: &Req, out: &str) -> Result<(), String> {
    let tl = r.f("tl");
    let o = Req::parse(&format!("x {}", out)).ok_or_else(|| format!("bad response {}", out))?;
    if !o.has("san") {
        return Err(out.to_string());
    }
    let (san, back) = (o.f("san"), o.f("back"));
    if san.is_infinite() && !tl.is_nan() && tl.is_infinite() && tl > 0.0 {
        return Err("sanitised time_limit is still +inf (cannot be serialised)".into());
    }
    // round trip: identity, except f64::MAX which comes back as +inf (equivalent limit)
    let same = back.to_bits() == tl.to_bits() || (tl.is_nan() && back.is_nan());
    let documented = tl == f64::MAX && back == f64::INFINITY;
    if !same && !documented {
        return Err(format!("time_limit {:e} came back as {:e}", tl, back));
    }
    // equivalence of limits: `t > limit` agrees for every finite elapsed time
    for t in [0.0, 1.0, 1e300, f64::MAX] {
        if (t > tl) != (t > back) {
            return Err(format!("limit {:e} and restored limit {:e} disagree at t={:e}", tl, back, t));
        }
    }
    Ok(())
}

// ---------------------------------------------------------------- channel json.roundtrip

fn unscaled(s: &DefaultSolver<f64>) -> (Vec<f64>, Vec<f64>, Vec<f64>, Vec<f64>) {
    let eq = &s.data.equilibration;
    let (d, e, c) = (&eq.d, &eq.e, eq.c);
    let col = |m: &CscMatrix<f64>| {
        let mut v = vec![0; m.nzval.len()];
        for j in 0..m.n {
            for k in m.colptr[j]..m.colptr[j + 1] {
                v[k] = j;
            }
        }
        v
    };
    let (cp, ca) = (col(&s.data.P), col(&s.data.A));
    (
        (0..s.data.P.nzval.len()).map(|k| s.data.P.nzval[k] / (c * d[s.data.P.rowval[k]] * d[cp[k]])).collect(),
        (0..s.data.q.len()).map(|i| s.data.q[i] / (c * d[i])).collect(),
        (0..s.data.A.nzval.len()).map(|k| s.data.A.nzval[k] / (e[s.data.A.rowval[k]] * d[ca[k]])).collect(),
        (0..s.data.b.len()).map(|i| s.data.b[i] / e[i]).collect(),
    )
}

fn roundtrip(r: &Req) -> Result<String, String> {
    let p = prob_of(r);
    let equil = r.b("equil");
    let tl = r.f("tl");
    let seed = r.u("seed") as u64;
    let do_solve = r.b("solve");
    let full = r.has("full") && r.b("full");
    let settings = if full {
        let (mut st, _) = nondefault_settings(seed, true);
        st.equilibrate_enable = equil;
        st
    } else {
        settings_of(seed, equil, tl)
    };
    let tl = settings.time_limit;
    let reduced_allowed = settings.presolve_enable || settings.chordal_decomposition_enable;
    let mut s1 = build(&p, settings.clone());
    let text = save_text(&s1)?;
    // ---- the file, read independently
    let v: Value = serde_json::from_str(&text).map_err(|e| format!("saved file is not JSON: {}", e))?;
    let fP = csc_of(&v["P"]).ok_or("P unreadable")?;
    let fA = csc_of(&v["A"]).ok_or("A unreadable")?;
    let fq = floats_of(&v["q"]).ok_or("q unreadable")?;
    let fb = floats_of(&v["b"]).ok_or("b unreadable")?;
    let reduced = s1.data.m != p.b.len() || s1.data.n != p.q.len() || !s1.is_data_update_allowed();
    if reduced && !reduced_allowed {
        return Err("presolve / decomposition ran although both are disabled".into());
    }
    let exact = !equil;
    if !reduced {
        let tP = triu_of(&p.P);
        if (fP.m, fP.n, &fP.colptr, &fP.rowval) != (tP.m, tP.n, &tP.colptr, &tP.rowval) {
            return Err("saved P pattern is not the upper triangle of the user's P".into());
        }
        if (fA.m, fA.n, &fA.colptr, &fA.rowval) != (p.A.m, p.A.n, &p.A.colptr, &p.A.rowval) {
            return Err("saved A pattern differs from the user's A".into());
        }
        let cap = clarabel::get_infinity();
        let bcap: Vec<f64> = p.b.iter().map(|&x| x.min(cap)).collect();
        for (name, a, b) in [("P", &fP.nzval, &tP.nzval), ("q", &fq, &p.q), ("A", &fA.nzval, &p.A.nzval), ("b", &fb, &bcap)] {
            if !same_vals(a, b, exact) {
                return Err(format!("saved {} differs from the user's data (exact={})", name, exact));
            }
        }
        let want: Vec<Value> = collapse(&p.cones).iter().map(cone_value).collect();
        if v["cones"] != Value::Array(want.clone()) {
            return Err(format!("saved cones {} expected {}", v["cones"], Value::Array(want)));
        }
    }
    // settings in the file: every field of the saving solver (time_limit +inf as f64::MAX)
    let mut want_settings = serde_json::to_value(&settings).map_err(|e| e.to_string())?;
    if tl == f64::INFINITY {
        want_settings["time_limit"] = json!(f64::MAX);
    }
    if v["settings"] != want_settings {
        return Err("saved settings differ from the solver's settings".into());
    }
    // every field of DefaultSettings (list from derive(Debug), not from serde) is in the file
    for (k, _) in debug_fields(&settings) {
        if v["settings"].get(&k).is_none() {
            return Err(format!("the saved settings object has no key for the field {}", k));
        }
    }
    // ---- load
    let mut s2 = load_text(text.as_bytes(), None).map_err(|e| format!("load_from_file failed on a saved file: {}", e))?;
    let mut want = settings.clone();
    if want.time_limit == f64::MAX {
        want.time_limit = f64::INFINITY; // documented representation
    }
    if let Some(d) = first_settings_difference(&s2.settings, &want) {
        return Err(format!("loaded settings differ from the saving solver's in field {}", d));
    }
    if s2.data.cones != s1.data.cones {
        return Err("loaded cones differ from the saving solver's cones".into());
    }
    if (s2.data.P.m, s2.data.P.n, &s2.data.P.colptr, &s2.data.P.rowval) != (s1.data.P.m, s1.data.P.n, &s1.data.P.colptr, &s1.data.P.rowval)
        || (s2.data.A.m, s2.data.A.n, &s2.data.A.colptr, &s2.data.A.rowval) != (s1.data.A.m, s1.data.A.n, &s1.data.A.colptr, &s1.data.A.rowval)
    {
        return Err("loaded patterns differ from the saving solver's".into());
    }
    if exact {
        if !(same_vals(&s2.data.P.nzval, &s1.data.P.nzval, true)
            && same_vals(&s2.data.q, &s1.data.q, true)
            && same_vals(&s2.data.A.nzval, &s1.data.A.nzval, true)
            && same_vals(&s2.data.b, &s1.data.b, true))
        {
            return Err("equilibration off: loaded internal data is not bit-identical".into());
        }
    } else {
        let (u1, u2) = (unscaled(&s1), unscaled(&s2));
        if !(same_vals(&u1.0, &u2.0, false) && same_vals(&u1.1, &u2.1, false) && same_vals(&u1.2, &u2.2, false) && same_vals(&u1.3, &u2.3, false)) {
            return Err("loaded problem (equilibration divided out) differs from the saving solver's".into());
        }
    }
    // ---- override
    let mut other = settings_of(seed.wrapping_add(77) | 1, !equil, 12.5);
    other.max_iter = 1;
    let s3 = load_text(text.as_bytes(), Some(other.clone())).map_err(|e| format!("load with settings failed: {}", e))?;
    if first_settings_difference(&s3.settings, &other).is_some() {
        return Err("load_from_file(file, Some(settings)) did not use the supplied settings".into());
    }
    // ---- solve both
    let mut summary = String::from("ok");
    if do_solve {
        s1.solve();
        s2.solve();
        let (a, b) = (&s1.solution, &s2.solution);
        if exact {
            // identical internal data: the whole solve is reproduced bit for bit
            if a.status != b.status {
                return Err(format!("equilibration off: status {:?} vs loaded {:?}", a.status, b.status));
            }
            if a.obj_val.to_bits() != b.obj_val.to_bits() || a.iterations != b.iterations || !same_vals(&a.x, &b.x, true) {
                return Err(format!("equilibration off: solve of the loaded problem is not bit-identical ({:e} vs {:e})", a.obj_val, b.obj_val));
            }
        } else {
            // the loaded data differs from the saved solver's by a few ulps: verdicts must
            // agree; runs that stop without a verdict (or with a reduced-accuracy one) on a
            // numerically hard instance are inconclusive
            let full = |st: SolverStatus| matches!(st, SolverStatus::Solved | SolverStatus::PrimalInfeasible | SolverStatus::DualInfeasible);
            if full(a.status) && full(b.status) {
                if a.status != b.status {
                    // Known finding KF-C19-capped-row-verdict (known_findings.json): with presolve off
                    // a row whose b reaches the infinity bound is kept, capped at the bound; on such
                    // data the verdict of the solve is not a function of the data to within the
                    // rounding of the scale/unscale round trip.  The class is named in the message;
                    // any other verdict mismatch is reported as it is.
                    let cap = clarabel::get_infinity();
                    if !reduced && p.b.iter().any(|&v| v >= cap) {
                        return Err(format!("KF-C19-capped-row-verdict status {:?} vs loaded {:?} (row capped at the infinity bound kept in the problem)", a.status, b.status));
                    }
                    return Err(format!("status {:?} vs loaded {:?}", a.status, b.status));
                }
                if a.status == SolverStatus::Solved && (a.obj_val - b.obj_val).abs() > 1e-6 * a.obj_val.abs().max(1.0) {
                    return Err(format!("objective {:e} vs loaded {:e}", a.obj_val, b.obj_val));
                }
            } else if a.status != b.status {
                return Ok("ok:inconclusive".to_string());
            }
        }
        summary = format!("ok:{:?}", a.status);
    }
    Ok(summary)
}

fn run_roundtrip(r: &Req) -> String {
    match roundtrip(r) {
        Ok(s) => s,
        Err(e) => format!("fail:{}", e.replace(|c: char| c.is_whitespace() || c == '=' || c == ',', "_")),
    }
}
fn oracle_roundtrip(_r: &Req, out: &str) -> Result<(), String> {
    if out.starts_with("ok") {
        Ok(())
    } else {
        Err(out.to_string())
    }
}

// ---------------------------------------------------------------- channel json.fault

const DIM_PANICS: [&str; 5] = [
    "A and b incompatible dimensions.",
    "Constraint dimensions inconsistent with size of cones.",
    "A and q incompatible dimensions.",
    "P and q incompatible dimensions.",
    "P not square.",
];

/// all JSON pointers of a value, depth first
fn paths(v: &Value, here: String, out: &mut Vec<String>) {
    out.push(here.clone());
    match v {
        Value::Object(m) => {
            for (k, x) in m {
                paths(x, format!("{}/{}", here, k), out);
            }
        }
        Value::Array(a) => {
            for (i, x) in a.iter().enumerate() {
                if i < 3 || i + 1 == a.len() {
                    paths(x, format!("{}/{}", here, i), out);
                }
            }
        }
        _ => {}
    }
}

fn remove_at(root: &mut Value, ptr: &str) -> bool {
    let (parent, key) = match ptr.rsplit_once('/') {
        Some(x) => x,
        None => return false,
    };
    match root.pointer_mut(parent) {
        Some(Value::Object(m)) => m.remove(key).is_some(),
        Some(Value::Array(a)) => {
            let i: usize = key.parse().unwrap();
            if i < a.len() {
                a.remove(i);
                true
            } else {
                false
            }
        }
        _ => false,
    }
}

/// token-level mutation `kind` at site `site` (modulo the number of sites); `None` when the
/// kind does not apply there
fn mutate(text: &str, kind: &str, site: usize) -> Option<String> {
    let mut v: Value = serde_json::from_str(text).ok()?;
    let mut ps = vec![];
    paths(&v, String::new(), &mut ps);
    let ptr = ps[site % ps.len()].clone();
    let tgt = v.pointer(&ptr)?.clone();
    let new = match kind {
        "delete" => {
            if !remove_at(&mut v, &ptr) {
                return None;
            }
            return Some(v.to_string());
        }
        "null" => Value::Null,
        "string" => json!("x"),
        "bool" => json!(true),
        "number" => json!(3),
        "float" => json!(0.5),
        "negative" => {
            if !tgt.is_number() {
                return None;
            }
            json!(-1)
        }
        "huge" | "huge-1e10" | "huge-half" | "huge-max" => {
            if !tgt.is_u64() {
                return None;
            }
            match kind {
                "huge" => json!(4000000000000u64),
                "huge-1e10" => json!(10000000000u64),
                "huge-half" => json!(u64::MAX / 2),
                _ => json!(u64::MAX),
            }
        }
        "plus1" => json!(tgt.as_u64()? + 1),
        "minus1" => json!(tgt.as_u64()?.checked_sub(1)?),
        "zero" => {
            if !tgt.is_number() {
                return None;
            }
            json!(0)
        }
        "array" => json!([1, 2]),
        "empty-array" => json!([]),
        "object" => json!({"a": 1}),
        "push" => {
            let mut a = tgt.as_array()?.clone();
            let x = a.last().cloned().unwrap_or(json!(0));
            a.push(x);
            Value::Array(a)
        }
        "pop" => {
            let mut a = tgt.as_array()?.clone();
            a.pop()?;
            Value::Array(a)
        }
        "swap" => {
            let mut a = tgt.as_array()?.clone();
            if a.len() < 2 {
                return None;
            }
            a.swap(0, 1);
            Value::Array(a)
        }
        _ => return None,
    };
    *v.pointer_mut(&ptr)? = new;
    Some(v.to_string())
}

const KINDS: [&str; 20] = [
    "huge-1e10", "huge-half", "huge-max", "delete", "null", "string", "bool", "number", "float", "negative", "huge", "plus1", "minus1", "zero", "array", "empty-array",
    "object", "push", "pop", "swap",
];

fn base_text(r: &Req) -> String {
    let p = prob_of(r);
    let s = build(&p, settings_of(r.u("seed") as u64, r.b("equil"), f64::INFINITY));
    save_text(&s).expect("save")
}

/// text appended after a complete record (kind `append`): a loader that stops reading at the end of
/// the first JSON value would accept all but the whitespace ones wrongly
const SUFFIXES: &[&str] = &["x", "{}", "[]", "0", ",", "}", "\"a\"", "null", " \n\t", "\n", " {\"P\":1}", "\u{0}", "@RECORD@"];

/// the corrupted file of a `json.fault` request
fn fault_bytes(r: &Req) -> Option<Vec<u8>> {
    let text = base_text(r);
    let kind = r.str("kind");
    Some(match kind {
        "trunc" => text.as_bytes()[..r.u("pos").min(text.len())].to_vec(),
        "delbyte" => {
            let mut b = text.as_bytes().to_vec();
            let i = r.u("pos");
            if i < b.len() {
                b.remove(i);
            }
            b
        }
        "flipbyte" => {
            let mut b = text.as_bytes().to_vec();
            let i = r.u("pos");
            if i < b.len() {
                b[i] = r.u("byte") as u8;
            }
            b
        }
        "append" => {
            let sfx = SUFFIXES[r.u("pos") % SUFFIXES.len()];
            // "@RECORD@": the record once more (two saves through one file handle)
            let sfx = if sfx == "@RECORD@" { text.clone() } else { sfx.to_string() };
            format!("{}{}", text, sfx).into_bytes()
        }
        k => mutate(&text, k, r.u("pos"))?.into_bytes(),
    })
}

fn run_fault(r: &Req) -> String {
    // mutations that can make the loader allocate without bound run in a child process
    // (an allocation failure aborts, it cannot be caught)
    if r.str("kind").starts_with("huge") && !std::env::args().any(|a| a == "--one") {
        let mut line = r.chan.clone();
        for (k, v) in &r.kv {
            line.push_str(&format!(" {}={}", k, v));
        }
        return run_isolated(&line, 20.0, 4096);
    }
    let kind = r.str("kind");
    let bytes = match fault_bytes(r) {
        Some(b) => b,
        None => return "not-applicable".into(),
    };
    if std::env::var("C19_DEBUG").is_ok() {
        eprintln!("fault kind={} pos={} text={}", kind, r.u("pos"), String::from_utf8_lossy(&bytes).chars().take(3000).collect::<String>());
    }
    let res = catch_unwind(AssertUnwindSafe(|| load_text(&bytes, None)));
    match res {
        Ok(Err(_)) => "err".into(),
        Ok(Ok(s)) => format!("solver:n{}:m{}", s.data.n, s.data.m),
        Err(e) => {
            let msg = if let Some(s) = e.downcast_ref::<&str>() {
                s.to_string()
            } else if let Some(s) = e.downcast_ref::<String>() {
                s.clone()
            } else {
                "?".into()
            };
            let tag = if DIM_PANICS.iter().any(|d| msg.contains(d)) { "dimcheck-panic" } else { "panic" };
            let m: String = msg.chars().map(|c| if c.is_whitespace() || c == '=' || c == ',' { '_' } else { c }).take(90).collect();
            format!("{}:{}", tag, m)
        }
    }
}
/// JSON pointer of the site a token-level mutation request addresses (None for byte-level kinds)
fn fault_site(r: &Req) -> Option<String> {
    let kind = r.str("kind");
    if kind == "trunc" || kind == "delbyte" || kind == "flipbyte" || kind == "append" {
        return None;
    }
    let v: Value = serde_json::from_str(&base_text(r)).ok()?;
    let mut ps = vec![];
    paths(&v, String::new(), &mut ps);
    Some(ps[r.u("pos") % ps.len()].clone())
}

thread_local! {
    static REPORTED: std::cell::RefCell<std::collections::BTreeSet<String>> = Default::default();
    static TALLY: std::cell::RefCell<std::collections::BTreeMap<String, u64>> = Default::default();
}

fn oracle_fault(r: &Req, out: &str) -> Result<(), String> {
    if out.starts_with("panic") || out.starts_with("abort") || out.starts_with("hang") {
        let site = fault_site(r).unwrap_or_else(|| "byte-level".into());
        // stable tags: which part of a parsable file was inconsistent
        let tag = if site.starts_with("/settings") {
            "C19-load-unvalidated-settings"
        } else if out.starts_with("panic") {
            "C19-load-unvalidated-data"
        } else {
            "C19-load-unbounded-allocation"
        };
        // one failure per class and run (the others are counted in the notes); a replay
        // always reports
        let first = REPORTED.with(|t| t.borrow_mut().insert(tag.to_string()));
        TALLY.with(|t| *t.borrow_mut().entry(format!("{} ({})", tag, out.chars().take(60).collect::<String>())).or_insert(0) += 1);
        if !first {
            return Ok(());
        }
        return Err(format!(
            "{}: load_from_file did not return Err on a corrupted file (mutation {} at {}): {}",
            tag, r.str("kind"), site, out
        ));
    }
    // a file that is not ONE well-formed JSON document (independent strict parse of the whole
    // byte string, trailing bytes included) must be refused
    if out.starts_with("solver") {
        if let Some(bytes) = fault_bytes(r) {
            if serde_json::from_slice::<Value>(&bytes).is_err() {
                return Err(format!(
                    "load_from_file accepted a file that is not a well-formed JSON document (mutation {} pos {}): {}",
                    r.str("kind"), r.u("pos"), out
                ));
            }
        }
    }
    Ok(())
}

// ---------------------------------------------------------------- channel json.load
//
// A *parsed record* (what serde hands to the post-parse logic of `load_from_file`) travels on
// the request line; `run` writes it as JSON text with the writer below (independent of the
// crate's derive) and calls the real `load_from_file`; the model (`JsonLoad.loadRecord`)
// computes the verdict from the record itself.

/// JSON number text of a finite f64: Rust's shortest round-trip form
fn jf(x: f64) -> String {
    assert!(x.is_finite(), "json.load: only finite numbers can be written");
    format!("{:?}", x)
}
fn jfs(v: &[f64]) -> String {
    format!("[{}]", v.iter().map(|x| jf(*x)).collect::<Vec<_>>().join(","))
}
fn jus(v: &[usize]) -> String {
    format!("[{}]", v.iter().map(|x| x.to_string()).collect::<Vec<_>>().join(","))
}
fn jcsc(m: &CscMatrix<f64>) -> String {
    format!("{{\"m\":{},\"n\":{},\"colptr\":{},\"rowval\":{},\"nzval\":{}}}", m.m, m.n, jus(&m.colptr), jus(&m.rowval), jfs(&m.nzval))
}
/// serde's externally tagged representation of `SupportedConeT`, written by hand
fn jcone(c: &Cone) -> String {
    match c {
        Cone::ZeroConeT(k) => format!("{{\"ZeroConeT\":{}}}", k),
        Cone::NonnegativeConeT(k) => format!("{{\"NonnegativeConeT\":{}}}", k),
        Cone::SecondOrderConeT(k) => format!("{{\"SecondOrderConeT\":{}}}", k),
        Cone::ExponentialConeT() => "{\"ExponentialConeT\":[]}".to_string(),
        Cone::PowerConeT(a) => format!("{{\"PowerConeT\":{}}}", jf(*a)),
        Cone::GenPowerConeT(a, d) => format!("{{\"GenPowerConeT\":[{},{}]}}", jfs(a), d),
        Cone::PSDTriangleConeT(k) => format!("{{\"PSDTriangleConeT\":{}}}", k),
    }
}

/// the settings fields a record carries (all other fields keep their defaults)
#[derive(Clone, Debug)]
struct RecSettings {
    dsm: String,
    mm: String,
    tl: f64,
    pre: bool,
    chord: bool,
}
fn rec_settings(r: &Req, p: &str) -> RecSettings {
    RecSettings {
        dsm: r.str(&format!("{}dsm", p)).to_string(),
        mm: r.str(&format!("{}mm", p)).to_string(),
        tl: r.f(&format!("{}tl", p)),
        pre: r.b(&format!("{}pre", p)),
        chord: r.b(&format!("{}chord", p)),
    }
}
/// the `"settings":{…}` object of the file; `time_limit = +∞` cannot be written and is
/// represented by leaving the key out (the default is +∞)
fn jsettings(s: &RecSettings) -> String {
    let mut f = vec![
        "\"verbose\":false".to_string(),
        "\"equilibrate_enable\":false".to_string(),
        format!("\"direct_solve_method\":{}", Value::String(s.dsm.clone())),
        format!("\"chordal_decomposition_merge_method\":{}", Value::String(s.mm.clone())),
        format!("\"presolve_enable\":{}", s.pre),
        format!("\"chordal_decomposition_enable\":{}", s.chord),
    ];
    if s.tl != f64::INFINITY {
        f.push(format!("\"time_limit\":{}", jf(s.tl)));
    }
    format!("{{{}}}", f.join(","))
}
fn settings_from(s: &RecSettings) -> DefaultSettings<f64> {
    let mut st = DefaultSettings::<f64>::default();
    st.verbose = false;
    st.equilibrate_enable = false;
    st.direct_solve_method = s.dsm.clone();
    st.chordal_decomposition_merge_method = s.mm.clone();
    st.presolve_enable = s.pre;
    st.chordal_decomposition_enable = s.chord;
    st.time_limit = s.tl;
    st
}

fn record_text(r: &Req) -> String {
    let cones = common_cones::parse_cones(r.str("cones"));
    let mut parts = vec![
        format!("\"P\":{}", jcsc(&r.csc("P"))),
        format!("\"q\":{}", jfs(&r.fs("q"))),
        format!("\"A\":{}", jcsc(&r.csc("A"))),
        format!("\"b\":{}", jfs(&r.fs("b"))),
        format!("\"cones\":[{}]", cones.iter().map(jcone).collect::<Vec<_>>().join(",")),
    ];
    // `#[serde(default)] settings`: a record without the key gets the default settings
    if r.b("hasset") {
        parts.push(format!("\"settings\":{}", jsettings(&rec_settings(r, ""))));
    }
    format!("{{{}}}", parts.join(","))
}

/// largest natural number mentioned by the record (dimensions, indices, cone sizes)
fn record_max_nat(r: &Req) -> u128 {
    let mut mx: u128 = 0;
    for k in ["Pm", "Pn", "Pcolptr", "Prowval", "Am", "An", "Acolptr", "Arowval"] {
        for x in r.us(k) {
            mx = mx.max(x as u128);
        }
    }
    for c in common_cones::parse_cones(r.str("cones")) {
        mx = mx.max(match c {
            Cone::ZeroConeT(k) | Cone::NonnegativeConeT(k) | Cone::SecondOrderConeT(k) | Cone::PSDTriangleConeT(k) => k as u128,
            Cone::GenPowerConeT(_, d) => d as u128,
            _ => 3,
        });
    }
    mx
}

fn classify_load_error(e: &std::io::Error) -> String {
    let m = e.to_string();
    let fmt = |rest: &str| -> &'static str {
        if rest.contains("incompatible") { "IncompatibleDimension" }
        else if rest.contains("column pointer") { "BadColptr" }
        else if rest.contains("Row value") { "BadRowval" }
        else if rest.contains("not sorted") { "BadRowOrdering" }
        else { "other" }
    };
    if let Some(rest) = m.strip_prefix("invalid matrix P: ") { format!("err:P:{}", fmt(rest)) }
    else if let Some(rest) = m.strip_prefix("invalid matrix A: ") { format!("err:A:{}", fmt(rest)) }
    else if m == "invalid matrix column pointers" { "err:colptr".into() }
    else if m.starts_with("Invalid direct_solve_method") { "err:settings:direct_solve_method".into() }
    else if m.starts_with("Invalid chordal_decomposition_merge_method") { "err:settings:chordal_decomposition_merge_method".into() }
    else if m == "invalid GenPowerConeT exponents" { "err:genpow".into() }
    else if m == "inconsistent problem dimensions" { "err:dimensions".into() }
    else { format!("err:parse:{}", m.chars().map(|c| if c.is_whitespace() || c == '=' || c == ',' { '_' } else { c }).take(60).collect::<String>()) }
}

fn run_load(r: &Req) -> String {
    // records that declare huge sizes may make the constructor allocate without bound:
    // those run in a child process (an allocation failure aborts, it cannot be caught)
    if record_max_nat(r) >= (1u128 << 24) && !std::env::args().any(|a| a == "--one") {
        let mut line = r.chan.clone();
        for (k, v) in &r.kv {
            line.push_str(&format!(" {}={}", k, v));
        }
        let out = run_isolated(&line, 20.0, 4096);
        return if out.starts_with("abort") || out.starts_with("hang") { format!("panic:{}", out.replace(':', "_")) } else { out };
    }
    let text = record_text(r);
    if std::env::var("C19_DEBUG").is_ok() {
        eprintln!("json.load file: {}", text.chars().take(3000).collect::<String>());
    }
    let arg = if r.b("arg") { Some(settings_from(&rec_settings(r, "a"))) } else { None };
    let res = catch_unwind(AssertUnwindSafe(|| load_text(text.as_bytes(), arg)));
    match res {
        Ok(Err(e)) => classify_load_error(&e),
        Ok(Ok(s)) => {
            let st = &s.settings;
            let head = Line::out()
                .s("ok", "1")
                .u("n", s.data.n)
                .u("m", s.data.m)
                .f("tl", st.time_limit)
                .s("dsm", &st.direct_solve_method)
                .s("mm", &st.chordal_decomposition_merge_method)
                .b("pre", st.presolve_enable)
                .b("chord", st.chordal_decomposition_enable)
                .s("cones", &common_cones::fmt_cones(&s.data.cones));
            // the internal data is compared when the solver was built without equilibration
            // (records with a settings object / a settings argument)
            if r.b("hasset") || r.b("arg") {
                head.csc("P", &s.data.P).fs("q", &s.data.q).csc("A", &s.data.A).fs("b", &s.data.b).done()
            } else {
                head.done()
            }
        }
        Err(e) => {
            let msg = if let Some(s) = e.downcast_ref::<&str>() { s.to_string() } else if let Some(s) = e.downcast_ref::<String>() { s.clone() } else { "?".into() };
            format!("panic:{}", msg.chars().map(|c| if c.is_whitespace() || c == '=' || c == ',' { '_' } else { c }).take(80).collect::<String>())
        }
    }
}

/// independent statement of "the file describes a problem": plain integer arithmetic in u128
fn record_is_wellformed(r: &Req) -> bool {
    let ok_csc = |m: &CscMatrix<f64>| -> bool {
        m.rowval.len() == m.nzval.len()
            && m.colptr.len() == m.n.wrapping_add(1)
            && m.colptr.first() == Some(&0)
            && m.colptr.last() == Some(&m.rowval.len())
            && m.colptr.windows(2).all(|w| w[0] <= w[1])
            && (0..m.n).all(|j| m.rowval[m.colptr[j]..m.colptr[j + 1]].windows(2).all(|w| w[0] < w[1]))
            && m.rowval.iter().all(|&i| i < m.m)
    };
    let (P, A, q, b) = (r.csc("P"), r.csc("A"), r.fs("q"), r.fs("b"));
    let cones = common_cones::parse_cones(r.str("cones"));
    let total: u128 = cones
        .iter()
        .map(|c| match c {
            Cone::ZeroConeT(k) | Cone::NonnegativeConeT(k) | Cone::SecondOrderConeT(k) => *k as u128,
            Cone::ExponentialConeT() | Cone::PowerConeT(_) => 3,
            Cone::GenPowerConeT(a, d) => a.len() as u128 + *d as u128,
            Cone::PSDTriangleConeT(k) => (*k as u128) * (*k as u128 + 1) / 2,
        })
        .sum();
    let gp_ok = cones.iter().all(|c| match c {
        Cone::GenPowerConeT(a, _) => a.iter().all(|x| *x > 0.0) && (1.0 - a.iter().fold(0.0, |s, x| s + x)).abs() < f64::EPSILON * a.len() as f64 * 0.5,
        _ => true,
    });
    let used = if r.b("arg") { rec_settings(r, "a") } else if r.b("hasset") { rec_settings(r, "") } else { RecSettings { dsm: "auto".into(), mm: "clique_graph".into(), tl: f64::INFINITY, pre: true, chord: true } };
    let strings_ok = ["auto", "qdldl", "faer"].contains(&used.dsm.as_str()) && ["none", "parent_child", "clique_graph"].contains(&used.mm.as_str());
    ok_csc(&P) && ok_csc(&A) && P.m == P.n && P.n == q.len() && A.n == q.len() && A.m == b.len() && total == b.len() as u128 && gp_ok && strings_ok
}

fn oracle_load(r: &Req, out: &str) -> Result<(), String> {
    // the property clause: a file that parses gives Err or a solver, never a panic / abort
    if out.starts_with("panic") {
        let wf = record_is_wellformed(r);
        return Err(format!(
            "C19-load-record: load_from_file panicked or aborted on a file that parses (record {}well-formed as a problem): {}",
            if wf { "" } else { "not " },
            out
        ));
    }
    if out.starts_with("err:parse") {
        return Err(format!("the record's JSON text was rejected by the parser: {}", out));
    }
    let wf = record_is_wellformed(r);
    if out.starts_with("err") {
        if wf {
            return Err(format!("a well-formed problem file was rejected: {}", out));
        }
        return Ok(());
    }
    // a solver was built
    if !wf {
        return Err("load_from_file built a solver from a file that does not describe a well-formed problem".into());
    }
    let o = Req::parse(&format!("x {}", out)).ok_or("unparsable response")?;
    let used = if r.b("arg") { rec_settings(r, "a") } else if r.b("hasset") { rec_settings(r, "") } else { RecSettings { dsm: "auto".into(), mm: "clique_graph".into(), tl: f64::INFINITY, pre: true, chord: true } };
    let want_tl = if !r.b("arg") && used.tl == f64::MAX { f64::INFINITY } else { used.tl };
    if o.f("tl").to_bits() != want_tl.to_bits() || o.str("dsm") != used.dsm || o.str("mm") != used.mm || o.b("pre") != used.pre || o.b("chord") != used.chord {
        return Err("the loaded solver does not carry the settings it should (file settings / settings argument)".into());
    }
    if o.u("n") != r.fs("q").len() || o.u("m") > r.fs("b").len() {
        return Err("loaded dimensions differ from the file's".into());
    }
    Ok(())
}

// ---------------------------------------------------------------- channels json.conedec / json.coneenc
//
// The serde representation of `SupportedConeT` (tags / payload shapes produced by the derive)
// against the model's encoder / decoder (`ClarabelModel/JsonCones.lean`).  Float payloads
// travel as their JSON tokens (serde_json's printer; `float_roundtrip` parser): the number
// text layer is library code, the *structure* is what is compared.

fn ftok(x: f64) -> String {
    serde_json::to_string(&x).expect("finite float")
}
/// cone wire format with float payloads as JSON tokens: `p:0.4`, `g:0.3;0.7:2`
fn fmt_cones_tok(cs: &[Cone]) -> String {
    cs.iter()
        .map(|c| match c {
            Cone::ZeroConeT(k) => format!("z{}", k),
            Cone::NonnegativeConeT(k) => format!("n{}", k),
            Cone::SecondOrderConeT(k) => format!("q{}", k),
            Cone::ExponentialConeT() => "e".to_string(),
            Cone::PowerConeT(a) => format!("p:{}", ftok(*a)),
            Cone::GenPowerConeT(a, d) => format!("g:{}:{}", a.iter().map(|x| ftok(*x)).collect::<Vec<_>>().join(";"), d),
            Cone::PSDTriangleConeT(k) => format!("s{}", k),
        })
        .collect::<Vec<_>>()
        .join(",")
}
fn parse_cones_tok(s: &str) -> Vec<Cone> {
    if s.is_empty() {
        return vec![];
    }
    let pf = |t: &str| -> f64 { serde_json::from_str::<f64>(t).expect("float token") };
    s.split(',')
        .map(|t| {
            if t == "e" {
                return Cone::ExponentialConeT();
            }
            let (h, r) = t.split_at(1);
            match h {
                "z" => Cone::ZeroConeT(r.parse().unwrap()),
                "n" => Cone::NonnegativeConeT(r.parse().unwrap()),
                "q" => Cone::SecondOrderConeT(r.parse().unwrap()),
                "s" => Cone::PSDTriangleConeT(r.parse().unwrap()),
                "p" => Cone::PowerConeT(pf(&r[1..])),
                "g" => {
                    let body = &r[1..];
                    let (al, d) = body.rsplit_once(':').unwrap();
                    Cone::GenPowerConeT(if al.is_empty() { vec![] } else { al.split(';').map(pf).collect() }, d.parse().unwrap())
                }
                _ => panic!("cone token"),
            }
        })
        .collect()
}

/// implementation: the derive's `Deserialize` on the text
fn run_conedec(r: &Req) -> String {
    match serde_json::from_str::<Vec<Cone>>(r.str("text")) {
        Ok(cs) => format!("cones={}", fmt_cones_tok(&cs)),
        Err(_) => "err".to_string(),
    }
}
fn oracle_conedec(r: &Req, out: &str) -> Result<(), String> {
    // texts the implementation itself wrote must come back as the same cones, bit for bit
    if r.has("orig") {
        let want = common_cones::parse_cones(r.str("orig"));
        let got: Vec<Cone> = serde_json::from_str(r.str("text")).map_err(|e| format!("the serialised cone list does not deserialise: {}", e))?;
        if common_cones::fmt_cones(&got) != common_cones::fmt_cones(&want) {
            return Err(format!("cone list changed across serialise/deserialise: {} vs {}", common_cones::fmt_cones(&got), r.str("orig")));
        }
        if out == "err" {
            return Err("err on a text written by the serialiser".into());
        }
    }
    Ok(())
}
/// implementation: the derive's `Serialize`
fn run_coneenc(r: &Req) -> String {
    let cs = parse_cones_tok(r.str("cones"));
    format!("text={}", serde_json::to_string(&cs).expect("serialise cones"))
}
fn oracle_coneenc(r: &Req, out: &str) -> Result<(), String> {
    // independent statement of the externally tagged form (hand-written `cone_value`)
    let cs = parse_cones_tok(r.str("cones"));
    let want = Value::Array(cs.iter().map(cone_value).collect());
    let got: Value = serde_json::from_str(out.strip_prefix("text=").ok_or("no text")?).map_err(|e| e.to_string())?;
    if got != want {
        return Err(format!("serialised cones {} expected {}", got, want));
    }
    Ok(())
}

fn channels() -> Vec<Channel> {
    vec![
        Channel { name: "json.save", tol: Tol::Exact, run: run_save, oracle: Some(oracle_save), modelled: true,
            rust_fn: "DefaultSolver::save_to_file (un-equilibration of P,q,A,b)", lean: "Json.saveData / C19.unscale_on_save, exact_when_off" },
        Channel { name: "json.saverec", tol: Tol::Exact, run: run_saverec, oracle: Some(oracle_saverec), modelled: true,
            rust_fn: "DefaultSolver::save_to_file (whole record: patterns, un-equilibrated numbers, cone list, sanitised settings)", lean: "JsonLoad.saveRecord / C19.save_load_roundtrip" },
        Channel { name: "json.sanitize", tol: Tol::Exact, run: run_sanitize, oracle: Some(oracle_sanitize), modelled: true,
            rust_fn: "json::sanitize_settings / desanitize_settings", lean: "Json.sanitize, Json.desanitize / C19.settings_roundtrip" },
        Channel { name: "json.roundtrip", tol: Tol::Exact, run: run_roundtrip, oracle: Some(oracle_roundtrip), modelled: false,
            rust_fn: "save_to_file + load_from_file + solve", lean: "-" },
        Channel { name: "json.fault", tol: Tol::Exact, run: run_fault, oracle: Some(oracle_fault), modelled: false,
            rust_fn: "load_from_file on corrupted files", lean: "-" },
        Channel { name: "json.conedec", tol: Tol::Exact, run: run_conedec, oracle: Some(oracle_conedec), modelled: true,
            rust_fn: "Deserialize for Vec<SupportedConeT<f64>> (serde derive) on JSON text", lean: "JsonCones.decodeCones / C19.cone_decode_encode" },
        Channel { name: "json.coneenc", tol: Tol::Exact, run: run_coneenc, oracle: Some(oracle_coneenc), modelled: true,
            rust_fn: "Serialize for Vec<SupportedConeT<f64>> (serde derive)", lean: "JsonCones.encodeCones / C19.cone_decode_encode" },
        Channel { name: "json.load", tol: Tol::Exact, run: run_load, oracle: Some(oracle_load), modelled: true,
            rust_fn: "load_from_file (post-parse validation: DefaultSettings::validate -> validate_direct_solve_method, validate_chordal_decomposition_merge_method; settings override, DefaultSolver::new) on a parsed record written with an independent JSON writer",
            lean: "JsonLoad.loadRecord / C19.load_validated_implies_new_preconditions, load_error_kinds" },
    ]
}

// ---------------------------------------------------------------- generators

fn gen_cones(rng: &mut Rng, all: bool) -> Vec<Cone> {
    let mut c = vec![];
    let k = 1 + rng.below(4);
    for _ in 0..k {
        let pick = if all { rng.below(11) } else { rng.below(5) };
        c.push(match pick {
            0 => Cone::ZeroConeT(rng.below(3)),
            1 | 2 => Cone::NonnegativeConeT(rng.below(4)),
            3 => Cone::SecondOrderConeT(*rng.choose(&[0, 1, 2, 3, 4])),
            4 => Cone::ExponentialConeT(),
            5 => Cone::PowerConeT(rng.uniform(0.1, 0.9)),
            6 => {
                let a = rng.uniform(0.2, 0.8);
                Cone::GenPowerConeT(vec![a, 1.0 - a], 1 + rng.below(2))
            }
            7 => Cone::PSDTriangleConeT(*rng.choose(&[0, 1, 2, 3])),
            8 => Cone::NonnegativeConeT(1 + rng.below(2)),
            9 => Cone::SecondOrderConeT(1),
            _ => Cone::PSDTriangleConeT(1),
        });
    }
    if c.iter().map(nvars).sum::<usize>() == 0 {
        c.push(Cone::NonnegativeConeT(2));
    }
    c
}

/// strictly feasible (x = 0, s = b in the interior of the cone) and strictly convex
fn gen_problem(rng: &mut Rng, all_cones: bool, mag: f64) -> Prob {
    let n = 1 + rng.below(4);
    let cones = gen_cones(rng, all_cones);
    let mut b = vec![];
    for c in &cones {
        match c {
            Cone::ZeroConeT(k) => b.extend(std::iter::repeat(0.0).take(*k)),
            Cone::NonnegativeConeT(k) => b.extend((0..*k).map(|_| rng.uniform(0.5, 2.0))),
            Cone::SecondOrderConeT(k) => b.extend((0..*k).map(|i| if i == 0 { rng.uniform(2.0, 3.0) } else { rng.uniform(-0.4, 0.4) })),
            Cone::ExponentialConeT() => b.extend([rng.uniform(-1.0, 0.3), 1.0, rng.uniform(2.0, 3.0)]),
            Cone::PowerConeT(_) => b.extend([rng.uniform(1.0, 2.0), rng.uniform(1.0, 2.0), rng.uniform(-0.3, 0.3)]),
            Cone::GenPowerConeT(a, d) => {
                b.extend((0..a.len()).map(|_| rng.uniform(1.0, 2.0)));
                b.extend((0..*d).map(|_| rng.uniform(-0.2, 0.2)));
            }
            Cone::PSDTriangleConeT(k) => {
                for j in 0..*k {
                    for i in 0..=j {
                        b.push(if i == j { rng.uniform(1.0, 2.0) } else { rng.uniform(-0.1, 0.1) });
                    }
                }
            }
        }
    }
    let m = b.len();
    // P: symmetric (sometimes given in full, sometimes as upper triangle), diagonally dominant
    let full = rng.bool(0.4);
    let pd = *rng.choose(&[0.0, 0.4, 0.8]);
    let mut dense = vec![vec![0.0; n]; n];
    let empty_p = rng.bool(0.12);
    for j in 0..n {
        for i in 0..=j {
            if empty_p {
                continue;
            }
            if i == j {
                dense[i][j] = rng.uniform(1.0, 3.0) * mag;
            } else if rng.bool(pd) {
                let v = rng.uniform(-0.2, 0.2) * mag;
                dense[i][j] = v;
                dense[j][i] = v;
            }
        }
    }
    let mut colptr = vec![0];
    let mut rowval = vec![];
    let mut nzval = vec![];
    for j in 0..n {
        for i in 0..n {
            if dense[i][j] != 0.0 && (full || i <= j) {
                rowval.push(i);
                nzval.push(dense[i][j]);
            }
        }
        colptr.push(rowval.len());
    }
    let P = CscMatrix { m: n, n, colptr, rowval, nzval };
    let ad = if rng.bool(0.1) { 0.0 } else { *rng.choose(&[0.3, 0.7, 1.0]) };
    let mut colptr = vec![0];
    let mut rowval = vec![];
    let mut nzval = vec![];
    for _ in 0..n {
        for i in 0..m {
            if rng.bool(ad) {
                rowval.push(i);
                nzval.push(rng.uniform(-1.0, 1.0));
            }
        }
        colptr.push(rowval.len());
    }
    let A = CscMatrix { m, n, colptr, rowval, nzval };
    let q: Vec<f64> = (0..n).map(|_| rng.uniform(-1.0, 1.0) * if empty_p { 0.0 } else { mag.sqrt() }).collect();
    Prob { P, q, A, b, cones }
}

/// one cone of every kind (so that every serialised cone form is a mutation site)
fn all_cones_problem(rng: &mut Rng) -> Prob {
    loop {
        let mut p = gen_problem(rng, true, 1.0);
        let cones = vec![
            Cone::ZeroConeT(1),
            Cone::NonnegativeConeT(2),
            Cone::SecondOrderConeT(3),
            Cone::ExponentialConeT(),
            Cone::PowerConeT(0.4),
            Cone::GenPowerConeT(vec![0.3, 0.7], 1),
            Cone::PSDTriangleConeT(2),
        ];
        let m: usize = cones.iter().map(nvars).sum();
        let n = p.q.len();
        let mut colptr = vec![0];
        let mut rowval = vec![];
        let mut nzval = vec![];
        for _ in 0..n {
            for i in 0..m {
                if rng.bool(0.5) {
                    rowval.push(i);
                    nzval.push(rng.uniform(-1.0, 1.0));
                }
            }
            colptr.push(rowval.len());
        }
        p.A = CscMatrix { m, n, colptr, rowval, nzval };
        p.b = vec![0.0, 1.0, 1.5, 2.5, 0.1, -0.2, -0.5, 1.0, 2.5, 1.5, 1.2, 0.2, 1.1, 0.3, 0.1, 1.0, 0.05, 1.3];
        assert_eq!(p.b.len(), m);
        p.cones = cones;
        return p;
    }
}

/// special-structure problems on which part of the equilibration is trivial
/// (unit row / column norms, P = 0, q = 0, all ones, ...)
fn gen_structured(rng: &mut Rng, kind: usize) -> (Prob, &'static str, bool) {
    let n = 1 + rng.below(4);
    let eye = |n: usize, v: f64| CscMatrix { m: n, n, colptr: (0..=n).collect(), rowval: (0..n).collect(), nzval: vec![v; n] };
    let box_a = |n: usize| {
        // A = [I; -I]
        let mut colptr = vec![0];
        let mut rowval = vec![];
        let mut nzval = vec![];
        for j in 0..n {
            rowval.extend([j, n + j]);
            nzval.extend([1.0, -1.0]);
            colptr.push(rowval.len());
        }
        CscMatrix { m: 2 * n, n, colptr, rowval, nzval }
    };
    // symmetric P (upper triangle), entries of magnitude <= pmax, diagonally dominant
    let mut p_small = |rng: &mut Rng, n: usize, pmax: f64| {
        let mut colptr = vec![0];
        let mut rowval = vec![];
        let mut nzval = vec![];
        for c in 0..n {
            for r in 0..=c {
                if r == c {
                    rowval.push(r);
                    nzval.push(pmax * *rng.choose(&[1.0, 0.5, 0.75]));
                } else if rng.bool(0.4) {
                    rowval.push(r);
                    nzval.push(pmax * *rng.choose(&[0.125, -0.125, 0.0625]));
                }
            }
            colptr.push(rowval.len());
        }
        CscMatrix { m: n, n, colptr, rowval, nzval }
    };
    let zero_p = |n: usize| CscMatrix { m: n, n, colptr: vec![0; n + 1], rowval: vec![], nzval: vec![] };
    match kind % 8 {
        0 => {
            // box QP: all KKT row / column inf-norms are exactly 1, |q|_inf > 1  =>  d = e = 1, c != 1
            let q: Vec<f64> = (0..n).map(|_| rng.uniform(1.5, 6.0) * if rng.bool(0.5) { 1.0 } else { -1.0 }).collect();
            (Prob { P: p_small(rng, n, 1.0), q, A: box_a(n), b: vec![1.0; 2 * n], cones: vec![Cone::NonnegativeConeT(2 * n)] }, "box-qp-unit-norms", true)
        }
        1 => {
            // the same with small q: c is driven by the mean column norm of P
            let q: Vec<f64> = (0..n).map(|_| rng.uniform(-0.25, 0.25)).collect();
            (Prob { P: p_small(rng, n, 0.5), q, A: box_a(n), b: vec![2.0; 2 * n], cones: vec![Cone::NonnegativeConeT(2 * n)] }, "box-qp-small-q", true)
        }
        2 => {
            // LP on a box: P = 0, q != 0
            let q: Vec<f64> = (0..n).map(|_| rng.uniform(-3.0, 3.0)).collect();
            (Prob { P: zero_p(n), q, A: box_a(n), b: vec![1.0; 2 * n], cones: vec![Cone::NonnegativeConeT(2 * n)] }, "box-lp", true)
        }
        3 => {
            // q = 0, P != 0
            (Prob { P: p_small(rng, n, 4.0), q: vec![0.0; n], A: box_a(n), b: vec![1.0; 2 * n], cones: vec![Cone::NonnegativeConeT(2 * n)] }, "q-zero", true)
        }
        4 => {
            // everything equal to one
            let mut colptr = vec![0];
            let mut rowval = vec![];
            for c in 0..n {
                rowval.extend(0..=c);
                colptr.push(rowval.len());
            }
            let P = CscMatrix { m: n, n, colptr, nzval: vec![1.0; rowval.len()], rowval };
            let m = 1 + rng.below(3);
            let mut colptr = vec![0];
            let mut rowval = vec![];
            for _ in 0..n {
                rowval.extend(0..m);
                colptr.push(rowval.len());
            }
            let A = CscMatrix { m, n, colptr, nzval: vec![1.0; rowval.len()], rowval };
            (Prob { P, q: vec![1.0; n], A, b: vec![1.0; m], cones: vec![Cone::NonnegativeConeT(m)] }, "all-ones", false)
        }
        5 => {
            // A = identity (x <= b), P entries at most 1, |q| > 1
            let q: Vec<f64> = (0..n).map(|_| -rng.uniform(2.0, 9.0)).collect();
            (Prob { P: p_small(rng, n, 1.0), q, A: eye(n, 1.0), b: vec![1.0; n], cones: vec![Cone::NonnegativeConeT(n)] }, "identity-A", true)
        }
        6 => {
            // signed permutation rows (unit norms) with an equality block, P = identity
            let perm = rng.perm(n);
            let mut cols: Vec<Vec<(usize, f64)>> = vec![vec![]; n];
            for (i, &j) in perm.iter().enumerate() {
                cols[j].push((i, if rng.bool(0.5) { 1.0 } else { -1.0 }));
            }
            let mut colptr = vec![0];
            let mut rowval = vec![];
            let mut nzval = vec![];
            for c in cols {
                for (i, v) in c {
                    rowval.push(i);
                    nzval.push(v);
                }
                colptr.push(rowval.len());
            }
            let A = CscMatrix { m: n, n, colptr, rowval, nzval };
            let q: Vec<f64> = (0..n).map(|_| rng.uniform(-5.0, 5.0)).collect();
            (Prob { P: eye(n, 1.0), q, A, b: vec![1.0; n], cones: vec![Cone::NonnegativeConeT(n)] }, "signed-permutation-A", true)
        }
        _ => {
            // unit-norm columns but rows of different norms (d = 1, e != 1), P = 0.5 I
            let mut colptr = vec![0];
            let mut rowval = vec![];
            let mut nzval = vec![];
            for j in 0..n {
                rowval.extend([0, 1 + j]);
                nzval.extend([0.25, 1.0]);
                colptr.push(rowval.len());
            }
            let A = CscMatrix { m: n + 1, n, colptr, rowval, nzval };
            let q: Vec<f64> = (0..n).map(|_| rng.uniform(-4.0, 4.0)).collect();
            (Prob { P: eye(n, 0.5), q, A, b: vec![2.0; n + 1], cones: vec![Cone::NonnegativeConeT(n + 1)] }, "unit-columns", true)
        }
    }
}

fn extreme(rng: &mut Rng) -> f64 {
    *rng.choose(&[0.0, -0.0, 1.0, -1.0, f64::MAX, -f64::MAX, f64::MIN_POSITIVE, 5e-324, 1e300, -1e-300, 0.1, 1.0 / 3.0, 123456789.123456789, 1e20, 9.999999999999999e19, 2.2250738585072011e-308])
}

fn submit_save_from_solver(s: &mut Session, p: &Prob, equil: bool) {
    let mut st = settings_of(0, equil, f64::INFINITY);
    st.presolve_enable = false;
    st.chordal_decomposition_enable = false;
    let solver = build(p, st);
    let eq = &solver.data.equilibration;
    let tP = triu_of(&p.P);
    let l = Line::new("json.save")
        .csc("P", &solver.data.P)
        .fs("q", &solver.data.q)
        .csc("A", &solver.data.A)
        .fs("b", &solver.data.b)
        .fs("dinv", &eq.dinv)
        .fs("einv", &eq.einv)
        .f("c", eq.c)
        .b("equil", equil)
        .fs("uPnzval", &tP.nzval)
        .fs("uq", &p.q)
        .fs("uAnzval", &p.A.nzval)
        .fs("ub", &p.b);
    s.submit(l.done());
}

// ---------------------------------------------------------------- json.load records

fn load_line(p: &Prob, fs: Option<&RecSettings>, arg: Option<&RecSettings>) -> String {
    let mut l = Line::new("json.load").csc("P", &p.P).fs("q", &p.q).csc("A", &p.A).fs("b", &p.b).s("cones", &common_cones::fmt_cones(&p.cones));
    l = l.b("hasset", fs.is_some());
    if let Some(f) = fs {
        l = l.s("dsm", &f.dsm).s("mm", &f.mm).f("tl", f.tl).b("pre", f.pre).b("chord", f.chord);
    }
    l = l.b("arg", arg.is_some());
    if let Some(a) = arg {
        l = l.s("adsm", &a.dsm).s("amm", &a.mm).f("atl", a.tl).b("apre", a.pre).b("achord", a.chord);
    }
    l.done()
}

fn gen_rec_settings(rng: &mut Rng) -> RecSettings {
    RecSettings {
        dsm: rng.choose(&["auto", "qdldl", "faer", "qdldl"]).to_string(),
        mm: rng.choose(&["none", "parent_child", "clique_graph"]).to_string(),
        tl: *rng.choose(&[f64::INFINITY, f64::MAX, 1e6, 0.0, 3600.5, 1e300, -1.0]),
        pre: rng.bool(0.6),
        chord: rng.bool(0.5),
    }
}

const HUGE: [usize; 6] = [1 << 24, 1 << 40, 1 << 62, 1 << 63, usize::MAX - 1, usize::MAX];

fn inject_other(rng: &mut Rng, p: &mut Prob, fs: &mut RecSettings, kind: usize) -> Option<&'static str> {
    match kind {
        9 => { p.P.m += 1; Some("P-not-square") }
        10 => { if rng.bool(0.5) { p.q.push(0.5); } else { p.q.pop()?; } Some("q-length") }
        11 => { if rng.bool(0.5) { p.b.push(0.5); } else { p.b.pop()?; } Some("b-length") }
        12 => { if rng.bool(0.5) { p.A.m += 1; } else { p.A.m = p.A.m.checked_sub(1)?; } Some("A-rows") }
        14 => {
            // a cone of another size
            let i = rng.below(p.cones.len().max(1));
            match p.cones.get_mut(i)? {
                Cone::ZeroConeT(k) | Cone::NonnegativeConeT(k) | Cone::SecondOrderConeT(k) => *k += 1,
                Cone::PSDTriangleConeT(k) => *k += 1,
                Cone::GenPowerConeT(_, d) => *d += 1,
                _ => return None,
            }
            Some("cone-size")
        }
        15 => {
            let i = rng.below(p.cones.len() + 1);
            let c = match rng.below(4) { 0 => Cone::ExponentialConeT(), 1 => Cone::PowerConeT(0.5), 2 => Cone::ZeroConeT(1 + rng.below(3)), _ => Cone::SecondOrderConeT(2) };
            p.cones.insert(i, c);
            Some("cone-extra")
        }
        16 => {
            // cone sizes whose sum does not fit a usize (checked_add)
            let h = *rng.choose(&HUGE[2..]);
            p.cones.push(match rng.below(3) { 0 => Cone::ZeroConeT(h), 1 => Cone::NonnegativeConeT(h), _ => Cone::SecondOrderConeT(h) });
            if rng.bool(0.6) { p.cones.push(Cone::NonnegativeConeT(*rng.choose(&HUGE[2..]))); }
            Some("cone-sum-overflows")
        }
        17 => {
            // generalized power cone exponents
            let i = (0..p.cones.len()).find(|&i| matches!(p.cones[i], Cone::GenPowerConeT(..)));
            let bad: Vec<f64> = match rng.below(6) {
                0 => vec![0.5, 0.5 + 1e-9],
                1 => vec![-0.25, 1.25],
                2 => vec![0.0, 1.0],
                3 => vec![],
                4 => vec![0.5, 0.5 + 2.0 * f64::EPSILON],
                _ => vec![0.3, 0.3, 0.3],
            };
            match i {
                Some(i) => { if let Cone::GenPowerConeT(a, d) = &mut p.cones[i] { let total = a.len() + *d; if bad.len() > total { return None; } *d = total - bad.len(); *a = bad; } }
                None => return None,
            }
            Some("genpow-exponents")
        }
        18 => { fs.dsm = rng.choose(&["foo", "QDLDL", "cholmod", "mkl", "Auto", "faer2", "x"]).to_string(); Some("direct_solve_method") }
        19 => { fs.mm = rng.choose(&["foo", "None", "cliquegraph", "parent-child", "x"]).to_string(); Some("merge_method") }
        _ => None,
    }
}

/// one defect of a parsed record; returns its name, `None` when it does not apply
fn inject(rng: &mut Rng, p: &mut Prob, fs: &mut RecSettings, kind: usize) -> Option<&'static str> {
    // matrix defects apply to P or A
    let on_a = rng.bool(0.5);
    if kind >= 9 && kind != 13 && kind != 20 {
        return inject_other(rng, p, fs, kind);
    }
    let mat: &mut CscMatrix<f64> = if on_a { &mut p.A } else { &mut p.P };
    match kind {
        0 => { mat.rowval.push(0); Some("rowval-longer-than-nzval") }
        1 => { mat.nzval.push(1.0); Some("nzval-longer-than-rowval") }
        2 => { mat.colptr.pop()?; Some("colptr-too-short") }
        3 => { let l = *mat.colptr.last()?; mat.colptr.push(l); Some("colptr-too-long") }
        4 => { *mat.colptr.last_mut()? += 1; Some("colptr-last-not-nnz") }
        5 => {
            // first column pointer not zero (lengths stay consistent)
            if mat.colptr.len() < 2 || mat.colptr[1] == 0 { return None; }
            mat.colptr[0] = 1;
            Some("colptr-first-not-zero")
        }
        6 => {
            // non-monotone column pointers
            let n = mat.colptr.len();
            if n < 3 { return None; }
            let j = 1 + rng.below(n - 2);
            mat.colptr[j] = mat.colptr[n - 1] + 1 + rng.below(3);
            Some("colptr-not-monotone")
        }
        7 => {
            // two entries of a column out of order / repeated
            let cols: Vec<usize> = (0..mat.n.min(mat.colptr.len().saturating_sub(1))).filter(|&j| mat.colptr[j + 1] >= mat.colptr[j] + 2).collect();
            let j = *cols.get(rng.below(cols.len().max(1)))?;
            let k = mat.colptr[j];
            if k + 1 >= mat.rowval.len() { return None; }
            if rng.bool(0.5) { mat.rowval.swap(k, k + 1); Some("rows-out-of-order") } else { mat.rowval[k + 1] = mat.rowval[k]; Some("row-repeated") }
        }
        8 => {
            if mat.rowval.is_empty() { return None; }
            let k = rng.below(mat.rowval.len());
            // keep the column sorted: raise the last entry of a column
            let j = (0..mat.colptr.len().saturating_sub(1)).find(|&j| mat.colptr[j] <= k && k < mat.colptr[j + 1])?;
            let last = mat.colptr[j + 1] - 1;
            if last >= mat.rowval.len() { return None; }
            mat.rowval[last] = if rng.bool(0.5) { mat.m } else { *rng.choose(&HUGE) };
            Some("row-index-out-of-range")
        }
        13 => { mat.n += 1; Some("matrix-n-vs-colptr") }
        20 => {
            // huge declared dimensions
            match rng.below(5) {
                0 => mat.n = *rng.choose(&HUGE),
                1 => mat.m = *rng.choose(&HUGE),
                2 => { mat.m = usize::MAX; mat.n = usize::MAX; }
                3 => { let h = *rng.choose(&HUGE); *mat.colptr.last_mut()? = h; }
                _ => { mat.m = *rng.choose(&HUGE[2..]); }
            }
            Some("huge-declared-size")
        }
        _ => None,
    }
}

/// a cone whose `nvars()` wraps to `w` in `usize` arithmetic
fn wrapping_cone(rng: &mut Rng) -> (Cone, usize) {
    match rng.below(3) {
        0 => {
            // α.len() + dim2 = 2^64 + t
            let a = rng.uniform(0.2, 0.8);
            let t = rng.below(2);
            (Cone::GenPowerConeT(vec![a, 1.0 - a], usize::MAX - 1 + t), t)
        }
        1 => {
            let t = rng.below(2);
            (Cone::GenPowerConeT(vec![0.25, 0.25, 0.5], usize::MAX - 2 + t), t)
        }
        _ => {
            // k = 2^64 - j: (k*(k+1)) >> 1 wraps to j(j-1)/2
            let j = 1 + rng.below(4);
            (Cone::PSDTriangleConeT(usize::MAX - j + 1), j * (j - 1) / 2)
        }
    }
}

/// the three files of finding fb4bc53 (cone sizes that wrap in `usize` arithmetic and then
/// match `|b|`): they must give `Err`
fn load_corpus() -> Vec<String> {
    let one = |v: f64| CscMatrix { m: 1, n: 1, colptr: vec![0, 1], rowval: vec![0], nzval: vec![v] };
    let mk = |cones: Vec<Cone>| Prob { P: one(1.0), q: vec![1.0], A: one(1.0), b: vec![1.0], cones };
    vec![
        load_line(&mk(vec![Cone::GenPowerConeT(vec![0.5, 0.5], 18446744073709551615)]), None, None),
        load_line(&mk(vec![Cone::PSDTriangleConeT(18446744073709551614)]), None, None),
        load_line(&mk(vec![Cone::NonnegativeConeT(1), Cone::PSDTriangleConeT(18446744073709551615)]), None, None),
    ]
}

fn generate_load(s: &mut Session) {
    for line in load_corpus() {
        let out = s.submit(line);
        s.count(&format!("load:corpus-fb4bc53:{}", out.split('=').next().unwrap_or("")));
    }
    // ---- well-formed records (with / without a settings object, with / without an argument)
    for k in 0..s.budget(60, 1500) {
        let mut rng = s.rng.fork();
        let mut p = gen_problem(&mut rng, true, 1.0);
        if k % 7 == 0 {
            p = all_cones_problem(&mut rng);
        }
        if rng.bool(0.2) {
            // an infinite / capped bound (finite in the file): presolve may drop the row
            if let Some(i) = (0..p.cones.len()).find(|&i| matches!(p.cones[i], Cone::NonnegativeConeT(k) if k > 0)) {
                let at: usize = p.cones[..i].iter().map(nvars).sum();
                p.b[at] = *rng.choose(&[1e20, 1e25, f64::MAX, 9.999999999999999e19]);
            }
        }
        let fs = gen_rec_settings(&mut rng);
        let mut arg = gen_rec_settings(&mut rng);
        // the argument is used verbatim: an `f64::MAX` limit in it is *not* de-sanitised
        if rng.bool(0.5) {
            arg.tl = f64::MAX;
        }
        let line = match k % 4 {
            0 => load_line(&p, None, None),
            1 | 2 => load_line(&p, Some(&fs), None),
            _ => load_line(&p, if rng.bool(0.8) { Some(&fs) } else { None }, Some(&arg)),
        };
        let out = s.submit(line);
        s.count(&format!("load:well-formed:{}", out.split(|c| c == '=' || c == ':').next().unwrap_or("")));
    }
    // ---- one defect at a time, every kind; then combinations
    let nkinds = 21;
    for round in 0..s.budget(6, 120) {
        for kind in 0..nkinds {
            let mut rng = s.rng.fork();
            let mut p = if round % 3 == 0 { all_cones_problem(&mut rng) } else { gen_problem(&mut rng, true, 1.0) };
            let mut fs = gen_rec_settings(&mut rng);
            let name = match inject(&mut rng, &mut p, &mut fs, kind) {
                Some(n) => n,
                None => continue,
            };
            // a valid settings argument rescues bad file settings, an invalid one is reported
            let arg = if rng.bool(0.2) { Some(gen_rec_settings(&mut rng)) } else { None };
            let out = s.submit(load_line(&p, Some(&fs), arg.as_ref()));
            s.count(&format!("load:defect:{}:{}", name, out.split('=').next().unwrap_or("").chars().take(40).collect::<String>()));
        }
    }
    for _ in 0..s.budget(120, 3000) {
        let mut rng = s.rng.fork();
        let mut p = gen_problem(&mut rng, true, 1.0);
        let mut fs = gen_rec_settings(&mut rng);
        let mut arg = if rng.bool(0.3) { Some(gen_rec_settings(&mut rng)) } else { None };
        let k = 2 + rng.below(3);
        let mut names = vec![];
        for _ in 0..k {
            let kind = rng.below(nkinds);
            if let Some(n) = inject(&mut rng, &mut p, &mut fs, kind) {
                names.push(n);
            }
        }
        if let Some(a) = arg.as_mut() {
            if rng.bool(0.3) {
                a.dsm = "bogus".into();
            }
            if rng.bool(0.2) {
                a.mm = "bogus".into();
            }
        }
        let out = s.submit(load_line(&p, Some(&fs), arg.as_ref()));
        s.count(&format!("load:combination:{}", out.split('=').next().unwrap_or("").chars().take(40).collect::<String>()));
    }
    // ---- cone sizes that wrap in usize arithmetic (GenPowerConeT: α.len()+dim2,
    //      PSDTriangleConeT: k(k+1)/2) with everything else consistent with the wrapped size
    for _ in 0..s.budget(16, 200) {
        let mut rng = s.rng.fork();
        let mut p = gen_problem(&mut rng, true, 1.0);
        let (c, w) = wrapping_cone(&mut rng);
        let at = rng.below(p.cones.len() + 1);
        let row: usize = p.cones[..at].iter().map(nvars).sum();
        p.cones.insert(at, c);
        // insert `w` rows at `row`
        for _ in 0..w {
            p.b.insert(row, 1.0);
        }
        for r in p.A.rowval.iter_mut() {
            if *r >= row {
                *r += w;
            }
        }
        p.A.m += w;
        let fs = gen_rec_settings(&mut rng);
        let out = s.submit(load_line(&p, Some(&fs), None));
        s.count(&format!("load:wrapped-cone-size:{}", out.split(|c| c == '=' || c == ':').next().unwrap_or("")));
    }
}

// ---------------------------------------------------------------- cone (de)serialisation cases

fn gen_cone_any(rng: &mut Rng) -> Cone {
    let dim = |rng: &mut Rng| -> usize {
        match rng.below(8) {
            0 => 0,
            1 => usize::MAX,
            2 => *rng.choose(&HUGE),
            3 => rng.next_u64() as usize,
            _ => rng.below(50),
        }
    };
    let fl = |rng: &mut Rng| -> f64 {
        match rng.below(6) {
            0 => extreme(rng),
            1 => rng.logmag(-300.0, 300.0),
            2 => f64::from_bits(rng.next_u64() & !(0x7ff << 52) | ((rng.below(2046) as u64 + 1) << 52)),
            _ => rng.uniform(0.0, 1.0),
        }
    };
    match rng.below(7) {
        0 => Cone::ZeroConeT(dim(rng)),
        1 => Cone::NonnegativeConeT(dim(rng)),
        2 => Cone::SecondOrderConeT(dim(rng)),
        3 => Cone::ExponentialConeT(),
        4 => Cone::PowerConeT(fl(rng)),
        5 => {
            let k = rng.below(5);
            Cone::GenPowerConeT((0..k).map(|_| fl(rng)).collect(), dim(rng))
        }
        _ => Cone::PSDTriangleConeT(dim(rng)),
    }
}

/// structural corruptions of a serialised cone list (token level)
fn corrupt_cone_text(rng: &mut Rng, text: &str) -> Option<String> {
    let mut v: Value = serde_json::from_str(text).ok()?;
    let a = v.as_array_mut()?;
    if a.is_empty() {
        return Some(match rng.below(3) { 0 => "{}".into(), 1 => "3".into(), _ => "[3]".into() });
    }
    let i = rng.below(a.len());
    let (tag, payload) = { let o = a[i].as_object()?; let (k, p) = o.iter().next()?; (k.clone(), p.clone()) };
    let new: Value = match rng.below(14) {
        0 => json!({ tag.trim_end_matches('T'): payload }),
        1 => json!({ "FooConeT": payload }),
        2 => json!({ tag.to_lowercase(): payload }),
        3 => json!({}),
        4 => json!({ tag.clone(): payload, "ZeroConeT": 1 }),
        5 => json!(tag),
        6 => json!({ tag: [payload] }),
        7 => json!({ tag: null }),
        8 => json!({ tag: "3" }),
        // (an integer token in a float position is accepted by serde as `-1.0`: outside the
        // decoder model's domain, see ClarabelModel/JsonCones.lean)
        9 => if tag == "PowerConeT" { return None } else { json!({ tag: -1 }) },
        10 => json!({ tag: 2.5 }),
        11 => match payload { Value::Array(mut p) => { p.push(json!(1)); json!({ tag: p }) } _ => json!({ tag: true }) },
        12 => match payload { Value::Array(mut p) => { p.pop()?; json!({ tag: p }) } _ => json!({ tag: {} }) },
        _ => json!([tag, payload]),
    };
    a[i] = new;
    Some(v.to_string())
}

/// the `"cones":[…]` array of a file written by `save_to_file`, as text (raw slice of the file)
fn saved_cones_text(file: &str) -> Option<String> {
    let start = file.find("\"cones\":")? + 8;
    let mut depth = 0i32;
    for (i, ch) in file[start..].char_indices() {
        match ch {
            '[' => depth += 1,
            ']' => {
                depth -= 1;
                if depth == 0 {
                    return Some(file[start..start + i + 1].to_string());
                }
            }
            _ => {}
        }
    }
    None
}

fn generate_cones(s: &mut Session) {
    // the cone arrays of real saved files (the solver's collapsed cone list) → model decoder
    for _ in 0..s.budget(30, 600) {
        let mut rng = s.rng.fork();
        let p = if rng.bool(0.3) { all_cones_problem(&mut rng) } else { gen_problem(&mut rng, true, 1.0) };
        let solver = build(&p, settings_of(0, rng.bool(0.5), f64::INFINITY));
        let file = save_text(&solver).expect("save");
        match saved_cones_text(&file) {
            Some(text) => {
                s.submit(Line::new("json.conedec").s("text", &text).s("orig", &common_cones::fmt_cones(&solver.data.cones)).done());
                s.count("conedec:saved-file");
            }
            None => s.fail("json.conedec", String::new(), file.chars().take(300).collect(), "no cones array in a saved file".into()),
        }
    }
    // every variant once, then random lists (empty list, huge sizes, extreme exponents)
    let fixed = vec![
        vec![],
        vec![Cone::ZeroConeT(1), Cone::NonnegativeConeT(2), Cone::SecondOrderConeT(3), Cone::ExponentialConeT(), Cone::PowerConeT(0.4), Cone::GenPowerConeT(vec![0.3, 0.7], 1), Cone::PSDTriangleConeT(2)],
        vec![Cone::GenPowerConeT(vec![], 0), Cone::GenPowerConeT(vec![1.0], usize::MAX), Cone::PSDTriangleConeT(usize::MAX), Cone::ZeroConeT(0)],
    ];
    let n = s.budget(150, 4000);
    for k in 0..n {
        let mut rng = s.rng.fork();
        let cones: Vec<Cone> = if k < fixed.len() { fixed[k].clone() } else { (0..rng.below(6)).map(|_| gen_cone_any(&mut rng)).collect() };
        // the implementation's own JSON for the list → the model's decoder
        let text = serde_json::to_string(&cones).expect("serialise");
        s.submit(Line::new("json.conedec").s("text", &text).s("orig", &common_cones::fmt_cones(&cones)).done());
        // the model's encoder against the implementation's
        s.submit(Line::new("json.coneenc").s("cones", &fmt_cones_tok(&cones)).done());
        // a corrupted text: both sides must agree on accept / reject (and on the result)
        if let Some(bad) = corrupt_cone_text(&mut rng, &text) {
            if !bad.contains(' ') && !bad.contains('=') {
                let out = s.submit(Line::new("json.conedec").s("text", &bad).done());
                s.count(&format!("conedec:corrupted:{}", if out == "err" { "err" } else { "accepted" }));
            }
        }
    }
}

fn generate(s: &mut Session) {
    // the recorded finding KF-C19-capped-row-verdict (known_findings.json): its replays run first on
    // every run; while the defect is present they fail and are reported as KNOWN-FINDING
    if !s.is_searching() {
        for f in ["finding-capped-row-1.json", "finding-capped-row-2.json"] {
            let path = format!("{}/../findings/C19-capped-row-verdict/{}", env!("CARGO_MANIFEST_DIR"), f);
            if let Ok(text) = std::fs::read_to_string(&path) {
                if let Ok(v) = serde_json::from_str::<serde_json::Value>(&text) {
                    if let Some(line) = v["input"].as_str() {
                        s.count("corpus:KF-C19-capped-row-verdict");
                        s.submit(line.to_string());
                    }
                }
            }
        }
    }
    // ---- json.sanitize: the special values and random ones
    let specials = [f64::INFINITY, f64::MAX, f64::NEG_INFINITY, -f64::MAX, 0.0, -0.0, 1.0, 1e308, f64::NAN, f64::MIN_POSITIVE,
        f64::from_bits(f64::MAX.to_bits() - 1), 3600.0];
    for (i, &tl) in specials.iter().enumerate() {
        s.submit(Line::new("json.sanitize").f("tl", tl).u("seed", i).done());
    }
    for _ in 0..s.budget(40, 2000) {
        let tl = if s.rng.bool(0.5) { s.rng.logmag(-3.0, 300.0).abs() } else { f64::from_bits(s.rng.next_u64()) };
        let seed = s.rng.below(1000);
        s.submit(Line::new("json.sanitize").f("tl", tl).u("seed", seed).done());
    }
    // ---- json.save on states of real solvers
    for _ in 0..s.budget(150, 6000) {
        let mut rng = s.rng.fork();
        let mag = *rng.choose(&[1.0, 1.0, 1e3, 1e-3, 1e6]);
        let p = gen_problem(&mut rng, true, mag);
        let equil = rng.bool(0.7);
        s.count(if equil { "save:equilibrated" } else { "save:not-equilibrated" });
        submit_save_from_solver(s, &p, equil);
    }
    // ---- special-structure problems (part of the scaling trivial): save + round trip
    for k in 0..s.budget(64, 1600) {
        let mut rng = s.rng.fork();
        let (p, name, solvable) = gen_structured(&mut rng, k);
        let equil = k % 16 < 12 || rng.bool(0.5);
        {
            let probe = build(&p, settings_of(0, equil, f64::INFINITY));
            let eq = &probe.data.equilibration;
            let one = |v: &[f64]| v.iter().all(|&x| x == 1.0);
            s.count(&format!("structured:{}:d{}e{}c{}", name, if one(&eq.d) { "=1" } else { "!=1" }, if one(&eq.e) { "=1" } else { "!=1" }, if eq.c == 1.0 { "=1" } else { "!=1" }));
        }
        submit_save_from_solver(s, &p, equil);
        let l = prob_line(Line::new("json.roundtrip"), &p).b("equil", equil).f("tl", f64::INFINITY).u("seed", 0).b("solve", solvable);
        s.submit(l.done());
    }
    // ---- json.save on arbitrary internal states (extreme values, identity scaling included)
    for _ in 0..s.budget(150, 6000) {
        let mut rng = s.rng.fork();
        let p = gen_problem(&mut rng, false, 1.0);
        let tP = triu_of(&p.P);
        let (n, m) = (p.q.len(), p.b.len());
        let ext = rng.bool(0.4);
        let ident = rng.bool(0.2);
        // every combination of "this part of the scaling is trivial"
        let (d1, e1, c1) = (ident || rng.bool(0.35), ident || rng.bool(0.35), ident || rng.bool(0.35));
        let mut val = |rng: &mut Rng| if ext { extreme(rng) } else { rng.logmag(-6.0, 6.0) };
        let P = CscMatrix { nzval: (0..tP.nzval.len()).map(|_| val(&mut rng)).collect(), ..tP.clone() };
        let A = CscMatrix { nzval: (0..p.A.nzval.len()).map(|_| val(&mut rng)).collect(), ..p.A.clone() };
        let q: Vec<f64> = (0..n).map(|_| val(&mut rng)).collect();
        let b: Vec<f64> = (0..m).map(|_| val(&mut rng)).collect();
        let dinv: Vec<f64> = (0..n).map(|_| if d1 { 1.0 } else { rng.uniform(1e-4, 1e4) }).collect();
        let einv: Vec<f64> = (0..m).map(|_| if e1 { 1.0 } else { rng.uniform(1e-4, 1e4) }).collect();
        let c = if c1 { 1.0 } else { rng.uniform(1e-4, 1e4) };
        s.count(&format!("save:synthetic:d{}e{}c{}", if d1 { "=1" } else { "!=1" }, if e1 { "=1" } else { "!=1" }, if c1 { "=1" } else { "!=1" }));
        s.submit(Line::new("json.save").csc("P", &P).fs("q", &q).csc("A", &A).fs("b", &b).fs("dinv", &dinv).fs("einv", &einv).f("c", c).done());
    }
    // ---- json.saverec: the whole record for arbitrary internal states, all cone variants
    for _ in 0..s.budget(80, 3000) {
        let mut rng = s.rng.fork();
        let p = if rng.bool(0.25) { all_cones_problem(&mut rng) } else { gen_problem(&mut rng, true, 1.0) };
        let tP = triu_of(&p.P);
        let (n, m) = (p.q.len(), p.b.len());
        let ident = rng.bool(0.3);
        let ext = rng.bool(0.3);
        let mut val = |rng: &mut Rng| if ext { extreme(rng) } else { rng.logmag(-6.0, 6.0) };
        let P = CscMatrix { nzval: (0..tP.nzval.len()).map(|_| val(&mut rng)).collect(), ..tP.clone() };
        let A = CscMatrix { nzval: (0..p.A.nzval.len()).map(|_| val(&mut rng)).collect(), ..p.A.clone() };
        let q: Vec<f64> = (0..n).map(|_| val(&mut rng)).collect();
        let b: Vec<f64> = (0..m).map(|_| val(&mut rng)).collect();
        let dinv: Vec<f64> = (0..n).map(|_| if ident { 1.0 } else { rng.uniform(1e-4, 1e4) }).collect();
        let einv: Vec<f64> = (0..m).map(|_| if ident { 1.0 } else { rng.uniform(1e-4, 1e4) }).collect();
        let c = if ident { 1.0 } else { rng.uniform(1e-4, 1e4) };
        // the cone list of a solver is arbitrary here (also non-collapsed, huge sizes): save copies it
        let cones: Vec<Cone> = if rng.bool(0.5) { p.cones.clone() } else { (0..rng.below(5)).map(|_| gen_cone_any(&mut rng)).collect() };
        let fs = gen_rec_settings(&mut rng);
        let tl = *rng.choose(&[f64::INFINITY, f64::MAX, 1e6, 0.0, 3600.5, -1.0, f64::NEG_INFINITY, f64::NAN]);
        s.submit(
            Line::new("json.saverec").csc("P", &P).fs("q", &q).csc("A", &A).fs("b", &b).fs("dinv", &dinv).fs("einv", &einv).f("c", c)
                .s("cones", &common_cones::fmt_cones(&cones)).f("tl", tl).s("dsm", &fs.dsm).s("mm", &fs.mm).b("pre", fs.pre).b("chord", fs.chord).done(),
        );
    }
    // ---- json.roundtrip
    for _ in 0..s.budget(160, 6000) {
        let mut rng = s.rng.fork();
        let mag = *rng.choose(&[1.0, 1.0, 1e2, 1e-2]);
        let mut p = gen_problem(&mut rng, true, mag);
        let equil = rng.bool(0.6);
        let tl = *rng.choose(&[f64::INFINITY, f64::INFINITY, f64::MAX, 1e6, 3600.5, 1e300]);
        let seed = if rng.bool(0.3) { 0 } else { 1 + rng.below(100000) };
        // an infinite / huge bound now and then (capped, or presolved away)
        if rng.bool(0.15) {
            let rows: Vec<usize> = {
                let mut v = vec![];
                let mut at = 0;
                for c in &p.cones {
                    if let Cone::NonnegativeConeT(k) = c {
                        v.extend(at..at + k);
                    }
                    at += nvars(c);
                }
                v
            };
            if !rows.is_empty() {
                p.b[*rng.choose(&rows)] = *rng.choose(&[1e20, 1e25, f64::INFINITY, f64::MAX]);
            }
        }
        let l = prob_line(Line::new("json.roundtrip"), &p).b("equil", equil).f("tl", tl).u("seed", seed as usize).b("solve", true);
        let out = s.submit(l.done());
        s.count(&format!("roundtrip:{}", out.split('_').next().unwrap_or("")));
    }
    // every settings field away from its default (no solve: the values are not meant to be good)
    {
        let (_, ndiff) = nondefault_settings(1, true);
        let total = debug_fields(&DefaultSettings::<f64>::default()).len();
        s.note(format!("settings round trip: {} fields known from derive(Debug); e.g. seed 1 moves {} of them off their defaults", total, ndiff));
    }
    for _ in 0..s.budget(60, 1500) {
        let mut rng = s.rng.fork();
        let p = gen_problem(&mut rng, true, 1.0);
        let seed = 1 + rng.below(1_000_000);
        let l = prob_line(Line::new("json.roundtrip"), &p).b("equil", rng.bool(0.5)).f("tl", f64::INFINITY).u("seed", seed).b("solve", false).b("full", true);
        s.submit(l.done());
        s.count("roundtrip:every-settings-field-non-default");
    }
    // extreme finite values, no solve (equilibration off: exact; on: moderate extremes)
    for _ in 0..s.budget(60, 2000) {
        let mut rng = s.rng.fork();
        let mut p = gen_problem(&mut rng, true, 1.0);
        let equil = rng.bool(0.3);
        let mut val = |rng: &mut Rng| if equil { rng.logmag(-100.0, 100.0) } else { extreme(rng) };
        for v in p.P.nzval.iter_mut().chain(p.q.iter_mut()).chain(p.A.nzval.iter_mut()).chain(p.b.iter_mut()) {
            if rng.bool(0.5) {
                *v = val(&mut rng);
            }
        }
        // keep P symmetric when given in full: use the upper triangle only
        p.P = triu_of(&p.P);
        let l = prob_line(Line::new("json.roundtrip"), &p).b("equil", equil).f("tl", f64::INFINITY).u("seed", 0).b("solve", false);
        s.submit(l.done());
        s.count("roundtrip:extreme-values");
    }
    // ---- json.load: parsed records, well-formed and ill-formed
    generate_load(s);
    // ---- json.conedec / json.coneenc: serde representation of the cone list
    generate_cones(s);
    // ---- json.fault
    let nbase = s.budget(3, 12);
    for bi in 0..nbase {
        let mut rng = s.rng.fork();
        let mut p = gen_problem(&mut rng, true, 1.0);
        if bi == 0 {
            p = all_cones_problem(&mut rng);
        }
        let equil = rng.bool(0.5);
        let seed = 1 + rng.below(1000);
        let base = prob_line(Line::new("json.fault"), &p).b("equil", equil).u("seed", seed);
        let text = base_text(&Req::parse(&base.clone().done()).unwrap());
        let len = text.len();
        // truncation prefixes / byte deletions: sampled (quick) or every byte (thorough)
        let positions: Vec<usize> = if s.thorough() { (0..len).collect() } else { (0..100).map(|_| rng.below(len)).collect() };
        for &pos in &positions {
            s.submit(base.clone().s("kind", "trunc").u("pos", pos).done());
        }
        let positions: Vec<usize> = if s.thorough() { (0..len).collect() } else { (0..60).map(|_| rng.below(len)).collect() };
        for &pos in &positions {
            s.submit(base.clone().s("kind", "delbyte").u("pos", pos).done());
        }
        for _ in 0..s.budget(60, 1500) {
            let byte = *rng.choose(b"0123456789-.,:[]{}\"eEnatx ");
            s.submit(base.clone().s("kind", "flipbyte").u("pos", rng.below(len)).u("byte", byte as usize).done());
        }
        for k in 0..SUFFIXES.len() {
            let out = s.submit(base.clone().s("kind", "append").u("pos", k).done());
            s.count(&format!("fault:append:{}", out.split(':').next().unwrap_or("")));
        }
        // token-level mutations: every kind at every site
        let v: Value = serde_json::from_str(&text).unwrap();
        let mut ps = vec![];
        paths(&v, String::new(), &mut ps);
        for kind in KINDS {
            for site in 0..ps.len() {
                if kind.starts_with("huge-") {
                    // dimensions, column pointers, cone sizes (each runs in a child process)
                    let pth = &ps[site];
                    let dim_like = pth.starts_with("/cones") || pth.ends_with("/m") || pth.ends_with("/n") || pth.contains("colptr") || pth.contains("rowval");
                    if !dim_like {
                        continue;
                    }
                }
                let out = s.submit(base.clone().s("kind", kind).u("pos", site).done());
                if out.starts_with("dimcheck-panic") {
                    s.count("fault:documented-dimension-check-panic");
                } else {
                    s.count(&format!("fault:{}", out.split(':').next().unwrap_or("")));
                }
            }
        }
    }
    TALLY.with(|t| {
        for (k, v) in t.borrow().iter() {
            s.note(format!("json.fault {}: {} case(s)", k, v));
        }
        t.borrow_mut().clear();
    });
    REPORTED.with(|t| t.borrow_mut().clear());
}

fn main() {
    let s = Session::from_args("C19", channels());
    if std::env::var("C19_DEBUG").is_ok() {
        // show panics of the harness itself (the session silences them)
        std::panic::set_hook(Box::new(|info| eprintln!("{}", info)));
    }
    s.run(generate)
}
