//! C03 — the solver's report about its own result is truthful, for every terminal status.
#[path = "common_kkt.rs"]
mod common_kkt;
use common_kkt::*;
use vharness::*;

/// data on which the linear algebra or the progress test breaks down
fn degenerate(s: &mut Session) -> (Prob, Sets) {
    let ill = s.rng.bool(0.5);
    let kind = *s.rng.choose(&[Plant::Feasible, Plant::PrimalInfeasible, Plant::DualInfeasible]);
    let exotic = s.rng.bool(0.4);
    let mut p = plant(s, kind, exotic, ill, false);
    let mut st = random_sets(s);
    match s.rng.below(5) {
        0 => {
            // no regularisation at all and an empty column / duplicated rows
            st.sreg = false;
            st.dreg = false;
            st.ir = s.rng.bool(0.5);
            let j = s.rng.below(p.A.n);
            for k in p.A.colptr[j]..p.A.colptr[j + 1] {
                p.A.nzval[k] = 0.0;
            }
        }
        1 => {
            // wildly scaled data
            for v in p.A.nzval.iter_mut() {
                *v *= 10f64.powf(s.rng.uniform(-8.0, 8.0));
            }
            st.eq = s.rng.bool(0.3);
        }
        2 => {
            // huge cost vector
            for v in p.q.iter_mut() {
                *v *= 1e12;
            }
        }
        3 => {
            // tolerances that cannot be met
            st.tol = [1e-15, 1e-15, 1e-15, 1e-15, 1e-15, 1e-6];
        }
        _ => {
            st.sreg = false;
            st.tol = [1e-13, 1e-13, 1e-13, 1e-12, 1e-12, 1e-6];
        }
    }
    (p, st)
}

fn generate(s: &mut Session) {
    // ordinary terminations
    for k in 0..s.budget(700, 10000) {
        let kind = match k % 4 {
            0 | 1 => Plant::Feasible,
            2 => Plant::PrimalInfeasible,
            _ => Plant::DualInfeasible,
        };
        let ill = s.rng.bool(0.2);
        let infb = s.rng.bool(0.15);
        let p = plant(s, kind, k % 3 == 0, ill, infb);
        let st = random_sets(s);
        submit_solve(s, &p, &st, "c03");
        if k % 8 == 0 {
            submit_live_components(s, &p, &st);
        }
    }
    // iteration and time limits
    for k in 0..s.budget(450, 6000) {
        let kind = if k % 3 == 0 { Plant::PrimalInfeasible } else { Plant::Feasible };
        let infb = s.rng.bool(0.15);
        let p = plant(s, kind, k % 4 == 0, false, infb);
        let mut st = random_sets(s);
        if k % 4 == 3 {
            st.time_limit = 0.0;
            s.count("family:time-limit-0");
        } else {
            st.max_iter = s.rng.below(14) as u32;
            s.count("family:small-max-iter");
        }
        submit_solve(s, &p, &st, "c03");
    }
    // numerical breakdown / insufficient progress
    for _ in 0..s.budget(450, 6000) {
        let (p, st) = degenerate(s);
        s.count("family:degenerate");
        submit_solve(s, &p, &st, "c03");
    }
    // re-solve histories on one solver object (stale report fields must not survive)
    for k in 0..s.budget(300, 6000) {
        let h = plant_history(s, k % 4 == 0);
        let mut st = random_sets(s);
        if k % 5 == 4 {
            st.max_iter = 2 + s.rng.below(10) as u32;
        }
        submit_history(s, &h, &st, "c03");
    }
    // objectives scaled over many decades
    for k in 0..s.budget(250, 5000) {
        let p = plant_cost_scaled(s, k % 4 == 0);
        let mut st = random_sets(s);
        st.eq = k % 5 != 0;
        s.count("family:cost-scaled-qp");
        submit_solve(s, &p, &st, "c03");
    }
    // the modelled functions on constructed inputs (correspondence + their own oracles)
    gen_components(s, 2.0);
}

fn main() {
    Session::from_args("C03", all_channels()).run(generate)
}
