//! C03 — the solver's report about its own result is truthful, for every terminal status.
#[path = "common_kkt.rs"]
mod common_kkt;
use common_kkt::*;
use vharness::*;

/// data on which the linear algebra or the progress test breaks down
fn degenerate(s: &mut Session) -> (Prob, Sets) {
    let ill = s.rng.bool(0.5);
    let kind = *s.rng.choose(&[Plant::Feasible, Plant::PrimalInfeasible, Plant::DualInfeasible]);
    let exotic = s.rng.bool(0.4);
    let mut p = plant(s, kind, exotic, ill, false);
    let mut st = random_sets(s);
    match s.rng.below(5) {
        0 => {
            // no regularisation at all and an empty column / duplicated rows
            st.sreg = false;
            st.dreg = false;
            st.ir = s.rng.bool(0.5);
            let j = s.rng.below(p.A.n);
            for k in p.A.colptr[j]..p.A.colptr[j + 1] {
                p.A.nzval[k] = 0.0;
            }
        }
        1 => {
            // wildly scaled data
            for v in p.A.nzval.iter_mut() {
                *v *= 10f64.powf(s.rng.uniform(-8.0, 8.0));
            }
            st.eq = s.rng.bool(0.3);
        }
        2 => {
            // huge cost vector
            for v in p.q.iter_mut() {
                *v *= 1e12;
            }
        }
        3 => {
            // tolerances that cannot be met
            st.tol = [1e-15, 1e-15, 1e-15, 1e-15, 1e-15, 1e-6];
        }
        _ => {
            st.sreg = false;
            st.tol = [1e-13, 1e-13, 1e-13, 1e-12, 1e-12, 1e-6];
        }
    }
    (p, st)
}


// =====================================================================================
// round 3: report-specific channels.  `report`: a history of solves on ONE solver object with
// per-solve settings (max_iter / time_limit / tolerances changed through the public
// `settings` field) and data updates; every report is re-derived independently:
//   * the shared oracle `check_c03` (obj_val, obj_val_dual, r_prim, r_dual recomputed in
//     double-double on the USER's data; lengths; iterations = observed KKT updates; Almost* ⇒
//     the reduced documented test / certificate on the user's data);
//   * whose figures: the six figures of the final `info` are, bit for bit, those recorded for
//     the iterate that was un-scaled into the solution (last pass, or last but one after a
//     rollback), `ktratio` / `res_*_inf` those of the LAST pass
//     (C03.full_report_figures_of_returned_iterate);
//   * `gap_abs`, `gap_rel` re-formed from the reported objectives, bit for bit;
//   * the verdict: the status before `Info::post_process` is reconstructed from the observed
//     decisions of the loop, `check_convergence` is re-implemented here and must reproduce the
//     final status from the final figures and the REDUCED tolerances — soundness (`Almost*`
//     only when the reduced test holds on these figures) and completeness (a limit / error
//     status only when it does not) — C03.full_final_status_is_post_process, almost_only_if;
//     a converged status must be reproduced by the FULL tolerances on the last pass;
//   * nothing stale: solve_time of the solution is the one `info` holds after this solve, and
//     all of the above holds for every solve of the history (C03.full_report_not_stale).
// `info.reset`: `DefaultInfo::reset` + `save_scalars` against the model `Info.reset`.
// =====================================================================================
use clarabel::solver::traits::Info;
use clarabel::solver::*;
use clarabel::verif_hooks::observer;

const ST_NAMES: [&str; 11] = ["Unsolved", "Solved", "PrimalInfeasible", "DualInfeasible", "AlmostSolved",
    "AlmostPrimalInfeasible", "AlmostDualInfeasible", "MaxIterations", "MaxTime", "NumericalError", "InsufficientProgress"];

fn same(a: f64, b: f64) -> bool {
    a.to_bits() == b.to_bits() || (a.is_nan() && b.is_nan())
}

/// the status `info` holds when the loop is left, reconstructed from the recorded decisions
fn pre_status(ev: &[observer::Event]) -> usize {
    let mut cur = 0usize;
    for e in ev {
        if let observer::Event::Flag(name, v) = e {
            match *name {
                "isdone" => {
                    // "(true, MaxIterations, 3)"
                    let mid = v.split(", ").nth(1).unwrap_or("");
                    cur = ST_NAMES.iter().position(|n| *n == mid).unwrap_or(99);
                }
                "insufficient_progress" => {
                    if v.starts_with("Update") {
                        cur = 0;
                    }
                }
                "scaling_success" => {
                    if v.starts_with("(false") {
                        cur = 9;
                    }
                }
                "numerical_error" => {
                    if v.ends_with("Fail)") {
                        cur = 9;
                    }
                }
                "small_step" => {
                    if v == "Fail" {
                        cur = 10;
                    }
                }
                _ => {}
            }
        }
    }
    cur
}

fn nine(p: &observer::IterSnapshot) -> Vec<f64> {
    vec![p.cost_primal, p.cost_dual, p.res_primal, p.res_dual, p.res_primal_inf, p.res_dual_inf, p.gap_abs, p.gap_rel, p.ktratio]
}

fn render_report(solver: &DefaultSolver<f64>, o: &SolveOut, ev: &[observer::Event], sfx: &str) -> String {
    let passes: Vec<&observer::IterSnapshot> =
        ev.iter().filter_map(|e| if let observer::Event::Pass(b) = e { Some(&**b) } else { None }).collect();
    let nan9 = vec![f64::NAN; 9];
    let last = passes.last().map(|p| nine(p)).unwrap_or(nan9.clone());
    // whose figures: the loop was left through the rollback (`Fail` of the insufficient-progress
    // checkpoint) => the last pass but one, otherwise the last pass.  (Not the `snap` search of
    // the shared code: two different internal iterates can un-scale to bit-identical vectors.)
    //
    // `prev_vars` holds the iterate of the last pass that reached `save_prev_iterate` (flag
    // `small_step` = NoUpdate is the last checkpoint before it).  That is the last pass but one
    // unless passes in between were strategy-switch retries (`continue` without a step: the
    // nonsymmetric PrimalDual -> Dual switch), which re-evaluate the same iterate.
    let mut own = 0usize;
    let (mut cur, mut saved): (usize, Option<usize>) = (0, None);
    let mut seen = 0usize;
    for e in ev {
        match e {
            observer::Event::Pass(_) => {
                cur = seen;
                seen += 1;
            }
            observer::Event::Flag("small_step", v) if v == "NoUpdate" => saved = Some(cur),
            observer::Event::Flag("insufficient_progress", v) => {
                own = if v == "Fail" { saved.map(|k| passes.len().saturating_sub(1).saturating_sub(k)).unwrap_or(passes.len()) } else { 0 };
            }
            _ => {}
        }
    }
    let (figs, own_match) = if own < passes.len() {
        let ps = passes[passes.len() - 1 - own];
        let eq = &solver.data.equilibration;
        let inf = is_infeasible_status(solver.info.status);
        let scaleinv = if inf { 1.0 / ps.kappa } else { 1.0 / ps.tau };
        let cinv = 1.0 / eq.c;
        let beq = |a: &[f64], b: &[f64]| a.len() == b.len() && a.iter().zip(b).all(|(x, y)| same(*x, *y));
        let x: Vec<f64> = ps.x.iter().zip(&eq.d).map(|(a, b)| (a * b) * scaleinv).collect();
        let z: Vec<f64> = ps.z.iter().zip(&eq.e).map(|(a, b)| (a * b) * (scaleinv * cinv)).collect();
        let sv: Vec<f64> = ps.s.iter().zip(&eq.einv).map(|(a, b)| (a * b) * scaleinv).collect();
        (nine(ps), beq(&x, &solver.variables.x) && beq(&z, &solver.variables.z) && beq(&sv, &solver.variables.s))
    } else {
        (nan9, false)
    };
    let mut lbz = f64::NAN;
    let mut lqx = f64::NAN;
    for e in ev {
        if let observer::Event::Scalar(name, v) = e {
            if *name == "dot_bz" {
                lbz = *v;
            } else if *name == "dot_qx" {
                lqx = *v;
            }
        }
    }
    let (t1, t2) = (solver.solution.solve_time, solver.info.solve_time);
    let k = |n: &str| format!("{}{}", n, sfx);
    let extra = Line::out()
        .u(&k("pre"), pre_status(ev))
        .u(&k("own"), own)
        .b(&k("own_match"), own_match)
        .fs(&k("figs"), &figs)
        .fs(&k("last"), &last)
        .f(&k("lbz"), lbz)
        .f(&k("lqx"), lqx)
        .b(&k("time_eq"), t1.to_bits() == t2.to_bits())
        .b(&k("time_ok"), t1.is_finite() && t1 > 0.0)
        .done();
    format!("{} {}", render_solve_sfx(o, sfx), extra)
}

/// settings of solve number `k` of a history: the base settings with the per-solve overrides
fn sets_at(r: &Req, k: usize) -> Sets {
    let mut st = Sets::parse(r);
    for j in 1..=k {
        if r.has(&format!("mi_{}", j)) {
            st.max_iter = r.u(&format!("mi_{}", j)) as u32;
        }
        if r.has(&format!("tl_{}", j)) {
            st.time_limit = r.f(&format!("tl_{}", j));
        }
        if r.has(&format!("tol_{}", j)) {
            let t = r.fs(&format!("tol_{}", j));
            st.tol = [t[0], t[1], t[2], t[3], t[4], t[5]];
        }
        if r.has(&format!("rtol_{}", j)) {
            let t = r.fs(&format!("rtol_{}", j));
            st.rtol = [t[0], t[1], t[2], t[3], t[4], t[5]];
        }
    }
    st
}

fn apply_tols(solver: &mut DefaultSolver<f64>, st: &Sets) {
    let s = &mut solver.settings;
    s.max_iter = st.max_iter;
    s.time_limit = st.time_limit;
    s.tol_gap_abs = st.tol[0];
    s.tol_gap_rel = st.tol[1];
    s.tol_feas = st.tol[2];
    s.tol_infeas_abs = st.tol[3];
    s.tol_infeas_rel = st.tol[4];
    s.tol_ktratio = st.tol[5];
    s.reduced_tol_gap_abs = st.rtol[0];
    s.reduced_tol_gap_rel = st.rtol[1];
    s.reduced_tol_feas = st.rtol[2];
    s.reduced_tol_infeas_abs = st.rtol[3];
    s.reduced_tol_infeas_rel = st.rtol[4];
    s.reduced_tol_ktratio = st.rtol[5];
}

fn run_report(r: &Req) -> String {
    let p = parse_prob(r);
    let st = Sets::parse(r);
    let steps = r.u("steps");
    let mut solver = DefaultSolver::new(&p.P, &p.q, &p.A, &p.b, &p.cones, st.to_settings());
    let (o, ev) = solve_once(&mut solver);
    let mut out = render_report(&solver, &o, &ev, "_0");
    for k in 1..=steps {
        let mut ok = true;
        if r.has(&format!("q_{}", k)) {
            ok &= solver.update_q(&r.fs(&format!("q_{}", k))).is_ok();
        }
        if r.has(&format!("b_{}", k)) {
            ok &= solver.update_b(&r.fs(&format!("b_{}", k))).is_ok();
        }
        apply_tols(&mut solver, &sets_at(r, k));
        let (o, ev) = solve_once(&mut solver);
        out.push_str(&format!(" upd_{}={} ", k, ok as usize));
        out.push_str(&render_report(&solver, &o, &ev, &format!("_{}", k)));
    }
    out
}

/// `check_convergence` re-implemented: 0 = no verdict, 1 solved, 2 primal, 3 dual infeasible
fn conv_table(a: &[f64], bz: f64, qx: f64, t: &[f64; 6]) -> usize {
    if a[8] <= 1.0 && ((a[6] < t[0] || a[7] < t[1]) && a[2] < t[2] && a[3] < t[2]) {
        1
    } else if a[8] > (1.0 / t[5]) * 1000.0 {
        if bz < -t[3] && a[4] < -t[4] * bz {
            2
        } else if qx < -t[3] && a[5] < -t[4] * qx {
            3
        } else {
            0
        }
    } else {
        0
    }
}

fn check_one_report(p: &Prob, st: &Sets, out: &str, all: &Req, sfx: &str, reevaluate: bool) -> Result<(), String> {
    if reevaluate {
        check_report_text("c03", p, st, out, sfx)?;
    }
    let key = |n: &str| format!("{}{}", n, sfx);
    let status = all.u(&key("status"));
    let name = ST_NAMES[status];
    let a = all.fs(&key("info"));
    let figs = all.fs(&key("figs"));
    let last = all.fs(&key("last"));
    let (lbz, lqx) = (all.f(&key("lbz")), all.f(&key("lqx")));
    let pre = all.u(&key("pre"));
    // nothing stale in solve_time
    if !all.b(&key("time_eq")) {
        return Err(format!("{}: solution.solve_time differs from info.solve_time", name));
    }
    if !all.b(&key("time_ok")) {
        return Err(format!("{}: solve_time is not a positive finite number", name));
    }
    // gap figures re-formed from the reported costs
    let ga = (a[0] - a[1]).abs();
    let gr = ga / 1f64.max(a[0].abs().min(a[1].abs()));
    if !same(a[6], ga) || !same(a[7], gr) {
        return Err(format!("{}: info.gap_abs/gap_rel = {:e}/{:e} but the costs give {:e}/{:e}", name, a[6], a[7], ga, gr));
    }
    // whose figures: the pass whose iterate was handed to post-processing (the last one, or the
    // last but one when the loop was left through the rollback)
    let own = all.u(&key("own"));
    if !all.b(&key("own_match")) {
        return Err(format!("{}: the variables left in the solver are not the un-scaled iterate of the pass {} back", name, own));
    }
    for &j in &[0usize, 1, 2, 3, 6, 7] {
        if !same(a[j], figs[j]) {
            return Err(format!("{}: info figure #{} = {:e} but the pass that recorded the returned iterate ({} back) computed {:e}", name, j, a[j], own, figs[j]));
        }
    }
    for &j in &[4usize, 5, 8] {
        if !same(a[j], last[j]) {
            return Err(format!("{}: info figure #{} = {:e} but the last pass computed {:e}", name, j, a[j], last[j]));
        }
    }
    // the verdict
    if pre == 99 || pre == 0 {
        return Err(format!("{}: the loop was left with status index {} (reconstructed)", name, pre));
    }
    let expected = if (7..=10).contains(&pre) {
        match conv_table(&a, lbz, lqx, &st.rtol) {
            0 => pre,
            v => v + 3,
        }
    } else {
        pre
    };
    if status != expected {
        return Err(format!("status {} but the loop ended {} and post_process on the final figures with the reduced tolerances gives {}", name, ST_NAMES[pre], ST_NAMES[expected]));
    }
    let full = conv_table(&last, lbz, lqx, &st.tol);
    if (1..=3).contains(&pre) {
        if full != pre {
            return Err(format!("loop ended {} but the full test on the last pass's figures gives {}", ST_NAMES[pre], ST_NAMES[full]));
        }
        if own != 0 {
            return Err(format!("{}: converged but the returned iterate is not the last one", name));
        }
    } else if full != 0 {
        return Err(format!("loop ended {} although the full test holds on the last pass's figures ({})", ST_NAMES[pre], ST_NAMES[full]));
    }
    if pre == 7 && all.u(&key("iterations")) != st.max_iter as usize {
        return Err(format!("MaxIterations with iterations = {} != max_iter = {}", all.u(&key("iterations")), st.max_iter));
    }
    if pre == 8 && !(st.time_limit < f64::INFINITY) {
        return Err("MaxTime without a time limit".into());
    }
    Ok(())
}

/// the part of the report check that involves no re-evaluation on the user's data
fn check_bookkeeping(all: &Req, sfx: &str) -> Result<(), String> {
    let key = |n: &str| format!("{}{}", n, sfx);
    let status = all.u(&key("status"));
    let a = all.fs(&key("info"));
    if status == 0 || status != all.u(&key("info_status")) {
        return Err("solution.status is Unsolved or differs from info.status".into());
    }
    if all.u(&key("iterations")) != all.u(&key("info_iterations")) || all.u(&key("iterations")) != all.u(&key("nkkt")) {
        return Err("solution.iterations / info.iterations / observed KKT updates differ".into());
    }
    if !same(all.f(&key("r_prim")), a[2]) || !same(all.f(&key("r_dual")), a[3]) {
        return Err("r_prim / r_dual are not info.res_primal / res_dual".into());
    }
    let inf = matches!(status, 2 | 3 | 5 | 6);
    let (ov, od) = (all.f(&key("obj_val")), all.f(&key("obj_val_dual")));
    if inf && !(ov.is_nan() && od.is_nan()) {
        return Err("objective values are not NaN for an infeasibility status".into());
    }
    if !inf && !(same(ov, a[0]) && same(od, a[1])) {
        return Err("obj_val / obj_val_dual are not info.cost_primal / cost_dual".into());
    }
    Ok(())
}

fn oracle_report(r: &Req, out: &str) -> Result<(), String> {
    if out.starts_with("panic") {
        return Ok(());
    }
    let mut p = parse_prob(r);
    let steps = r.u("steps");
    let all = Req::parse(&format!("o {}", out)).ok_or("unparsable")?;
    // OPEN FINDING findings/C03-resolve-after-nan: a solve that leaves non-finite numbers in the
    // solver's buffers (NumericalError with a NaN iterate) poisons every later solve on the same
    // object (`Px = P·x + 0·Px_stale`, ...): its figures are NaN although the returned point is
    // finite.  Without `strict=1` the re-evaluation on the user's data is skipped for the solves
    // after such a solve (everything else is still judged); the finding's replays and the family
    // `VERIF_C03_STALE_NAN` carry `strict=1`.
    let strict = r.has("strict");
    let mut poisoned = false;
    for k in 0..=steps {
        if k > 0 {
            if all.u(&format!("upd_{}", k)) != 1 {
                return Err(format!("step {}: update_q / update_b was refused although no presolve / decomposition is active", k));
            }
            if r.has(&format!("q_{}", k)) {
                p.q = r.fs(&format!("q_{}", k));
            }
            if r.has(&format!("b_{}", k)) {
                p.b = r.fs(&format!("b_{}", k));
            }
        }
        let st = sets_at(r, k);
        let sfx = format!("_{}", k);
        check_bookkeeping(&all, &sfx).map_err(|e| format!("solve #{} of the history: {}", k, e))?;
        check_one_report(&p, &st, out, &all, &sfx, !poisoned || strict).map_err(|e| {
            format!("solve #{} of the history{}: {}", k, if poisoned { " (KF-C03-resolve-after-nan: an earlier solve on this object left non-finite numbers)" } else { "" }, e)
        })?;
        let nonfinite = |key: &str| all.fs(&format!("{}{}", key, sfx)).iter().any(|v| !v.is_finite());
        poisoned |= nonfinite("sx") || nonfinite("ss") || nonfinite("sz") || all.fs(&format!("info{}", sfx))[..9].iter().any(|v| !v.is_finite());
    }
    Ok(())
}

fn run_info_reset(r: &Req) -> String {
    let mut info = info_from_req(r);
    info.solve_time = 3.5;
    let mut timers = clarabel::timers::Timers::default();
    Info::reset(&mut info, &mut timers);
    let a = info_to_text(&info);
    let t0 = info.solve_time;
    Info::save_scalars(&mut info, 0.25, 0.5, 0.75, r.u("iter") as u32);
    let b = info_to_text(&info);
    // fields outside the model's `InfoS`: checked here, reported as a token the model never prints
    if t0 != 0.0 {
        return "reset-left-solve_time".into();
    }
    if info.μ != 0.25 || info.step_length != 0.5 || info.sigma != 0.75 {
        return "save_scalars-lost-a-scalar".into();
    }
    format!("{} ; {}", a, b)
}
/// oracle: after `reset` the status is Unsolved, iterations and solve_time are 0 and the fifteen
/// figures are untouched; `save_scalars` writes the four scalars it is given and nothing else
fn oracle_info_reset(r: &Req, out: &str) -> Result<(), String> {
    let parts: Vec<&str> = out.split(" ; ").collect();
    if parts.len() != 2 {
        return Err(format!("reset / save_scalars: {}", out));
    }
    let a = Req::parse(&format!("o {}", parts[0])).ok_or("unparsable")?;
    let b = Req::parse(&format!("o {}", parts[1])).ok_or("unparsable")?;
    if a.u("status") != 0 || a.u("iterations") != 0 {
        return Err("reset: status / iterations not reset".into());
    }
    if b.u("status") != 0 || b.u("iterations") != r.u("iter") {
        return Err("save_scalars: iterations not saved or status touched".into());
    }
    let (x, y, z) = (r.fs("info"), a.fs("info"), b.fs("info"));
    for j in 0..15 {
        if !same(x[j], y[j]) || !same(x[j], z[j]) {
            return Err(format!("reset / save_scalars changed figure #{}", j));
        }
    }
    Ok(())
}

fn report_channels() -> Vec<Channel> {
    let mut v = all_channels();
    v.push(Channel { name: "report", tol: Tol::Exact, run: run_report, oracle: Some(oracle_report), modelled: false,
        rust_fn: "DefaultSolver::new, then (settings change, update_q, update_b, solve)* on the same object; observer on",
        lean: "(oracle only: C03.report_on_user_data, full_report_figures_of_returned_iterate, full_final_status_is_post_process, full_report_not_stale re-derived on the implementation)" });
    v.push(Channel { name: "info.reset", tol: Tol::Exact, run: run_info_reset, oracle: Some(oracle_info_reset), modelled: true,
        rust_fn: "DefaultInfo::reset, DefaultInfo::save_scalars", lean: "Info.reset, Info.saveScalars / C03.reset_then_update_not_stale, C03.full_reset_is_info_reset" });
    v
}

/// reduced tolerances that differ per field (and from the full ones)
fn random_rtol(s: &mut Session) -> [f64; 6] {
    let mut t = [0.0; 6];
    for j in 0..5 {
        t[j] = 10f64.powf(s.rng.uniform(-9.0, 0.0));
    }
    // one of the two gap tolerances unattainable: the verdict then hangs on the other one alone
    // (a reduced gap_rel read from gap_abs, or vice versa, flips it)
    match s.rng.below(6) {
        0 => t[0] = 1e-30,
        1 => t[1] = 1e-30,
        _ => {}
    }
    // the gate (1/reduced_tol_ktratio)*1000 stays >= 1 (beyond it: known finding of C02)
    t[5] = 10f64.powf(s.rng.uniform(-6.0, 2.5));
    t
}
/// reduced tolerances so loose that even a starting point meets them: a limit reached at
/// iteration 0 (time_limit = 0, max_iter = 0) must then be re-labelled AlmostSolved
fn loose_rtol(s: &mut Session) -> [f64; 6] {
    let mut t = random_rtol(s);
    for j in 0..3 {
        t[j] = 10f64.powf(s.rng.uniform(3.0, 12.0));
    }
    t
}

struct Step {
    q: Option<Vec<f64>>,
    b: Option<Vec<f64>>,
    mi: Option<u32>,
    tl: Option<f64>,
    tol: Option<[f64; 6]>,
    rtol: Option<[f64; 6]>,
}
impl Step {
    fn none() -> Step {
        Step { q: None, b: None, mi: None, tl: None, tol: None, rtol: None }
    }
}

fn submit_report(s: &mut Session, p: &Prob, st: &Sets, steps: &[Step], family: &str) -> String {
    submit_report_opt(s, p, st, steps, family, false)
}

fn submit_report_opt(s: &mut Session, p: &Prob, st: &Sets, steps: &[Step], family: &str, strict: bool) -> String {
    let mut st = st.clone();
    if steps.iter().any(|x| x.q.is_some() || x.b.is_some()) {
        st.presolve = false; // data updates are refused on a presolved problem
    }
    let mut l = Line::new("report");
    if strict {
        // the tag goes first: failure records keep only the head of the input
        l = l.s("kf", "KF-C03-resolve-after-nan").u("strict", 1);
    }
    let mut l = st.put(put_prob(l, p)).s("check", "c03").u("steps", steps.len());
    for (k, x) in steps.iter().enumerate() {
        let k = k + 1;
        if let Some(q) = &x.q {
            l = l.fs(&format!("q_{}", k), q);
        }
        if let Some(b) = &x.b {
            l = l.fs(&format!("b_{}", k), b);
        }
        if let Some(v) = x.mi {
            l = l.u(&format!("mi_{}", k), v as usize);
        }
        if let Some(v) = x.tl {
            l = l.f(&format!("tl_{}", k), v);
        }
        if let Some(v) = &x.tol {
            l = l.fs(&format!("tol_{}", k), v);
        }
        if let Some(v) = &x.rtol {
            l = l.fs(&format!("rtol_{}", k), v);
        }
    }
    let out = s.submit(l.done());
    s.count(&format!("report-family:{}", family));
    if out.starts_with("panic") {
        return out;
    }
    if let Some(all) = Req::parse(&format!("o {}", out)) {
        let mut prev = 99;
        for k in 0..=steps.len() {
            let key = format!("status_{}", k);
            if !all.has(&key) {
                break;
            }
            let stt = all.u(&key);
            s.count(&format!("report-status:{}", ST_NAMES[stt]));
            let pre = all.u(&format!("pre_{}", k));
            if pre != stt {
                s.count(&format!("report-relabelled:{}->{}", ST_NAMES[pre.min(10)], ST_NAMES[stt]));
            }
            if all.b(&format!("rolled_back_{}", k)) {
                s.count(&format!("report-rolled-back:{}", ST_NAMES[stt]));
            }
            if k > 0 && prev != stt {
                s.count("report-verdict-flip");
            }
            if k > 0 && all.fs(&format!("info_{}", k - 1))[..9].iter().any(|v| !v.is_finite()) {
                s.count(&format!("report-after-nonfinite-solve:{}", ST_NAMES[stt]));
            }
            prev = stt;
        }
    }
    out
}

/// OPEN FINDING findings/C03-resolve-after-nan (not part of the default run: it fails on the
/// unchanged tree): a first solve with unattainable tolerances and no regularisation that ends
/// with a NaN iterate, then a second solve on the same object with ordinary tolerances, judged
/// in full (`strict=1`)
fn stale_nan_family(s: &mut Session, n: usize) {
    for k in 0..n {
        let ill = s.rng.bool(0.4);
        let p = plant(s, Plant::Feasible, k % 3 == 0, ill, false);
        let mut st = random_sets(s);
        st.tol = [0.0, 0.0, 0.0, 1e-15, 1e-15, 1e-6];
        if k % 2 == 0 {
            st.sreg = false;
        }
        let mut s1 = Step::none();
        s1.tol = Some([1e-8, 1e-8, 1e-8, 1e-8, 1e-8, 1e-6]);
        submit_report_opt(s, &p, &st, &[s1], "stale-nan", true);
    }
}

fn gen_report(s: &mut Session) {
    // (1) iteration limits k = 0..10 with reduced tolerances that differ per field
    for k in 0..s.budget(240, 4000) {
        let kind = match k % 5 {
            0 => Plant::PrimalInfeasible,
            1 => Plant::DualInfeasible,
            _ => Plant::Feasible,
        };
        let infb = s.rng.bool(0.15);
        let p = if k % 3 == 0 { plant_cost_scaled(s, k % 6 == 0) } else { plant(s, kind, k % 4 == 0, false, infb) };
        let mut st = random_sets(s);
        st.max_iter = (k % 11) as u32;
        st.rtol = if k % 7 == 3 { loose_rtol(s) } else { random_rtol(s) };
        // a second solve with the full budget, a third one with a small one again
        let mut s1 = Step::none();
        s1.mi = Some(200);
        let mut s2 = Step::none();
        s2.mi = Some(s.rng.below(12) as u32);
        s2.rtol = Some(random_rtol(s));
        let steps = if k % 2 == 0 { vec![s1, s2] } else { vec![] };
        submit_report(s, &p, &st, &steps, "max-iter-0-10");
    }
    // (2) time limit 0, then lifted
    for k in 0..s.budget(90, 1500) {
        let p = plant(s, Plant::Feasible, k % 4 == 0, false, false);
        let mut st = random_sets(s);
        st.time_limit = 0.0;
        st.rtol = if k % 2 == 0 { loose_rtol(s) } else { random_rtol(s) };
        let mut s1 = Step::none();
        s1.tl = Some(f64::INFINITY);
        let mut s2 = Step::none();
        s2.tl = Some(0.0);
        submit_report(s, &p, &st, &[s1, s2], "time-limit-0");
    }
    // (3) insufficient progress: tolerances that cannot be met, exp / pow / genpow cones included
    for k in 0..s.budget(170, 3000) {
        let kind = if k % 4 == 3 { Plant::PrimalInfeasible } else { Plant::Feasible };
        let ill = s.rng.bool(0.4);
        let p = plant(s, kind, k % 3 != 2, ill, false);
        let mut st = random_sets(s);
        let t = *s.rng.choose(&[1e-15, 1e-30, 1e-13, 0.0]);
        st.tol = [t, t, t, 1e-15, 1e-15, 1e-6];
        st.rtol = random_rtol(s);
        if k % 5 == 0 {
            st.sreg = false;
        }
        // second solve on the same object with attainable tolerances
        let mut s1 = Step::none();
        s1.tol = Some([1e-8, 1e-8, 1e-8, 1e-8, 1e-8, 1e-6]);
        let steps = if k % 2 == 0 { vec![s1] } else { vec![] };
        submit_report(s, &p, &st, &steps, "unattainable-tolerances");
    }
    // (4) numerical breakdown: badly scaled data, no regularisation
    for k in 0..s.budget(130, 2500) {
        let (p, mut st) = degenerate(s);
        st.rtol = random_rtol(s);
        let mut s1 = Step::none();
        s1.mi = Some(s.rng.below(8) as u32);
        let steps = if k % 3 == 0 { vec![s1] } else { vec![] };
        submit_report(s, &p, &st, &steps, "degenerate");
    }
    // (5) data updates with verdict flips on one object, settings changing in between
    for k in 0..s.budget(170, 3000) {
        let h = plant_history(s, k % 4 == 0);
        let mut st = random_sets(s);
        st.rtol = random_rtol(s);
        if k % 3 == 0 {
            st.max_iter = s.rng.below(9) as u32;
        }
        let mut steps = vec![];
        for (q, b) in &h.steps {
            let mut x = Step::none();
            x.q = Some(q.clone());
            x.b = Some(b.clone());
            match s.rng.below(4) {
                0 => x.mi = Some(s.rng.below(10) as u32),
                1 => x.mi = Some(200),
                2 => x.rtol = Some(random_rtol(s)),
                _ => {}
            }
            steps.push(x);
        }
        submit_report(s, &h.base, &st, &steps, "history");
    }
    // (6) the modelled `reset` / `save_scalars`
    for _ in 0..s.budget(150, 3000) {
        let special = [0.0, -0.0, f64::NAN, f64::INFINITY, f64::NEG_INFINITY, f64::MAX, f64::MIN_POSITIVE, 5e-324];
        let a: Vec<f64> = (0..15)
            .map(|_| if s.rng.bool(0.15) { *s.rng.choose(&special) } else { s.rng.logmag(-300.0, 300.0) })
            .collect();
        let l = info_line(Line::new("info.reset"), &a, s.rng.below(300), s.rng.below(11)).u("iter", s.rng.below(250));
        s.submit(l.done());
    }
}

fn generate(s: &mut Session) {
    if let Ok(v) = std::env::var("VERIF_C03_STALE_NAN") {
        // exploratory: only the family of the open finding, `v` histories
        stale_nan_family(s, v.parse().unwrap_or(2000));
        return;
    }
    // ordinary terminations
    for k in 0..s.budget(700, 10000) {
        let kind = match k % 4 {
            0 | 1 => Plant::Feasible,
            2 => Plant::PrimalInfeasible,
            _ => Plant::DualInfeasible,
        };
        let ill = s.rng.bool(0.2);
        let infb = s.rng.bool(0.15);
        let p = plant(s, kind, k % 3 == 0, ill, infb);
        let st = random_sets(s);
        submit_solve(s, &p, &st, "c03");
        if k % 8 == 0 {
            submit_live_components(s, &p, &st);
        }
    }
    // iteration and time limits
    for k in 0..s.budget(450, 6000) {
        let kind = if k % 3 == 0 { Plant::PrimalInfeasible } else { Plant::Feasible };
        let infb = s.rng.bool(0.15);
        let p = plant(s, kind, k % 4 == 0, false, infb);
        let mut st = random_sets(s);
        if k % 4 == 3 {
            st.time_limit = 0.0;
            s.count("family:time-limit-0");
        } else {
            st.max_iter = s.rng.below(14) as u32;
            s.count("family:small-max-iter");
        }
        submit_solve(s, &p, &st, "c03");
    }
    // numerical breakdown / insufficient progress
    for _ in 0..s.budget(450, 6000) {
        let (p, st) = degenerate(s);
        s.count("family:degenerate");
        submit_solve(s, &p, &st, "c03");
    }
    // re-solve histories on one solver object (stale report fields must not survive)
    for k in 0..s.budget(300, 6000) {
        let h = plant_history(s, k % 4 == 0);
        let mut st = random_sets(s);
        if k % 5 == 4 {
            st.max_iter = 2 + s.rng.below(10) as u32;
        }
        submit_history(s, &h, &st, "c03");
    }
    // objectives scaled over many decades
    for k in 0..s.budget(250, 5000) {
        let p = plant_cost_scaled(s, k % 4 == 0);
        let mut st = random_sets(s);
        st.eq = k % 5 != 0;
        s.count("family:cost-scaled-qp");
        submit_solve(s, &p, &st, "c03");
    }
    // the modelled functions on constructed inputs (correspondence + their own oracles)
    gen_components(s, 2.0);
    // round 3: report-specific families
    gen_report(s);
}

fn main() {
    Session::from_args("C03", report_channels()).run(generate)
}
