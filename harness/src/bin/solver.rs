//! Whole-solver correspondence: `DefaultSolver::new` + `solve()` (zero / nonnegative /
//! second-order cones, QDLDL backend) against the composed Lean model
//! (`lean/ClarabelModel/Solver/*.lean`, driver `cm_solver`), bit for bit.
//!
//!   solve.setup   internal data after collapse / presolve / equilibration, KKT matrix, maps,
//!                 dsigns, ordering                                   (`DefaultSolver::new`)
//!   solve.init    iterate and constant-rhs solution after `default_start()`
//!   solve.full    every pass of the loop (x, s, z, τ, κ, μ, σ, α, info scalars, decisions,
//!                 α_aff, σ, α) + the returned solution               (`solve()`)
//!
//! This binary has no property oracle of its own (those live in C01..C20); its oracle is a
//! self-check of the observer: the returned solution must be the un-scaling of a recorded
//! iterate (the last one, or the one before it after an insufficient-progress rollback).
#![allow(non_snake_case)]
#![allow(clippy::too_many_arguments)]
#[path = "common_cones.rs"]
mod common_cones;
use clarabel::algebra::*;
use clarabel::solver::implementations::default::verif_problemdata;
use clarabel::solver::SupportedConeT::{self, *};
use clarabel::solver::*;
use clarabel::verif_hooks::observer::{self, Event};
use clarabel::verif_hooks::step;
use common_cones::*;
use vharness::proto::{fbs, ff, ffs, fis, fus};
use vharness::*;

// ------------------------------------------------------------------------------------
// settings on the wire

#[derive(Clone, Debug)]
struct Sets {
    maxiter: u32,
    tols: [f64; 6],
    rtols: [f64; 6],
    msf: f64,
    minterm: f64,
    eq: bool,
    eqit: u32,
    eqmin: f64,
    eqmax: f64,
    sreg: bool,
    sregc: f64,
    sregp: f64,
    dyneps: f64,
    dyndelta: f64,
    ir: bool,
    irrel: f64,
    irabs: f64,
    irit: u32,
    irstop: f64,
    presolve: bool,
}

impl Default for Sets {
    fn default() -> Self {
        let d = DefaultSettings::<f64>::default();
        Sets {
            maxiter: d.max_iter,
            tols: [d.tol_gap_abs, d.tol_gap_rel, d.tol_feas, d.tol_infeas_abs, d.tol_infeas_rel, d.tol_ktratio],
            rtols: [
                d.reduced_tol_gap_abs,
                d.reduced_tol_gap_rel,
                d.reduced_tol_feas,
                d.reduced_tol_infeas_abs,
                d.reduced_tol_infeas_rel,
                d.reduced_tol_ktratio,
            ],
            msf: d.max_step_fraction,
            minterm: d.min_terminate_step_length,
            eq: d.equilibrate_enable,
            eqit: d.equilibrate_max_iter,
            eqmin: d.equilibrate_min_scaling,
            eqmax: d.equilibrate_max_scaling,
            sreg: d.static_regularization_enable,
            sregc: d.static_regularization_constant,
            sregp: d.static_regularization_proportional,
            dyneps: d.dynamic_regularization_eps,
            dyndelta: d.dynamic_regularization_delta,
            ir: d.iterative_refinement_enable,
            irrel: d.iterative_refinement_reltol,
            irabs: d.iterative_refinement_abstol,
            irit: d.iterative_refinement_max_iter,
            irstop: d.iterative_refinement_stop_ratio,
            presolve: d.presolve_enable,
        }
    }
}

impl Sets {
    fn to_settings(&self) -> DefaultSettings<f64> {
        let mut s = DefaultSettings::<f64>::default();
        s.verbose = false;
        s.direct_solve_method = "qdldl".into();
        s.chordal_decomposition_enable = false;
        s.time_limit = f64::INFINITY;
        s.max_iter = self.maxiter;
        s.tol_gap_abs = self.tols[0];
        s.tol_gap_rel = self.tols[1];
        s.tol_feas = self.tols[2];
        s.tol_infeas_abs = self.tols[3];
        s.tol_infeas_rel = self.tols[4];
        s.tol_ktratio = self.tols[5];
        s.reduced_tol_gap_abs = self.rtols[0];
        s.reduced_tol_gap_rel = self.rtols[1];
        s.reduced_tol_feas = self.rtols[2];
        s.reduced_tol_infeas_abs = self.rtols[3];
        s.reduced_tol_infeas_rel = self.rtols[4];
        s.reduced_tol_ktratio = self.rtols[5];
        s.max_step_fraction = self.msf;
        s.min_terminate_step_length = self.minterm;
        s.equilibrate_enable = self.eq;
        s.equilibrate_max_iter = self.eqit;
        s.equilibrate_min_scaling = self.eqmin;
        s.equilibrate_max_scaling = self.eqmax;
        s.static_regularization_enable = self.sreg;
        s.static_regularization_constant = self.sregc;
        s.static_regularization_proportional = self.sregp;
        s.dynamic_regularization_eps = self.dyneps;
        s.dynamic_regularization_delta = self.dyndelta;
        s.iterative_refinement_enable = self.ir;
        s.iterative_refinement_reltol = self.irrel;
        s.iterative_refinement_abstol = self.irabs;
        s.iterative_refinement_max_iter = self.irit;
        s.iterative_refinement_stop_ratio = self.irstop;
        s.presolve_enable = self.presolve;
        s
    }
    fn put(&self, l: Line) -> Line {
        l.u("maxiter", self.maxiter as usize)
            .fs("tols", &self.tols)
            .fs("rtols", &self.rtols)
            .f("msf", self.msf)
            .f("minterm", self.minterm)
            .b("eq", self.eq)
            .u("eqit", self.eqit as usize)
            .f("eqmin", self.eqmin)
            .f("eqmax", self.eqmax)
            .b("sreg", self.sreg)
            .f("sregc", self.sregc)
            .f("sregp", self.sregp)
            .f("dyneps", self.dyneps)
            .f("dyndelta", self.dyndelta)
            .b("ir", self.ir)
            .f("irrel", self.irrel)
            .f("irabs", self.irabs)
            .u("irit", self.irit as usize)
            .f("irstop", self.irstop)
            .b("presolve", self.presolve)
            .f("inf", clarabel::get_infinity())
            .f("maxval", f64::MAX)
    }
    fn parse(r: &Req) -> Sets {
        let t = r.fs("tols");
        let rt = r.fs("rtols");
        Sets {
            maxiter: r.u("maxiter") as u32,
            tols: [t[0], t[1], t[2], t[3], t[4], t[5]],
            rtols: [rt[0], rt[1], rt[2], rt[3], rt[4], rt[5]],
            msf: r.f("msf"),
            minterm: r.f("minterm"),
            eq: r.b("eq"),
            eqit: r.u("eqit") as u32,
            eqmin: r.f("eqmin"),
            eqmax: r.f("eqmax"),
            sreg: r.b("sreg"),
            sregc: r.f("sregc"),
            sregp: r.f("sregp"),
            dyneps: r.f("dyneps"),
            dyndelta: r.f("dyndelta"),
            ir: r.b("ir"),
            irrel: r.f("irrel"),
            irabs: r.f("irabs"),
            irit: r.u("irit") as u32,
            irstop: r.f("irstop"),
            presolve: r.b("presolve"),
        }
    }
}

#[derive(Clone, Debug)]
struct Prob {
    P: CscMatrix<f64>,
    q: Vec<f64>,
    A: CscMatrix<f64>,
    b: Vec<f64>,
    cones: Vec<SupportedConeT<f64>>,
}

fn put_prob(l: Line, p: &Prob) -> Line {
    l.csc("P", &p.P).fs("q", &p.q).csc("A", &p.A).fs("b", &p.b).s("cones", &fmt_cones(&p.cones))
}
fn parse_prob(r: &Req) -> Prob {
    Prob { P: r.csc("P"), q: r.fs("q"), A: r.csc("A"), b: r.fs("b"), cones: parse_cones(r.str("cones")) }
}

fn new_solver(p: &Prob, st: &Sets) -> DefaultSolver<f64> {
    DefaultSolver::new(&p.P, &p.q, &p.A, &p.b, &p.cones, st.to_settings())
}

fn perm_of(solver: &DefaultSolver<f64>) -> Vec<usize> {
    solver.kktsystem.verif_ldl_perm().expect("qdldl engine exposes its ordering")
}

/// request line of one channel; the ordering is read from a live solver built from the
/// same data (external input of the model)
fn request(chan: &str, p: &Prob, st: &Sets) -> Option<String> {
    let solver = std::panic::catch_unwind(std::panic::AssertUnwindSafe(|| new_solver(p, st))).ok()?;
    let perm = perm_of(&solver);
    Some(st.put(put_prob(Line::new(chan), p)).us("perm", &perm).done())
}

// ------------------------------------------------------------------------------------
// solve.setup

fn put_csc_p(l: Line, p: &str, a: &CscMatrix<f64>) -> Line {
    l.csc(p, a)
}

fn run_setup(r: &Req) -> String {
    let (p, st) = (parse_prob(r), Sets::parse(r));
    let solver = new_solver(&p, &st);
    let d = &solver.data;
    let eq = &d.equilibration;
    let v = solver.kktsystem.verif_kkt_view().expect("kkt view");
    let keep = match verif_problemdata::presolve_map(d) {
        Some((k, _)) => fbs(&k),
        None => "-".to_string(),
    };
    let (nq, nb) = verif_problemdata::norms(d);
    let mut l = Line::out().u("n", d.n).u("m", d.m).s("cones", &fmt_cones(&d.cones)).s("keep", &keep);
    l = put_csc_p(l, "P", &d.P).fs("q", &d.q);
    l = put_csc_p(l, "A", &d.A).fs("b", &d.b);
    l = l.fs("d", &eq.d).fs("dinv", &eq.dinv).fs("e", &eq.e).fs("einv", &eq.einv).f("c", eq.c);
    l = l.f("normq", nq.unwrap_or(f64::NAN)).f("normb", nb.unwrap_or(f64::NAN));
    l = put_csc_p(l, "K", &v.KKT);
    l = l.us("mapP", &v.map.P).us("mapA", &v.map.A).us("Hs", &v.map.Hsblocks);
    l = l.u("nsp", v.map.sparse_maps.len());
    for (i, sm) in v.map.sparse_maps.iter().enumerate() {
        use clarabel::verif_hooks::c11::PlainSparseMap::*;
        match sm {
            SOC { u, v, D } => {
                l = l.us(&format!("s{}u", i), u).us(&format!("s{}v", i), v).us(&format!("s{}D", i), D);
            }
            GenPow { p, q, r, D } => {
                l = l.us(&format!("s{}p", i), p).us(&format!("s{}q", i), q).us(&format!("s{}r", i), r).us(&format!("s{}D", i), D);
            }
        }
    }
    l = l.us("diagP", &v.map.diagP).us("diagfull", &v.map.diag_full).is("dsigns", &v.dsigns).u("p", v.p);
    l.us("perm", &perm_of(&solver)).done()
}

// ------------------------------------------------------------------------------------
// solve.init

fn run_init(r: &Req) -> String {
    let (p, st) = (parse_prob(r), Sets::parse(r));
    let mut solver = new_solver(&p, &st);
    step::solver::default_start(&mut solver);
    let v = &solver.variables;
    let (_, _, x2, z2) = step::kktsystem::solve_vectors(&solver.kktsystem);
    let view = solver.kktsystem.verif_kkt_view().expect("kkt view");
    Line::out()
        .fs("x", &v.x)
        .fs("s", &v.s)
        .fs("z", &v.z)
        .f("tau", v.τ)
        .f("kappa", v.κ)
        .fs("x2", &x2)
        .fs("z2", &z2)
        .fs("K", &view.KKT.nzval)
        .f("reg", view.diagonal_regularizer)
        .done()
}

// ------------------------------------------------------------------------------------
// solve.full

fn status_u(name: &str) -> usize {
    match name {
        "Unsolved" => 0,
        "Solved" => 1,
        "PrimalInfeasible" => 2,
        "DualInfeasible" => 3,
        "AlmostSolved" => 4,
        "AlmostPrimalInfeasible" => 5,
        "AlmostDualInfeasible" => 6,
        "MaxIterations" => 7,
        "MaxTime" => 8,
        "NumericalError" => 9,
        "InsufficientProgress" => 10,
        other => panic!("unknown status {}", other),
    }
}

fn is_infeasible_u(s: usize) -> bool {
    matches!(s, 2 | 3 | 5 | 6)
}

/// fields of a `Debug`-rendered tuple `(a, b, c)`
fn tuple_fields(v: &str) -> Vec<String> {
    v.trim_start_matches('(').trim_end_matches(')').split(", ").map(|s| s.to_string()).collect()
}

fn bits_eq(a: &[f64], b: &[f64]) -> bool {
    a.len() == b.len() && a.iter().zip(b).all(|(x, y)| x.to_bits() == y.to_bits() || (x.is_nan() && y.is_nan()))
}

fn run_full(r: &Req) -> String {
    let (p, st) = (parse_prob(r), Sets::parse(r));
    let mut solver = new_solver(&p, &st);
    observe_solve(&mut solver)
}

/// `solve()` a second time on the same solver object: everything the first solve left behind
/// (iterate, residuals, step vectors, KKT work vectors and factors, cone scalings, `info`) is
/// the starting state of the second one.  The response is the full record of the SECOND solve
/// plus the figures of the first one and whether the two returned the same bits.
fn run_twice(r: &Req) -> String {
    let (p, st) = (parse_prob(r), Sets::parse(r));
    let mut solver = new_solver(&p, &st);
    // the norm caches `data.normq` / `data.normb` BEFORE the first solve (request field `cm`):
    // 0 as `new` left them, 1 both cleared (as after accepted `update_q` + `update_b`), 2 / 3 one of them
    // cleared, 4 both holding the STALE values `cqv`, `cbv` (as after a rejected partial update).
    // `DefaultInfo::update` calls `get_normq()` / `get_normb()` in every pass, which fill a cleared cache
    // and keep a filled one: the caches after each solve are part of the response.
    let cm = if r.has("cm") { r.u("cm") } else { 0 };
    {
        let (q0, b0) = verif_problemdata::norms(&solver.data);
        match cm {
            1 => verif_problemdata::set_norms(&mut solver.data, None, None),
            2 => verif_problemdata::set_norms(&mut solver.data, None, b0),
            3 => verif_problemdata::set_norms(&mut solver.data, q0, None),
            4 => verif_problemdata::set_norms(&mut solver.data, Some(r.f("cqv")), Some(r.f("cbv"))),
            _ => {}
        }
    }
    let (nq0, nb0) = verif_problemdata::norms(&solver.data);
    solver.solve();
    let (nq1, nb1) = verif_problemdata::norms(&solver.data);
    let f = &solver.solution;
    let (st1, it1, x1, s1, z1) = (f.status as usize, f.iterations, f.x.clone(), f.s.clone(), f.z.clone());
    let sc1 = [f.obj_val, f.obj_val_dual, f.r_prim, f.r_dual];
    let out = observe_solve(&mut solver);
    let g = &solver.solution;
    let same = st1 == g.status as usize
        && it1 == g.iterations
        && bits_eq(&x1, &g.x)
        && bits_eq(&s1, &g.s)
        && bits_eq(&z1, &g.z)
        && bits_eq(&sc1, &[g.obj_val, g.obj_val_dual, g.r_prim, g.r_dual]);
    let nn = |v: Option<f64>| ff(v.unwrap_or(f64::NAN));
    format!(
        "{} status1={} iterations1={} x1={} s1={} z1={} same={} nq0={} nb0={} nq1={} nb1={}",
        out, st1, it1, ffs(&x1), ffs(&s1), ffs(&z1), same as usize, nn(nq0), nn(nb0), nn(nq1), nn(nb1)
    )
}

/// run `solve()` under the observer and render every pass + the returned solution
fn observe_solve(solver: &mut DefaultSolver<f64>) -> String {
    let perm = perm_of(solver);
    observer::start();
    solver.solve();
    let ev = observer::take();

    let mut passes: Vec<&observer::IterSnapshot> = vec![];
    let (mut dbz, mut dqx) = (vec![], vec![]);
    let (mut pdone, mut pst) = (vec![], vec![]);
    let (mut pss, mut pks) = (vec![], vec![]);
    let (mut aaff, mut sig, mut alpha) = (vec![], vec![], vec![]);
    let mut rollback = false;
    for e in &ev {
        match e {
            Event::Pass(b) => passes.push(&**b),
            Event::Scalar("dot_bz", v) => dbz.push(*v),
            Event::Scalar("dot_qx", v) => dqx.push(*v),
            Event::Scalar("alpha_aff", v) => aaff.push(*v),
            Event::Scalar("sigma", v) => sig.push(*v),
            Event::Scalar("alpha", v) => alpha.push(*v),
            Event::Scalar(_, _) => {}
            Event::Flag("isdone", v) => {
                let f = tuple_fields(v);
                pdone.push(f[0] == "true");
                pst.push(status_u(&f[1]));
            }
            Event::Flag("scaling_success", v) => pss.push(tuple_fields(v)[0] == "true"),
            Event::Flag("numerical_error", v) => pks.push(tuple_fields(v)[0] == "true"),
            Event::Flag("insufficient_progress", v) => {
                if v != "NoUpdate" {
                    rollback = true
                }
            }
            Event::Flag(_, _) => {}
        }
    }
    let cat = |f: &dyn Fn(&observer::IterSnapshot) -> &Vec<f64>| -> Vec<f64> {
        passes.iter().flat_map(|s| f(s).iter().copied()).collect()
    };
    let col = |f: &dyn Fn(&observer::IterSnapshot) -> f64| -> Vec<f64> { passes.iter().map(|s| f(s)).collect() };
    let its: Vec<usize> = passes.iter().map(|s| s.iterations as usize).collect();

    // provenance of the returned point: which recorded iterate does it un-scale?
    let eq = &solver.data.equilibration;
    let sol = &solver.solution;
    let st_u = sol.status as usize;
    let inf = is_infeasible_u(st_u);
    let mut prov = 99usize;
    for (k, ps) in passes.iter().rev().enumerate().take(3) {
        let scaleinv = if inf { 1.0 / ps.kappa } else { 1.0 / ps.tau };
        let cinv = 1.0 / eq.c;
        let x: Vec<f64> = ps.x.iter().zip(&eq.d).map(|(a, b)| (a * b) * scaleinv).collect();
        let z: Vec<f64> = ps.z.iter().zip(&eq.e).map(|(a, b)| (a * b) * (scaleinv * cinv)).collect();
        let s: Vec<f64> = ps.s.iter().zip(&eq.einv).map(|(a, b)| (a * b) * scaleinv).collect();
        if bits_eq(&x, &solver.variables.x) && bits_eq(&s, &solver.variables.s) && bits_eq(&z, &solver.variables.z) {
            prov = k;
            break;
        }
    }

    let mut out = String::new();
    let mut kv = |k: &str, v: String| {
        if !out.is_empty() {
            out.push(' ');
        }
        out.push_str(k);
        out.push('=');
        out.push_str(&v);
    };
    kv("np", passes.len().to_string());
    kv("px", ffs(&cat(&|s| &s.x)));
    kv("ps", ffs(&cat(&|s| &s.s)));
    kv("pz", ffs(&cat(&|s| &s.z)));
    kv("ptau", ffs(&col(&|s| s.tau)));
    kv("pkap", ffs(&col(&|s| s.kappa)));
    kv("pmu", ffs(&col(&|s| s.mu)));
    kv("psig", ffs(&col(&|s| s.sigma)));
    kv("pstep", ffs(&col(&|s| s.step_length)));
    kv("pit", fus(&its));
    kv("pcp", ffs(&col(&|s| s.cost_primal)));
    kv("pcd", ffs(&col(&|s| s.cost_dual)));
    kv("prp", ffs(&col(&|s| s.res_primal)));
    kv("prd", ffs(&col(&|s| s.res_dual)));
    kv("prpi", ffs(&col(&|s| s.res_primal_inf)));
    kv("prdi", ffs(&col(&|s| s.res_dual_inf)));
    kv("pga", ffs(&col(&|s| s.gap_abs)));
    kv("pgr", ffs(&col(&|s| s.gap_rel)));
    kv("pkt", ffs(&col(&|s| s.ktratio)));
    kv("pdbz", ffs(&dbz));
    kv("pdqx", ffs(&dqx));
    kv("pdone", fbs(&pdone));
    kv("pst", fus(&pst));
    kv("pss", fbs(&pss));
    kv("pks", fbs(&pks));
    kv("aaff", ffs(&aaff));
    kv("sig", ffs(&sig));
    kv("alpha", ffs(&alpha));
    kv("status", st_u.to_string());
    kv("iterations", sol.iterations.to_string());
    kv("x", ffs(&sol.x));
    kv("s", ffs(&sol.s));
    kv("z", ffs(&sol.z));
    kv("obj", ff(sol.obj_val));
    kv("objd", ff(sol.obj_val_dual));
    kv("rp", ff(sol.r_prim));
    kv("rd", ff(sol.r_dual));
    kv("imu", ff(solver.info.μ));
    kv("isig", ff(solver.info.sigma));
    kv("istep", ff(solver.info.step_length));
    kv("perm", fus(&perm));
    kv("prov", prov.to_string());
    kv("rb", (rollback as usize).to_string());
    // the norm caches of the problem data after this solve (`get_normq` / `get_normb` filled them)
    let (nq, nb) = verif_problemdata::norms(&solver.data);
    kv("nq", ff(nq.unwrap_or(f64::NAN)));
    kv("nb", ff(nb.unwrap_or(f64::NAN)));
    let _ = fis::<usize>;
    out
}

/// self-check of the observer: the returned point is the un-scaling of the last recorded
/// iterate, or of the one before it exactly when the loop rolled back
fn oracle_full(r: &Req, out: &str) -> Result<(), String> {
    oracle_observer(r, out)?;
    oracle_prefix(r, out)
}

/// budget independence (C07) stated on the implementation's own runs: a run limited to
/// `max_iter = k` (small `k`) goes through exactly the first passes of a run of a fresh solver
/// with `max_iter = k + 3` — every recorded iterate `(x, s, z, τ, κ)` identical, bit for bit
fn oracle_prefix(r: &Req, out: &str) -> Result<(), String> {
    if out.starts_with("panic") || out.starts_with("err") {
        return Ok(());
    }
    let (p, mut st) = (parse_prob(r), Sets::parse(r));
    if st.maxiter > 5 {
        return Ok(());
    }
    st.maxiter += 3;
    let long = match std::panic::catch_unwind(std::panic::AssertUnwindSafe(|| {
        let mut solver = new_solver(&p, &st);
        observe_solve(&mut solver)
    })) {
        Ok(l) => l,
        Err(_) => return Ok(()),
    };
    let a = Req::parse(&format!("o {}", out)).ok_or("unparsable response")?;
    let b = Req::parse(&format!("o {}", long)).ok_or("unparsable response (long run)")?;
    let (na, nb) = (a.u("np"), b.u("np"));
    if nb < na {
        return Err(format!("the run with max_iter + 3 makes fewer passes ({}) than the run with max_iter ({})", nb, na));
    }
    for key in ["px", "ps", "pz", "ptau", "pkap"] {
        let (u, v) = (a.fs(key), b.fs(key));
        if na == 0 || u.len() % na != 0 {
            return Err(format!("observer: {} has {} entries for {} passes", key, u.len(), na));
        }
        if v.len() < u.len() || !bits_eq(&u, &v[..u.len()]) {
            return Err(format!("budget dependence: the first {} iterates ({}) of the run with max_iter = {} differ from those of the run with max_iter = {}", na, key, st.maxiter - 3, st.maxiter));
        }
    }
    Ok(())
}

fn oracle_observer(_r: &Req, out: &str) -> Result<(), String> {
    if out.starts_with("panic") || out.starts_with("err") {
        return Ok(());
    }
    let o = Req::parse(&format!("o {}", out)).ok_or("unparsable response")?;
    let (prov, rb, np) = (o.u("prov"), o.u("rb"), o.u("np"));
    if np == 0 {
        return Err("no pass recorded".into());
    }
    // a NaN iterate is its own provenance problem (bit patterns of NaN payloads); skip
    let nan = o.fs("x").iter().chain(o.fs("s").iter()).chain(o.fs("z").iter()).any(|v| v.is_nan());
    if nan {
        return Ok(());
    }
    let expect = if rb == 1 { 1 } else { 0 };
    if prov != expect {
        // two consecutive identical iterates are possible only with a zero step; accept
        // the earlier index then
        if !(rb == 1 && prov == 0) {
            return Err(format!("returned point is not the un-scaling of recorded iterate #{} from the end (prov={}, rollback={})", expect, prov, rb));
        }
    }
    if o.us("pit").len() != np || o.us("pst").len() != np {
        return Err("observer: pass / isdone events out of step".into());
    }
    Ok(())
}

/// the second `solve()` on the same object: observer self-check, plus the property "the same
/// solver solved twice gives the same answer" (C05) stated on the implementation's own two runs.
/// No exemption is left (`C05.full_solve_idempotent_any_start`: every mutable buffer of the solver
/// object is dead — `workx` / `Px` since /repo 1706c1f, the iterate after a failed initial KKT solve
/// since /repo 7c1c881): whatever the status and the figures of the first solve (NumericalError, NaN
/// iterate, MaxIterations at the starting point …), the second one reproduces it bit for bit.
fn oracle_twice(r: &Req, out: &str) -> Result<(), String> {
    oracle_observer(r, out)?;
    if out.starts_with("panic") || out.starts_with("err") {
        return Ok(());
    }
    let o = Req::parse(&format!("o {}", out)).ok_or("unparsable response")?;
    let (st1, st2) = (o.u("status1"), o.u("status"));
    if st1 != st2 {
        return Err(format!("second solve on the same solver ends with status {} (first: {})", st2, st1));
    }
    if o.u("iterations1") != o.u("iterations") {
        return Err(format!("second solve takes {} iterations (first: {})", o.u("iterations"), o.u("iterations1")));
    }
    // bit for bit (signed zeros included; NaN = NaN)
    for (a, b) in [("x1", "x"), ("s1", "s"), ("z1", "z")] {
        if !bits_eq(&o.fs(a), &o.fs(b)) {
            return Err(format!("second solve on the same solver returns a different {}", b));
        }
    }
    if o.u("same") != 1 {
        return Err("second solve on the same solver returns different objective / residual figures".into());
    }
    Ok(())
}

// ------------------------------------------------------------------------------------
// generators

fn dense_to_csc(d: &[Vec<f64>], m: usize, n: usize, triu: bool) -> CscMatrix<f64> {
    let mut colptr = vec![0usize];
    let mut rowval = vec![];
    let mut nzval = vec![];
    for c in 0..n {
        for r in 0..m {
            if triu && r > c {
                continue;
            }
            if d[r][c] != 0.0 {
                rowval.push(r);
                nzval.push(d[r][c]);
            }
        }
        colptr.push(rowval.len());
    }
    CscMatrix::new(m, n, colptr, rowval, nzval)
}

fn val(rng: &mut Rng, nice: bool) -> f64 {
    if nice {
        let v = rng.range(-4, 4) as f64;
        if v == 0.0 { 1.0 } else { v }
    } else {
        rng.normal()
    }
}

/// random cone list of total dimension ≤ mmax; `kinds` ⊆ "znq"
fn random_cones(rng: &mut Rng, kinds: &str, mmax: usize, degenerate: bool) -> Vec<SupportedConeT<f64>> {
    let mut out = vec![];
    let mut m = 0;
    let ncones = 1 + rng.below(4);
    for _ in 0..ncones {
        let ks: Vec<char> = kinds.chars().collect();
        let k = *rng.choose(&ks);
        let c = match k {
            'z' => ZeroConeT(1 + rng.below(3)),
            'n' => NonnegativeConeT(1 + rng.below(5)),
            // 2..=8: both sides of the sparse-expansion threshold 4; now and then a larger one
            _ => SecondOrderConeT(if rng.bool(0.15) { 9 + rng.below(6) } else { 2 + rng.below(7) }),
        };
        if m + nvars(&c) > mmax {
            continue;
        }
        m += nvars(&c);
        out.push(c);
        if degenerate && rng.bool(0.3) {
            // cones that `new_collapsed` removes or merges
            let extra = match rng.below(4) {
                0 => NonnegativeConeT(0),
                1 => ZeroConeT(0),
                2 => SecondOrderConeT(1),
                _ => NonnegativeConeT(1),
            };
            if m + nvars(&extra) <= mmax {
                m += nvars(&extra);
                out.push(extra);
            }
        }
    }
    if m == 0 {
        out.push(NonnegativeConeT(2));
    }
    out
}

/// a point in the interior of the cone (zero cone: primal 0, dual free)
fn interior(rng: &mut Rng, c: &SupportedConeT<f64>, dual: bool) -> Vec<f64> {
    match c {
        ZeroConeT(n) => (0..*n).map(|_| if dual { rng.normal() } else { 0.0 }).collect(),
        NonnegativeConeT(n) => (0..*n).map(|_| rng.uniform(0.2, 2.0)).collect(),
        SecondOrderConeT(n) => {
            if *n == 0 {
                return vec![];
            }
            let tail: Vec<f64> = (1..*n).map(|_| rng.normal()).collect();
            let nrm = tail.iter().map(|v| v * v).sum::<f64>().sqrt();
            let mut v = vec![nrm + rng.uniform(0.2, 2.0)];
            v.extend(tail);
            v
        }
        _ => unreachable!(),
    }
}

/// a point on the boundary / complementary face (used for planted optima)
#[derive(Clone, Copy, PartialEq)]
enum Plant {
    Feasible,
    PrimalInfeasible,
    DualInfeasible,
}

fn plant(rng: &mut Rng, kind: Plant, kinds: &str, nmax: usize, mmax: usize, qp: bool, nice: bool, degenerate: bool) -> Prob {
    let n = 1 + rng.below(nmax);
    let mut cones = random_cones(rng, kinds, mmax, degenerate);
    let mut m: usize = cones.iter().map(nvars).sum();
    let dens = rng.uniform(0.3, 0.9);
    let mut a = vec![vec![0.0; n]; m];
    for row in a.iter_mut() {
        for v in row.iter_mut() {
            if rng.bool(dens) {
                *v = val(rng, nice);
            }
        }
    }
    // P = G'G (PSD), sparse-ish, or 0
    let mut pd = vec![vec![0.0; n]; n];
    if qp {
        let k = 1 + rng.below(n);
        let g: Vec<Vec<f64>> = (0..k).map(|_| (0..n).map(|_| if rng.bool(0.5) { val(rng, nice) } else { 0.0 }).collect()).collect();
        for i in 0..n {
            for j in 0..n {
                pd[i][j] = (0..k).map(|t| g[t][i] * g[t][j]).sum();
            }
        }
    }
    let x0: Vec<f64> = (0..n).map(|_| val(rng, nice)).collect();
    // complementary pair (s0, z0): per cone either s interior / z = 0 or the reverse
    let mut s0 = vec![];
    let mut z0 = vec![];
    for c in &cones {
        let d = nvars(c);
        if matches!(c, ZeroConeT(_)) {
            s0.extend(vec![0.0; d]);
            z0.extend(interior(rng, c, true));
        } else if rng.bool(0.5) {
            s0.extend(interior(rng, c, false));
            z0.extend(vec![0.0; d]);
        } else {
            s0.extend(vec![0.0; d]);
            z0.extend(interior(rng, c, true));
        }
    }
    let mut b: Vec<f64> = (0..m).map(|i| (0..n).map(|j| a[i][j] * x0[j]).sum::<f64>() + s0[i]).collect();
    let mut q: Vec<f64> = (0..n)
        .map(|j| -(0..m).map(|i| a[i][j] * z0[i]).sum::<f64>() - (0..n).map(|k| pd[j][k] * x0[k]).sum::<f64>())
        .collect();
    match kind {
        Plant::Feasible => {}
        Plant::PrimalInfeasible => {
            // add the contradictory pair  a'x ≤ -1,  -a'x ≤ -1  in a nonnegative cone
            let arow: Vec<f64> = (0..n).map(|_| val(rng, nice)).collect();
            a.push(arow.clone());
            a.push(arow.iter().map(|v| -v).collect());
            b.push(-1.0);
            b.push(-1.0);
            cones.push(NonnegativeConeT(2));
            m += 2;
        }
        Plant::DualInfeasible => {
            // a direction d with A d ∈ -K (here: A d = 0 enforced by zeroing a column) and q'd < 0
            let j = rng.below(n);
            for row in a.iter_mut() {
                row[j] = 0.0;
            }
            for k in 0..n {
                pd[j][k] = 0.0;
                pd[k][j] = 0.0;
            }
            q[j] = -1.0 - rng.unit();
        }
    }
    let _ = m;
    Prob { P: dense_to_csc(&pd, n, n, true), q, A: dense_to_csc(&a, a.len(), n, false), b, cones }
}

/// set some right-hand sides of nonnegative rows to (beyond) the infinity bound
fn add_infinite_bounds(rng: &mut Rng, p: &mut Prob) {
    let mut i = 0;
    for c in &p.cones {
        let d = nvars(c);
        if let NonnegativeConeT(_) = c {
            for k in 0..d {
                if rng.bool(0.3) {
                    p.b[i + k] = *rng.choose(&[1e20, 2e20, f64::INFINITY, 0.99999999999999e20]);
                }
            }
        }
        i += d;
    }
}

fn random_sets(rng: &mut Rng, level: usize) -> Sets {
    // level 0: every optional feature off; higher levels switch features on one at a time
    let mut st = Sets::default();
    st.eq = false;
    st.presolve = false;
    st.ir = false;
    st.sreg = false;
    if level >= 1 {
        st.sreg = rng.bool(0.7);
    }
    if level >= 2 {
        st.ir = rng.bool(0.7);
    }
    if level >= 3 {
        st.eq = rng.bool(0.7);
    }
    if level >= 4 {
        st.presolve = rng.bool(0.7);
    }
    if level >= 5 {
        // the numeric knobs
        if rng.bool(0.3) {
            st.maxiter = *rng.choose(&[0u32, 1, 2, 3, 5, 8]);
        }
        if rng.bool(0.3) {
            let t = *rng.choose(&[1e-3, 1e-5, 1e-10, 1e-12]);
            st.tols = [t, t, t, t, t, st.tols[5]];
        }
        if rng.bool(0.2) {
            st.eqit = *rng.choose(&[0u32, 1, 3, 10]);
        }
        if rng.bool(0.2) {
            st.irit = *rng.choose(&[0u32, 1, 2, 10]);
            st.irstop = *rng.choose(&[1.0, 2.0, 5.0]);
            st.irabs = *rng.choose(&[1e-12, 1e-16, 0.0]);
        }
        if rng.bool(0.2) {
            st.sregc = *rng.choose(&[1e-8, 1e-6, 0.0]);
            st.sregp = *rng.choose(&[f64::EPSILON * f64::EPSILON, 1e-10]);
        }
        if rng.bool(0.15) {
            st.dyneps = *rng.choose(&[1e-13, 1e-6]);
            st.dyndelta = *rng.choose(&[2e-7, 1e-4]);
        }
        if rng.bool(0.15) {
            st.msf = *rng.choose(&[0.99, 0.9, 0.5]);
        }
        if rng.bool(0.1) {
            st.minterm = *rng.choose(&[1e-4, 0.2, 0.9]);
        }
    }
    st
}

fn submit_all(s: &mut Session, p: &Prob, st: &Sets, stages: bool) {
    if let Some(line) = request("solve.full", p, st) {
        if stages {
            s.submit(line.replacen("solve.full", "solve.setup", 1));
            s.submit(line.replacen("solve.full", "solve.init", 1));
        }
        {
            // the state of the two norm caches before the first solve (see `run_twice`)
            let cm = [0usize, 0, 1, 1, 2, 3, 4, 4][s.rng.below(8)];
            let (cqv, cbv) = (val(&mut s.rng, false).abs(), val(&mut s.rng, false).abs());
            let out2 = s.submit(format!(
                "{} cm={} cqv={} cbv={}",
                line.replacen("solve.full", "solve.twice", 1),
                cm,
                ff(cqv),
                ff(cbv)
            ));
            s.count(&format!("twice:caches-mode-{}", cm));
            if let Some(r) = Req::parse(&format!("o {}", out2)) {
                if r.has("same") {
                    s.count(if r.u("same") == 1 { "twice:bit-identical" } else { "twice:differs" });
                }
            }
        }
        let out = s.submit(line);
        if let Some(r) = Req::parse(&format!("o {}", out)) {
            if r.has("status") {
                s.count(&format!("status:{}", r.u("status")));
                s.count(&format!("passes:{}", r.u("np").min(30) / 5 * 5));
            }
        }
    } else {
        s.count("construct-panic");
    }
}

/// inputs of earlier findings: the `input` line of every replay record in `corpus/SOLVER/*.json`
/// (cwd = /verif under `./check`; `VERIF_CORPUS` overrides), in file-name order
fn corpus_lines() -> Vec<(String, String)> {
    let dir = std::env::var("VERIF_CORPUS").unwrap_or_else(|_| {
        if std::path::Path::new("corpus/SOLVER").is_dir() { "corpus/SOLVER".into() } else { "/verif/corpus/SOLVER".into() }
    });
    let mut files: Vec<std::path::PathBuf> = match std::fs::read_dir(&dir) {
        Ok(rd) => rd.filter_map(|e| e.ok()).map(|e| e.path()).filter(|p| p.extension().map_or(false, |x| x == "json")).collect(),
        Err(_) => vec![],
    };
    files.sort();
    let mut out = vec![];
    for f in files {
        let Ok(text) = std::fs::read_to_string(&f) else { continue };
        let Ok(v) = serde_json::from_str::<serde_json::Value>(&text) else { continue };
        if let Some(line) = v.get("input").and_then(|x| x.as_str()) {
            if line.starts_with("solve.") {
                let name = f.file_stem().map(|x| x.to_string_lossy().to_string()).unwrap_or_default();
                out.push((name, line.to_string()));
            }
        }
    }
    out
}

fn generate(s: &mut Session) {
    // stage 0: the corpus (runs first, no draw from the random stream)
    for (name, line) in corpus_lines() {
        s.count(&format!("corpus:{}", name.trim_end_matches(|c: char| c == '-' || c.is_ascii_digit())));
        s.submit(line);
    }
    let mut rng = s.rng.fork();
    let nmax = if s.thorough() { 24 } else { 10 };
    let mmax = if s.thorough() { 40 } else { 16 };
    // stage 1: LPs with every optional feature off, then features on one at a time
    for level in 0..=5usize {
        for k in 0..s.budget(30, 200) {
            let p = plant(&mut rng, Plant::Feasible, "zn", nmax, mmax, false, k % 2 == 0, false);
            let st = random_sets(&mut rng, level);
            s.count(&format!("family:lp-level{}", level));
            submit_all(s, &p, &st, k % 3 == 0);
        }
    }
    // stage 2: QPs
    for k in 0..s.budget(80, 600) {
        let p = plant(&mut rng, Plant::Feasible, "zn", nmax, mmax, true, k % 2 == 0, k % 5 == 0);
        let st = random_sets(&mut rng, 1 + k % 5);
        s.count("family:qp");
        submit_all(s, &p, &st, k % 3 == 0);
    }
    // stage 3: SOCPs (dims 2..8), with and without a quadratic objective
    for k in 0..s.budget(160, 1000) {
        let kinds = if k % 3 == 0 { "q" } else { "znq" };
        let p = plant(&mut rng, Plant::Feasible, kinds, nmax, mmax, k % 4 == 0, k % 2 == 0, k % 7 == 0);
        let st = random_sets(&mut rng, 1 + k % 5);
        s.count("family:socp");
        submit_all(s, &p, &st, k % 3 == 0);
    }
    // stage 4: infeasible / unbounded
    for k in 0..s.budget(60, 400) {
        let kind = if k % 2 == 0 { Plant::PrimalInfeasible } else { Plant::DualInfeasible };
        let p = plant(&mut rng, kind, "znq", nmax, mmax, k % 4 == 0, k % 3 == 0, false);
        let st = random_sets(&mut rng, 1 + k % 5);
        s.count(if k % 2 == 0 { "family:primal-infeasible" } else { "family:dual-infeasible" });
        submit_all(s, &p, &st, false);
    }
    // stage 5: infinite bounds (presolve on and off)
    for k in 0..s.budget(60, 400) {
        let mut p = plant(&mut rng, Plant::Feasible, "zn", nmax, mmax, k % 3 == 0, true, k % 4 == 0);
        add_infinite_bounds(&mut rng, &mut p);
        let mut st = random_sets(&mut rng, 5);
        st.presolve = k % 4 != 0;
        s.count("family:infinite-bounds");
        submit_all(s, &p, &st, true);
    }
    // stage 5b: P handed over with both triangles (`to_triu` path), equality-only problems
    // (composite degree 0), no constraints at all, extreme magnitudes (overflow → NaN/∞ paths)
    for k in 0..s.budget(40, 600) {
        let mut p = plant(&mut rng, Plant::Feasible, if k % 4 == 1 { "z" } else { "znq" }, nmax, mmax, true, k % 2 == 0, false);
        match k % 4 {
            0 => {
                // full symmetric P
                let n = p.P.n;
                let mut d = vharness::gen::to_dense(&p.P);
                for i in 0..n {
                    for j in 0..i {
                        d[i][j] = d[j][i];
                    }
                }
                p.P = dense_to_csc(&d, n, n, false);
                s.count("family:full-P");
            }
            1 => s.count("family:equality-only"),
            2 => {
                let n = p.P.n;
                p.A = CscMatrix::new(0, n, vec![0; n + 1], vec![], vec![]);
                p.b = vec![];
                p.cones = vec![];
                s.count("family:unconstrained");
            }
            _ => {
                let f = *rng.choose(&[1e150, 1e-150, 1e300, 1e-300, 1e20]);
                match rng.below(3) {
                    0 => p.b.iter_mut().for_each(|v| *v *= f),
                    1 => p.q.iter_mut().for_each(|v| *v *= f),
                    _ => p.A.nzval.iter_mut().for_each(|v| *v *= f),
                }
                s.count("family:extreme-magnitude");
            }
        }
        let st = random_sets(&mut rng, 1 + k % 5);
        submit_all(s, &p, &st, k % 3 == 0);
    }
    // stage 5c: small iteration budgets 0..=5 on one problem each (budget independence: every run
    // is compared with the model bit for bit, and `oracle_prefix` compares it with a longer run
    // of the implementation itself)
    for k in 0..s.budget(12, 120) {
        let p = plant(&mut rng, Plant::Feasible, if k % 2 == 0 { "znq" } else { "nq" }, nmax, mmax, k % 3 == 0, k % 2 == 0, false);
        let mut st = random_sets(&mut rng, 4);
        for budget in 0..=5u32 {
            st.maxiter = budget;
            s.count("family:small-budget");
            submit_all(s, &p, &st, false);
        }
    }
    // stage 6: everything at its default
    for k in 0..s.budget(30, 600) {
        let p = plant(&mut rng, Plant::Feasible, "znq", nmax, mmax, k % 2 == 0, false, false);
        let st = Sets::default();
        s.count("family:defaults");
        submit_all(s, &p, &st, k % 5 == 0);
    }
}

fn channels() -> Vec<Channel> {
    vec![
        Channel {
            name: "solve.setup",
            tol: Tol::Exact,
            run: run_setup,
            oracle: None,
            modelled: true,
            rust_fn: "DefaultSolver::new (collapse, presolve, equilibrate, DirectLDLKKTSolver::new)",
            lean: "Solver.SolverSt.new, Solver.internalData / C05.full_internal_data_is_scaled_user_data, C03.full_solution_lengths",
        },
        Channel {
            name: "solve.init",
            tol: Tol::Exact,
            run: run_init,
            oracle: None,
            modelled: true,
            rust_fn: "IPSolverInternals::default_start (identity scaling, kktsystem.update, solve_initial_point, symmetric_initialization)",
            lean: "Solver.SolverSt.defaultStart / C07.full_start_budget_independent, C04.full_refines_loop (absInit)",
        },
        Channel {
            name: "solve.full",
            tol: Tol::Exact,
            run: run_full,
            oracle: Some(oracle_full),
            modelled: true,
            rust_fn: "DefaultSolver::new + IPSolver::solve (whole trajectory, observer) + DefaultSolution; every KKT solve inside runs DirectLDLKKTSolver::{setrhs, solve, iterative_refinement, getlhs} and _get_refine_error (modelled: Solver.refineError / Solver.irLoop / KktSolver.iterativeRefinement in Solver/KktSolver.lean)",
            lean: "Solver.Solver.solve, Solver.pass, Solver.runLoop / C04.full_refines_loop, C04.full_terminates, C04.full_solve_terminal, C04.full_no_stale_prev, C03.full_iterations_eq_kkt_updates, C03.full_solution_lengths, C07.full_prefix, C07.full_pass_budget_independent",
        },
        Channel {
            name: "solve.twice",
            tol: Tol::Exact,
            run: run_twice,
            oracle: Some(oracle_twice),
            modelled: true,
            rust_fn: "DefaultSolver::new + IPSolver::solve twice on the same object (second trajectory, observer) + DefaultSolution",
            lean: "Solver.Solver.solve ∘ Solver.Solver.solve / C05.full_solve_idempotent_any_start, C05.full_solve_ignores_iterate, C05.full_solve_info_irrelevant, C05.full_solve_keeps_data, C03.full_solution_lengths",
        },
    ]
}

fn main() {
    Session::from_args("SOLVER", channels()).run(generate)
}
