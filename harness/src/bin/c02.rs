//! C02 — infeasibility verdicts carry a valid Farkas-type certificate.
#[path = "common_kkt.rs"]
mod common_kkt;
use common_kkt::*;
use vharness::*;

/// Round 3, rollback path (`C02.rollback_never_infeasible` / `rollback_counterexample`):
/// with `reduced_tol_ktratio ≤ 1000` the insufficient-progress rollback cannot end
/// Almost*Infeasible (theorem); with `reduced_tol_ktratio > 1000` the model has a
/// counterexample.  This family drives the implementation into rollbacks with the gate
/// opened (`reduced_tol_ktratio ∈ {1e4 … 1e12}`), loose reduced infeasibility tolerances and
/// tight optimality tolerances, so that an Almost*Infeasible verdict decided on the discarded
/// iterate is reachable; the certificate oracle of `check_c02` judges every such verdict on
/// the RETURNED vectors with the reduced tolerances.
fn rollback_gate_family(s: &mut Session, count: usize, open: bool) {
    for k in 0..count {
        let kind = match k % 4 {
            0 => Plant::PrimalInfeasible,
            1 => Plant::DualInfeasible,
            _ => Plant::Feasible,
        };
        let exotic = k % 3 != 0;
        let illcond = s.rng.bool(0.5);
        let mut p = plant(s, kind, exotic, illcond, false);
        if s.rng.bool(0.4) {
            // weakly (in)feasible: shrink the planted margin
            let g = 10f64.powf(s.rng.uniform(-9.0, -3.0));
            for v in p.b.iter_mut() {
                *v *= 1.0 + g * s.rng.normal();
            }
        }
        let mut st = random_sets(s);
        let t = *s.rng.choose(&[1e-10, 1e-12, 1e-14, 1e-16]);
        st.tol[0] = t;
        st.tol[1] = t;
        st.tol[2] = t;
        if s.rng.bool(0.5) {
            st.tol[3] = *s.rng.choose(&[1e-12, 1e-14, 1e-16]);
            st.tol[4] = *s.rng.choose(&[1e-12, 1e-14, 1e-16]);
        }
        // AlmostSolved must not pre-empt the infeasibility branch
        let rt = *s.rng.choose(&[1e-10, 1e-13, 1e-16]);
        st.rtol[0] = rt;
        st.rtol[1] = rt;
        st.rtol[2] = rt;
        st.rtol[3] = *s.rng.choose(&[5e-12, 1e-8, 1e-4]);
        st.rtol[4] = *s.rng.choose(&[5e-5, 1e-3, 1e-1, 1.0]);
        st.rtol[5] = if open {
            *s.rng.choose(&[1e4, 1e6, 1e9, 1e12])
        } else {
            // gate (1/reduced_tol_ktratio)*1000 >= 1: Almost*Infeasible after a rollback is
            // impossible by C02.rollback_never_infeasible (asserted by check_c02)
            *s.rng.choose(&[1e-4, 1e-2, 1.0, 1e3])
        };
        if s.rng.bool(0.3) {
            st.sreg = false;
            st.dreg = false;
        }
        if s.rng.bool(0.3) {
            st.ir = false;
        }
        s.count(if open { "family:rollback-gate-open" } else { "family:rollback-gate-closed" });
        let out = submit_solve(s, &p, &st, "c02");
        if out.contains("rolled_back=true") || out.contains("rolled_back=1") {
            s.count(if open { "rollback-gate-open:rolled_back" } else { "rollback-gate-closed:rolled_back" });
        }
    }
}

fn generate(s: &mut Session) {
    if let Ok(v) = std::env::var("VERIF_C02_GATE_SEARCH") {
        // exploratory: only the rollback family, `v` cases
        let n: usize = v.parse().unwrap_or(2000);
        rollback_gate_family(s, n, true);
        return;
    }
    // the recorded finding KF-C02-rollback-stale-verdict (known_findings.json): its two replays run
    // first on every run; while the defect is present they fail and are reported as KNOWN-FINDING
    if !s.is_searching() {
        for f in ["finding-rollback-gate-1e4.json", "finding-rollback-gate-1e6.json"] {
            let path = format!("{}/../findings/C02-rollback-stale-verdict/{}", env!("CARGO_MANIFEST_DIR"), f);
            if let Ok(text) = std::fs::read_to_string(&path) {
                if let Ok(v) = serde_json::from_str::<serde_json::Value>(&text) {
                    if let Some(line) = v["input"].as_str() {
                        s.count("corpus:KF-C02-rollback-stale-verdict");
                        // the tag goes first: failure records keep only the head of the input
                        let (chan, rest) = line.split_once(' ').unwrap_or((line, ""));
                        s.submit(format!("{} kf=KF-C02-rollback-stale-verdict {}", chan, rest));
                    }
                }
            }
        }
    }
    // rollbacks with the κ/τ gate of the reduced test at or above 1 (every
    // reduced_tol_ktratio <= 1000): theorem-backed expectation, see check_c02
    let nrb = s.budget(400, 8000);
    rollback_gate_family(s, nrb, false);
    // strongly infeasible plants (Farkas vectors), ill-conditioned variants, all scaling settings
    for k in 0..s.budget(1200, 15000) {
        let kind = if k % 2 == 0 { Plant::PrimalInfeasible } else { Plant::DualInfeasible };
        let exotic = k % 3 == 0;
        let illcond = k % 5 < 2;
        let p = plant(s, kind, exotic, illcond, false);
        let mut st = random_sets(s);
        if s.rng.bool(0.15) {
            // looser / tighter infeasibility tolerances
            st.tol[3] = *s.rng.choose(&[1e-6, 1e-10]);
            st.tol[4] = *s.rng.choose(&[1e-6, 1e-10]);
        }
        if s.rng.bool(0.1) {
            // a short iteration budget makes Almost*Infeasible verdicts reachable
            st.max_iter = 3 + s.rng.below(12) as u32;
        }
        s.count(match (kind, illcond) {
            (Plant::PrimalInfeasible, false) => "family:primal-infeasible",
            (Plant::PrimalInfeasible, true) => "family:primal-infeasible-illcond",
            (_, false) => "family:dual-infeasible",
            (_, true) => "family:dual-infeasible-illcond",
        });
        submit_solve(s, &p, &st, "c02");
        if k % 8 == 0 {
            submit_live_components(s, &p, &st);
        }
    }
    // feasible problems: whatever the verdict, an infeasibility status needs its certificate
    for _ in 0..s.budget(240, 3000) {
        let ill = s.rng.bool(0.5);
        let exotic = s.rng.bool(0.3);
        let infb = s.rng.bool(0.2);
        let p = plant(s, Plant::Feasible, exotic, ill, infb);
        let st = random_sets(s);
        submit_solve(s, &p, &st, "c02");
    }
    // re-solve histories on one solver object: feasible -> infeasible -> feasible ...;
    // certificate, NaN objectives and all reported figures after EVERY solve
    for k in 0..s.budget(300, 6000) {
        let h = plant_history(s, k % 4 == 0);
        let st = random_sets(s);
        submit_history(s, &h, &st, "c02,c03");
    }
    // infeasible problems with the objective scaled over many decades
    for k in 0..s.budget(150, 4000) {
        let kind = if k % 2 == 0 { Plant::PrimalInfeasible } else { Plant::DualInfeasible };
        let mut p = plant(s, kind, k % 3 == 0, false, false);
        let g = 10f64.powf(s.rng.uniform(-8.0, 8.0));
        p.P.nzval.iter_mut().for_each(|v| *v *= g);
        p.q.iter_mut().for_each(|v| *v *= g);
        let st = random_sets(s);
        s.count("family:infeasible-cost-scaled");
        submit_solve(s, &p, &st, "c02");
    }
    // the modelled functions on constructed inputs (correspondence + their own oracles)
    gen_components(s, 2.0);
}

fn main() {
    Session::from_args("C02", all_channels()).run(generate)
}
