//! C02 — infeasibility verdicts carry a valid Farkas-type certificate.
#[path = "common_kkt.rs"]
mod common_kkt;
use common_kkt::*;
use vharness::*;

fn generate(s: &mut Session) {
    // strongly infeasible plants (Farkas vectors), ill-conditioned variants, all scaling settings
    for k in 0..s.budget(1200, 15000) {
        let kind = if k % 2 == 0 { Plant::PrimalInfeasible } else { Plant::DualInfeasible };
        let exotic = k % 3 == 0;
        let illcond = k % 5 < 2;
        let p = plant(s, kind, exotic, illcond, false);
        let mut st = random_sets(s);
        if s.rng.bool(0.15) {
            // looser / tighter infeasibility tolerances
            st.tol[3] = *s.rng.choose(&[1e-6, 1e-10]);
            st.tol[4] = *s.rng.choose(&[1e-6, 1e-10]);
        }
        if s.rng.bool(0.1) {
            // a short iteration budget makes Almost*Infeasible verdicts reachable
            st.max_iter = 3 + s.rng.below(12) as u32;
        }
        s.count(match (kind, illcond) {
            (Plant::PrimalInfeasible, false) => "family:primal-infeasible",
            (Plant::PrimalInfeasible, true) => "family:primal-infeasible-illcond",
            (_, false) => "family:dual-infeasible",
            (_, true) => "family:dual-infeasible-illcond",
        });
        submit_solve(s, &p, &st, "c02");
        if k % 8 == 0 {
            submit_live_components(s, &p, &st);
        }
    }
    // feasible problems: whatever the verdict, an infeasibility status needs its certificate
    for _ in 0..s.budget(240, 3000) {
        let ill = s.rng.bool(0.5);
        let exotic = s.rng.bool(0.3);
        let infb = s.rng.bool(0.2);
        let p = plant(s, Plant::Feasible, exotic, ill, infb);
        let st = random_sets(s);
        submit_solve(s, &p, &st, "c02");
    }
    // re-solve histories on one solver object: feasible -> infeasible -> feasible ...;
    // certificate, NaN objectives and all reported figures after EVERY solve
    for k in 0..s.budget(300, 6000) {
        let h = plant_history(s, k % 4 == 0);
        let st = random_sets(s);
        submit_history(s, &h, &st, "c02,c03");
    }
    // infeasible problems with the objective scaled over many decades
    for k in 0..s.budget(150, 4000) {
        let kind = if k % 2 == 0 { Plant::PrimalInfeasible } else { Plant::DualInfeasible };
        let mut p = plant(s, kind, k % 3 == 0, false, false);
        let g = 10f64.powf(s.rng.uniform(-8.0, 8.0));
        p.P.nzval.iter_mut().for_each(|v| *v *= g);
        p.q.iter_mut().for_each(|v| *v *= g);
        let st = random_sets(s);
        s.count("family:infeasible-cost-scaled");
        submit_solve(s, &p, &st, "c02");
    }
    // the modelled functions on constructed inputs (correspondence + their own oracles)
    gen_components(s, 2.0);
}

fn main() {
    Session::from_args("C02", all_channels()).run(generate)
}
