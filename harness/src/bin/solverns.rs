//! Whole-solver correspondence with NONSYMMETRIC cones: `DefaultSolver::new` + `solve()` on
//! problems containing exponential / power / generalised power cones (next to zero /
//! nonnegative / second-order cones, QDLDL backend) against the composed Lean model
//! (`lean/ClarabelModel/SolverNS/*.lean`, driver `cm_solverns`), bit for bit.
//!
//!   solvens.setup   internal data after collapse / presolve / equilibration (scalar
//!                   rectification of the nonsymmetric cones), KKT matrix with dense 3×3 blocks
//!                   and the genpow sparse expansion, maps, dsigns          (`DefaultSolver::new`)
//!   solvens.init    iterate after `default_start()` (`unit_initialization`)
//!   solvens.full    every pass of the loop (x, s, z, τ, κ, μ, σ, α, info scalars, decisions,
//!                   scaling strategy per pass, the four strategy checkpoints, α_aff, σ, α after
//!                   the barrier backtracking) + the returned solution     (`solve()`)
//!   solvens.twice   the second `solve()` on the same object
//!   solvens.state   what `solve()` leaves in the object (last direction, rhs, prev_vars, KKT values)
//!                   and `variables.barrier` evaluated on it                (`DefaultVariables::barrier`)
//!
//! Like `solver.rs` this binary has no property oracle of its own; its oracles are self-checks
//! of the observer plus budget independence (C07) and solve-twice (C05) stated on the
//! implementation's own runs.
#![allow(non_snake_case)]
#![allow(clippy::too_many_arguments)]
#[path = "common_cones.rs"]
mod common_cones;
use clarabel::algebra::*;
use clarabel::solver::implementations::default::verif_problemdata;
use clarabel::solver::SupportedConeT::{self, *};
use clarabel::solver::*;
use clarabel::verif_hooks::observer::{self, Event};
use clarabel::verif_hooks::step;
use common_cones::*;
use vharness::proto::{fbs, ff, ffs, fus};
use vharness::*;

// ------------------------------------------------------------------------------------
// settings on the wire

#[derive(Clone, Debug)]
struct Sets {
    maxiter: u32,
    tols: [f64; 6],
    rtols: [f64; 6],
    msf: f64,
    minterm: f64,
    minsw: f64,
    bstep: f64,
    eq: bool,
    eqit: u32,
    eqmin: f64,
    eqmax: f64,
    sreg: bool,
    sregc: f64,
    sregp: f64,
    dyneps: f64,
    dyndelta: f64,
    ir: bool,
    irrel: f64,
    irabs: f64,
    irit: u32,
    irstop: f64,
    presolve: bool,
}

impl Default for Sets {
    fn default() -> Self {
        let d = DefaultSettings::<f64>::default();
        Sets {
            maxiter: d.max_iter,
            tols: [d.tol_gap_abs, d.tol_gap_rel, d.tol_feas, d.tol_infeas_abs, d.tol_infeas_rel, d.tol_ktratio],
            rtols: [
                d.reduced_tol_gap_abs,
                d.reduced_tol_gap_rel,
                d.reduced_tol_feas,
                d.reduced_tol_infeas_abs,
                d.reduced_tol_infeas_rel,
                d.reduced_tol_ktratio,
            ],
            msf: d.max_step_fraction,
            minterm: d.min_terminate_step_length,
            minsw: d.min_switch_step_length,
            bstep: d.linesearch_backtrack_step,
            eq: d.equilibrate_enable,
            eqit: d.equilibrate_max_iter,
            eqmin: d.equilibrate_min_scaling,
            eqmax: d.equilibrate_max_scaling,
            sreg: d.static_regularization_enable,
            sregc: d.static_regularization_constant,
            sregp: d.static_regularization_proportional,
            dyneps: d.dynamic_regularization_eps,
            dyndelta: d.dynamic_regularization_delta,
            ir: d.iterative_refinement_enable,
            irrel: d.iterative_refinement_reltol,
            irabs: d.iterative_refinement_abstol,
            irit: d.iterative_refinement_max_iter,
            irstop: d.iterative_refinement_stop_ratio,
            presolve: d.presolve_enable,
        }
    }
}

impl Sets {
    fn to_settings(&self) -> DefaultSettings<f64> {
        let mut s = DefaultSettings::<f64>::default();
        s.verbose = false;
        s.direct_solve_method = "qdldl".into();
        s.chordal_decomposition_enable = false;
        s.time_limit = f64::INFINITY;
        s.max_iter = self.maxiter;
        s.tol_gap_abs = self.tols[0];
        s.tol_gap_rel = self.tols[1];
        s.tol_feas = self.tols[2];
        s.tol_infeas_abs = self.tols[3];
        s.tol_infeas_rel = self.tols[4];
        s.tol_ktratio = self.tols[5];
        s.reduced_tol_gap_abs = self.rtols[0];
        s.reduced_tol_gap_rel = self.rtols[1];
        s.reduced_tol_feas = self.rtols[2];
        s.reduced_tol_infeas_abs = self.rtols[3];
        s.reduced_tol_infeas_rel = self.rtols[4];
        s.reduced_tol_ktratio = self.rtols[5];
        s.max_step_fraction = self.msf;
        s.min_terminate_step_length = self.minterm;
        s.min_switch_step_length = self.minsw;
        s.linesearch_backtrack_step = self.bstep;
        s.equilibrate_enable = self.eq;
        s.equilibrate_max_iter = self.eqit;
        s.equilibrate_min_scaling = self.eqmin;
        s.equilibrate_max_scaling = self.eqmax;
        s.static_regularization_enable = self.sreg;
        s.static_regularization_constant = self.sregc;
        s.static_regularization_proportional = self.sregp;
        s.dynamic_regularization_eps = self.dyneps;
        s.dynamic_regularization_delta = self.dyndelta;
        s.iterative_refinement_enable = self.ir;
        s.iterative_refinement_reltol = self.irrel;
        s.iterative_refinement_abstol = self.irabs;
        s.iterative_refinement_max_iter = self.irit;
        s.iterative_refinement_stop_ratio = self.irstop;
        s.presolve_enable = self.presolve;
        s
    }
    fn put(&self, l: Line) -> Line {
        l.u("maxiter", self.maxiter as usize)
            .fs("tols", &self.tols)
            .fs("rtols", &self.rtols)
            .f("msf", self.msf)
            .f("minterm", self.minterm)
            .f("minsw", self.minsw)
            .f("bstep", self.bstep)
            .b("eq", self.eq)
            .u("eqit", self.eqit as usize)
            .f("eqmin", self.eqmin)
            .f("eqmax", self.eqmax)
            .b("sreg", self.sreg)
            .f("sregc", self.sregc)
            .f("sregp", self.sregp)
            .f("dyneps", self.dyneps)
            .f("dyndelta", self.dyndelta)
            .b("ir", self.ir)
            .f("irrel", self.irrel)
            .f("irabs", self.irabs)
            .u("irit", self.irit as usize)
            .f("irstop", self.irstop)
            .b("presolve", self.presolve)
            .f("inf", clarabel::get_infinity())
            .f("maxval", f64::MAX)
    }
    fn parse(r: &Req) -> Sets {
        let t = r.fs("tols");
        let rt = r.fs("rtols");
        Sets {
            maxiter: r.u("maxiter") as u32,
            tols: [t[0], t[1], t[2], t[3], t[4], t[5]],
            rtols: [rt[0], rt[1], rt[2], rt[3], rt[4], rt[5]],
            msf: r.f("msf"),
            minterm: r.f("minterm"),
            minsw: r.f("minsw"),
            bstep: r.f("bstep"),
            eq: r.b("eq"),
            eqit: r.u("eqit") as u32,
            eqmin: r.f("eqmin"),
            eqmax: r.f("eqmax"),
            sreg: r.b("sreg"),
            sregc: r.f("sregc"),
            sregp: r.f("sregp"),
            dyneps: r.f("dyneps"),
            dyndelta: r.f("dyndelta"),
            ir: r.b("ir"),
            irrel: r.f("irrel"),
            irabs: r.f("irabs"),
            irit: r.u("irit") as u32,
            irstop: r.f("irstop"),
            presolve: r.b("presolve"),
        }
    }
}

#[derive(Clone, Debug)]
struct Prob {
    P: CscMatrix<f64>,
    q: Vec<f64>,
    A: CscMatrix<f64>,
    b: Vec<f64>,
    cones: Vec<SupportedConeT<f64>>,
}

fn put_prob(l: Line, p: &Prob) -> Line {
    l.csc("P", &p.P).fs("q", &p.q).csc("A", &p.A).fs("b", &p.b).s("cones", &fmt_cones(&p.cones))
}
fn parse_prob(r: &Req) -> Prob {
    Prob { P: r.csc("P"), q: r.fs("q"), A: r.csc("A"), b: r.fs("b"), cones: parse_cones(r.str("cones")) }
}

fn new_solver(p: &Prob, st: &Sets) -> DefaultSolver<f64> {
    DefaultSolver::new(&p.P, &p.q, &p.A, &p.b, &p.cones, st.to_settings())
}

fn perm_of(solver: &DefaultSolver<f64>) -> Vec<usize> {
    solver.kktsystem.verif_ldl_perm().expect("qdldl engine exposes its ordering")
}

/// request line of one channel; the ordering is read from a live solver built from the
/// same data (external input of the model)
fn request(chan: &str, p: &Prob, st: &Sets) -> Option<String> {
    let solver = std::panic::catch_unwind(std::panic::AssertUnwindSafe(|| new_solver(p, st))).ok()?;
    let perm = perm_of(&solver);
    Some(st.put(put_prob(Line::new(chan), p)).us("perm", &perm).done())
}

// ------------------------------------------------------------------------------------
// solvens.setup

fn run_setup(r: &Req) -> String {
    let (p, st) = (parse_prob(r), Sets::parse(r));
    let solver = new_solver(&p, &st);
    let d = &solver.data;
    let eq = &d.equilibration;
    let v = solver.kktsystem.verif_kkt_view().expect("kkt view");
    let keep = match verif_problemdata::presolve_map(d) {
        Some((k, _)) => fbs(&k),
        None => "-".to_string(),
    };
    let (nq, nb) = verif_problemdata::norms(d);
    let mut l = Line::out().u("n", d.n).u("m", d.m).s("cones", &fmt_cones(&d.cones)).s("keep", &keep);
    l = l.csc("P", &d.P).fs("q", &d.q);
    l = l.csc("A", &d.A).fs("b", &d.b);
    l = l.fs("d", &eq.d).fs("dinv", &eq.dinv).fs("e", &eq.e).fs("einv", &eq.einv).f("c", eq.c);
    l = l.f("normq", nq.unwrap_or(f64::NAN)).f("normb", nb.unwrap_or(f64::NAN));
    l = l.csc("K", &v.KKT);
    l = l.us("mapP", &v.map.P).us("mapA", &v.map.A).us("Hs", &v.map.Hsblocks);
    l = l.u("nsp", v.map.sparse_maps.len());
    for (i, sm) in v.map.sparse_maps.iter().enumerate() {
        use clarabel::verif_hooks::c11::PlainSparseMap::*;
        match sm {
            SOC { u, v, D } => {
                l = l.us(&format!("s{}u", i), u).us(&format!("s{}v", i), v).us(&format!("s{}D", i), D);
            }
            GenPow { p, q, r, D } => {
                l = l.us(&format!("s{}p", i), p).us(&format!("s{}q", i), q).us(&format!("s{}r", i), r).us(&format!("s{}D", i), D);
            }
        }
    }
    l = l.us("diagP", &v.map.diagP).us("diagfull", &v.map.diag_full).is("dsigns", &v.dsigns).u("p", v.p);
    use clarabel::verif_hooks::cones::Cone;
    l = l
        .b("sym", solver.cones.is_symmetric())
        .b("pd", solver.cones.allows_primal_dual_scaling())
        .u("deg", solver.cones.degree());
    l.us("perm", &perm_of(&solver)).done()
}

// ------------------------------------------------------------------------------------
// solvens.init

fn run_init(r: &Req) -> String {
    let (p, st) = (parse_prob(r), Sets::parse(r));
    let mut solver = new_solver(&p, &st);
    step::solver::default_start(&mut solver);
    let v = &solver.variables;
    let (_, _, x2, z2) = step::kktsystem::solve_vectors(&solver.kktsystem);
    let view = solver.kktsystem.verif_kkt_view().expect("kkt view");
    Line::out()
        .fs("x", &v.x)
        .fs("s", &v.s)
        .fs("z", &v.z)
        .f("tau", v.τ)
        .f("kappa", v.κ)
        .fs("x2", &x2)
        .fs("z2", &z2)
        .fs("K", &view.KKT.nzval)
        .f("reg", view.diagonal_regularizer)
        .done()
}


// ------------------------------------------------------------------------------------
// solvens.state

/// what `solve()` leaves inside the solver object — the last step direction and right-hand side,
/// `prev_vars`, the KKT values of the last update (Hs blocks of every cone, the genpow columns) —
/// and `variables.barrier(step_lhs, α, cones)` evaluated on that state for the requested `α`
/// (ascending; evaluation stops at the first panic, e.g. `_wright_omega` out of range)
fn run_state(r: &Req) -> String {
    use clarabel::solver::traits::Variables;
    let (p, st) = (parse_prob(r), Sets::parse(r));
    let alphas = r.fs("alphas");
    let mut solver = new_solver(&p, &st);
    solver.solve();
    let view = solver.kktsystem.verif_kkt_view().expect("kkt view");
    let mut bar = vec![];
    let mut bp = false;
    for a in &alphas {
        let res = std::panic::catch_unwind(std::panic::AssertUnwindSafe(|| {
            solver.variables.barrier(&solver.step_lhs, *a, &mut solver.cones)
        }));
        match res {
            Ok(v) => bar.push(v),
            Err(_) => {
                bp = true;
                break;
            }
        }
    }
    let (l, rh, pv) = (&solver.step_lhs, &solver.step_rhs, &solver.prev_vars);
    Line::out()
        .u("status", solver.solution.status as usize)
        .fs("lx", &l.x).fs("ls", &l.s).fs("lz", &l.z).f("ltau", l.τ).f("lkappa", l.κ)
        .fs("rx", &rh.x).fs("rs", &rh.s).fs("rz", &rh.z).f("rtau", rh.τ).f("rkappa", rh.κ)
        .fs("vx", &pv.x).fs("vs", &pv.s).fs("vz", &pv.z).f("vtau", pv.τ).f("vkappa", pv.κ)
        .fs("K", &view.KKT.nzval)
        .f("reg", view.diagonal_regularizer)
        .fs("bar", &bar)
        .b("bp", bp)
        .done()
}

// ------------------------------------------------------------------------------------
// solvens.full

fn status_u(name: &str) -> usize {
    match name {
        "Unsolved" => 0,
        "Solved" => 1,
        "PrimalInfeasible" => 2,
        "DualInfeasible" => 3,
        "AlmostSolved" => 4,
        "AlmostPrimalInfeasible" => 5,
        "AlmostDualInfeasible" => 6,
        "MaxIterations" => 7,
        "MaxTime" => 8,
        "NumericalError" => 9,
        "InsufficientProgress" => 10,
        other => panic!("unknown status {}", other),
    }
}

/// wire code of a `StrategyCheckpoint` (Debug rendering)
fn cp_code(name: &str) -> usize {
    match name {
        "NoUpdate" => 0,
        "Fail" => 1,
        "Update(Dual)" => 2,
        "Update(PrimalDual)" => 3,
        other => panic!("unknown checkpoint {}", other),
    }
}

fn is_infeasible_u(s: usize) -> bool {
    matches!(s, 2 | 3 | 5 | 6)
}

/// fields of a `Debug`-rendered tuple `(a, b, c)`
fn tuple_fields(v: &str) -> Vec<String> {
    let inner = v.strip_prefix('(').unwrap_or(v);
    let inner = inner.strip_suffix(')').unwrap_or(inner);
    inner.split(", ").map(|s| s.to_string()).collect()
}

fn bits_eq(a: &[f64], b: &[f64]) -> bool {
    a.len() == b.len() && a.iter().zip(b).all(|(x, y)| x.to_bits() == y.to_bits() || (x.is_nan() && y.is_nan()))
}

fn run_full(r: &Req) -> String {
    let (p, st) = (parse_prob(r), Sets::parse(r));
    let mut solver = new_solver(&p, &st);
    observe_solve(&mut solver)
}

/// `solve()` a second time on the same solver object (cone scalings, KKT factors, work vectors,
/// `prev_vars`, `info` of the first solve are the starting state of the second one)
fn run_twice(r: &Req) -> String {
    let (p, st) = (parse_prob(r), Sets::parse(r));
    let mut solver = new_solver(&p, &st);
    // the norm caches `data.normq` / `data.normb` BEFORE the first solve (request field `cm`):
    // 0 as `new` left them, 1 both cleared, 2 / 3 one of them cleared, 4 both holding the STALE values
    // `cqv`, `cbv`.  `DefaultInfo::update` calls `get_normq()` / `get_normb()` in every pass, which fill a
    // cleared cache and keep a filled one: the caches after each solve are part of the response.
    let cm = if r.has("cm") { r.u("cm") } else { 0 };
    {
        let (q0, b0) = verif_problemdata::norms(&solver.data);
        match cm {
            1 => verif_problemdata::set_norms(&mut solver.data, None, None),
            2 => verif_problemdata::set_norms(&mut solver.data, None, b0),
            3 => verif_problemdata::set_norms(&mut solver.data, q0, None),
            4 => verif_problemdata::set_norms(&mut solver.data, Some(r.f("cqv")), Some(r.f("cbv"))),
            _ => {}
        }
    }
    let (nq0, nb0) = verif_problemdata::norms(&solver.data);
    solver.solve();
    let (nq1, nb1) = verif_problemdata::norms(&solver.data);
    let f = &solver.solution;
    let (st1, it1, x1, s1, z1) = (f.status as usize, f.iterations, f.x.clone(), f.s.clone(), f.z.clone());
    let sc1 = [f.obj_val, f.obj_val_dual, f.r_prim, f.r_dual];
    let out = observe_solve(&mut solver);
    let g = &solver.solution;
    let same = st1 == g.status as usize
        && it1 == g.iterations
        && bits_eq(&x1, &g.x)
        && bits_eq(&s1, &g.s)
        && bits_eq(&z1, &g.z)
        && bits_eq(&sc1, &[g.obj_val, g.obj_val_dual, g.r_prim, g.r_dual]);
    let nn = |v: Option<f64>| ff(v.unwrap_or(f64::NAN));
    format!(
        "{} status1={} iterations1={} x1={} s1={} z1={} same={} nq0={} nb0={} nq1={} nb1={}",
        out, st1, it1, ffs(&x1), ffs(&s1), ffs(&z1), same as usize, nn(nq0), nn(nb0), nn(nq1), nn(nb1)
    )
}

/// run `solve()` under the observer and render every pass + the returned solution
fn observe_solve(solver: &mut DefaultSolver<f64>) -> String {
    let perm = perm_of(solver);
    observer::start();
    solver.solve();
    let ev = observer::take();

    let mut passes: Vec<&observer::IterSnapshot> = vec![];
    let (mut dbz, mut dqx) = (vec![], vec![]);
    let (mut pdone, mut pst) = (vec![], vec![]);
    let (mut pss, mut pdual, mut pks) = (vec![], vec![], vec![]);
    let (mut pip, mut pne, mut psm) = (vec![], vec![], vec![]);
    let (mut aaff, mut sig, mut alpha) = (vec![], vec![], vec![]);
    let mut rollback = false;
    for e in &ev {
        match e {
            Event::Pass(b) => passes.push(&**b),
            Event::Scalar("dot_bz", v) => dbz.push(*v),
            Event::Scalar("dot_qx", v) => dqx.push(*v),
            Event::Scalar("alpha_aff", v) => aaff.push(*v),
            Event::Scalar("sigma", v) => sig.push(*v),
            Event::Scalar("alpha", v) => alpha.push(*v),
            Event::Scalar(_, _) => {}
            Event::Flag("isdone", v) => {
                let f = tuple_fields(v);
                pdone.push(f[0] == "true");
                pst.push(status_u(&f[1]));
            }
            Event::Flag("scaling_success", v) => {
                let f = tuple_fields(v);
                pss.push(f[0] == "true");
                pdual.push(f[1] == "Dual");
            }
            Event::Flag("numerical_error", v) => {
                let f = tuple_fields(v);
                pks.push(f[0] == "true");
                pne.push(cp_code(&f[1]));
            }
            Event::Flag("small_step", v) => psm.push(cp_code(v)),
            Event::Flag("insufficient_progress", v) => {
                pip.push(cp_code(v));
                if v != "NoUpdate" {
                    rollback = true
                }
            }
            Event::Flag(_, _) => {}
        }
    }
    let cat = |f: &dyn Fn(&observer::IterSnapshot) -> &Vec<f64>| -> Vec<f64> {
        passes.iter().flat_map(|s| f(s).iter().copied()).collect()
    };
    let col = |f: &dyn Fn(&observer::IterSnapshot) -> f64| -> Vec<f64> { passes.iter().map(|s| f(s)).collect() };
    let its: Vec<usize> = passes.iter().map(|s| s.iterations as usize).collect();

    // provenance of the returned point: which recorded iterate does it un-scale?
    let eq = &solver.data.equilibration;
    let sol = &solver.solution;
    let st_u = sol.status as usize;
    let inf = is_infeasible_u(st_u);
    let mut prov = 99usize;
    for (k, ps) in passes.iter().rev().enumerate().take(3) {
        let scaleinv = if inf { 1.0 / ps.kappa } else { 1.0 / ps.tau };
        let cinv = 1.0 / eq.c;
        let x: Vec<f64> = ps.x.iter().zip(&eq.d).map(|(a, b)| (a * b) * scaleinv).collect();
        let z: Vec<f64> = ps.z.iter().zip(&eq.e).map(|(a, b)| (a * b) * (scaleinv * cinv)).collect();
        let s: Vec<f64> = ps.s.iter().zip(&eq.einv).map(|(a, b)| (a * b) * scaleinv).collect();
        if bits_eq(&x, &solver.variables.x) && bits_eq(&s, &solver.variables.s) && bits_eq(&z, &solver.variables.z) {
            prov = k;
            break;
        }
    }

    let mut out = String::new();
    let mut kv = |k: &str, v: String| {
        if !out.is_empty() {
            out.push(' ');
        }
        out.push_str(k);
        out.push('=');
        out.push_str(&v);
    };
    kv("np", passes.len().to_string());
    kv("px", ffs(&cat(&|s| &s.x)));
    kv("ps", ffs(&cat(&|s| &s.s)));
    kv("pz", ffs(&cat(&|s| &s.z)));
    kv("ptau", ffs(&col(&|s| s.tau)));
    kv("pkap", ffs(&col(&|s| s.kappa)));
    kv("pmu", ffs(&col(&|s| s.mu)));
    kv("psig", ffs(&col(&|s| s.sigma)));
    kv("pstep", ffs(&col(&|s| s.step_length)));
    kv("pit", fus(&its));
    kv("pcp", ffs(&col(&|s| s.cost_primal)));
    kv("pcd", ffs(&col(&|s| s.cost_dual)));
    kv("prp", ffs(&col(&|s| s.res_primal)));
    kv("prd", ffs(&col(&|s| s.res_dual)));
    kv("prpi", ffs(&col(&|s| s.res_primal_inf)));
    kv("prdi", ffs(&col(&|s| s.res_dual_inf)));
    kv("pga", ffs(&col(&|s| s.gap_abs)));
    kv("pgr", ffs(&col(&|s| s.gap_rel)));
    kv("pkt", ffs(&col(&|s| s.ktratio)));
    kv("pdbz", ffs(&dbz));
    kv("pdqx", ffs(&dqx));
    kv("pdone", fbs(&pdone));
    kv("pst", fus(&pst));
    kv("pip", fus(&pip));
    kv("pss", fbs(&pss));
    kv("pdual", fbs(&pdual));
    kv("pks", fbs(&pks));
    kv("pne", fus(&pne));
    kv("aaff", ffs(&aaff));
    kv("sig", ffs(&sig));
    kv("alpha", ffs(&alpha));
    kv("psm", fus(&psm));
    kv("status", st_u.to_string());
    kv("iterations", sol.iterations.to_string());
    kv("x", ffs(&sol.x));
    kv("s", ffs(&sol.s));
    kv("z", ffs(&sol.z));
    kv("obj", ff(sol.obj_val));
    kv("objd", ff(sol.obj_val_dual));
    kv("rp", ff(sol.r_prim));
    kv("rd", ff(sol.r_dual));
    kv("imu", ff(solver.info.μ));
    kv("isig", ff(solver.info.sigma));
    kv("istep", ff(solver.info.step_length));
    kv("perm", fus(&perm));
    kv("prov", prov.to_string());
    kv("rb", (rollback as usize).to_string());
    // the norm caches of the problem data after this solve (`get_normq` / `get_normb` filled them)
    let (nq, nb) = verif_problemdata::norms(&solver.data);
    kv("nq", ff(nq.unwrap_or(f64::NAN)));
    kv("nb", ff(nb.unwrap_or(f64::NAN)));
    out
}

fn oracle_full(r: &Req, out: &str) -> Result<(), String> {
    oracle_observer(r, out)?;
    oracle_strategy(r, out)?;
    oracle_prefix(r, out)
}

/// budget independence (C07) stated on the implementation's own runs: a run limited to
/// `max_iter = k` (small `k`) goes through exactly the first passes of a run of a fresh solver
/// with `max_iter = k + 3` — every recorded iterate `(x, s, z, τ, κ)` identical, bit for bit
fn oracle_prefix(r: &Req, out: &str) -> Result<(), String> {
    if out.starts_with("panic") || out.starts_with("err") {
        return Ok(());
    }
    let (p, mut st) = (parse_prob(r), Sets::parse(r));
    if st.maxiter > 5 {
        return Ok(());
    }
    st.maxiter += 3;
    let long = match std::panic::catch_unwind(std::panic::AssertUnwindSafe(|| {
        let mut solver = new_solver(&p, &st);
        observe_solve(&mut solver)
    })) {
        Ok(l) => l,
        Err(_) => return Ok(()),
    };
    let a = Req::parse(&format!("o {}", out)).ok_or("unparsable response")?;
    let b = Req::parse(&format!("o {}", long)).ok_or("unparsable response (long run)")?;
    let (na, nb) = (a.u("np"), b.u("np"));
    if nb < na {
        return Err(format!("the run with max_iter + 3 makes fewer passes ({}) than the run with max_iter ({})", nb, na));
    }
    for key in ["px", "ps", "pz", "ptau", "pkap"] {
        let (u, v) = (a.fs(key), b.fs(key));
        if na == 0 || u.len() % na != 0 {
            return Err(format!("observer: {} has {} entries for {} passes", key, u.len(), na));
        }
        if v.len() < u.len() || !bits_eq(&u, &v[..u.len()]) {
            return Err(format!("budget dependence: the first {} iterates ({}) of the run with max_iter = {} differ from those of the run with max_iter = {}", na, key, st.maxiter - 3, st.maxiter));
        }
    }
    Ok(())
}

/// self-check of the observer: event streams in step with the passes; without a rollback the
/// returned point is the un-scaling of the last recorded iterate
fn oracle_observer(_r: &Req, out: &str) -> Result<(), String> {
    if out.starts_with("panic") || out.starts_with("err") {
        return Ok(());
    }
    let o = Req::parse(&format!("o {}", out)).ok_or("unparsable response")?;
    let (prov, rb, np) = (o.u("prov"), o.u("rb"), o.u("np"));
    if np == 0 {
        return Err("no pass recorded".into());
    }
    if o.us("pit").len() != np || o.us("pst").len() != np || o.bs("pdone").len() != np {
        return Err("observer: pass / isdone events out of step".into());
    }
    let ndone = o.bs("pdone").iter().filter(|b| **b).count();
    if o.us("pip").len() != ndone {
        return Err("observer: insufficient_progress checkpoints out of step with isdone".into());
    }
    if o.bs("pss").len() != o.bs("pdual").len() || o.bs("pks").len() != o.us("pne").len() || o.fs("alpha").len() != o.us("psm").len() {
        return Err("observer: checkpoint events out of step".into());
    }
    // a NaN iterate is its own provenance problem (bit patterns of NaN payloads); skip
    let nan = o.fs("x").iter().chain(o.fs("s").iter()).chain(o.fs("z").iter()).any(|v| v.is_nan());
    if nan {
        return Ok(());
    }
    // after a rollback the returned point may be any earlier iterate (the strategy switches
    // `continue` without saving `prev_vars`); without one it is the last recorded iterate
    if rb == 0 && prov != 0 {
        return Err(format!("returned point is not the un-scaling of the last recorded iterate (prov={}, no rollback)", prov));
    }
    Ok(())
}

/// the scaling strategy only ever moves PrimalDual → Dual, at most once, and only at a
/// checkpoint that answered `Update(Dual)`
fn oracle_strategy(_r: &Req, out: &str) -> Result<(), String> {
    if out.starts_with("panic") || out.starts_with("err") {
        return Ok(());
    }
    let o = Req::parse(&format!("o {}", out)).ok_or("unparsable response")?;
    let pdual = o.bs("pdual");
    if pdual.windows(2).any(|w| w[0] && !w[1]) {
        return Err("scaling strategy went back from Dual to PrimalDual".into());
    }
    let updates = o.us("pip").iter().chain(o.us("pne").iter()).chain(o.us("psm").iter()).filter(|c| **c == 2).count();
    if updates > 1 {
        return Err(format!("{} checkpoints answered Update(Dual) in one solve", updates));
    }
    let switched = pdual.first().map(|f| !*f).unwrap_or(false) && pdual.last().copied().unwrap_or(false);
    if switched && updates == 0 {
        return Err("scaling strategy switched without a checkpoint asking for it".into());
    }
    if o.us("pip").iter().chain(o.us("pne").iter()).chain(o.us("psm").iter()).any(|c| *c == 3) {
        return Err("a checkpoint answered Update(PrimalDual)".into());
    }
    Ok(())
}

/// the second `solve()` on the same object: observer self-check, plus "the same solver solved
/// twice gives the same answer" (C05) stated on the implementation's own two runs.  No exemption is
/// left (`C05.ns_solve_idempotent_any_start`: every mutable buffer of the solver object, the cone
/// states and — since /repo 7c1c881 — the iterate after a failed initial KKT solve included, is dead):
/// whatever the status and the figures of the first solve, rollbacks and strategy switches included,
/// the second one reproduces it bit for bit.
fn oracle_twice(r: &Req, out: &str) -> Result<(), String> {
    oracle_observer(r, out)?;
    if out.starts_with("panic") || out.starts_with("err") {
        return Ok(());
    }
    let o = Req::parse(&format!("o {}", out)).ok_or("unparsable response")?;
    let (st1, st2) = (o.u("status1"), o.u("status"));
    if st1 != st2 {
        return Err(format!("second solve on the same solver ends with status {} (first: {})", st2, st1));
    }
    if o.u("iterations1") != o.u("iterations") {
        return Err(format!("second solve takes {} iterations (first: {})", o.u("iterations"), o.u("iterations1")));
    }
    // bit for bit (signed zeros included; NaN = NaN)
    for (a, b) in [("x1", "x"), ("s1", "s"), ("z1", "z")] {
        if !bits_eq(&o.fs(a), &o.fs(b)) {
            return Err(format!("second solve on the same solver returns a different {}", b));
        }
    }
    if o.u("same") != 1 {
        return Err("second solve on the same solver returns different objective / residual figures".into());
    }
    Ok(())
}

// ------------------------------------------------------------------------------------
// generators

fn dense_to_csc(d: &[Vec<f64>], m: usize, n: usize, triu: bool) -> CscMatrix<f64> {
    let mut colptr = vec![0usize];
    let mut rowval = vec![];
    let mut nzval = vec![];
    for c in 0..n {
        for r in 0..m {
            if triu && r > c {
                continue;
            }
            if d[r][c] != 0.0 {
                rowval.push(r);
                nzval.push(d[r][c]);
            }
        }
        colptr.push(rowval.len());
    }
    CscMatrix::new(m, n, colptr, rowval, nzval)
}

fn val(rng: &mut Rng, nice: bool) -> f64 {
    if nice {
        let v = rng.range(-4, 4) as f64;
        if v == 0.0 { 1.0 } else { v }
    } else {
        rng.normal()
    }
}

/// exponent tables of the generalised power cone that pass `|1 − Σα| < ε·len/2`
fn genpow_alpha(rng: &mut Rng, dim1: usize) -> Vec<f64> {
    let t1: [&[f64]; 1] = [&[1.0]];
    let t2: [&[f64]; 4] = [&[0.5, 0.5], &[0.25, 0.75], &[0.3, 0.7], &[0.875, 0.125]];
    let t3: [&[f64]; 4] = [&[0.125, 0.375, 0.5], &[0.75, 0.125, 0.125], &[0.2, 0.3, 0.5], &[0.25, 0.25, 0.5]];
    match dim1 {
        1 => t1[0].to_vec(),
        2 => t2[rng.below(t2.len())].to_vec(),
        _ => t3[rng.below(t3.len())].to_vec(),
    }
}

fn pow_alpha(rng: &mut Rng) -> f64 {
    if rng.bool(0.3) {
        rng.uniform(0.05, 0.95)
    } else {
        *rng.choose(&[0.5, 0.3, 0.75, 0.1, 0.9, 1.0 / 3.0])
    }
}

/// one cone of the given kind letter: z n q (2..=8) Q (5..=9, sparse expansion) e p g
fn cone_of(rng: &mut Rng, k: char) -> SupportedConeT<f64> {
    match k {
        'z' => ZeroConeT(1 + rng.below(3)),
        'n' => NonnegativeConeT(1 + rng.below(4)),
        'q' => SecondOrderConeT(2 + rng.below(3)),
        'Q' => SecondOrderConeT(5 + rng.below(5)),
        'e' => ExponentialConeT(),
        'p' => PowerConeT(pow_alpha(rng)),
        'g' => {
            let dim1 = if rng.bool(0.1) { 1 } else { 2 + rng.below(2) };
            GenPowerConeT(genpow_alpha(rng, dim1), 1 + rng.below(3))
        }
        c => panic!("unknown cone kind {}", c),
    }
}

/// random cone list over the given kinds; at least one cone of every kind in `must`
fn random_cones(rng: &mut Rng, kinds: &str, must: &str, mmax: usize, degenerate: bool) -> Vec<SupportedConeT<f64>> {
    let mut out: Vec<SupportedConeT<f64>> = must.chars().map(|k| cone_of(rng, k)).collect();
    let mut m: usize = out.iter().map(nvars).sum();
    let ks: Vec<char> = kinds.chars().collect();
    let extra = rng.below(3);
    for _ in 0..extra {
        let kk = *rng.choose(&ks);
        let c = cone_of(rng, kk);
        if m + nvars(&c) > mmax {
            continue;
        }
        m += nvars(&c);
        out.push(c);
        if degenerate && rng.bool(0.4) {
            // cones that `new_collapsed` removes or merges
            out.push(match rng.below(4) {
                0 => NonnegativeConeT(0),
                1 => ZeroConeT(0),
                2 => SecondOrderConeT(1),
                _ => NonnegativeConeT(1),
            });
            m += nvars(out.last().unwrap());
        }
    }
    rng.shuffle(&mut out);
    out
}

/// a point in the interior of the cone (`dual`: of its dual cone); zero cone: primal 0, dual free
fn interior(rng: &mut Rng, c: &SupportedConeT<f64>, dual: bool) -> Vec<f64> {
    match c {
        ZeroConeT(n) => (0..*n).map(|_| if dual { rng.normal() } else { 0.0 }).collect(),
        NonnegativeConeT(n) => (0..*n).map(|_| rng.uniform(0.2, 2.0)).collect(),
        SecondOrderConeT(n) => {
            if *n == 0 {
                return vec![];
            }
            let tail: Vec<f64> = (1..*n).map(|_| rng.normal()).collect();
            let nrm = tail.iter().map(|v| v * v).sum::<f64>().sqrt();
            let mut v = vec![nrm + rng.uniform(0.2, 2.0)];
            v.extend(tail);
            v
        }
        ExponentialConeT() => {
            if !dual {
                // s3 > s2·exp(s1/s2), s2 > 0
                let y = rng.uniform(0.3, 2.0);
                let x = rng.uniform(-1.5, 1.5);
                vec![x, y, y * (x / y).exp() + rng.uniform(0.2, 2.0)]
            } else {
                // z3 > −z1·exp(z2/z1 − 1), z1 < 0
                let u = -rng.uniform(0.3, 2.0);
                let v = rng.uniform(-1.5, 1.5);
                vec![u, v, -u * (v / u - 1.0).exp() + rng.uniform(0.2, 2.0)]
            }
        }
        PowerConeT(a) => {
            let (x, y) = (rng.uniform(0.3, 2.0), rng.uniform(0.3, 2.0));
            let t = rng.uniform(-0.8, 0.8);
            let bound = if dual { (x / a).powf(*a) * (y / (1.0 - a)).powf(1.0 - a) } else { x.powf(*a) * y.powf(1.0 - a) };
            vec![x, y, t * bound]
        }
        GenPowerConeT(al, d2) => {
            let u: Vec<f64> = al.iter().map(|_| rng.uniform(0.3, 2.0)).collect();
            let bound: f64 = al.iter().zip(&u).map(|(a, ui)| if dual { (ui / a).powf(*a) } else { ui.powf(*a) }).product();
            let dir: Vec<f64> = (0..*d2).map(|_| rng.normal()).collect();
            let nrm = dir.iter().map(|v| v * v).sum::<f64>().sqrt().max(1e-3);
            let t = rng.uniform(0.0, 0.8);
            let mut v = u;
            v.extend(dir.iter().map(|d| d / nrm * t * bound));
            v
        }
        _ => unreachable!(),
    }
}

#[derive(Clone, Copy, PartialEq)]
enum Plant {
    /// strictly feasible primal and dual (an optimum exists)
    Feasible,
    /// a contradictory pair of inequalities is appended
    PrimalInfeasible,
    /// one coordinate of a nonsymmetric cone is pinned outside the cone
    PinnedOutside,
    /// a free direction with negative cost
    DualInfeasible,
}

fn plant(rng: &mut Rng, kind: Plant, cones: Vec<SupportedConeT<f64>>, nmax: usize, qp: bool, nice: bool) -> Prob {
    let n = 1 + rng.below(nmax);
    let mut cones = cones;
    let m: usize = cones.iter().map(nvars).sum();
    let dens = rng.uniform(0.4, 0.95);
    let mut a = vec![vec![0.0; n]; m];
    for row in a.iter_mut() {
        for v in row.iter_mut() {
            if rng.bool(dens) {
                *v = val(rng, nice);
            }
        }
    }
    // P = G'G (PSD), sparse-ish, or 0
    let mut pd = vec![vec![0.0; n]; n];
    if qp {
        let k = 1 + rng.below(n);
        let g: Vec<Vec<f64>> = (0..k).map(|_| (0..n).map(|_| if rng.bool(0.5) { val(rng, nice) } else { 0.0 }).collect()).collect();
        for i in 0..n {
            for j in 0..n {
                pd[i][j] = (0..k).map(|t| g[t][i] * g[t][j]).sum();
            }
        }
    }
    let x0: Vec<f64> = (0..n).map(|_| val(rng, nice)).collect();
    // strictly feasible pair: s0 ∈ int K, z0 ∈ int K*
    let mut s0 = vec![];
    let mut z0 = vec![];
    for c in &cones {
        s0.extend(interior(rng, c, false));
        z0.extend(interior(rng, c, true));
    }
    let mut b: Vec<f64> = (0..m).map(|i| (0..n).map(|j| a[i][j] * x0[j]).sum::<f64>() + s0[i]).collect();
    let mut q: Vec<f64> = (0..n)
        .map(|j| -(0..m).map(|i| a[i][j] * z0[i]).sum::<f64>() - (0..n).map(|k| pd[j][k] * x0[k]).sum::<f64>())
        .collect();
    match kind {
        Plant::Feasible => {}
        Plant::PrimalInfeasible => {
            // add the contradictory pair  a'x ≤ -1,  -a'x ≤ -1  in a nonnegative cone
            let arow: Vec<f64> = (0..n).map(|_| val(rng, nice)).collect();
            a.push(arow.clone());
            a.push(arow.iter().map(|v| -v).collect());
            b.push(-1.0);
            b.push(-1.0);
            cones.push(NonnegativeConeT(2));
        }
        Plant::PinnedOutside => {
            // s = b − A x with a zero row of A: that slack is the constant b; choose it outside
            let mut i = 0;
            for c in &cones {
                let d = nvars(c);
                let pin = match c {
                    ExponentialConeT() => Some(i + 1),            // s2 = −1 (needs s2 > 0)
                    PowerConeT(_) => Some(i + rng.below(2)),      // s1 or s2 = −1
                    GenPowerConeT(_, _) => Some(i),               // u1 = −1
                    _ => None,
                };
                if let Some(r) = pin {
                    for v in a[r].iter_mut() {
                        *v = 0.0;
                    }
                    b[r] = -1.0;
                    break;
                }
                i += d;
            }
        }
        Plant::DualInfeasible => {
            // a direction d with A d = 0 (a zeroed column) and q'd < 0
            let j = rng.below(n);
            for row in a.iter_mut() {
                row[j] = 0.0;
            }
            for k in 0..n {
                pd[j][k] = 0.0;
                pd[k][j] = 0.0;
            }
            q[j] = -1.0 - rng.unit();
        }
    }
    Prob { P: dense_to_csc(&pd, n, n, true), q, A: dense_to_csc(&a, a.len(), n, false), b, cones }
}

/// set some right-hand sides of nonnegative rows to (beyond) the infinity bound
fn add_infinite_bounds(rng: &mut Rng, p: &mut Prob) {
    let mut i = 0;
    for c in &p.cones {
        let d = nvars(c);
        if let NonnegativeConeT(_) = c {
            for k in 0..d {
                if rng.bool(0.4) {
                    p.b[i + k] = *rng.choose(&[1e20, 2e20, f64::INFINITY]);
                }
            }
        }
        i += d;
    }
}

fn random_sets(rng: &mut Rng, level: usize) -> Sets {
    // level 0: every optional feature off; higher levels switch features on one at a time
    let mut st = Sets::default();
    st.eq = false;
    st.presolve = false;
    st.ir = false;
    st.sreg = false;
    if level >= 1 {
        st.sreg = rng.bool(0.8);
    }
    if level >= 2 {
        st.ir = rng.bool(0.7);
    }
    if level >= 3 {
        st.eq = rng.bool(0.7);
    }
    if level >= 4 {
        st.presolve = rng.bool(0.7);
    }
    if level >= 5 {
        // the numeric knobs
        if rng.bool(0.25) {
            st.maxiter = *rng.choose(&[0u32, 1, 2, 3, 5, 8, 15]);
        }
        if rng.bool(0.3) {
            let t = *rng.choose(&[1e-3, 1e-5, 1e-10, 1e-12]);
            st.tols = [t, t, t, t, t, st.tols[5]];
        }
        if rng.bool(0.2) {
            st.eqit = *rng.choose(&[0u32, 1, 3, 10]);
        }
        if rng.bool(0.2) {
            st.irit = *rng.choose(&[0u32, 1, 2, 10]);
            st.irstop = *rng.choose(&[1.0, 2.0, 5.0]);
            st.irabs = *rng.choose(&[1e-12, 1e-16, 0.0]);
        }
        if rng.bool(0.2) {
            st.sregc = *rng.choose(&[1e-8, 1e-6, 0.0]);
            st.sregp = *rng.choose(&[f64::EPSILON * f64::EPSILON, 1e-10]);
        }
        if rng.bool(0.15) {
            st.dyneps = *rng.choose(&[1e-13, 1e-6]);
            st.dyndelta = *rng.choose(&[2e-7, 1e-4]);
        }
        if rng.bool(0.2) {
            st.msf = *rng.choose(&[0.99, 0.9, 0.5]);
        }
        if rng.bool(0.15) {
            st.minterm = *rng.choose(&[1e-4, 1e-2, 0.2]);
        }
        if rng.bool(0.25) {
            st.minsw = *rng.choose(&[0.1, 0.3, 0.6, 0.95, 0.0]);
        }
        if rng.bool(0.2) {
            st.bstep = *rng.choose(&[0.8, 0.5, 0.9, 0.3]);
        }
    }
    st
}

/// settings that push the run into the strategy switches: tolerances below what the arithmetic
/// can deliver (the loop runs until a checkpoint fires) and / or a high switch threshold
fn stress_sets(rng: &mut Rng, k: usize) -> Sets {
    let mut st = random_sets(rng, 1 + k % 4);
    let t = *rng.choose(&[1e-13, 1e-15, 1e-17, 0.0]);
    st.tols = [t, t, t, t, t, st.tols[5]];
    if k % 3 == 0 {
        st.rtols = [t, t, t, t, t, st.rtols[5]];
    }
    match k % 5 {
        0 => st.minsw = 0.1,
        1 => st.minsw = 0.5,
        2 => st.minsw = 0.9,
        3 => st.minsw = 0.99,
        _ => {
            st.minsw = 0.0;
            st.minterm = *rng.choose(&[1e-4, 1e-3, 0.05]);
        }
    }
    if k % 4 == 1 {
        st.bstep = *rng.choose(&[0.5, 0.9]);
    }
    if k % 7 == 3 {
        st.maxiter = 60;
    }
    if k % 6 == 5 {
        // no static regularisation, no refinement: the factorisation breaks down near the
        // boundary in a late pass (numerical-error checkpoint under PrimalDual with α ≠ 0)
        st.sreg = false;
        st.ir = false;
        st.dyneps = *rng.choose(&[1e-13, 1e-20]);
    }
    st
}

fn submit_all(s: &mut Session, p: &Prob, st: &Sets, stages: bool, twice: bool) {
    if let Some(line) = request("solvens.full", p, st) {
        if stages {
            s.submit(line.replacen("solvens.full", "solvens.setup", 1));
            s.submit(line.replacen("solvens.full", "solvens.init", 1));
        }
        if stages || twice {
            // the state left behind + barrier values along the last step direction
            let alphas = [0.0, 0.01, 0.1, 0.3, 0.6, 0.9, 0.99, 1.0];
            let o = s.submit(format!("{} alphas={}", line.replacen("solvens.full", "solvens.state", 1), ffs(&alphas)));
            if let Some(r) = Req::parse(&format!("o {}", o)) {
                if r.has("bar") {
                    for v in r.fs("bar") {
                        s.count(if v.is_nan() {
                            "barrier:nan"
                        } else if v.is_infinite() {
                            "barrier:infinite"
                        } else if v < 1.0 {
                            "barrier:finite<1"
                        } else {
                            "barrier:finite>=1"
                        });
                    }
                    if r.b("bp") {
                        s.count("barrier:panic");
                    }
                }
            }
        }
        if twice {
            // the state of the two norm caches before the first solve (see `run_twice`)
            let cm = [0usize, 0, 1, 1, 2, 3, 4, 4][s.rng.below(8)];
            let (cqv, cbv) = (s.rng.range(0, 4000) as f64 / 64.0, s.rng.range(0, 4000) as f64 / 64.0);
            let out2 = s.submit(format!(
                "{} cm={} cqv={} cbv={}",
                line.replacen("solvens.full", "solvens.twice", 1),
                cm,
                ff(cqv),
                ff(cbv)
            ));
            s.count(&format!("twice:caches-mode-{}", cm));
            if let Some(r) = Req::parse(&format!("o {}", out2)) {
                if r.has("same") {
                    s.count(if r.u("same") == 1 { "twice:bit-identical" } else { "twice:differs" });
                }
            }
        }
        let out = s.submit(line);
        if let Some(r) = Req::parse(&format!("o {}", out)) {
            if r.has("status") {
                s.count(&format!("status:{}", r.u("status")));
                s.count(&format!("passes:{}", r.u("np").min(60) / 5 * 5));
                let pdual = r.bs("pdual");
                if !pdual.is_empty() {
                    s.count(if pdual[0] { "start:dual" } else { "start:primal-dual" });
                }
                for (key, name) in [("pip", "insufficient_progress"), ("pne", "numerical_error"), ("psm", "small_step")] {
                    for c in r.us(key) {
                        if c != 0 {
                            s.count(&format!("checkpoint:{}:{}", name, if c == 1 { "Fail" } else { "Update(Dual)" }));
                        }
                    }
                }
                if r.bs("pss").iter().any(|b| !*b) {
                    s.count("checkpoint:scaling_failure");
                }
                if r.u("rb") == 1 {
                    s.count(&format!("rollback:prov{}", r.u("prov")));
                }
                // barrier backtracking: a combined step under Dual that is not msf² · (a backtrack-free value)
                // is not observable directly; count the passes that ran under Dual instead
                s.count(&format!("dual-passes:{}", pdual.iter().filter(|b| **b).count().min(20) / 5 * 5));
            }
        } else if out.starts_with("panic") {
            s.count("solve-panic");
        }
    } else {
        s.count("construct-panic");
    }
}

fn generate(s: &mut Session) {
    let mut rng = s.rng.fork();
    let nmax = if s.thorough() { 12 } else { 6 };
    let mmax = if s.thorough() { 36 } else { 20 };
    // (family name, kinds to draw extra cones from, kinds that must be present, quick, thorough)
    let families: [(&str, &str, &str, usize, usize); 9] = [
        ("pure-exp", "e", "e", 14, 150),
        ("pure-pow", "p", "p", 14, 150),
        ("exp-nn-zero", "enz", "enz", 12, 150),
        ("pow-soc-small", "pq", "pq", 10, 120),
        ("pow-soc-large", "pQ", "pQ", 10, 120),
        ("genpow", "g", "g", 16, 200),
        ("genpow-nn", "gnz", "gn", 8, 100),
        ("mixed-all", "znqQepg", "epg", 14, 200),
        ("mixed-all-sym", "znqQepg", "epgnq", 8, 120),
    ];
    // stage 1: feasible problems, features switched on level by level
    for (name, kinds, must, quick, thorough) in families {
        for k in 0..s.budget(quick, thorough) {
            let cones = random_cones(&mut rng, kinds, must, mmax, k % 5 == 4);
            let p = plant(&mut rng, Plant::Feasible, cones, nmax, k % 3 == 2, k % 2 == 0);
            let st = if k % 6 == 5 { Sets::default() } else { random_sets(&mut rng, k % 6) };
            s.count(&format!("family:{}", name));
            submit_all(s, &p, &st, k % 3 == 0, k % 2 == 0);
        }
    }
    // stage 2: infeasible / unbounded variants
    for k in 0..s.budget(36, 400) {
        let kind = match k % 3 {
            0 => Plant::PrimalInfeasible,
            1 => Plant::DualInfeasible,
            _ => Plant::PinnedOutside,
        };
        let kinds = ["e", "p", "g", "enz", "pq", "znqQepg"][(k / 3) % 6];
        let must = ["e", "p", "g", "en", "pq", "epg"][(k / 3) % 6];
        let cones = random_cones(&mut rng, kinds, must, mmax, false);
        let p = plant(&mut rng, kind, cones, nmax, k % 4 == 0, k % 2 == 0);
        let st = random_sets(&mut rng, 1 + k % 5);
        s.count(match kind {
            Plant::PrimalInfeasible => "family:primal-infeasible",
            Plant::DualInfeasible => "family:dual-infeasible",
            _ => "family:pinned-outside",
        });
        submit_all(s, &p, &st, false, k % 3 == 0);
    }
    // stage 3: tolerances beyond reach / high switch thresholds: PrimalDual → Dual switches,
    // insufficient-progress rollbacks, small-step and numerical-error exits, barrier backtracking
    for k in 0..s.budget(60, 600) {
        let kinds = ["e", "p", "ep", "enz", "pq", "znqQepg", "g", "gn"][k % 8];
        let must = ["e", "p", "ep", "en", "pq", "ep", "g", "gn"][k % 8];
        let cones = random_cones(&mut rng, kinds, must, mmax, false);
        let p = plant(&mut rng, Plant::Feasible, cones, nmax, k % 4 == 1, k % 2 == 0);
        let st = stress_sets(&mut rng, k);
        s.count("family:stress");
        submit_all(s, &p, &st, false, k % 2 == 0);
    }
    // stage 4: small iteration budgets 0..=5 on one problem each (every run is compared with the
    // model bit for bit, and `oracle_prefix` compares it with a longer run of the implementation)
    for k in 0..s.budget(8, 100) {
        let kinds = ["e", "p", "g", "znqQepg"][k % 4];
        let must = ["e", "p", "g", "epg"][k % 4];
        let cones = random_cones(&mut rng, kinds, must, mmax, false);
        let p = plant(&mut rng, Plant::Feasible, cones, nmax, k % 3 == 0, k % 2 == 0);
        let mut st = random_sets(&mut rng, 4);
        if k % 2 == 1 {
            st.minsw = 0.9;
        }
        for budget in 0..=5u32 {
            st.maxiter = budget;
            s.count("family:small-budget");
            // budget 0: the state channel sees the start point itself (barrier of the unit
            // initialization along a zero direction: `w = 0` in every generalised power cone)
            submit_all(s, &p, &st, budget == 0, budget % 2 == 1);
        }
    }
    // stage 5: infinite bounds on nonnegative rows next to nonsymmetric cones (presolve on / off),
    // extreme magnitudes (overflow → NaN / ∞ paths through logsafe, exp, powf)
    for k in 0..s.budget(20, 300) {
        let cones = random_cones(&mut rng, "enpgz", "n", mmax, k % 4 == 0);
        let has_ns = cones.iter().any(|c| matches!(c, ExponentialConeT() | PowerConeT(_) | GenPowerConeT(_, _)));
        let cones = if has_ns { cones } else { [cones, vec![ExponentialConeT()]].concat() };
        let mut p = plant(&mut rng, Plant::Feasible, cones, nmax, k % 3 == 0, true);
        let mut st = random_sets(&mut rng, 5);
        if k % 2 == 0 {
            add_infinite_bounds(&mut rng, &mut p);
            st.presolve = k % 4 != 0;
            s.count("family:infinite-bounds");
        } else {
            let f = *rng.choose(&[1e150, 1e-150, 1e300, 1e-300, 1e20, 1e-20]);
            match rng.below(3) {
                0 => p.b.iter_mut().for_each(|v| *v *= f),
                1 => p.q.iter_mut().for_each(|v| *v *= f),
                _ => p.A.nzval.iter_mut().for_each(|v| *v *= f),
            }
            s.count("family:extreme-magnitude");
        }
        submit_all(s, &p, &st, true, k % 2 == 0);
    }
    // stage 6: symmetric-only problems through the same model (the nonsymmetric model is a
    // superset: `default_start` takes the KKT path, no strategy switch is possible)
    for k in 0..s.budget(10, 150) {
        let cones = random_cones(&mut rng, "znqQ", "n", mmax, k % 3 == 0);
        let p = plant(&mut rng, Plant::Feasible, cones, nmax, k % 2 == 0, k % 2 == 1);
        let st = random_sets(&mut rng, 1 + k % 5);
        s.count("family:symmetric-only");
        submit_all(s, &p, &st, k % 2 == 0, true);
    }
}

fn channels() -> Vec<Channel> {
    vec![
        Channel {
            name: "solvens.setup",
            tol: Tol::Exact,
            run: run_setup,
            oracle: None,
            modelled: true,
            rust_fn: "DefaultSolver::new with exponential / power / generalised power cones (collapse, presolve, equilibrate + scalar rectification, DirectLDLKKTSolver::new with dense 3x3 blocks and the genpow sparse expansion)",
            lean: "SolverNS.SolverSt.new, SolverNS.internalData, SolverNS.kktSolverNew",
        },
        Channel {
            name: "solvens.init",
            tol: Tol::Exact,
            run: run_init,
            oracle: None,
            modelled: true,
            rust_fn: "IPSolverInternals::default_start (unit_initialization when a nonsymmetric cone is present, else the KKT start)",
            lean: "SolverNS.SolverSt.defaultStart, SolverNS.varsUnitInitialization",
        },
        Channel {
            name: "solvens.full",
            tol: Tol::Exact,
            run: run_full,
            oracle: Some(oracle_full),
            modelled: true,
            rust_fn: "DefaultSolver::new + IPSolver::solve with nonsymmetric cones (whole trajectory: scaling strategy, four strategy checkpoints, get_step_length with backtrack_step_to_barrier, combined_ds_shift) + DefaultSolution",
            lean: "SolverNS.Solver.solve, SolverNS.pass, SolverNS.runLoop, SolverNS.getStepLength, SolverNS.barrier",
        },
        Channel {
            name: "solvens.state",
            tol: Tol::Exact,
            run: run_state,
            oracle: None,
            modelled: true,
            rust_fn: "state after IPSolver::solve (step_lhs, step_rhs, prev_vars, KKT values of the last update) + DefaultVariables::barrier / CompositeCone::compute_barrier (all six cone kinds) on it",
            lean: "SolverNS.barrier, SolverNS.computeBarrier, SolverNS.nnBarrier, SolverNS.socBarrier, SolverNS.kktSolverUpdate",
        },
        Channel {
            name: "solvens.twice",
            tol: Tol::Exact,
            run: run_twice,
            oracle: Some(oracle_twice),
            modelled: true,
            rust_fn: "DefaultSolver::new + IPSolver::solve twice on the same object, nonsymmetric cones (second trajectory) + DefaultSolution",
            lean: "SolverNS.Solver.solve ∘ SolverNS.Solver.solve / C05.ns_solve_idempotent_any_start",
        },
    ]
}

fn main() {
    Session::from_args("SOLVERNS", channels()).run(generate)
}
