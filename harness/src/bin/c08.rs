//! C08 — updating problem data in place is equivalent to rebuilding the solver.
//!
//! Channel `upd.seq`: a history of update / solve operations applied to a real
//! `DefaultSolver`; after every operation the `Result`, the internal data, the norm caches
//! and the KKT / LDL values at the `map.P` / `map.A` positions are rendered and compared
//! with the Lean model (`ClarabelModel/Update.lean`) started from the same internal state.
//! The oracle re-runs the history on a second solver and states the property directly.
#![allow(non_snake_case)]
#[path = "common_cones.rs"]
mod common_cones;
#[path = "c08_solve.rs"]
mod c08_solve;
use clarabel::algebra::*;
use clarabel::solver::*;
use std::iter::zip;
use vharness::proto::{ff, ffs, fus, parse_f};
use vharness::*;

// ---------------------------------------------------------------- argument forms

#[derive(Clone, Debug)]
enum VArg {
    Empty0,
    Slice(Vec<f64>),
    Pairs(Vec<usize>, Vec<f64>),
}
#[derive(Clone, Debug)]
enum MArg {
    Empty0,
    Slice(Vec<f64>),
    Matrix(CscMatrix<f64>),
    Pairs(Vec<usize>, Vec<f64>),
}

// the wrappers dispatch to the crate's own trait impls ([T;0], Vec<T>, [T], CscMatrix,
// Zip<Iter,Iter>, (Vec<usize>,Vec<T>)); which of two equivalent impls is used depends on
// the parity of the length so that all six are exercised.
impl VectorProblemDataUpdate<f64> for VArg {
    fn update_vector(&self, v: &mut [f64], vscale: &[f64], cscale: Option<f64>) -> Result<(), SparseFormatError> {
        match self {
            VArg::Empty0 => {
                let e: [f64; 0] = [];
                e.update_vector(v, vscale, cscale)
            }
            VArg::Slice(d) => {
                if d.len() % 2 == 0 {
                    d.update_vector(v, vscale, cscale)
                } else {
                    <[f64] as VectorProblemDataUpdate<f64>>::update_vector(d.as_slice(), v, vscale, cscale)
                }
            }
            VArg::Pairs(i, x) => {
                if i.len() % 2 == 0 {
                    zip(i.iter(), x.iter()).update_vector(v, vscale, cscale)
                } else {
                    (i.clone(), x.clone()).update_vector(v, vscale, cscale)
                }
            }
        }
    }
}
impl MatrixProblemDataUpdate<f64> for MArg {
    fn update_matrix(&self, M: &mut CscMatrix<f64>, l: &[f64], r: &[f64], c: Option<f64>) -> Result<(), SparseFormatError> {
        match self {
            MArg::Empty0 => {
                let e: [f64; 0] = [];
                e.update_matrix(M, l, r, c)
            }
            MArg::Slice(d) => {
                if d.len() % 2 == 0 {
                    d.update_matrix(M, l, r, c)
                } else {
                    <[f64] as MatrixProblemDataUpdate<f64>>::update_matrix(d.as_slice(), M, l, r, c)
                }
            }
            MArg::Matrix(U) => U.update_matrix(M, l, r, c),
            MArg::Pairs(i, x) => {
                if i.len() % 2 == 0 {
                    zip(i.iter(), x.iter()).update_matrix(M, l, r, c)
                } else {
                    (i.clone(), x.clone()).update_matrix(M, l, r, c)
                }
            }
        }
    }
}

#[derive(Clone, Debug)]
enum Op {
    P(MArg),
    Q(VArg),
    A(MArg),
    B(VArg),
    D(MArg, VArg, MArg, VArg),
    Solve,
    Norms,
}

fn enc_v(a: &VArg) -> String {
    match a {
        VArg::Empty0 => "e".into(),
        VArg::Slice(v) => format!("s:{}", ffs(v)),
        VArg::Pairs(i, v) => format!("p:{}:{}", fus(i), ffs(v)),
    }
}
fn enc_m(a: &MArg) -> String {
    match a {
        MArg::Empty0 => "e".into(),
        MArg::Slice(v) => format!("s:{}", ffs(v)),
        MArg::Pairs(i, v) => format!("p:{}:{}", fus(i), ffs(v)),
        MArg::Matrix(m) => format!("m:{}:{}:{}:{}:{}", m.m, m.n, fus(&m.colptr), fus(&m.rowval), ffs(&m.nzval)),
    }
}
fn enc_op(o: &Op) -> String {
    match o {
        Op::P(a) => format!("P:{}", enc_m(a)),
        Op::A(a) => format!("A:{}", enc_m(a)),
        Op::Q(a) => format!("Q:{}", enc_v(a)),
        Op::B(a) => format!("B:{}", enc_v(a)),
        Op::D(p, q, a, b) => format!("D:{};{};{};{}", enc_m(p), enc_v(q), enc_m(a), enc_v(b)),
        Op::Solve => "S1".into(),
        Op::Norms => "N".into(),
    }
}
fn list<T>(s: &str, f: impl Fn(&str) -> T) -> Vec<T> {
    if s.is_empty() { vec![] } else { s.split(',').map(f).collect() }
}
fn dec_fs(s: &str) -> Vec<f64> {
    list(s, |t| parse_f(t).expect("float"))
}
fn dec_us(s: &str) -> Vec<usize> {
    list(s, |t| t.parse().expect("usize"))
}
fn dec_v(s: &str) -> VArg {
    let p: Vec<&str> = s.split(':').collect();
    match p[0] {
        "e" => VArg::Empty0,
        "s" => VArg::Slice(dec_fs(p[1])),
        "p" => VArg::Pairs(dec_us(p[1]), dec_fs(p[2])),
        _ => panic!("vec arg"),
    }
}
fn dec_m(s: &str) -> MArg {
    let p: Vec<&str> = s.split(':').collect();
    match p[0] {
        "e" => MArg::Empty0,
        "s" => MArg::Slice(dec_fs(p[1])),
        "p" => MArg::Pairs(dec_us(p[1]), dec_fs(p[2])),
        "m" => MArg::Matrix(CscMatrix {
            m: p[1].parse().unwrap(),
            n: p[2].parse().unwrap(),
            colptr: dec_us(p[3]),
            rowval: dec_us(p[4]),
            nzval: dec_fs(p[5]),
        }),
        _ => panic!("mat arg"),
    }
}
fn dec_op(s: &str) -> Op {
    if s == "S1" {
        return Op::Solve;
    }
    if s == "N" {
        return Op::Norms;
    }
    let (k, rest) = s.split_at(2);
    match k {
        "P:" => Op::P(dec_m(rest)),
        "A:" => Op::A(dec_m(rest)),
        "Q:" => Op::Q(dec_v(rest)),
        "B:" => Op::B(dec_v(rest)),
        "D:" => {
            let p: Vec<&str> = rest.split(';').collect();
            Op::D(dec_m(p[0]), dec_v(p[1]), dec_m(p[2]), dec_v(p[3]))
        }
        _ => panic!("op"),
    }
}

// ---------------------------------------------------------------- problems

#[derive(Clone, Debug)]
struct Prob {
    P: CscMatrix<f64>,
    q: Vec<f64>,
    A: CscMatrix<f64>,
    b: Vec<f64>,
    cones: Vec<SupportedConeT<f64>>,
    equil: bool,
    presolve: bool,
    chordal: bool,
    /// module-level infinity bound in force while the solver is built (0 = the default 1e20)
    inf: f64,
}

fn enc_cones(c: &[SupportedConeT<f64>]) -> String {
    let v: Vec<String> = c
        .iter()
        .map(|c| match c {
            SupportedConeT::ZeroConeT(k) => format!("z{}", k),
            SupportedConeT::NonnegativeConeT(k) => format!("n{}", k),
            SupportedConeT::SecondOrderConeT(k) => format!("s{}", k),
            SupportedConeT::ExponentialConeT() => "e".to_string(),
            SupportedConeT::PSDTriangleConeT(k) => format!("t{}", k),
            _ => panic!("cone kind not used here"),
        })
        .collect();
    v.join(",")
}
fn dec_cones(s: &str) -> Vec<SupportedConeT<f64>> {
    list(s, |t| {
        let (k, n) = t.split_at(1);
        match k {
            "z" => SupportedConeT::ZeroConeT(n.parse().unwrap()),
            "n" => SupportedConeT::NonnegativeConeT(n.parse().unwrap()),
            "s" => SupportedConeT::SecondOrderConeT(n.parse().unwrap()),
            "e" => SupportedConeT::ExponentialConeT(),
            "t" => SupportedConeT::PSDTriangleConeT(n.parse().unwrap()),
            _ => panic!("cone"),
        }
    })
}

fn prob_of_req(r: &Req) -> Prob {
    Prob {
        P: r.csc("uP"),
        q: r.fs("uq"),
        A: r.csc("uA"),
        b: r.fs("ub"),
        cones: dec_cones(r.str("cones")),
        equil: r.b("equil"),
        presolve: r.b("presolve"),
        chordal: r.b("chordal"),
        inf: if r.has("inf") { r.f("inf") } else { 0.0 },
    }
}

fn settings_of(p: &Prob) -> DefaultSettings<f64> {
    let mut s = DefaultSettings::<f64>::default();
    s.verbose = false;
    s.equilibrate_enable = p.equil;
    s.presolve_enable = p.presolve;
    s.chordal_decomposition_enable = p.chordal;
    s.direct_solve_method = "qdldl".to_string();
    s
}

fn build(p: &Prob) -> DefaultSolver<f64> {
    // the module-level bound stays in force until the next build: the operations of a history
    // run under the bound the solver was built with
    clarabel::default_infinity();
    if p.inf > 0.0 {
        clarabel::set_infinity(p.inf);
    }
    DefaultSolver::new(&p.P, &p.q, &p.A, &p.b, &p.cones, settings_of(p))
}

/// which guard of `check_data_update_allowed` is active (probed on a throw-away instance)
fn guard_flags(p: &Prob) -> (bool, bool) {
    let mut probe = build(p);
    match probe.update_q(&VArg::Empty0) {
        Ok(()) => (false, false),
        Err(DataUpdateError::PresolveIsActive) => (true, false),
        Err(DataUpdateError::ChordalDecompositionIsActive) => (false, true),
        Err(e) => panic!("unexpected guard error {:?}", e),
    }
}

fn opt(x: Option<f64>) -> String {
    match x {
        None => "none".into(),
        Some(v) => ff(v),
    }
}

/// the internal state the model starts from
fn state_line(mut l: Line, s: &DefaultSolver<f64>, flags: (bool, bool)) -> Line {
    let k = s.kktsystem.verif_c08_kkt_state().expect("kkt state");
    let (nq, nb) = s.data.verif_c08_norm_caches();
    let eq = &s.data.equilibration;
    l = l
        .csc("P", &s.data.P)
        .fs("q", &s.data.q)
        .csc("A", &s.data.A)
        .fs("b", &s.data.b)
        .fs("d", &eq.d)
        .fs("dinv", &eq.dinv)
        .fs("e", &eq.e)
        .fs("einv", &eq.einv)
        .f("c", eq.c)
        .s("normq", &opt(nq))
        .s("normb", &opt(nb))
        .b("presolved", flags.0)
        .b("decomposed", flags.1)
        .fs("kkt", &k.kkt_nzval)
        .us("mapP", &k.map_P)
        .us("mapA", &k.map_A)
        .us("diag", &k.map_diag_full)
        .fs("ldl", k.ldl_nzval.as_ref().expect("qdldl"))
        .us("atop", k.AtoPAPt.as_ref().expect("qdldl"))
        .b("shifted", false);
    l
}

fn res_str(r: &Result<(), DataUpdateError>) -> String {
    match r {
        Ok(()) => "ok".into(),
        Err(DataUpdateError::PresolveIsActive) => "PresolveIsActive".into(),
        Err(DataUpdateError::ChordalDecompositionIsActive) => "ChordalDecompositionIsActive".into(),
        Err(DataUpdateError::BadFormat(e)) => format!("BadFormat:{:?}", e),
    }
}

fn apply(s: &mut DefaultSolver<f64>, op: &Op) -> String {
    match op {
        Op::P(a) => res_str(&s.update_P(a)),
        Op::Q(a) => res_str(&s.update_q(a)),
        Op::A(a) => res_str(&s.update_A(a)),
        Op::B(a) => res_str(&s.update_b(a)),
        Op::D(p, q, a, b) => res_str(&s.update_data(p, q, a, b)),
        Op::Solve => {
            s.solve();
            "ok".into()
        }
        Op::Norms => {
            s.data.verif_c08_get_normq();
            s.data.verif_c08_get_normb();
            "ok".into()
        }
    }
}

// ---- harness-side specification of acceptance and plain overwrite (independent of the model)

fn spec_vec(arg: &VArg, u: &mut [f64]) -> Result<(), &'static str> {
    match arg {
        VArg::Empty0 => Ok(()),
        VArg::Slice(d) => {
            if d.is_empty() {
                Ok(())
            } else if d.len() != u.len() {
                Err("BadFormat:IncompatibleDimension")
            } else {
                u.copy_from_slice(d);
                Ok(())
            }
        }
        VArg::Pairs(i, x) => {
            for (&i, &x) in zip(i, x) {
                if i >= u.len() {
                    return Err("BadFormat:IncompatibleDimension");
                }
                u[i] = x;
            }
            Ok(())
        }
    }
}
fn spec_mat(arg: &MArg, pat: &CscMatrix<f64>, u: &mut [f64]) -> Result<(), &'static str> {
    match arg {
        MArg::Empty0 => Ok(()),
        MArg::Slice(d) => spec_vec(&VArg::Slice(d.clone()), u),
        MArg::Pairs(i, x) => spec_vec(&VArg::Pairs(i.clone(), x.clone()), u),
        MArg::Matrix(m) => {
            if m.m != pat.m || m.n != pat.n {
                Err("BadFormat:IncompatibleDimension")
            } else if m.colptr != pat.colptr || m.rowval != pat.rowval {
                Err("BadFormat:SparsityMismatch")
            } else {
                spec_vec(&VArg::Slice(m.nzval.clone()), u)
            }
        }
    }
}

/// user-level data as the harness tracks it (plain overwrite)
#[derive(Clone, Debug, PartialEq)]
struct User {
    P: Vec<f64>,
    q: Vec<f64>,
    A: Vec<f64>,
    b: Vec<f64>,
}

/// expected `Result` and effect of an operation on user-level data; returns also whether
/// the `update_P` / `update_A` step ran to its KKT copy (for the observation rule)
fn spec_op(op: &Op, guard: Option<&'static str>, patP: &CscMatrix<f64>, patA: &CscMatrix<f64>, u: &mut User) -> (String, bool) {
    if let Op::Solve | Op::Norms = op {
        return ("ok".into(), false);
    }
    if let Some(g) = guard {
        return (g.to_string(), false);
    }
    let rs = |r: Result<(), &'static str>| match r {
        Ok(()) => "ok".to_string(),
        Err(e) => e.to_string(),
    };
    match op {
        Op::P(a) => {
            let r = spec_mat(a, patP, &mut u.P);
            let ok = r.is_ok();
            (rs(r), ok)
        }
        Op::A(a) => (rs(spec_mat(a, patA, &mut u.A)), false),
        Op::Q(a) => (rs(spec_vec(a, &mut u.q)), false),
        Op::B(a) => (rs(spec_vec(a, &mut u.b)), false),
        Op::D(p, q, a, b) => {
            if let Err(e) = spec_mat(p, patP, &mut u.P) {
                return (e.to_string(), false);
            }
            if let Err(e) = spec_vec(q, &mut u.q) {
                return (e.to_string(), true);
            }
            if let Err(e) = spec_mat(a, patA, &mut u.A) {
                return (e.to_string(), true);
            }
            (rs(spec_vec(b, &mut u.b)), true)
        }
        _ => unreachable!(),
    }
}

fn col_index(m: &CscMatrix<f64>) -> Vec<usize> {
    let mut c = vec![0; m.nzval.len()];
    for j in 0..m.n {
        for k in m.colptr[j]..m.colptr[j + 1] {
            c[k] = j;
        }
    }
    c
}

/// divide the equilibration out of the solver's internal data
fn unscale(s: &DefaultSolver<f64>) -> User {
    let eq = &s.data.equilibration;
    let (d, e, c) = (&eq.d, &eq.e, eq.c);
    let cp = col_index(&s.data.P);
    let ca = col_index(&s.data.A);
    User {
        P: (0..s.data.P.nzval.len()).map(|k| s.data.P.nzval[k] / (c * d[s.data.P.rowval[k]] * d[cp[k]])).collect(),
        q: (0..s.data.q.len()).map(|i| s.data.q[i] / (c * d[i])).collect(),
        A: (0..s.data.A.nzval.len()).map(|k| s.data.A.nzval[k] / (e[s.data.A.rowval[k]] * d[ca[k]])).collect(),
        b: (0..s.data.b.len()).map(|i| s.data.b[i] / e[i]).collect(),
    }
}

fn close(a: &[f64], b: &[f64], exact: bool) -> Option<usize> {
    if a.len() != b.len() {
        return Some(usize::MAX);
    }
    for i in 0..a.len() {
        let ok = if exact {
            a[i] == b[i]
        } else {
            (a[i] - b[i]).abs() <= 1e-13 * a[i].abs().max(b[i].abs())
        };
        if !ok {
            return Some(i);
        }
    }
    None
}

struct Obs {
    shifted: bool,
}

/// the observed part of the solver state, rendered exactly like `C08Driver.render`
fn render(i: usize, s: &DefaultSolver<f64>, r: &str, obs: &Obs) -> String {
    let k = s.kktsystem.verif_c08_kkt_state().unwrap();
    let ldl = k.ldl_nzval.as_ref().unwrap();
    let atop = k.AtoPAPt.as_ref().unwrap();
    let (nq, nb) = s.data.verif_c08_norm_caches();
    let is_diag = |j: usize| k.map_diag_full.contains(&j);
    let kp: Vec<f64> = k.map_P.iter().map(|&j| k.kkt_nzval[j]).collect();
    let ka: Vec<f64> = k.map_A.iter().map(|&j| k.kkt_nzval[j]).collect();
    let lpo: Vec<f64> = k.map_P.iter().filter(|&&j| !is_diag(j)).map(|&j| ldl[atop[j]]).collect();
    let lpd: Vec<f64> = k.map_P.iter().filter(|&&j| is_diag(j)).map(|&j| ldl[atop[j]]).collect();
    let la: Vec<f64> = k.map_A.iter().map(|&j| ldl[atop[j]]).collect();
    let lpd_s = if obs.shifted { "shifted".to_string() } else { ffs(&lpd) };
    format!(
        "r{i}={} P{i}={} q{i}={} A{i}={} b{i}={} nq{i}={} nb{i}={} kP{i}={} kA{i}={} lPo{i}={} lPd{i}={} lA{i}={}",
        r,
        ffs(&s.data.P.nzval),
        ffs(&s.data.q),
        ffs(&s.data.A.nzval),
        ffs(&s.data.b),
        opt(nq),
        opt(nb),
        ffs(&kp),
        ffs(&ka),
        ffs(&lpo),
        lpd_s,
        ffs(&la),
        i = i
    )
}

fn ops_of_req(r: &Req) -> Vec<Op> {
    (0..r.u("nops")).map(|i| dec_op(r.str(&format!("op{}", i)))).collect()
}

fn guard_of(flags: (bool, bool)) -> Option<&'static str> {
    if flags.0 {
        Some("PresolveIsActive")
    } else if flags.1 {
        Some("ChordalDecompositionIsActive")
    } else {
        None
    }
}

// ---------------------------------------------------------------- classes of arguments (evidence counters)

fn form_v(a: &VArg) -> u8 {
    match a {
        VArg::Empty0 => 0,
        VArg::Slice(_) => 1,
        VArg::Pairs(..) => 3,
    }
}
fn form_m(a: &MArg) -> u8 {
    match a {
        MArg::Empty0 => 0,
        MArg::Slice(_) => 1,
        MArg::Matrix(_) => 2,
        MArg::Pairs(..) => 3,
    }
}

/// classes of an `(index, values)` argument against a target of length `len`
fn pairs_classes(i: &[usize], x: &[f64], len: usize, out: &mut Vec<String>) {
    let k = i.len().min(x.len());
    out.push(
        if i.len() == x.len() { "pairs:len(index)=len(values)" } else if i.len() > x.len() { "pairs:len(index)>len(values)" } else { "pairs:len(index)<len(values)" }
            .to_string(),
    );
    // which of the crate's two partial-update impls the wrapper dispatches to (parity of index.len())
    out.push(if i.len() % 2 == 0 { "pairs-impl:Zip<Iter<usize>,Iter<T>>" } else { "pairs-impl:(Vec<usize>,Vec<T>)" }.to_string());
    let inside = i[..k].iter().position(|&j| j >= len);
    let beyond = i[k..].iter().any(|&j| j >= len);
    match inside {
        Some(0) => out.push("pairs:bad-index-inside-zip(rejected,nothing-applied)".into()),
        Some(_) => out.push("pairs:bad-index-inside-zip(rejected,prefix-applied)".into()),
        None => {}
    }
    if beyond {
        out.push(if inside.is_none() { "pairs:bad-index-beyond-zip-only(accepted)" } else { "pairs:bad-index-beyond-zip-and-inside" }.to_string());
    }
    if let Some(pos) = inside {
        if i.len() != x.len() {
            out.push(format!("pairs:rejected-with-unequal-lengths(bad-at-{})", if pos == 0 { "0" } else { ">0" }));
        }
    }
    if i[..k].iter().any(|&j| j + 1 == len) && len > 0 {
        out.push("pairs:touches-last-entry".into());
    }
    if i[..k].iter().any(|&j| j == len) {
        out.push("pairs:bad-index=len(boundary)".into());
    }
}

fn varg_classes(a: &VArg, len: usize, out: &mut Vec<String>) {
    match a {
        VArg::Empty0 => out.push("vec-arg:[T;0]".into()),
        VArg::Slice(d) => out.push(
            if d.is_empty() { "vec-arg:slice-empty(accepted)" } else if d.len() == len { "vec-arg:slice-ok" } else if d.len() < len { "vec-arg:slice-too-short" } else { "vec-arg:slice-too-long" }
                .to_string(),
        ),
        VArg::Pairs(i, x) => {
            out.push("vec-arg:pairs".into());
            pairs_classes(i, x, len, out)
        }
    }
}

fn marg_classes(a: &MArg, pat: &CscMatrix<f64>, out: &mut Vec<String>) {
    let len = pat.nzval.len();
    match a {
        MArg::Empty0 => out.push("mat-arg:[T;0]".into()),
        MArg::Slice(d) => out.push(
            if d.is_empty() { "mat-arg:slice-empty(accepted)" } else if d.len() == len { "mat-arg:slice-ok" } else if d.len() < len { "mat-arg:slice-too-short" } else { "mat-arg:slice-too-long" }
                .to_string(),
        ),
        MArg::Pairs(i, x) => {
            out.push("mat-arg:pairs".into());
            pairs_classes(i, x, len, out)
        }
        MArg::Matrix(m) => out.push(
            if m.m != pat.m || m.n != pat.n {
                "csc-arg:wrong-dimension(IncompatibleDimension)"
            } else if m.colptr != pat.colptr {
                "csc-arg:wrong-colptr(SparsityMismatch)"
            } else if m.rowval != pat.rowval {
                "csc-arg:wrong-rowval(SparsityMismatch)"
            } else if m.nzval.is_empty() && len > 0 {
                "csc-arg:right-pattern,empty-nzval(accepted,no-op)"
            } else if m.nzval.len() > len {
                "csc-arg:right-pattern,nzval-too-long(IncompatibleDimension)"
            } else if m.nzval.len() < len {
                "csc-arg:right-pattern,nzval-too-short(IncompatibleDimension)"
            } else {
                "csc-arg:ok"
            }
            .to_string(),
        ),
    }
}

fn v_rejects(a: &VArg, len: usize) -> bool {
    spec_vec(a, &mut vec![0.0; len]).is_err()
}
fn m_rejects(a: &MArg, pat: &CscMatrix<f64>) -> bool {
    spec_mat(a, pat, &mut vec![0.0; pat.nzval.len()]).is_err()
}
fn v_noop(a: &VArg) -> bool {
    match a {
        VArg::Empty0 => true,
        VArg::Slice(d) => d.is_empty(),
        VArg::Pairs(i, x) => i.is_empty() || x.is_empty(),
    }
}
fn m_noop(a: &MArg) -> bool {
    match a {
        MArg::Empty0 => true,
        MArg::Slice(d) => d.is_empty(),
        MArg::Matrix(m) => m.nzval.is_empty(),
        MArg::Pairs(i, x) => i.is_empty() || x.is_empty(),
    }
}

/// classes of one operation of a history on a solver that accepts updates
fn op_classes(op: &Op, patP: &CscMatrix<f64>, patA: &CscMatrix<f64>, n: usize, m: usize) -> Vec<String> {
    let mut out = vec![];
    match op {
        Op::P(a) => marg_classes(a, patP, &mut out),
        Op::A(a) => marg_classes(a, patA, &mut out),
        Op::Q(a) => varg_classes(a, n, &mut out),
        Op::B(a) => varg_classes(a, m, &mut out),
        Op::D(p, q, a, b) => {
            marg_classes(p, patP, &mut out);
            varg_classes(q, n, &mut out);
            marg_classes(a, patA, &mut out);
            varg_classes(b, m, &mut out);
            let mut kinds = vec![form_m(p), form_v(q), form_m(a), form_v(b)];
            kinds.sort();
            kinds.dedup();
            out.push(format!("update_data:distinct-argument-forms={}", kinds.len()));
            let rej = [m_rejects(p, patP), v_rejects(q, n), m_rejects(a, patA), v_rejects(b, m)];
            let noop = [m_noop(p), v_noop(q), m_noop(a), v_noop(b)];
            let first = rej.iter().position(|&r| r);
            out.push(format!("update_data:first-rejecting-component={}", match first {
                None => "none(accepted)",
                Some(0) => "P",
                Some(1) => "q",
                Some(2) => "A",
                _ => "b",
            }));
            if let Some(f) = first {
                if f > 0 {
                    let applied = (0..f).any(|j| !noop[j]);
                    out.push(format!(
                        "update_data:rejected-at-later-component,{}{}",
                        if applied { "earlier-components-applied(not-atomic)" } else { "earlier-components-were-no-ops" },
                        if is_pairs_op(op) { ",some-pairs-form" } else { ",whole-forms-only" }
                    ));
                }
                if rej.iter().filter(|&&r| r).count() > 1 {
                    out.push("update_data:several-components-would-reject(first-wins)".into());
                }
            }
        }
        _ => {}
    }
    out
}

/// the two partial-update impls (`Zip<Iter,Iter>` and `(Vec<usize>,Vec<T>)`) and the two
/// whole-vector impls (`Vec<T>` and `[T]`) of the crate must agree on the same argument:
/// same `Result`, bitwise the same written data.  Evaluated on copies of the solver's data.
fn cross_forms(s: &DefaultSolver<f64>, op: &Op) -> Result<(), String> {
    let eq = &s.data.equilibration;
    let same = |a: &[f64], b: &[f64]| a.len() == b.len() && zip(a, b).all(|(x, y)| x.to_bits() == y.to_bits());
    let rstr = |r: &Result<(), SparseFormatError>| match r {
        Ok(()) => "ok".to_string(),
        Err(e) => format!("{:?}", e),
    };
    let vec_check = |a: &VArg, v: &[f64], sc: &[f64], c: Option<f64>, what: &str| -> Result<(), String> {
        match a {
            VArg::Pairs(i, x) => {
                let (mut v1, mut v2) = (v.to_vec(), v.to_vec());
                let r1 = zip(i.iter(), x.iter()).update_vector(&mut v1, sc, c);
                let r2 = (i.clone(), x.clone()).update_vector(&mut v2, sc, c);
                tally("cross-form check: Zip<Iter,Iter> vs (Vec<usize>,Vec<T>) on the same argument (vector)");
                if rstr(&r1) != rstr(&r2) || !same(&v1, &v2) {
                    return Err(format!("{}: zip(&index,&values) gives {} but (index,values) gives {} (or different data) for index={:?}", what, rstr(&r1), rstr(&r2), i));
                }
            }
            VArg::Slice(d) => {
                let (mut v1, mut v2) = (v.to_vec(), v.to_vec());
                let r1 = d.update_vector(&mut v1, sc, c);
                let r2 = <[f64] as VectorProblemDataUpdate<f64>>::update_vector(d.as_slice(), &mut v2, sc, c);
                if rstr(&r1) != rstr(&r2) || !same(&v1, &v2) {
                    return Err(format!("{}: Vec<T> gives {} but [T] gives {} (or different data)", what, rstr(&r1), rstr(&r2)));
                }
            }
            VArg::Empty0 => {}
        }
        Ok(())
    };
    let mat_check = |a: &MArg, M: &CscMatrix<f64>, l: &[f64], r: &[f64], c: Option<f64>, what: &str| -> Result<(), String> {
        match a {
            MArg::Pairs(i, x) => {
                let (mut m1, mut m2) = (M.clone(), M.clone());
                let r1 = zip(i.iter(), x.iter()).update_matrix(&mut m1, l, r, c);
                let r2 = (i.clone(), x.clone()).update_matrix(&mut m2, l, r, c);
                tally("cross-form check: Zip<Iter,Iter> vs (Vec<usize>,Vec<T>) on the same argument (matrix)");
                if rstr(&r1) != rstr(&r2) || !same(&m1.nzval, &m2.nzval) {
                    return Err(format!("{}: zip(&index,&values) gives {} but (index,values) gives {} (or different data) for index={:?}", what, rstr(&r1), rstr(&r2), i));
                }
            }
            MArg::Slice(d) => {
                let (mut m1, mut m2) = (M.clone(), M.clone());
                let r1 = d.update_matrix(&mut m1, l, r, c);
                let r2 = <[f64] as MatrixProblemDataUpdate<f64>>::update_matrix(d.as_slice(), &mut m2, l, r, c);
                if rstr(&r1) != rstr(&r2) || !same(&m1.nzval, &m2.nzval) {
                    return Err(format!("{}: Vec<T> gives {} but [T] gives {} (or different data)", what, rstr(&r1), rstr(&r2)));
                }
            }
            _ => {}
        }
        Ok(())
    };
    let (d, e, c) = (&eq.d, &eq.e, eq.c);
    match op {
        Op::P(a) => mat_check(a, &s.data.P, d, d, Some(c), "update_P"),
        Op::A(a) => mat_check(a, &s.data.A, e, d, None, "update_A"),
        Op::Q(a) => vec_check(a, &s.data.q, d, Some(c), "update_q"),
        Op::B(a) => vec_check(a, &s.data.b, e, None, "update_b"),
        Op::D(p, q, a, b) => {
            mat_check(p, &s.data.P, d, d, Some(c), "update_data(P)")?;
            vec_check(q, &s.data.q, d, Some(c), "update_data(q)")?;
            mat_check(a, &s.data.A, e, d, None, "update_data(A)")?;
            vec_check(b, &s.data.b, e, None, "update_data(b)")
        }
        _ => Ok(()),
    }
}

/// State equivalence before the final solve: the updated solver `s` against a fresh solver `f`
/// built from the final user-level data `u`.
/// * equilibration off on both (`d = e = 1`, `c = 1`): every component data updating touches
///   coincides BITWISE — internal `P q A b`, patterns, data maps, `AtoPAPt`, the KKT values at
///   the `map.P` / `map.A` positions and QDLDL's permuted copy there (the statically
///   regularised diagonal left by an earlier `solve` is exempt until the next `P` copy).
/// * equilibration on: the internal data is the closed form `c·D·P·D, c·D·q, E·A·D, E·b` of
///   the final user data with the solver's OWN (original) `d, e, c`.
fn state_equiv(s: &DefaultSolver<f64>, f: &DefaultSolver<f64>, u: &User, shifted: bool) -> Result<(), String> {
    let ones = |v: &[f64]| v.iter().all(|&x| x == 1.0);
    let (es, ef) = (&s.data.equilibration, &f.data.equilibration);
    let unit = ones(&es.d) && ones(&es.e) && es.c == 1.0 && ones(&ef.d) && ones(&ef.e) && ef.c == 1.0;
    let bits = |a: &[f64], b: &[f64]| -> Option<usize> {
        if a.len() != b.len() {
            return Some(usize::MAX);
        }
        (0..a.len()).find(|&i| a[i].to_bits() != b[i].to_bits())
    };
    if s.data.P.colptr != f.data.P.colptr || s.data.P.rowval != f.data.P.rowval || s.data.A.colptr != f.data.A.colptr || s.data.A.rowval != f.data.A.rowval
        || s.data.P.m != f.data.P.m || s.data.P.n != f.data.P.n || s.data.A.m != f.data.A.m || s.data.A.n != f.data.A.n
    {
        return Err("state equivalence: the fresh solver on the final data has different patterns".into());
    }
    let (ks, kf) = (s.kktsystem.verif_c08_kkt_state().unwrap(), f.kktsystem.verif_c08_kkt_state().unwrap());
    if ks.map_P != kf.map_P || ks.map_A != kf.map_A || ks.map_diag_full != kf.map_diag_full || ks.AtoPAPt != kf.AtoPAPt {
        return Err("state equivalence: data maps / AtoPAPt of the updated solver differ from those of a fresh solver".into());
    }
    if unit {
        if !u.b.iter().all(|v| v.is_finite() && v.abs() < 1e19) {
            tally("state equivalence skipped (final b reaches the infinity bound, which only `new` caps)");
            return Ok(());
        }
        tally("state equivalence, equilibration off: bitwise comparison with the fresh solver");
        for (name, a, b) in [("P.nzval", &s.data.P.nzval, &f.data.P.nzval), ("q", &s.data.q, &f.data.q), ("A.nzval", &s.data.A.nzval, &f.data.A.nzval), ("b", &s.data.b, &f.data.b)] {
            if let Some(i) = bits(a, b) {
                return Err(format!("state equivalence: internal {}[{}] = {:e} after the updates, {:e} in a fresh solver on the final data", name, i, a.get(i).copied().unwrap_or(f64::NAN), b.get(i).copied().unwrap_or(f64::NAN)));
            }
        }
        let (ls, lf) = (ks.ldl_nzval.as_ref().unwrap(), kf.ldl_nzval.as_ref().unwrap());
        let atop = ks.AtoPAPt.as_ref().unwrap();
        for (blk, map) in [("P", &ks.map_P), ("A", &ks.map_A)] {
            for (i, &j) in map.iter().enumerate() {
                if ks.kkt_nzval[j].to_bits() != kf.kkt_nzval[j].to_bits() {
                    return Err(format!("state equivalence: KKT.nzval[map.{}[{}]] = {:e} after the updates, {:e} in a fresh solver", blk, i, ks.kkt_nzval[j], kf.kkt_nzval[j]));
                }
                let diag = ks.map_diag_full.contains(&j);
                if !(diag && shifted) && ls[atop[j]].to_bits() != lf[atop[j]].to_bits() {
                    return Err(format!("state equivalence: LDL copy of {} entry {} = {:e} after the updates, {:e} in a fresh solver", blk, i, ls[atop[j]], lf[atop[j]]));
                }
            }
        }
    } else {
        tally("state equivalence, equilibration on: internal data = closed form c*D*P*D, c*D*q, E*A*D, E*b of the final user data");
        let (d, e, c) = (&es.d, &es.e, es.c);
        let cp = col_index(&s.data.P);
        let ca = col_index(&s.data.A);
        let near = |a: f64, b: f64| a == b || (a - b).abs() <= 1e-13 * a.abs().max(b.abs());
        for k in 0..s.data.P.nzval.len() {
            let w = u.P[k] * d[s.data.P.rowval[k]] * d[cp[k]] * c;
            if !near(s.data.P.nzval[k], w) {
                return Err(format!("state equivalence: internal P.nzval[{}] = {:e} but c*d*d*P = {:e}", k, s.data.P.nzval[k], w));
            }
        }
        for i in 0..s.data.q.len() {
            let w = u.q[i] * d[i] * c;
            if !near(s.data.q[i], w) {
                return Err(format!("state equivalence: internal q[{}] = {:e} but c*d*q = {:e}", i, s.data.q[i], w));
            }
        }
        for k in 0..s.data.A.nzval.len() {
            let w = e[s.data.A.rowval[k]] * d[ca[k]] * u.A[k];
            if !near(s.data.A.nzval[k], w) {
                return Err(format!("state equivalence: internal A.nzval[{}] = {:e} but e*d*A = {:e}", k, s.data.A.nzval[k], w));
            }
        }
        for i in 0..s.data.b.len() {
            let w = e[i] * u.b[i];
            if !near(s.data.b[i], w) {
                return Err(format!("state equivalence: internal b[{}] = {:e} but e*b = {:e}", i, s.data.b[i], w));
            }
        }
    }
    // norm caches: absent, or the norm of the final user-level vector — on both solvers
    for (who, (nq, nb)) in [("updated", s.data.verif_c08_norm_caches()), ("fresh", f.data.verif_c08_norm_caches())] {
        for (name, cache, w) in [("normq", nq, norm_inf(&u.q)), ("normb", nb, norm_inf(&u.b))] {
            if let Some(v) = cache {
                if (v - w).abs() > 1e-12 * w.max(v) {
                    return Err(format!("state equivalence: {} solver caches {} = {:e} but the final user-level vector has norm {:e}", who, name, v, w));
                }
            }
        }
    }
    Ok(())
}

// ---------------------------------------------------------------- channel: upd.seq

fn run_seq(r: &Req) -> String {
    let p = prob_of_req(r);
    let mut s = build(&p);
    let flags = (r.b("presolved"), r.b("decomposed"));
    // the request's internal state must be the state of the rebuilt solver
    let again = state_line(Line::new("x"), &s, flags).done();
    let again = Req::parse(&again).unwrap();
    for key in ["Pnzval", "q", "Anzval", "b", "d", "e", "c", "kkt", "mapP", "mapA", "ldl", "atop", "normq", "normb"] {
        if again.str(key) != r.str(key) {
            return format!("err:state-mismatch:{}", key);
        }
    }
    let ops = ops_of_req(r);
    let patP = s.data.P.clone();
    let patA = s.data.A.clone();
    let mut u = unscale(&s); // only used for the observation rule below
    let mut obs = Obs { shifted: false };
    let mut out = vec![];
    for (i, op) in ops.iter().enumerate() {
        let res = apply(&mut s, op);
        let (_, p_copied) = spec_op(op, guard_of(flags), &patP, &patA, &mut u);
        if let Op::Solve = op {
            obs.shifted = true; // static regularisation is on (default settings)
        }
        if p_copied {
            obs.shifted = false;
        }
        out.push(render(i, &s, &res, &obs));
    }
    out.join(" ")
}

fn status_class(st: SolverStatus) -> u8 {
    match st {
        SolverStatus::Solved | SolverStatus::AlmostSolved => 1,
        SolverStatus::PrimalInfeasible | SolverStatus::AlmostPrimalInfeasible => 2,
        SolverStatus::DualInfeasible | SolverStatus::AlmostDualInfeasible => 3,
        _ => 0,
    }
}

fn norm_inf(v: &[f64]) -> f64 {
    v.iter().fold(0.0, |a: f64, x| a.max(x.abs()))
}

/// notes collected by the oracle for the evidence (thread-local because oracles are `fn`s)
thread_local! {
    static NOTES: std::cell::RefCell<std::collections::BTreeMap<String, u64>> = Default::default();
}
fn tally(k: &str) {
    NOTES.with(|n| *n.borrow_mut().entry(k.to_string()).or_insert(0) += 1);
}

fn check_maps(k: &clarabel::verif_hooks::c08::KktState<f64>, nnzP: usize, nnzA: usize) -> Result<(), String> {
    let n = k.kkt_nzval.len();
    if k.map_P.len() != nnzP || k.map_A.len() != nnzA {
        return Err("map.P / map.A length differs from nnz(P) / nnz(A)".into());
    }
    let mut seen = vec![false; n];
    for &j in k.map_P.iter().chain(k.map_A.iter()) {
        if j >= n {
            return Err(format!("map index {} out of range {}", j, n));
        }
        if seen[j] {
            return Err(format!("KKT position {} is the image of two data entries", j));
        }
        seen[j] = true;
    }
    let atop = k.AtoPAPt.as_ref().unwrap();
    let ldl = k.ldl_nzval.as_ref().unwrap();
    if atop.len() != n || ldl.len() != n {
        return Err("AtoPAPt / triuA length differs from nnz(KKT)".into());
    }
    let mut seen = vec![false; n];
    for &j in atop {
        if j >= n || seen[j] {
            return Err("AtoPAPt is not a permutation".into());
        }
        seen[j] = true;
    }
    Ok(())
}

/// KKT / LDL copies agree with the internal data (the LDL diagonal is exempt after a
/// solve until the next P copy, see `regularize_and_refactor`)
fn in_sync(s: &DefaultSolver<f64>, shifted: bool) -> Result<(), String> {
    let k = s.kktsystem.verif_c08_kkt_state().unwrap();
    let ldl = k.ldl_nzval.as_ref().unwrap();
    let atop = k.AtoPAPt.as_ref().unwrap();
    for (i, &j) in k.map_P.iter().enumerate() {
        let v = s.data.P.nzval[i];
        if k.kkt_nzval[j].to_bits() != v.to_bits() {
            return Err(format!("KKT.nzval[map.P[{}]] = {:e} but P.nzval = {:e}", i, k.kkt_nzval[j], v));
        }
        let diag = k.map_diag_full.contains(&j);
        if !(diag && shifted) && ldl[atop[j]].to_bits() != v.to_bits() {
            return Err(format!("LDL copy of P entry {} = {:e} but P.nzval = {:e}", i, ldl[atop[j]], v));
        }
    }
    for (i, &j) in k.map_A.iter().enumerate() {
        let v = s.data.A.nzval[i];
        if k.kkt_nzval[j].to_bits() != v.to_bits() {
            return Err(format!("KKT.nzval[map.A[{}]] = {:e} but A.nzval = {:e}", i, k.kkt_nzval[j], v));
        }
        if ldl[atop[j]].to_bits() != v.to_bits() {
            return Err(format!("LDL copy of A entry {} = {:e} but A.nzval = {:e}", i, ldl[atop[j]], v));
        }
    }
    Ok(())
}

fn is_pairs_op(op: &Op) -> bool {
    match op {
        Op::P(MArg::Pairs(..)) | Op::A(MArg::Pairs(..)) | Op::Q(VArg::Pairs(..)) | Op::B(VArg::Pairs(..)) => true,
        Op::D(p, q, a, b) => {
            matches!(p, MArg::Pairs(..)) || matches!(q, VArg::Pairs(..)) || matches!(a, MArg::Pairs(..)) || matches!(b, VArg::Pairs(..))
        }
        _ => false,
    }
}

/// relative residuals of a returned point against user-level data (simple C01-style test)
fn residual_check(p: &Prob, u: &User, patP: &CscMatrix<f64>, sol: &DefaultSolution<f64>) -> Result<(), String> {
    let n = p.q.len();
    let m = p.b.len();
    let (x, z, sv) = (&sol.x, &sol.z, &sol.s);
    // A x + s - b
    let mut rp = vec![0.0; m];
    let ca = col_index(&p.A);
    for k in 0..u.A.len() {
        rp[p.A.rowval[k]] += u.A[k] * x[ca[k]];
    }
    for i in 0..m {
        rp[i] += sv[i] - u.b[i];
    }
    // P x + A' z + q   (P upper triangle)
    let mut rd = u.q.clone();
    let cp = col_index(patP);
    for k in 0..u.P.len() {
        let (i, j) = (patP.rowval[k], cp[k]);
        rd[i] += u.P[k] * x[j];
        if i != j {
            rd[j] += u.P[k] * x[i];
        }
    }
    for k in 0..u.A.len() {
        rd[ca[k]] += u.A[k] * z[p.A.rowval[k]];
    }
    let _ = n;
    let tp = 1e-6 * (1.0 + norm_inf(&u.b) + norm_inf(x) + norm_inf(sv)).max(1.0);
    let td = 1e-6 * (1.0 + norm_inf(&u.q) + norm_inf(x) + norm_inf(z)).max(1.0);
    if norm_inf(&rp) > tp {
        return Err(format!("primal residual {:e} of the returned point against the final data exceeds {:e}", norm_inf(&rp), tp));
    }
    if norm_inf(&rd) > td {
        return Err(format!("dual residual {:e} of the returned point against the final data exceeds {:e}", norm_inf(&rd), td));
    }
    Ok(())
}

fn oracle_seq(r: &Req, out: &str) -> Result<(), String> {
    if out.starts_with("err:state-mismatch") {
        return Err(format!("rebuilding the solver from the same data gave a different internal state ({})", out));
    }
    if out.starts_with("panic") {
        return Err(format!("a data update / solve panicked: {}", out));
    }
    let p = prob_of_req(r);
    let mut s = build(&p);
    let flags = (r.b("presolved"), r.b("decomposed"));
    let guard = guard_of(flags);
    let ops = ops_of_req(r);
    let patP = s.data.P.clone();
    let patA = s.data.A.clone();
    let exact = !p.equil;
    let k0 = s.kktsystem.verif_c08_kkt_state().unwrap();
    check_maps(&k0, patP.nzval.len(), patA.nzval.len())?;
    in_sync(&s, false).map_err(|e| format!("fresh solver: {}", e))?;

    // user-level data tracked by plain overwrite
    let mut u = if guard.is_none() {
        User { P: p.P.to_triu().nzval.clone(), q: p.q.clone(), A: p.A.nzval.clone(), b: p.b.clone() }
    } else {
        unscale(&s)
    };
    {
        let us = unscale(&s);
        for (name, a, b) in [("P", &us.P, &u.P), ("q", &us.q, &u.q), ("A", &us.A, &u.A), ("b", &us.b, &u.b)] {
            if let Some(i) = close(a, b, exact) {
                return Err(format!("fresh solver: un-equilibrated {}[{}] differs from the user's data", name, i));
            }
        }
    }
    let mut shifted = false;
    let mut desync = false; // a rejected partial P/A update left the KKT copy behind
    let mut stale_q = false;
    let mut stale_b = false;
    for (i, op) in ops.iter().enumerate() {
        let before = (s.data.P.nzval.clone(), s.data.q.clone(), s.data.A.nzval.clone(), s.data.b.clone());
        let caches_before = s.data.verif_c08_norm_caches();
        cross_forms(&s, op).map_err(|e| format!("op {}: {}", i, e))?;
        let res = apply(&mut s, op);
        let (want, p_copied) = spec_op(op, guard, &patP, &patA, &mut u);
        if res != want {
            return Err(format!("op {} ({}): result {} but the documented rule gives {}", i, enc_op(op).chars().take(40).collect::<String>(), res, want));
        }
        if let Op::Solve = op {
            shifted = true;
        }
        if p_copied {
            shifted = false;
        }
        let after = (&s.data.P.nzval, &s.data.q, &s.data.A.nzval, &s.data.b);
        let untouched = before.0 == *after.0 && before.1 == *after.1 && before.2 == *after.2 && before.3 == *after.3;
        let is_update = !matches!(op, Op::Solve | Op::Norms);
        // rejected whole-vector / matrix forms leave the data bitwise untouched
        if is_update && res != "ok" && !is_pairs_op(op) && !matches!(op, Op::D(..)) && !untouched {
            return Err(format!("op {}: rejected ({}) but the internal data changed", i, res));
        }
        if !is_update && !untouched {
            return Err(format!("op {}: solve / norm query changed the problem data", i));
        }
        // plain overwrite on user-level data (accepted ops; prefix of a rejected pair list)
        let us = unscale(&s);
        for (name, a, b) in [("P", &us.P, &u.P), ("q", &us.q, &u.q), ("A", &us.A, &u.A), ("b", &us.b, &u.b)] {
            if let Some(j) = close(a, b, exact) {
                return Err(format!(
                    "op {} ({}): user-level {}[{}] = {:e} but plain overwrite gives {:e}",
                    i, res, name, j, a.get(j).copied().unwrap_or(f64::NAN), b.get(j).copied().unwrap_or(f64::NAN)
                ));
            }
        }
        // KKT and LDL copies
        let sync = in_sync(&s, shifted);
        if res == "ok" || !is_pairs_op(op) {
            // a later successful P / A copy repairs an earlier desynchronisation of that block
            if let Err(e) = &sync {
                if !desync {
                    return Err(format!("op {} ({}): {}", i, res, e));
                }
            } else {
                desync = false;
            }
        } else if sync.is_err() {
            desync = true;
            tally("rejected partial P/A update left KKT copy behind data (noted, allowed by the property)");
        }
        // norm caches: none, or the infinity norm of the current user-level vector
        let (nq, nb) = s.data.verif_c08_norm_caches();
        let rejected_pairs = res != "ok" && is_pairs_op(op);
        if let Some(v) = nq {
            let w = norm_inf(&u.q);
            if (v - w).abs() > 1e-12 * w.max(v) {
                if rejected_pairs && caches_before.0 == nq || stale_q {
                    stale_q = true;
                    tally("rejected partial q update kept a stale normq cache (noted)");
                } else {
                    return Err(format!("op {}: cached normq {:e} but the user-level q has norm {:e}", i, v, w));
                }
            } else {
                stale_q = false;
            }
        } else {
            stale_q = false;
        }
        if let Some(v) = nb {
            let w = norm_inf(&u.b);
            if (v - w).abs() > 1e-12 * w.max(v) {
                if rejected_pairs && caches_before.1 == nb || stale_b {
                    stale_b = true;
                    tally("rejected partial b update kept a stale normb cache (noted)");
                } else {
                    return Err(format!("op {}: cached normb {:e} but the user-level b has norm {:e}", i, v, w));
                }
            } else {
                stale_b = false;
            }
        } else {
            stale_b = false;
        }
    }
    if guard.is_some() {
        return Ok(());
    }
    // ---- final solve vs. a fresh solver on the final user-level data
    if desync || stale_q || stale_b {
        tally("final comparison skipped: history ends in a state left by a rejected partial update");
        return Ok(());
    }
    let mut fp = p.clone();
    fp.P = CscMatrix { nzval: u.P.clone(), ..patP.clone() };
    fp.q = u.q.clone();
    fp.A = CscMatrix { nzval: u.A.clone(), ..patA.clone() };
    fp.b = u.b.clone();
    let mut f = build(&fp);
    if f.is_data_update_allowed() {
        state_equiv(&s, &f, &u, shifted)?;
    } else {
        tally("state equivalence skipped (fresh solver presolved / decomposed)");
    }
    s.solve();
    f.solve();
    if std::env::var("C08_DEBUG").is_ok() {
        eprintln!("updated: {:?} it={} obj={:e} x={:?}\nfresh: {:?} it={} obj={:e} x={:?}\nuser P={:?} q={:?} A={:?} b={:?}", s.solution.status, s.solution.iterations, s.solution.obj_val, s.solution.x, f.solution.status, f.solution.iterations, f.solution.obj_val, f.solution.x, u.P, u.q, u.A, u.b);
    }
    let (c1, c2) = (status_class(s.solution.status), status_class(f.solution.status));
    if c1 == 0 || c2 == 0 {
        tally("final comparison inconclusive (a solver stopped without a verdict)");
        return Ok(());
    }
    if c1 != c2 {
        let full = |st: SolverStatus| matches!(st, SolverStatus::Solved | SolverStatus::PrimalInfeasible | SolverStatus::DualInfeasible);
        // a problem that is both primal and dual infeasible admits either certificate:
        // only "solved vs infeasible" is a contradiction
        if full(s.solution.status) && full(f.solution.status) && (c1 == 1 || c2 == 1) {
            // nearly infeasible instances: when the Solved run needs multipliers (or a primal
            // point) a million times larger than the data, the problem is within ~1e-6 (relative)
            // of infeasibility, the documented infeasibility test (relative to ‖z‖·|b'z|, C02) is
            // met by moderate iterates as well, and which verdict is reached first depends on
            // the trajectory (here: on the equilibration, which an updated solver keeps from
            // the old data).  Both verdicts are truthful to their documented tests; the
            // instance does not decide the property.
            let sol = if c1 == 1 { &s.solution } else { &f.solution };
            let big = sol.x.iter().chain(sol.z.iter()).fold(0.0f64, |a, v| a.max(v.abs()));
            let data = u.q.iter().chain(u.b.iter()).fold(1.0f64, |a, v| a.max(v.abs()));
            if big > 1e6 * data {
                tally("final comparison inconclusive (nearly infeasible instance: Solved needs multipliers > 1e6 x data)");
                return Ok(());
            }
            return Err(format!("updated solver: {:?}, fresh solver on the final data: {:?}", s.solution.status, f.solution.status));
        }
        tally("final comparison inconclusive (reduced-accuracy verdicts differ)");
        return Ok(());
    }
    tally(&format!("final verdict class {}", c1));
    if c1 == 1 {
        let (o1, o2) = (s.solution.obj_val, f.solution.obj_val);
        let tol = 1e-5 * o1.abs().max(o2.abs()).max(1.0);
        if (o1 - o2).abs() > tol {
            return Err(format!("objective after updates {:e} vs fresh solver {:e}", o1, o2));
        }
        if s.solution.status == SolverStatus::Solved {
            residual_check(&fp, &u, &patP, &s.solution)?;
        }
    }
    Ok(())
}

// ---------------------------------------------------------------- channel: index_to_coord

fn run_i2c(r: &Req) -> String {
    let cp = r.us("colptr");
    let rv = r.us("rowval");
    let n = cp.len() - 1;
    let m = CscMatrix { m: r.u("m"), n, colptr: cp, rowval: rv.clone(), nzval: vec![0.0; rv.len()] };
    let (row, col) = m.index_to_coord(r.u("k"));
    format!("row={} col={}", row, col)
}
fn oracle_i2c(r: &Req, out: &str) -> Result<(), String> {
    let cp = r.us("colptr");
    let rv = r.us("rowval");
    let k = r.u("k");
    if k >= rv.len() {
        return if out.starts_with("panic") { Ok(()) } else { Err("no panic for an index beyond nnz".into()) };
    }
    let col = (0..cp.len() - 1).find(|&j| cp[j] <= k && k < cp[j + 1]).ok_or("no column")?;
    let want = format!("row={} col={}", rv[k], col);
    if out != want {
        return Err(format!("index_to_coord gives {} expected {}", out, want));
    }
    Ok(())
}

fn channels() -> Vec<Channel> {
    vec![
        Channel { name: "upd.seq", tol: Tol::Exact, run: run_seq, oracle: Some(oracle_seq), modelled: true,
            rust_fn: "DefaultSolver::update_P/update_q/update_A/update_b/update_data, *::update_matrix/update_vector, DirectLDLKKTSolver::update_P/update_A, QDLDLFactorisation::update_values, DefaultProblemData::get_normq/get_normb/clear_normq/clear_normb (cache dropped by update_q/update_b), check_data_update_allowed -> DefaultProblemData::is_presolved (rejection of updates on a presolved problem)",
            lean: "Update.step / C08.refines_spec, kkt_in_sync, norm_cache, rejects_leave_untouched" },
        Channel { name: "upd.index_to_coord", tol: Tol::Exact, run: run_i2c, oracle: Some(oracle_i2c), modelled: true,
            rust_fn: "CscMatrix::index_to_coord", lean: "Update.colOf / Update.rowOf" },
        Channel { name: "upd.solve", tol: Tol::Exact, run: c08_solve::run_solve, oracle: Some(c08_solve::oracle_solve), modelled: true,
            rust_fn: "DefaultSolver::update_P/q/A/b/update_data interleaved with IPSolver::solve (whole trajectories, observer) + internal data, KKT copy, norm values",
            lean: "Solver.Solver.updateP/updateQ/updateA/updateB/updateData, Solver.Solver.runU, Solver.Solver.solve / C08.full_update_then_solve_eq_rebuilt, C08.full_rejected_update_post_state" },
        Channel { name: "upd.known", tol: Tol::Exact, run: run_known, oracle: Some(oracle_known), modelled: false,
            rust_fn: "DefaultSolver::update_data + solve (known finding: stale equilibration after an extreme rescale)", lean: "-" },
    ]
}

// ---------------------------------------------------------------- generators

fn scaled(rng: &mut Rng, lo: f64, hi: f64, sc: f64) -> f64 {
    rng.uniform(lo, hi) * sc
}

struct Shape {
    kinds: Vec<u8>, // per row of A: 0 zero, 1 nonneg, 2 soc head, 3 soc tail, 4..6 exp rows
    psc: f64,
    qsc: f64,
}

fn gen_b_entry(rng: &mut Rng, kind: u8, wild: bool) -> f64 {
    if wild {
        return rng.uniform(-2.0, 2.0);
    }
    match kind {
        0 => 0.0,
        1 => rng.uniform(0.5, 2.0),
        2 => rng.uniform(2.0, 3.0),
        3 => rng.uniform(-0.5, 0.5),
        4 => rng.uniform(-1.0, 0.3),
        5 => 1.0,
        _ => rng.uniform(2.0, 3.0),
    }
}

fn gen_P_entry(rng: &mut Rng, diag: bool, sc: f64) -> f64 {
    if diag { scaled(rng, 1.0, 3.0, sc) } else { scaled(rng, -0.2, 0.2, sc) }
}

fn gen_problem(rng: &mut Rng) -> (Prob, Shape) {
    let n = 1 + rng.below(5);
    let psc = *rng.choose(&[1.0, 1.0, 1e3, 1e-2, 1e4]);
    let qsc = *rng.choose(&[1.0, 1.0, 1e2, 1e-1]);
    let full_diag = rng.bool(0.85);
    let pd = *rng.choose(&[0.0, 0.3, 0.7]);
    // P upper triangle: positive definite (diagonally dominant) on the index set `has_diag`,
    // zero elsewhere, so that the problem is convex and stays convex under the updates
    let has_diag: Vec<bool> = (0..n).map(|_| full_diag || rng.bool(0.5)).collect();
    let mut colptr = vec![0usize];
    let mut rowval = vec![];
    let mut nzval = vec![];
    for c in 0..n {
        for r in 0..=c {
            let keep = if r == c { has_diag[c] } else { has_diag[r] && has_diag[c] && rng.bool(pd) };
            if keep {
                rowval.push(r);
                nzval.push(gen_P_entry(rng, r == c, psc));
            }
        }
        colptr.push(rowval.len());
    }
    let P = CscMatrix { m: n, n, colptr, rowval, nzval };
    // cones
    let mut cones = vec![];
    let mut kinds = vec![];
    if n >= 2 && rng.bool(0.3) {
        cones.push(SupportedConeT::ZeroConeT(1));
        kinds.push(0);
    }
    let k1 = 1 + rng.below(3);
    cones.push(SupportedConeT::NonnegativeConeT(k1));
    kinds.extend(std::iter::repeat(1).take(k1));
    if !full_diag {
        // keep the feasible set bounded when P is not positive definite: a box
        cones.push(SupportedConeT::NonnegativeConeT(2 * n));
        kinds.extend(std::iter::repeat(7).take(2 * n));
    }
    if rng.bool(0.4) {
        cones.push(SupportedConeT::SecondOrderConeT(3));
        kinds.extend([2, 3, 3]);
    }
    if rng.bool(0.3) {
        cones.push(SupportedConeT::ExponentialConeT());
        kinds.extend([4, 5, 6]);
    }
    let m = kinds.len();
    let ad = *rng.choose(&[0.4, 0.7, 1.0]);
    let mut colptr = vec![0usize];
    let mut rowval = vec![];
    let mut nzval = vec![];
    let mut box_row = 0;
    let first_box = kinds.iter().position(|&k| k == 7);
    for c in 0..n {
        for r in 0..m {
            if kinds[r] == 7 {
                let j = r - first_box.unwrap();
                if j == 2 * c || j == 2 * c + 1 {
                    rowval.push(r);
                    nzval.push(if j % 2 == 0 { 1.0 } else { -1.0 });
                    box_row += 1;
                }
            } else if rng.bool(ad) {
                rowval.push(r);
                nzval.push(rng.uniform(-1.0, 1.0));
            }
        }
        colptr.push(rowval.len());
    }
    let _ = box_row;
    let A = CscMatrix { m, n, colptr, rowval, nzval };
    let wild = rng.bool(0.15);
    let b: Vec<f64> = kinds.iter().map(|&k| if k == 7 { 5.0 } else { gen_b_entry(rng, k, wild) }).collect();
    let q: Vec<f64> = (0..n).map(|_| scaled(rng, -1.0, 1.0, qsc)).collect();
    let prob = Prob { P, q, A, b, cones, equil: rng.bool(0.6), presolve: false, chordal: false, inf: 0.0 };
    (prob, Shape { kinds, psc, qsc })
}

fn diag_flags(P: &CscMatrix<f64>) -> Vec<bool> {
    let c = col_index(P);
    (0..P.nzval.len()).map(|k| P.rowval[k] == c[k]).collect()
}

fn gen_idx_pairs(rng: &mut Rng, len: usize, invalid: bool, val: &mut dyn FnMut(&mut Rng, usize) -> f64) -> (Vec<usize>, Vec<f64>) {
    let k = rng.below(4) + if invalid { 1 } else { 0 };
    let mut idx = vec![];
    let mut vals = vec![];
    let bad_at = if invalid { rng.below(k) } else { usize::MAX };
    for j in 0..k {
        if j == bad_at || len == 0 {
            idx.push(len + rng.below(3));
            vals.push(1.0);
        } else {
            let i = rng.below(len);
            idx.push(i);
            vals.push(val(rng, i));
        }
    }
    if len == 0 && !invalid {
        idx.clear();
        vals.clear();
    }
    // the zip stops at the shorter list
    if rng.bool(0.15) {
        vals.push(7.0);
    } else if rng.bool(0.1) && !idx.is_empty() {
        idx.push(len + 5); // never reached: values are exhausted first
    }
    // more zip-truncation shapes, both directions: cut one of the lists anywhere (a bad index
    // then lies beyond the shorter length — never examined, accepted — or stays inside it —
    // rejected, prefix applied), or append several surplus entries
    if rng.bool(0.12) && !idx.is_empty() {
        if rng.bool(0.5) {
            let k = rng.below(vals.len() + 1);
            vals.truncate(k);
        } else {
            let k = rng.below(idx.len() + 1);
            idx.truncate(k);
        }
    } else if rng.bool(0.08) {
        let extra = 1 + rng.below(3);
        if rng.bool(0.5) {
            for _ in 0..extra {
                // surplus indices: in range, exactly `len` (boundary) or far out — never examined
                let j = match rng.below(3) {
                    0 => len,
                    1 => len + 1 + rng.below(4),
                    _ => rng.below(len.max(1)),
                };
                idx.push(j);
            }
        } else {
            for _ in 0..extra {
                vals.push(3.0); // surplus values: ignored
            }
        }
    }
    (idx, vals)
}

fn gen_varg(rng: &mut Rng, len: usize, invalid: bool, val: &mut dyn FnMut(&mut Rng, usize) -> f64) -> VArg {
    match rng.below(8) {
        0 if !invalid => VArg::Empty0,
        1 if !invalid => VArg::Slice(vec![]),
        2 | 3 | 4 => {
            let (i, v) = gen_idx_pairs(rng, len, invalid, val);
            VArg::Pairs(i, v)
        }
        _ => {
            let l = if invalid { if rng.bool(0.5) { len + 1 } else { (len + 2) / 2 + len } } else { len };
            let l = if invalid && rng.bool(0.3) && len > 1 { len - 1 } else { l };
            VArg::Slice((0..l).map(|i| val(rng, i.min(len.saturating_sub(1)))).collect())
        }
    }
}

fn gen_marg(rng: &mut Rng, pat: &CscMatrix<f64>, invalid: bool, val: &mut dyn FnMut(&mut Rng, usize) -> f64) -> MArg {
    let len = pat.nzval.len();
    match rng.below(10) {
        0 if !invalid => MArg::Empty0,
        1 if !invalid => MArg::Slice(vec![]),
        2 | 3 | 4 => {
            let (i, v) = gen_idx_pairs(rng, len, invalid, val);
            MArg::Pairs(i, v)
        }
        5 | 6 | 7 => {
            let mut m = pat.clone();
            for i in 0..len {
                m.nzval[i] = val(rng, i);
            }
            if invalid {
                match rng.below(5) {
                    0 => m.m += 1,
                    1 => {
                        m.n += 1;
                        m.colptr.push(len);
                    }
                    2 if len > 0 => {
                        let k = rng.below(len);
                        m.rowval[k] = (m.rowval[k] + 1) % pat.m.max(1);
                        if m.rowval == pat.rowval {
                            m.m += 1;
                        }
                    }
                    3 if len > 0 && pat.n > 1 => {
                        // move one entry to a neighbouring column
                        let j = 1 + rng.below(pat.n - 1);
                        if m.colptr[j] > 0 { m.colptr[j] -= 1 } else { m.colptr[j] += 1 }
                        if m.colptr == pat.colptr {
                            m.m += 1;
                        }
                    }
                    _ => {
                        // same pattern, value array of the wrong length (longer, or shorter but nonempty)
                        if len >= 2 && rng.bool(0.4) {
                            let k = 1 + rng.below(len - 1);
                            m.nzval.truncate(k);
                        } else {
                            m.nzval.push(1.0);
                            if rng.bool(0.3) {
                                m.nzval.push(2.0);
                            }
                        }
                    }
                }
            } else if rng.bool(0.06) {
                // same pattern, EMPTY value array: accepted, nothing changes (the `[T]` rule)
                m.nzval.clear();
            }
            MArg::Matrix(m)
        }
        _ => {
            let l = if invalid { if rng.bool(0.5) || len <= 1 { len + 1 } else { len - 1 } } else { len };
            MArg::Slice((0..l).map(|i| val(rng, i.min(len.saturating_sub(1)))).collect())
        }
    }
}

fn gen_op(rng: &mut Rng, p: &Prob, sh: &Shape, patP: &CscMatrix<f64>, patA: &CscMatrix<f64>, invalid_rate: f64) -> Op {
    gen_op_with(rng, p, sh, patP, patA, invalid_rate, None)
}

/// argument-form templates for a forced `update_data` (0 `[T;0]`, 1 slice / `Vec`, 2 `CscMatrix`,
/// 3 `(index,value)` pairs): at least three different forms across the four arguments
const MIXED_FORMS: [[u8; 4]; 8] = [[2, 3, 0, 1], [3, 1, 2, 0], [1, 0, 3, 3], [0, 3, 1, 3], [2, 0, 3, 1], [3, 3, 2, 1], [1, 3, 2, 3], [2, 1, 3, 0]];

/// `force = Some(k)`: an `update_data` with mixed argument forms whose component `k` (0 `P`,
/// 1 `q`, 2 `A`, 3 `b`) is the FIRST to be rejected (`k = 4`: all accepted; `k >= 5`: component
/// `k - 5` AND the last one are invalid — the first wins)
fn gen_op_with(rng: &mut Rng, p: &Prob, sh: &Shape, patP: &CscMatrix<f64>, patA: &CscMatrix<f64>, invalid_rate: f64, force: Option<usize>) -> Op {
    let diag = diag_flags(patP);
    let (psc, qsc) = (sh.psc, sh.qsc);
    let wild = rng.bool(0.1);
    let kinds = sh.kinds.clone();
    let acol = col_index(patA);
    let arow = patA.rowval.clone();
    let mut pv = |rng: &mut Rng, i: usize| gen_P_entry(rng, diag.get(i).copied().unwrap_or(true), psc);
    let mut qv = |rng: &mut Rng, _i: usize| scaled(rng, -1.0, 1.0, qsc);
    let first_box = kinds.iter().position(|&k| k == 7).unwrap_or(0);
    let mut av = |rng: &mut Rng, i: usize| {
        // box rows keep their structure (x_j <= u, -x_j <= u): the feasible set stays bounded
        match arow.get(i) {
            Some(&r) if kinds[r] == 7 => {
                let _ = &acol;
                if (r - first_box) % 2 == 0 { 1.0 } else { -1.0 }
            }
            _ => rng.uniform(-1.0, 1.0),
        }
    };
    let kinds2 = sh.kinds.clone();
    let mut bv = |rng: &mut Rng, i: usize| match kinds2.get(i) {
        Some(&7) => rng.uniform(3.0, 6.0),
        Some(&k) => gen_b_entry(rng, k, wild),
        None => 1.0,
    };
    let (n, m) = (p.q.len(), p.b.len());
    if let Some(k) = force {
        let bad = |j: usize| if k <= 4 { j == k } else { j == k - 5 || j == 3 };
        let mut forms = *rng.choose(&MIXED_FORMS);
        for j in 0..4 {
            // an invalid argument cannot be in an empty form
            if bad(j) && forms[j] == 0 {
                forms[j] = if j % 2 == 0 { 2 } else { 1 };
            }
        }
        let mut pick_m = |rng: &mut Rng, pat: &CscMatrix<f64>, inv: bool, want: u8, val: &mut dyn FnMut(&mut Rng, usize) -> f64| {
            let mut a = gen_marg(rng, pat, inv, val);
            for _ in 0..60 {
                if form_m(&a) == want && m_rejects(&a, pat) == inv {
                    break;
                }
                a = gen_marg(rng, pat, inv, val);
            }
            a
        };
        let a1 = pick_m(rng, patP, bad(0), forms[0], &mut pv);
        let a3 = pick_m(rng, patA, bad(2), forms[2], &mut av);
        let mut pick_v = |rng: &mut Rng, len: usize, inv: bool, want: u8, val: &mut dyn FnMut(&mut Rng, usize) -> f64| {
            let mut a = gen_varg(rng, len, inv, val);
            for _ in 0..60 {
                if form_v(&a) == want && v_rejects(&a, len) == inv {
                    break;
                }
                a = gen_varg(rng, len, inv, val);
            }
            a
        };
        let a2 = pick_v(rng, n, bad(1), forms[1], &mut qv);
        let a4 = pick_v(rng, m, bad(3), forms[3], &mut bv);
        return Op::D(a1, a2, a3, a4);
    }
    let i1 = rng.bool(invalid_rate);
    let r = invalid_rate / 2.0;
    let (j1, j2, j3, j4) = (rng.bool(r), rng.bool(r), rng.bool(r), rng.bool(r));
    match rng.below(12) {
        0 | 1 => Op::P(gen_marg(rng, patP, i1, &mut pv)),
        2 | 3 => Op::Q(gen_varg(rng, n, i1, &mut qv)),
        4 | 5 => Op::A(gen_marg(rng, patA, i1, &mut av)),
        6 | 7 => Op::B(gen_varg(rng, m, i1, &mut bv)),
        8 | 9 => {
            let a1 = gen_marg(rng, patP, j1, &mut pv);
            let a2 = gen_varg(rng, n, j2, &mut qv);
            let a3 = gen_marg(rng, patA, j3, &mut av);
            let a4 = gen_varg(rng, m, j4, &mut bv);
            Op::D(a1, a2, a3, a4)
        }
        10 => Op::Solve,
        _ => Op::Norms,
    }
}

fn submit_history(s: &mut Session, p: &Prob, ops: &[Op]) {
    let solver = build(p);
    let flags = guard_flags(p);
    let mut l = Line::new("upd.seq")
        .csc("uP", &p.P)
        .fs("uq", &p.q)
        .csc("uA", &p.A)
        .fs("ub", &p.b)
        .s("cones", &enc_cones(&p.cones))
        .b("equil", p.equil)
        .b("presolve", p.presolve)
        .b("chordal", p.chordal);
    if p.inf > 0.0 {
        l = l.f("inf", p.inf);
    }
    l = state_line(l, &solver, flags);
    l = l.u("nops", ops.len());
    for (i, o) in ops.iter().enumerate() {
        l = l.s(&format!("op{}", i), &enc_op(o));
    }
    s.count(&format!("guard:{:?}", guard_of(flags)));
    s.count(if p.equil { "equilibrated" } else { "not-equilibrated" });
    for o in ops {
        s.count(match o {
            Op::P(_) => "op:update_P",
            Op::Q(_) => "op:update_q",
            Op::A(_) => "op:update_A",
            Op::B(_) => "op:update_b",
            Op::D(..) => "op:update_data",
            Op::Solve => "op:solve",
            Op::Norms => "op:norms",
        });
    }
    if guard_of(flags).is_none() {
        let (patP, patA) = (&solver.data.P, &solver.data.A);
        for o in ops {
            for c in op_classes(o, patP, patA, p.q.len(), p.b.len()) {
                s.count(&c);
            }
        }
    }
    let out = s.submit(l.done());
    for tok in out.split_whitespace() {
        if let Some((k, v)) = tok.split_once('=') {
            if k.starts_with('r') && k[1..].chars().all(|c| c.is_ascii_digit()) {
                s.count(&format!("result:{}", v));
            }
        }
    }
}

fn generate(s: &mut Session) {
    // debugging aid (sensitivity runs): `C08_ONLY_SOLVE=1` runs the `upd.solve` stage alone
    if std::env::var("C08_ONLY_SOLVE").is_ok() {
        c08_solve::generate_solve(s);
        clarabel::default_infinity();
        NOTES.with(|n| {
            for (k, v) in n.borrow().iter() {
                s.note(format!("{}: {}", k, v));
            }
            n.borrow_mut().clear();
        });
        return;
    }
    // index_to_coord: every index of small patterns, plus one index beyond nnz
    for _ in 0..s.budget(150, 3000) {
        let (m, n) = (1 + s.rng.below(4), 1 + s.rng.below(5));
        let dens = *s.rng.choose(&[0.2, 0.5, 1.0]);
        let a = gen::csc(&mut s.rng, m, n, dens, gen::Vals::SmallInt(2));
        for k in 0..=a.nnz() {
            s.submit(Line::new("upd.index_to_coord").u("m", a.m).us("colptr", &a.colptr).us("rowval", &a.rowval).u("k", k).done());
        }
    }
    // histories on solvers that accept updates
    for _ in 0..s.budget(2000, 40000) {
        let mut rng = s.rng.fork();
        let (p, sh) = gen_problem(&mut rng);
        let probe = build(&p);
        let (patP, patA) = (probe.data.P.clone(), probe.data.A.clone());
        let nops = 1 + rng.below(8);
        let rate = *rng.choose(&[0.0, 0.3, 0.3, 0.6]);
        let ops: Vec<Op> = (0..nops).map(|_| gen_op(&mut rng, &p, &sh, &patP, &patA, rate)).collect();
        submit_history(s, &p, &ops);
    }
    // a small module-level infinity bound and one badly scaled nonnegative row: the bound is a
    // statement about the USER's right-hand side, so an update_b value below it must be taken
    // as it is even when its equilibrated image e_i·b_i exceeds the bound
    for _ in 0..s.budget(120, 2400) {
        let mut rng = s.rng.fork();
        let (mut p, sh) = gen_problem(&mut rng);
        let nn: Vec<usize> = (0..p.b.len()).filter(|&i| sh.kinds[i] == 1).collect();
        if nn.is_empty() {
            continue;
        }
        p.equil = true;
        p.inf = *rng.choose(&[1e3, 50.0]);
        let row = *rng.choose(&nn);
        let sc = *rng.choose(&[1e-2, 1e-3]);
        for k in 0..p.A.nzval.len() {
            if p.A.rowval[k] == row {
                p.A.nzval[k] *= sc;
            }
        }
        let probe = build(&p);
        let (patP, patA) = (probe.data.P.clone(), probe.data.A.clone());
        let mut ops: Vec<Op> = (0..rng.below(3)).map(|_| gen_op(&mut rng, &p, &sh, &patP, &patA, 0.0)).collect();
        // a whole-vector or index-form update of b with the scaled row's bound just below the infinity bound
        let mut bnew = p.b.clone();
        bnew[row] = p.inf * rng.uniform(0.3, 0.9);
        ops.push(if rng.bool(0.5) { Op::B(VArg::Slice(bnew)) } else { Op::B(VArg::Pairs(vec![row], vec![p.inf * rng.uniform(0.3, 0.9)])) });
        ops.push(Op::Solve);
        s.count("history:small-infinity-bound");
        submit_history(s, &p, &ops);
    }
    // P given with a stored pattern whose VALUES are all zero (an LP until the first update_P):
    // anything decided once at construction from the values of P must follow the update (seed C08-g)
    for _ in 0..s.budget(60, 1200) {
        let mut rng = s.rng.fork();
        let (mut p, sh) = gen_problem(&mut rng);
        if p.P.nzval.is_empty() {
            continue;
        }
        let vals = p.P.nzval.clone();
        p.P.nzval.iter_mut().for_each(|v| *v = 0.0);
        let probe = build(&p);
        let (patP, patA) = (probe.data.P.clone(), probe.data.A.clone());
        let mut ops: Vec<Op> = vec![];
        if rng.bool(0.5) {
            ops.push(Op::Solve);
        }
        ops.push(match rng.below(3) {
            0 => Op::P(MArg::Slice(vals.clone())),
            1 => Op::P(MArg::Matrix(CscMatrix { m: p.P.m, n: p.P.n, colptr: p.P.colptr.clone(), rowval: p.P.rowval.clone(), nzval: vals.clone() })),
            _ => Op::P(MArg::Pairs((0..vals.len()).collect(), vals.clone())),
        });
        for _ in 0..rng.below(2) {
            ops.push(gen_op(&mut rng, &p, &sh, &patP, &patA, 0.0));
        }
        ops.push(Op::Solve);
        s.count("history:zero-valued-P-then-update_P");
        submit_history(s, &p, &ops);
    }
    // `update_data` with MIXED argument forms; the first rejecting component is chosen
    // (P, q, A, b, none, or two at once), so that the prefix effect of a rejected call — the
    // components before the rejected one HAVE been applied — is compared with the model
    for it in 0..s.budget(320, 6400) {
        let mut rng = s.rng.fork();
        let (p, sh) = gen_problem(&mut rng);
        let probe = build(&p);
        let (patP, patA) = (probe.data.P.clone(), probe.data.A.clone());
        let mut ops: Vec<Op> = (0..rng.below(3)).map(|_| gen_op(&mut rng, &p, &sh, &patP, &patA, 0.2)).collect();
        ops.push(gen_op_with(&mut rng, &p, &sh, &patP, &patA, 0.0, Some(it % 8)));
        for _ in 0..rng.below(3) {
            ops.push(gen_op(&mut rng, &p, &sh, &patP, &patA, 0.2));
        }
        s.count("history:forced-mixed-form-update_data");
        submit_history(s, &p, &ops);
    }
    // presolve active: every update form is refused, nothing changes
    for _ in 0..s.budget(150, 3000) {
        let mut rng = s.rng.fork();
        let (mut p, sh) = gen_problem(&mut rng);
        p.presolve = true;
        let nn: Vec<usize> = (0..p.b.len()).filter(|&i| sh.kinds[i] == 1).collect();
        p.b[*rng.choose(&nn)] = if rng.bool(0.5) { 1e20 } else { f64::INFINITY };
        let probe = build(&p);
        let (patP, patA) = (probe.data.P.clone(), probe.data.A.clone());
        let nops = 1 + rng.below(5);
        let ops: Vec<Op> = (0..nops).map(|_| gen_op(&mut rng, &p, &sh, &patP, &patA, 0.2)).collect();
        submit_history(s, &p, &ops);
    }
    // chordal decomposition active (a banded 4x4 PSD constraint decomposes into 3 cliques)
    for _ in 0..s.budget(20, 300) {
        let mut rng = s.rng.fork();
        let p = chordal_problem(&mut rng);
        let probe = build(&p);
        let (patP, patA) = (probe.data.P.clone(), probe.data.A.clone());
        let sh = Shape { kinds: vec![1; p.b.len()], psc: 1.0, qsc: 1.0 };
        let ops: Vec<Op> = (0..3).map(|_| gen_op(&mut rng, &p, &sh, &patP, &patA, 0.2)).collect();
        submit_history(s, &p, &ops);
    }
    // histories of updates interleaved with solve() on the whole solver object (channel upd.solve)
    c08_solve::generate_solve(s);
    clarabel::default_infinity();
    if !s.is_searching() {
        s.submit(Line::new("upd.known").f("scale", 1e9).done());
    }
    NOTES.with(|n| {
        for (k, v) in n.borrow().iter() {
            s.note(format!("{}: {}", k, v));
        }
        n.borrow_mut().clear();
    });
}

/// min sum(x_diag) s.t. a tridiagonal 4x4 matrix variable is PSD-ish: A = -I on the svec
/// positions of the band, b = small identity; decomposable pattern (cliques {0,1},{1,2},{2,3})
fn chordal_problem(rng: &mut Rng) -> Prob {
    // svec (upper triangle, column-wise) index of (i,j), i<=j : j(j+1)/2 + i
    let band: Vec<usize> = {
        let mut v = vec![];
        for j in 0..4usize {
            for i in 0..=j {
                if j - i <= 1 {
                    v.push(j * (j + 1) / 2 + i);
                }
            }
        }
        v
    };
    let n = band.len();
    let m = 10;
    let mut colptr = vec![0];
    let mut rowval = vec![];
    let mut nzval = vec![];
    for &r in &band {
        rowval.push(r);
        nzval.push(-1.0);
        colptr.push(rowval.len());
    }
    let A = CscMatrix { m, n, colptr, rowval, nzval };
    let mut b = vec![0.0; m];
    for j in 0..4usize {
        b[j * (j + 1) / 2 + j] = rng.uniform(1.0, 2.0);
    }
    let q: Vec<f64> = band.iter().map(|&r| if [0, 2, 5, 9].contains(&r) { 1.0 } else { rng.uniform(-0.3, 0.3) }).collect();
    let P = CscMatrix { m: n, n, colptr: vec![0; n + 1], rowval: vec![], nzval: vec![] };
    Prob { P, q, A, b, cones: vec![SupportedConeT::PSDTriangleConeT(4)], equil: rng.bool(0.5), presolve: false, chordal: true, inf: 0.0 }
}

/// Known finding `KF-C08-stale-equilibration`: the equilibration computed for the data at
/// construction is reused for updated data.  When the update changes the scale of A and b
/// by many orders of magnitude the updated solver can stop without a verdict although a
/// fresh solver on the same final data is `Solved`.  One explicit case (channel
/// `upd.known`, not modelled); its oracle fails with a stable tag when (and only when) the
/// behaviour reproduces, which /verif/known_findings.json turns into a KNOWN-FINDING line.
///
/// minimise x^2/8  s.t.  x >= -2.5, x >= 1   (optimum x = 1, objective 1/8), with A and b
/// multiplied by `scale` at construction and updated to the unscaled values afterwards.
fn run_known(r: &Req) -> String {
    let scale = r.f("scale");
    let n = 1;
    let P = CscMatrix { m: n, n, colptr: vec![0, 1], rowval: vec![0], nzval: vec![0.25] };
    let q = vec![0.0];
    let A0 = CscMatrix { m: 2, n, colptr: vec![0, 2], rowval: vec![0, 1], nzval: vec![-0.5, -0.25] };
    let mut A = A0.clone();
    A.nzval.iter_mut().for_each(|v| *v *= scale);
    let b0 = vec![1.25, -0.25];
    let b: Vec<f64> = b0.iter().map(|v| v * scale).collect();
    let cones = vec![SupportedConeT::NonnegativeConeT(2)];
    let p = Prob { P, q, A, b, cones, equil: true, presolve: false, chordal: false, inf: 0.0 };
    let mut upd = build(&p);
    upd.solve();
    let first = upd.solution.status;
    let r = upd.update_data(&MArg::Empty0, &VArg::Empty0, &MArg::Slice(A0.nzval.clone()), &VArg::Slice(b0.clone()));
    upd.solve();
    let mut fp = p.clone();
    fp.A = A0.clone();
    fp.b = b0.clone();
    let mut fresh = build(&fp);
    fresh.solve();
    format!(
        "first={:?} update={} updated={:?} iters={} fresh={:?} class_updated={} class_fresh={}",
        first, res_str(&r), upd.solution.status, upd.solution.iterations, fresh.solution.status,
        status_class(upd.solution.status), status_class(fresh.solution.status)
    )
}
fn oracle_known(r: &Req, out: &str) -> Result<(), String> {
    let o = Req::parse(&format!("x {}", out)).ok_or("unparsable")?;
    if o.str("class_updated") != o.str("class_fresh") {
        return Err(format!(
            "KF-C08-stale-equilibration: n=1 P=[0.25] q=[0] A={:e}*[-0.5;-0.25] b={:e}*[1.25;-0.25] NN(2), equilibration on, \
             first solve {}; update_data(A -> [-0.5;-0.25], b -> [1.25;-0.25]) = {}: the updated solver ends {} after {} \
             iterations, a fresh solver on the final data is {} (the equilibration of the old data is reused; inherent to \
             in-place updating)",
            r.f("scale"), r.f("scale"), o.str("first"), o.str("update"), o.str("updated"), o.str("iters"), o.str("fresh")
        ));
    }
    Ok(())
}

fn main() {
    Session::from_args("C08", channels()).run(generate)
}
