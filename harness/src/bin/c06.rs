//! C06 — well-posed problems are actually solved, in few iterations.
//!
//!  * `g.solve` (not modelled, measured): family G of planted strictly feasible primal-dual
//!    pairs (sizes 1..60, all cone mixtures incl. exp/pow/genpow/PSD, |entries| <= 1e3,
//!    bounded row/column scaling).  Decision rule over the sample: Solved >= 99.5 % and
//!    p95(iterations) <= ENVELOPE.  Each request is `seed size`, so a failing instance is
//!    its own replay.
//!  * `traj.sigma_mu` (modelled, bit level): for a fixed corpus of small LP/QP/SOCP the
//!    per-pass (alpha_aff, sigma, m, mu) recorded by the observer against the model's
//!    recomputation sigma = (1-alpha_aff)^3, m = first-iteration damping,
//!    mu = (s'z + tau kappa)/(nu+1) from the observed iterates.
#![allow(non_snake_case)]
#![allow(mixed_script_confusables)]
#![allow(clippy::needless_range_loop)]
use clarabel::algebra::*;
use clarabel::solver::*;
use clarabel::verif_hooks::cones::Cone;
use clarabel::verif_hooks::observer::{self, Event};
use vharness::proto::ff;
use vharness::*;

// the step-machinery channels (variables.rs / kktsystem.rs / solver.rs against the Lean model)
// are shared with C05
#[allow(dead_code)]
#[path = "c05.rs"]
mod c05;

/// envelope for the 95th percentile of the iteration count over family G (measured on the
/// unchanged tree over seeds 1..5, 20 000 instances each: p95 = 18, max 30..45; fixed with head-room)
const ENVELOPE: u32 = 24;
/// required fraction of `Solved`
const MIN_SOLVED: f64 = 0.995;
/// conic programmes (SOC/exp/pow/genpow/PSD rows) with a purely linear objective are part of
/// family G up to this many variables; above it the objective is strictly convex
const CONIC_LP_NMAX: usize = 10;

#[derive(Clone)]
pub struct Prob {
    n: usize,
    P: Vec<Vec<f64>>, // dense symmetric
    q: Vec<f64>,
    A: Vec<Vec<f64>>, // dense m×n
    b: Vec<f64>,
    cones: Vec<SupportedConeT<f64>>,
}

fn cone_dim(c: &SupportedConeT<f64>) -> usize {
    match c {
        ZeroConeT(k) | NonnegativeConeT(k) | SecondOrderConeT(k) => *k,
        ExponentialConeT() | PowerConeT(_) => 3,
        GenPowerConeT(a, d) => a.len() + d,
        PSDTriangleConeT(k) => k * (k + 1) / 2,
    }
}

/// strictly interior points of K and K*
fn interior(c: &SupportedConeT<f64>, rng: &mut Rng) -> (Vec<f64>, Vec<f64>) {
    match c {
        ZeroConeT(k) => (vec![0.0; *k], (0..*k).map(|_| rng.normal()).collect()),
        NonnegativeConeT(k) => (
            (0..*k).map(|_| rng.uniform(0.2, 2.0)).collect(),
            (0..*k).map(|_| rng.uniform(0.2, 2.0)).collect(),
        ),
        SecondOrderConeT(k) => {
            let mut f = |rng: &mut Rng| {
                let v: Vec<f64> = (1..*k).map(|_| rng.normal()).collect();
                let nv = v.iter().map(|x| x * x).sum::<f64>().sqrt();
                let mut s = vec![nv + rng.uniform(0.2, 1.5)];
                s.extend(v);
                s
            };
            (f(rng), f(rng))
        }
        ExponentialConeT() => {
            let (x, y) = (rng.uniform(-1.0, 1.0), rng.uniform(0.5, 2.0));
            let s = vec![x, y, y * (x / y).exp() + rng.uniform(0.2, 1.0)];
            let (u, v) = (-rng.uniform(0.5, 2.0), rng.uniform(-1.0, 1.0));
            let z = vec![u, v, -u * (v / u).exp() / std::f64::consts::E + rng.uniform(0.2, 1.0)];
            (s, z)
        }
        PowerConeT(a) => {
            let (x, y) = (rng.uniform(0.5, 2.0), rng.uniform(0.5, 2.0));
            let s = vec![x, y, rng.uniform(-0.7, 0.7) * x.powf(*a) * y.powf(1.0 - a)];
            let (u, v) = (rng.uniform(0.5, 2.0), rng.uniform(0.5, 2.0));
            let z = vec![u, v, rng.uniform(-0.7, 0.7) * (u / a).powf(*a) * (v / (1.0 - a)).powf(1.0 - a)];
            (s, z)
        }
        GenPowerConeT(al, d2) => {
            let xs: Vec<f64> = al.iter().map(|_| rng.uniform(0.5, 2.0)).collect();
            let bound: f64 = xs.iter().zip(al).map(|(x, a)| x.powf(*a)).product();
            let mut w: Vec<f64> = (0..*d2).map(|_| rng.normal()).collect();
            let nw = w.iter().map(|x| x * x).sum::<f64>().sqrt().max(1e-9);
            let sc = rng.uniform(0.0, 0.7) * bound / nw;
            w.iter_mut().for_each(|x| *x *= sc);
            let s = [xs, w].concat();
            let us: Vec<f64> = al.iter().map(|_| rng.uniform(0.5, 2.0)).collect();
            let bound: f64 = us.iter().zip(al).map(|(u, a)| (u / a).powf(*a)).product();
            let mut w: Vec<f64> = (0..*d2).map(|_| rng.normal()).collect();
            let nw = w.iter().map(|x| x * x).sum::<f64>().sqrt().max(1e-9);
            let sc = rng.uniform(0.0, 0.7) * bound / nw;
            w.iter_mut().for_each(|x| *x *= sc);
            (s, [us, w].concat())
        }
        PSDTriangleConeT(k) => {
            let mut f = |rng: &mut Rng| {
                let g: Vec<Vec<f64>> = (0..*k).map(|_| (0..*k).map(|_| rng.normal()).collect()).collect();
                let mut v = vec![];
                for c in 0..*k {
                    for r in 0..=c {
                        let mut e: f64 = (0..*k).map(|t| g[r][t] * g[c][t]).sum::<f64>() / (*k as f64);
                        if r == c {
                            e += 0.5;
                        } else {
                            e *= std::f64::consts::SQRT_2;
                        }
                        v.push(e);
                    }
                }
                v
            };
            (f(rng), f(rng))
        }
    }
}

fn matvec(A: &[Vec<f64>], x: &[f64]) -> Vec<f64> {
    A.iter().map(|row| row.iter().zip(x).map(|(a, b)| a * b).sum()).collect()
}
fn matTvec(A: &[Vec<f64>], n: usize, z: &[f64]) -> Vec<f64> {
    let mut out = vec![0.0; n];
    for (row, zi) in A.iter().zip(z) {
        for j in 0..n {
            out[j] += row[j] * zi;
        }
    }
    out
}
fn dot(a: &[f64], b: &[f64]) -> f64 {
    a.iter().zip(b).map(|(x, y)| x * y).sum()
}


/// cones of a sub-family: `kinds` lists the admissible picks (see `family_cones`), the first
/// cone is of the class-defining kind `kinds[0]`
fn class_cones(rng: &mut Rng, budget: usize, kinds: &[usize]) -> Vec<SupportedConeT<f64>> {
    let mut v = vec![];
    let mut m = 0;
    let mut tries = 0;
    while m < budget && tries < 100 {
        tries += 1;
        let left = budget - m;
        // classes whose definition needs two kinds together force the first two picks
        let forced = if kinds.first() == Some(&7) { 2 } else { 1 };
        let pick = if v.len() < forced { kinds[v.len()] } else { *rng.choose(kinds) };
        let c = match pick {
            0 => NonnegativeConeT(1 + rng.below(left.min(6))),
            1 => ZeroConeT(1),
            2 => SecondOrderConeT(2 + rng.below(left.min(6).max(2) - 1)),
            3 => ExponentialConeT(),
            4 => PowerConeT(*rng.choose(&[0.5, 0.3, 0.75, 0.1])),
            5 => {
                let k = 2 + rng.below(2);
                let mut al: Vec<f64> = (0..k).map(|_| rng.uniform(0.2, 1.0)).collect();
                let t: f64 = al.iter().sum();
                al.iter_mut().for_each(|x| *x = (*x / t * 64.0).round() / 64.0);
                let rest: f64 = al[1..].iter().sum();
                al[0] = 1.0 - rest;
                GenPowerConeT(al, 1 + rng.below(3))
            }
            6 => PSDTriangleConeT(2 + rng.below(3)),
            // second-order cones above SOC_NO_EXPANSION_MAX_SIZE = 4: sparse KKT expansion
            _ => SecondOrderConeT(5 + rng.below(6)),
        };
        if cone_dim(&c) <= left || v.len() < forced {
            m += cone_dim(&c);
            v.push(c);
        }
    }
    v
}
/// the cone classes with their own decision rule: (name, admissible picks)
const CLASSES: &[(&str, &[usize])] = &[
    ("sym", &[2, 0, 2, 1]),
    ("exp", &[3, 3, 0, 3]),
    ("pow", &[4, 4, 0, 4]),
    ("exppow", &[3, 4, 0, 3, 4]),
    ("genpow", &[5, 0, 5]),
    ("psd", &[6, 0, 6]),
    // a large (sparse-expanded) second-order cone together with exponential / power cones
    ("socexp", &[7, 3, 4, 0, 7, 3]),
    ("socpow", &[7, 4, 4, 0, 7, 2]),
    // second-order + generalised power cones and NO nonnegative cone: Dual scaling from the first
    // iteration with the SOC barrier in the centrality test (seed C06-f)
    ("socgenpow", &[7, 5, 2, 5, 2]),
];

fn family_cones(rng: &mut Rng, budget: usize) -> Vec<SupportedConeT<f64>> {
    // a random mixture filling (at most) `budget` rows
    let mut v = vec![];
    let mut m = 0;
    let flavour = rng.below(8);
    let mut tries = 0;
    while m < budget && tries < 200 {
        tries += 1;
        let left = budget - m;
        let pick = match flavour {
            0 => 0,                       // LP
            1 => *rng.choose(&[0, 0, 1]), // LP + equalities
            2 => *rng.choose(&[0, 2, 2]), // SOCP
            3 => *rng.choose(&[0, 3, 3, 1]),
            4 => *rng.choose(&[0, 4, 5, 1]),
            5 => *rng.choose(&[0, 6, 6]),
            _ => rng.below(7),
        };
        let c = match pick {
            0 => NonnegativeConeT(1 + rng.below(left.min(12))),
            1 => ZeroConeT(1),
            2 => SecondOrderConeT(1 + rng.below(left.min(8))),
            3 => ExponentialConeT(),
            4 => PowerConeT(*rng.choose(&[0.5, 0.3, 0.75, 0.1])),
            5 => {
                let k = 2 + rng.below(2);
                let mut al: Vec<f64> = (0..k).map(|_| rng.uniform(0.2, 1.0)).collect();
                let t: f64 = al.iter().sum();
                al.iter_mut().for_each(|x| *x = (*x / t * 64.0).round() / 64.0);
                let rest: f64 = al[1..].iter().sum();
                al[0] = 1.0 - rest;
                GenPowerConeT(al, 1 + rng.below(3))
            }
            _ => PSDTriangleConeT(1 + rng.below(5)),
        };
        if cone_dim(&c) <= left {
            m += cone_dim(&c);
            v.push(c);
        }
    }
    if v.iter().all(|c| matches!(c, ZeroConeT(_))) {
        v.push(NonnegativeConeT(1));
    }
    v
}

/// member of family G: planted strictly feasible primal and dual points
pub fn gen_g(seed: u64, size: usize) -> Prob {
    gen_g_ext(seed, size, CONIC_LP_NMAX, None)
}
fn gen_g_ext(seed: u64, size: usize, conic_lp_nmax: usize, class: Option<&[usize]>) -> Prob {
    let mut rng = Rng::new(seed ^ 0xC06_0000);
    let rng = &mut rng;
    let n = 1 + rng.below(size.max(1));
    let budget = 1 + rng.below(size.max(1));
    let mut cones = match class {
        Some(k) => class_cones(rng, budget, k),
        None => family_cones(rng, budget),
    };
    // at most (n-1)/2 equality rows (independent, see below)
    let mut nz = 0;
    cones.retain(|c| {
        if matches!(c, ZeroConeT(_)) {
            nz += 1;
            nz <= n.saturating_sub(1) / 2
        } else {
            true
        }
    });
    if cones.is_empty() {
        cones.push(NonnegativeConeT(1));
    }
    // generalised power cones only where the cone rows pin x down (see `pinned` below)
    let nineq: usize = cones.iter().map(|c| if matches!(c, ZeroConeT(_)) { 0 } else { cone_dim(c) }).sum();
    if nineq < n {
        for c in cones.iter_mut() {
            if let GenPowerConeT(al, d2) = c {
                *c = SecondOrderConeT(al.len() + *d2);
            }
        }
    }
    let conic = cones.iter().any(|c| !matches!(c, ZeroConeT(_) | NonnegativeConeT(_)));
    let m: usize = cones.iter().map(cone_dim).sum();
    let zero_rows: usize = cones.iter().map(|c| if let ZeroConeT(k) = c { *k } else { 0 }).sum();
    let dens = *rng.choose(&[0.15, 0.4, 0.8, 1.0]);
    // bounded row / column scalings: entries stay below 1e3
    let ex: f64 = 1.0;
    let rs: Vec<f64> = (0..m).map(|_| 10f64.powf(rng.uniform(-ex, ex))).collect();
    let cs: Vec<f64> = (0..n).map(|_| 10f64.powf(rng.uniform(-ex, ex))).collect();
    let wide = rng.bool(0.5);
    let mut A: Vec<Vec<f64>> = (0..m)
        .map(|i| {
            (0..n)
                .map(|j| {
                    if rng.bool(dens) {
                        let v = rng.normal() * if wide { rs[i] * cs[j] } else { 1.0 };
                        v.clamp(-1e3, 1e3)
                    } else {
                        0.0
                    }
                })
                .collect()
        })
        .collect();
    // equality rows must not be (structurally) dependent: keep their number below n and give
    // each a private dominant entry
    if zero_rows > 0 {
        let mut col = 0;
        let mut off = 0;
        for c in &cones {
            let d = cone_dim(c);
            if let ZeroConeT(_) = c {
                for i in off..off + d {
                    A[i][col % n] += 4.0 * if wide { rs[i] * cs[col % n] } else { 1.0 };
                    col += 1;
                }
            }
            off += d;
        }
    }
    let (mut s0, mut z0) = (vec![], vec![]);
    for c in &cones {
        let (s, z) = interior(c, rng);
        s0.extend(s);
        z0.extend(z);
    }
    let x0: Vec<f64> = (0..n).map(|_| rng.normal()).collect();
    // conditioning: the solution must be unique with a margin.  If the inequality rows cannot
    // pin down x (fewer rows than variables) the objective is made strictly convex; otherwise
    // every column gets a private entry in a cone row so that A has full column rank.
    let ineq_rows: Vec<usize> = {
        let mut v = vec![];
        let mut off = 0;
        for c in &cones {
            let d = cone_dim(c);
            if !matches!(c, ZeroConeT(_)) {
                v.extend(off..off + d);
            }
            off += d;
        }
        v
    };
    let pinned = ineq_rows.len() >= n;
    if pinned {
        let p = rng.perm(ineq_rows.len());
        for j in 0..n {
            let i = ineq_rows[p[j]];
            let sc = if wide { rs[i] * cs[j] } else { 1.0 };
            A[i][j] = (A[i][j] + 3.0 * sc * if rng.bool(0.5) { 1.0 } else { -1.0 }).clamp(-1e3, 1e3);
        }
    }
    // linear objectives: LPs of any size, conic programmes up to CONIC_LP_NMAX variables
    // (larger conic LPs are measured separately, see `generate`)
    let force_quad = !pinned || (conic && n > conic_lp_nmax);
    let rnk = if force_quad { n } else if rng.bool(0.4) { 1 + rng.below(n) } else { 0 };
    let G: Vec<Vec<f64>> = (0..rnk).map(|_| (0..n).map(|_| if rng.bool(0.5) { rng.normal() } else { 0.0 }).collect()).collect();
    let mut P = vec![vec![0.0; n]; n];
    for i in 0..n {
        for j in 0..=i {
            let e: f64 = (0..rnk).map(|t| G[t][i] * G[t][j]).sum();
            P[i][j] = e;
            P[j][i] = e;
        }
    }
    if force_quad {
        let d = rng.uniform(0.2, 1.0);
        for i in 0..n {
            P[i][i] += d * cs[i] * cs[i];
        }
    }
    let b: Vec<f64> = matvec(&A, &x0).iter().zip(&s0).map(|(a, s)| a + s).collect();
    let px = matvec(&P, &x0);
    let atz = matTvec(&A, n, &z0);
    let q: Vec<f64> = (0..n).map(|j| -px[j] - atz[j]).collect();
    if std::env::var("C06_DEBUG").is_ok() {
        eprintln!("DBG dens={} wide={} pinned={} rnk={} n={} m={} ineq={}", dens, wide, pinned, rnk, n, m, ineq_rows.len());
    }
    Prob { n, P, q, A, b, cones }
}

fn csc_from_dense(d: &[Vec<f64>], m: usize, n: usize, triu: bool) -> CscMatrix<f64> {
    let mut colptr = vec![0];
    let mut rowval = vec![];
    let mut nzval = vec![];
    for c in 0..n {
        for r in 0..m {
            if triu && r > c {
                continue;
            }
            if d[r][c] != 0.0 {
                rowval.push(r);
                nzval.push(d[r][c]);
            }
        }
        colptr.push(rowval.len());
    }
    CscMatrix::new(m, n, colptr, rowval, nzval)
}


pub fn build(pr: &Prob) -> DefaultSolver<f64> {
    let m = pr.b.len();
    let P = csc_from_dense(&pr.P, pr.n, pr.n, true);
    let A = csc_from_dense(&pr.A, m, pr.n, false);
    let mut st = DefaultSettingsBuilder::default().verbose(std::env::var("C06_VERBOSE").is_ok()).build().unwrap();
    if let Ok(v) = std::env::var("C06_SET") {
        for t in v.split(',') {
            match t {
                "noequil" => st.equilibrate_enable = false,
                "noir" => st.iterative_refinement_enable = false,
                "nodyn" => st.dynamic_regularization_enable = false,
                "nostatic" => st.static_regularization_enable = false,
                "faer" => st.direct_solve_method = "faer".into(),
                "nopresolve" => st.presolve_enable = false,
                _ => {}
            }
        }
    }
    DefaultSolver::new(&P, &pr.q, &A, &pr.b, &pr.cones, st)
}

fn cone_tags(pr: &Prob) -> String {
    let mut t: Vec<&str> = pr
        .cones
        .iter()
        .map(|c| match c {
            ZeroConeT(_) => "zero",
            NonnegativeConeT(_) => "nn",
            SecondOrderConeT(_) => "soc",
            ExponentialConeT() => "exp",
            PowerConeT(_) => "pow",
            GenPowerConeT(_, _) => "genpow",
            PSDTriangleConeT(_) => "psd",
        })
        .collect();
    t.sort();
    t.dedup();
    t.join("+")
}

fn run_g(r: &Req) -> String {
    let pr = gen_g(r.u("seed") as u64, r.u("size"));
    let mut s = build(&pr);
    let dbg = std::env::var("C06_DEBUG").is_ok();
    if dbg {
        observer::start();
    }
    s.solve();
    if dbg {
        use clarabel::solver::traits::KKTSystem;
        let fin = |v: &[f64]| v.iter().all(|x| x.is_finite());
        eprintln!("vars finite x{} s{} z{} tau={:e} kappa={:e}", fin(&s.variables.x), fin(&s.variables.s), fin(&s.variables.z), s.variables.τ, s.variables.κ);
        eprintln!("rhs finite x{} s{} z{} tau={:e} kappa={:e}", fin(&s.step_rhs.x), fin(&s.step_rhs.s), fin(&s.step_rhs.z), s.step_rhs.τ, s.step_rhs.κ);
        eprintln!("lhs finite x{} s{} z{} tau={:e} kappa={:e}", fin(&s.step_lhs.x), fin(&s.step_lhs.s), fin(&s.step_lhs.z), s.step_lhs.τ, s.step_lhs.κ);
        let ok = s.kktsystem.update(&s.data, &s.cones, &s.settings);
        eprintln!("kkt.update again -> {}", ok);
        if let Some(st) = s.kktsystem.verif_c08_kkt_state() {
            let nz = &st.kkt_nzval;
            let bad: Vec<usize> = (0..nz.len()).filter(|&i| !nz[i].is_finite()).collect();
            let hs: Vec<f64> = st.map_Hsblocks.iter().map(|&i| nz[i]).collect();
            let dg: Vec<f64> = st.map_diag_full.iter().map(|&i| nz[i]).collect();
            eprintln!("kkt nnz={} nonfinite={:?}", nz.len(), &bad[..bad.len().min(10)]);
            eprintln!("Hs blocks range [{:e}, {:e}]", hs.iter().cloned().fold(f64::INFINITY, f64::min), hs.iter().cloned().fold(f64::NEG_INFINITY, f64::max));
            eprintln!("diag {:?}", dg);
        }
        eprintln!("min s {:e} min z {:e}", s.variables.s.iter().cloned().fold(f64::INFINITY, f64::min), s.variables.z.iter().cloned().fold(f64::INFINITY, f64::min));
        for e in observer::take() {
            match e {
                Event::Flag(n, v) => eprintln!("flag {} {}", n, v),
                Event::Scalar(n, v) => eprintln!("scalar {} {:e}", n, v),
                _ => eprintln!("pass"),
            }
        }
    }
    format!(
        "status={:?} iters={} n={} m={} quad={} cones={}",
        s.solution.status,
        s.solution.iterations,
        pr.n,
        pr.b.len(),
        pr.P.iter().any(|r| r.iter().any(|x| *x != 0.0)) as u8,
        cone_tags(&pr)
    )
}
fn run_gx(r: &Req) -> String {
    // extended family (measured and reported only): conic programmes with a linear objective
    // at every size
    let pr = gen_g_ext(r.u("seed") as u64, r.u("size"), usize::MAX, None);
    let mut s = build(&pr);
    s.solve();
    format!(
        "status={:?} iters={} n={} m={} quad={} cones={}",
        s.solution.status, s.solution.iterations, pr.n, pr.b.len(),
        pr.P.iter().any(|r| r.iter().any(|x| *x != 0.0)) as u8, cone_tags(&pr)
    )
}
fn run_gc(r: &Req) -> String {
    let kinds = CLASSES.iter().find(|c| c.0 == r.str("class")).expect("class").1;
    let pr = gen_g_ext(r.u("seed") as u64, r.u("size"), CONIC_LP_NMAX, Some(kinds));
    let mut s = build(&pr);
    s.solve();
    format!(
        "status={:?} iters={} n={} m={} quad={} cones={}",
        s.solution.status, s.solution.iterations, pr.n, pr.b.len(),
        pr.P.iter().any(|r| r.iter().any(|x| *x != 0.0)) as u8, cone_tags(&pr)
    )
}
/// smallest k with P(Binomial(n, p) > k) <= level
fn binom_allowance(n: usize, p: f64, level: f64) -> usize {
    let mut pmf = (1.0 - p).powi(n as i32);
    let mut cdf = pmf;
    let mut k = 0usize;
    while 1.0 - cdf > level && k < n {
        pmf *= (n - k) as f64 / (k + 1) as f64 * p / (1.0 - p);
        k += 1;
        cdf += pmf;
    }
    k
}
fn replaying() -> bool {
    std::env::args().any(|a| a == "--replay")
}
fn oracle_g(_r: &Req, out: &str) -> Result<(), String> {
    // the decision rule is statistical (see `generate`); a single instance is judged only
    // when it is replayed
    if !replaying() {
        return Ok(());
    }
    let o = Req::parse(&format!("x {}", out)).ok_or("parse")?;
    if o.str("status") != "Solved" {
        return Err(format!("instance of family G ends {}", o.str("status")));
    }
    if o.u("iters") as u32 > ENVELOPE {
        return Err(format!("instance of family G needs {} iterations (envelope {})", o.u("iters"), ENVELOPE));
    }
    Ok(())
}

/// per-class decision rule, measured on the unchanged tree (seeds 1..5, 4000 instances per
/// class and seed) and fixed with head-room: (class, p95 envelope, mean envelope, failure rate
/// of the null hypothesis)
const CLASS_RULE: &[(&str, u32, f64, f64)] = &[
    // measured: mean 7.02..7.06, p95 11, <= 2/4000 not Solved
    ("sym", 14, 8.1, 0.005),
    // measured: mean 9.57..9.68, p95 13..14, 0/4000
    ("exp", 17, 11.1, 0.005),
    // measured: mean 10.20..10.22, p95 14, <= 1/4000
    ("pow", 17, 11.7, 0.005),
    // measured: mean 9.75..9.81, p95 14, <= 1/4000
    ("exppow", 17, 11.3, 0.005),
    // measured: mean 12.35..12.53, p95 19, 5..9/4000
    ("genpow", 23, 14.3, 0.01),
    // measured: mean 7.75..7.85, p95 12, 0/4000
    ("psd", 15, 9.0, 0.005),
    // measured (seeds 1..3, 4000 each): mean 8.37..8.41, p95 12..13, <= 2/4000 not Solved
    ("socexp", 16, 9.9, 0.005),
    // measured: mean 8.44..8.52, p95 13, 1/4000
    ("socpow", 16, 10.0, 0.005),
    // measured (seeds 1..3, 1600 each): mean 9.37..9.48, p95 16, 5..14/1600 not Solved
    ("socgenpow", 20, 11.0, 0.02),
];
const CLASS_SIZE: usize = 20;
fn oracle_gc(r: &Req, out: &str) -> Result<(), String> {
    if !replaying() {
        return Ok(());
    }
    let rule = CLASS_RULE.iter().find(|c| c.0 == r.str("class")).ok_or("class")?;
    let o = Req::parse(&format!("x {}", out)).ok_or("parse")?;
    if o.str("status") != "Solved" {
        return Err(format!("instance of sub-family {} ends {}", rule.0, o.str("status")));
    }
    if o.u("iters") as u32 > rule.1 {
        return Err(format!("instance of sub-family {} needs {} iterations (p95 envelope {})", rule.0, o.u("iters"), rule.1));
    }
    Ok(())
}

// ---- trajectory ------------------------------------------------------------------------

struct Traj {
    deg: usize,
    s: Vec<Vec<f64>>,
    z: Vec<Vec<f64>>,
    tau: Vec<f64>,
    kappa: Vec<f64>,
    mu: Vec<f64>,
    aaff: Vec<f64>,
    sigma: Vec<f64>,
    mm: Vec<f64>,
    alpha: Vec<f64>,
    status: SolverStatus,
}
fn corpus_problem(k: usize) -> Prob {
    // fixed, independent of VERIF_SEED: small LP / QP / SOCP
    let mut rng = Rng::new(0xC06_C0DE + k as u64);
    let rng = &mut rng;
    let n = 1 + rng.below(5);
    let mut cones = vec![];
    let kinds = k % 3;
    let nc = 1 + rng.below(3);
    for _ in 0..nc {
        cones.push(match (kinds, rng.below(3)) {
            (2, 0) | (2, 1) => SecondOrderConeT(2 + rng.below(3)),
            (_, 2) => ZeroConeT(1),
            _ => NonnegativeConeT(1 + rng.below(4)),
        });
    }
    if cones.iter().all(|c| matches!(c, ZeroConeT(_))) {
        cones.push(NonnegativeConeT(2));
    }
    let m: usize = cones.iter().map(cone_dim).sum();
    let A: Vec<Vec<f64>> = (0..m).map(|_| (0..n).map(|_| rng.smallint(3)).collect()).collect();
    let (mut s0, mut z0) = (vec![], vec![]);
    for c in &cones {
        let (s, z) = interior(c, rng);
        s0.extend(s);
        z0.extend(z);
    }
    let x0: Vec<f64> = (0..n).map(|_| rng.normal()).collect();
    let rnk = if kinds == 1 { 1 + rng.below(n) } else { 0 };
    let G: Vec<Vec<f64>> = (0..rnk).map(|_| (0..n).map(|_| rng.smallint(2)).collect()).collect();
    let mut P = vec![vec![0.0; n]; n];
    for i in 0..n {
        for j in 0..n {
            P[i][j] = (0..rnk).map(|t| G[t][i] * G[t][j]).sum();
        }
    }
    let b: Vec<f64> = matvec(&A, &x0).iter().zip(&s0).map(|(a, s)| a + s).collect();
    let px = matvec(&P, &x0);
    let atz = matTvec(&A, n, &z0);
    let q: Vec<f64> = (0..n).map(|j| -px[j] - atz[j]).collect();
    Prob { n, P, q, A, b, cones }
}
fn record(pr: &Prob) -> Traj {
    let mut s = build(pr);
    observer::start();
    s.solve();
    let ev = observer::take();
    let mut t = Traj {
        deg: s.cones.degree(), s: vec![], z: vec![], tau: vec![], kappa: vec![], mu: vec![],
        aaff: vec![], sigma: vec![], mm: vec![], alpha: vec![], status: s.solution.status,
    };
    for e in ev {
        match e {
            Event::Pass(p) => {
                t.s.push(p.s.clone());
                t.z.push(p.z.clone());
                t.tau.push(p.tau);
                t.kappa.push(p.kappa);
                t.mu.push(p.mu);
            }
            Event::Scalar("alpha_aff", v) => t.aaff.push(v),
            Event::Scalar("sigma", v) => t.sigma.push(v),
            Event::Scalar("mehrotra_m", v) => t.mm.push(v),
            Event::Scalar("alpha", v) => t.alpha.push(v),
            _ => {}
        }
    }
    t
}
fn traj_request(k: usize, t: &Traj) -> String {
    let mut l = Line::new("traj.sigma_mu").u("k", k).u("deg", t.deg).u("np", t.s.len());
    for (i, (s, z)) in t.s.iter().zip(&t.z).enumerate() {
        l = l.fs(&format!("s{}", i), s).fs(&format!("z{}", i), z);
    }
    l.fs("tau", &t.tau).fs("kappa", &t.kappa).fs("aaff", &t.aaff).done()
}
fn run_traj(r: &Req) -> String {
    let k = r.u("k");
    let t = record(&corpus_problem(k));
    // determinism of the recorded inputs (the model recomputes from the request's copy)
    let same = traj_request(k, &t)
        == {
            let mut parts = vec![];
            parts.push(r.chan.clone());
            // re-render the request in canonical key order of `traj_request`
            parts.push(format!("k={}", r.str("k")));
            parts.push(format!("deg={}", r.str("deg")));
            parts.push(format!("np={}", r.str("np")));
            for i in 0..r.u("np") {
                parts.push(format!("s{}={}", i, r.str(&format!("s{}", i))));
                parts.push(format!("z{}={}", i, r.str(&format!("z{}", i))));
            }
            parts.push(format!("tau={}", r.str("tau")));
            parts.push(format!("kappa={}", r.str("kappa")));
            parts.push(format!("aaff={}", r.str("aaff")));
            parts.join(" ")
        };
    Line::out().fs("mu", &t.mu).fs("sigma", &t.sigma).fs("m", &t.mm).b("same", same).done()
}
fn oracle_traj(r: &Req, out: &str) -> Result<(), String> {
    // independent statement: mu_k (nu+1) = s_k.z_k + tau kappa, sigma in [0,1] and antitone in
    // alpha_aff, 0 < alpha <= 1
    let o = Req::parse(&format!("x {}", out)).ok_or("parse")?;
    let (mu, sg) = (o.fs("mu"), o.fs("sigma"));
    let (tau, kap, aaff) = (r.fs("tau"), r.fs("kappa"), r.fs("aaff"));
    let deg = r.u("deg") as f64;
    for i in 0..r.u("np") {
        let (s, z) = (r.fs(&format!("s{}", i)), r.fs(&format!("z{}", i)));
        let mut acc = tau[i] * kap[i];
        let mut sc = acc.abs();
        for (a, b) in s.iter().zip(&z) {
            acc += a * b;
            sc += (a * b).abs();
        }
        if (mu[i] * (deg + 1.0) - acc).abs() > 4.0 * (s.len() as f64 + 4.0) * f64::EPSILON * sc {
            return Err(format!("pass {}: mu (nu+1) = {} but s.z + tau kappa = {}", i, mu[i] * (deg + 1.0), acc));
        }
        if !(mu[i] > 0.0) {
            return Err(format!("pass {}: mu = {} not positive", i, mu[i]));
        }
    }
    for (a, s) in aaff.iter().zip(&sg) {
        if !(0.0..=1.0).contains(a) || !(0.0..=1.0).contains(s) {
            return Err(format!("alpha_aff={} sigma={} outside [0,1]", a, s));
        }
        if (s - (1.0 - a).powi(3)).abs() > 8.0 * f64::EPSILON {
            return Err(format!("sigma={} is not (1-alpha_aff)^3={}", s, (1.0 - a).powi(3)));
        }
    }
    if o.str("same") != "1" {
        return Err("re-running the corpus problem did not reproduce the recorded iterates".into());
    }
    Ok(())
}


// ---- one pass of the main loop on the real implementation --------------------------------
//
// `pass.newton` (oracle only, fixed corpus independent of VERIF_SEED): drives the public pieces
// of the main loop by hand — residuals.update, calc_mu, scale_cones, kktsystem.update,
// affine_step_rhs, solve(Affine), calc_step_length, centering_parameter, combined_step_rhs,
// solve(Combined), add_step — for a few passes and measures, per pass, what the C06 theorems
// say about an exact Newton step:
//   * residual contraction (C06.residual_contraction[_array]): r⁺ = (1 − α(1−σ)) r for rx, rz
//     (and rτ when P = 0), every cone type;
//   * μ update (C06.mu_update_nn[_array], mu_update_sum + soc_combined_step_aggregated /
//     symmetric_cone_combined_step): μ⁺ = (1 − α(1−σ))μ − αm(Δsᵃ·Δzᵃ + ΔτᵃΔκᵃ)/(ν+1)
//     + α²(Δs·Δz + ΔτΔκ)/(ν+1), symmetric cones (nn / SOC incl. sparse expansion / PSD);
//   * SOC blocks (C06.soc_combined_step_equation): the vector equation
//     λ∘(WΔz + W⁻¹Δs) = σμe − λ∘λ − (W⁻¹Δsᵃ)∘(W mΔzᵃ) with a reference NT scaling written here;
//   * orthogonality (C06.newton_step_orthogonality): Δs·Δz + ΔτΔκ = dᵀPd − (Δx·rdx + Δz·rdz + Δτ rdτ).
// The identities hold up to the accuracy of the regularised + refined linear solves.  Measured on
// the unchanged tree (fixed corpus): rx 2e-14, rz 1e-12, rτ 6e-16, μ update 8e-12, orthogonality
// 3e-8 (a cancelling sum); the tolerances leave more than three orders of magnitude head-room.
const PASS_TOL: f64 = 1e-6;
const PASS_TOL_ORTH: f64 = 1e-4;
const PASS_CORPUS: usize = 12;

fn pass_problem(src: &str, k: usize) -> Prob {
    if src == "corpus" {
        corpus_problem(k)
    } else {
        let kinds = CLASSES.iter().find(|c| c.0 == src).expect("class").1;
        gen_g_ext(0xBEEF_0000 + k as u64, 6, CONIC_LP_NMAX, Some(kinds))
    }
}
fn ninf(v: &[f64]) -> f64 {
    v.iter().fold(0.0f64, |a, x| a.max(x.abs()))
}

/// reference Nesterov–Todd scaling of one second-order cone block at interior (s, z), written
/// independently of the crate: returns (w̄, η) with W x = η(w̄₀x₀ + w̄₁·x₁, x₁ + (x₀ + w̄₁·x₁/(1+w̄₀)) w̄₁)
fn soc_nt(sv: &[f64], zv: &[f64]) -> Option<(Vec<f64>, f64)> {
    let res = |v: &[f64]| v[0] * v[0] - v[1..].iter().map(|x| x * x).sum::<f64>();
    let (rs, rz) = (res(sv), res(zv));
    if !(rs > 0.0 && rz > 0.0 && sv[0] > 0.0 && zv[0] > 0.0) {
        return None;
    }
    let (ss, zs) = (rs.sqrt(), rz.sqrt());
    let eta = (ss / zs).sqrt();
    let sb: Vec<f64> = sv.iter().map(|x| x / ss).collect();
    let zb: Vec<f64> = zv.iter().map(|x| x / zs).collect();
    let gamma = ((1.0 + dot(&sb, &zb)) / 2.0).sqrt();
    let mut w: Vec<f64> = (0..sv.len()).map(|i| (sb[i] + if i == 0 { zb[i] } else { -zb[i] }) / (2.0 * gamma)).collect();
    // renormalise as the scaling requires w̄₀² − ‖w̄₁‖² = 1
    w[0] = (1.0 + w[1..].iter().map(|x| x * x).sum::<f64>()).sqrt();
    Some((w, eta))
}
fn soc_w(w: &[f64], eta: f64, x: &[f64], inv: bool) -> Vec<f64> {
    let zeta = dot(&w[1..], &x[1..]);
    let (e, sg) = if inv { (1.0 / eta, -1.0) } else { (eta, 1.0) };
    let c = sg * x[0] + zeta / (1.0 + w[0]);
    let mut y = vec![e * (w[0] * x[0] + sg * zeta)];
    y.extend((1..x.len()).map(|i| e * (x[i] + c * w[i])));
    y
}
fn soc_circ(a: &[f64], b: &[f64]) -> Vec<f64> {
    let mut y = vec![dot(a, b)];
    y.extend((1..a.len()).map(|i| a[0] * b[i] + b[0] * a[i]));
    y
}
fn run_pass(r: &Req) -> String {
    use clarabel::solver::traits::{KKTSystem, Residuals, Variables};
    use clarabel::verif_hooks::step::{self, ScalingStrategy, StepDirection};
    let pr = pass_problem(r.str("src"), r.u("k"));
    let quad = pr.P.iter().any(|row| row.iter().any(|x| *x != 0.0));
    let mut s = build(&pr);
    step::solver::default_start(&mut s);
    let sym = s.cones.is_symmetric();
    let scaling = if s.cones.allows_primal_dual_scaling() { ScalingStrategy::PrimalDual } else { ScalingStrategy::Dual };
    let nu1 = (s.cones.degree() + 1) as f64;
    let (mut ex, mut ez, mut et, mut emu, mut eor, mut esoc) = (0.0f64, 0.0f64, 0.0f64, 0.0f64, 0.0f64, 0.0f64);
    let rows_ok = s.variables.s.len() == pr.b.len() && !pr.cones.iter().any(|c| matches!(c, PSDTriangleConeT(_)));
    let mut done = 0;
    for pass in 0..r.u("passes") {
        s.residuals.update(&s.variables, &s.data);
        let mu = s.variables.calc_mu(&s.residuals, &s.cones);
        if !(mu > 1e-7) {
            break; // stay in the well-conditioned part of the trajectory
        }
        if !s.variables.scale_cones(&mut s.cones, mu, scaling) {
            break;
        }
        if !s.kktsystem.update(&s.data, &s.cones, &s.settings) {
            break;
        }
        s.step_rhs.affine_step_rhs(&s.residuals, &s.variables, &s.cones);
        if !s.kktsystem.solve(&mut s.step_lhs, &s.step_rhs, &s.data, &s.variables, &mut s.cones, StepDirection::Affine, &s.settings) {
            break;
        }
        let a_aff = s.variables.calc_step_length(&s.step_lhs, &mut s.cones, &s.settings, StepDirection::Affine);
        let sigma = step::solver::centering_parameter(&s, a_aff);
        let m = if pass > 0 { 1.0 } else { a_aff };
        let corr = dot(&s.step_lhs.s, &s.step_lhs.z) + s.step_lhs.τ * s.step_lhs.κ;
        let (dsa, dza) = (s.step_lhs.s.clone(), s.step_lhs.z.clone());
        let (s0, z0) = (s.variables.s.clone(), s.variables.z.clone());
        s.step_rhs.combined_step_rhs(&s.residuals, &s.variables, &mut s.cones, &mut s.step_lhs, sigma, mu, m);
        if !s.kktsystem.solve(&mut s.step_lhs, &s.step_rhs, &s.data, &s.variables, &mut s.cones, StepDirection::Combined, &s.settings) {
            break;
        }
        let mut a = s.variables.calc_step_length(&s.step_lhs, &mut s.cones, &s.settings, StepDirection::Combined);
        if !sym {
            a *= 0.7; // no barrier back-tracking here: stay well inside the nonsymmetric cones
        }
        if !(a > 1e-4) {
            break;
        }
        let (rx, rz, rt, ..) = step::residuals::parts(&s.residuals);
        struct D { x: Vec<f64>, s: Vec<f64>, z: Vec<f64>, τ: f64, κ: f64 }
        let d = D { x: s.step_lhs.x.clone(), s: s.step_lhs.s.clone(), z: s.step_lhs.z.clone(), τ: s.step_lhs.τ, κ: s.step_lhs.κ };
        // second-order cone blocks: λ∘(WΔz + W⁻¹Δs) = σμe − λ∘λ − (W⁻¹Δsᵃ)∘(W mΔzᵃ), with a
        // reference W written here (C06.soc_combined_step_equation)
        if rows_ok {
            let mut off = 0;
            for c in &pr.cones {
                let dim = cone_dim(c);
                if let SecondOrderConeT(_) = c {
                    let rg = off..off + dim;
                    if let Some((w, eta)) = soc_nt(&s0[rg.clone()], &z0[rg.clone()]) {
                        let lam = soc_w(&w, eta, &z0[rg.clone()], false);
                        let wdz = soc_w(&w, eta, &d.z[rg.clone()], false);
                        let wids = soc_w(&w, eta, &d.s[rg.clone()], true);
                        let sum: Vec<f64> = wdz.iter().zip(&wids).map(|(p, q)| p + q).collect();
                        let lhs = soc_circ(&lam, &sum);
                        let ll = soc_circ(&lam, &lam);
                        let wza: Vec<f64> = soc_w(&w, eta, &dza[rg.clone()], false).iter().map(|x| m * x).collect();
                        let wsa = soc_w(&w, eta, &dsa[rg.clone()], true);
                        let sh = soc_circ(&wsa, &wza);
                        let nrm = |v: &[f64]| dot(v, v).sqrt();
                        let sc = nrm(&lam) * (nrm(&wdz) + nrm(&wids)) + sigma * mu + nrm(&ll) + nrm(&wsa) * nrm(&wza) + 1e-300;
                        for i in 0..dim {
                            let want = (if i == 0 { sigma * mu } else { 0.0 }) - ll[i] - sh[i];
                            esoc = esoc.max((lhs[i] - want).abs() / sc);
                        }
                    }
                }
                off += dim;
            }
        }
        s.variables.add_step(&s.step_lhs, a);
        s.residuals.update(&s.variables, &s.data);
        let mu1 = s.variables.calc_mu(&s.residuals, &s.cones);
        let (rx1, rz1, rt1, dot_qx, dot_bz, _, dot_xpx) = step::residuals::parts(&s.residuals);
        let f = 1.0 - a * (1.0 - sigma);
        // scales: the sizes of the terms the residuals are made of
        let v = &s.variables;
        let sx = ninf(&rx) + ninf(&v.x) + ninf(&v.z) + v.τ.abs() + 1.0;
        let sz = ninf(&rz) + ninf(&v.x) + ninf(&v.s) + v.τ.abs() + 1.0;
        ex = ex.max(rx1.iter().zip(&rx).map(|(n, o)| (n - f * o).abs()).fold(0.0, f64::max) / sx);
        ez = ez.max(rz1.iter().zip(&rz).map(|(n, o)| (n - f * o).abs()).fold(0.0, f64::max) / sz);
        if !quad {
            let st = rt.abs() + dot_qx.abs() + dot_bz.abs() + v.κ.abs() + dot_xpx.abs() + 1.0;
            et = et.max((rt1 - f * rt).abs() / st);
        }
        let second = dot(&d.s, &d.z) + d.τ * d.κ;
        if sym {
            let want = f * mu - a * m * corr / nu1 + a * a * second / nu1;
            let sc = mu.abs() + (a * m * corr / nu1).abs() + (a * a * second / nu1).abs() + 1e-300;
            emu = emu.max((mu1 - want).abs() / sc);
        }
        if !quad {
            // d'Pd = 0: Δs·Δz + ΔτΔκ = −(Δx·rdx + Δz·rdz + Δτ rdτ), rd = (1−σ) r
            let t = [dot(&d.x, &rx) * (1.0 - sigma), dot(&d.z, &rz) * (1.0 - sigma), d.τ * rt * (1.0 - sigma)];
            let sc = t.iter().map(|x| x.abs()).sum::<f64>() + dot(&d.s, &d.s).sqrt() * dot(&d.z, &d.z).sqrt() + (d.τ * d.κ).abs() + 1e-300;
            eor = eor.max((second + t[0] + t[1] + t[2]).abs() / sc);
        }
        done += 1;
    }
    format!("passes={} sym={} quad={} ex={} ez={} et={} emu={} eor={} esoc={} cones={}", done, sym as u8, quad as u8, ff(ex), ff(ez), ff(et), ff(emu), ff(eor), ff(esoc), cone_tags(&pr))
}
fn oracle_pass(_r: &Req, out: &str) -> Result<(), String> {
    let o = Req::parse(&format!("x {}", out)).ok_or("parse")?;
    for (key, what) in [
        ("ex", "rx+ = (1 - alpha(1-sigma)) rx"),
        ("ez", "rz+ = (1 - alpha(1-sigma)) rz"),
        ("et", "rtau+ = (1 - alpha(1-sigma)) rtau (P = 0)"),
        ("emu", "mu+ = (1 - alpha(1-sigma)) mu - alpha m (dsa.dza + dta dka)/(nu+1) + alpha^2 (ds.dz + dt dk)/(nu+1)"),
        ("eor", "ds.dz + dt dk = -(dx.rdx + dz.rdz + dt rdt) (P = 0)"),
        ("esoc", "lambda o (W dz + W^-1 ds) = sigma mu e - lambda o lambda - (W^-1 ds_aff) o (W m dz_aff) on a second-order cone"),
    ] {
        let e = o.f(key);
        let tol = if key == "eor" { PASS_TOL_ORTH } else { PASS_TOL };
        if !(e <= tol) {
            return Err(format!("one pass of the main loop violates {}: relative error {:e} > {:e}", what, e, tol));
        }
    }
    Ok(())
}


// ---- the starting point: solve_initial_point on the real KKT system (fixed corpus) -------------
/// relative tolerance of `init.lsq` (the solves go through static regularisation + refinement)
const INIT_TOL: f64 = 1e-6;

fn csc_mv(A: &CscMatrix<f64>, x: &[f64]) -> Vec<f64> {
    let mut y = vec![0.0; A.m];
    for j in 0..A.n {
        for k in A.colptr[j]..A.colptr[j + 1] {
            y[A.rowval[k]] += A.nzval[k] * x[j];
        }
    }
    y
}
fn csc_mtv(A: &CscMatrix<f64>, z: &[f64]) -> Vec<f64> {
    let mut y = vec![0.0; A.n];
    for j in 0..A.n {
        for k in A.colptr[j]..A.colptr[j + 1] {
            y[j] += A.nzval[k] * z[A.rowval[k]];
        }
    }
    y
}
/// `sym(P) x` for an upper-triangular `P`
fn csc_symv(P: &CscMatrix<f64>, x: &[f64]) -> Vec<f64> {
    let mut y = vec![0.0; P.n];
    for j in 0..P.n {
        for k in P.colptr[j]..P.colptr[j + 1] {
            let i = P.rowval[k];
            y[i] += P.nzval[k] * x[j];
            if i != j {
                y[j] += P.nzval[k] * x[i];
            }
        }
    }
    y
}

/// `set_identity_scaling`, `kktsystem.update`, `solve_initial_point` on the real objects; the
/// least-squares equations (C06.solve_initial_point_lp / _qp) are then evaluated on the solver's
/// own (equilibrated) data with kernels written here
fn run_init(r: &Req) -> String {
    use clarabel::solver::traits::KKTSystem;
    let pr = pass_problem(r.str("src"), r.u("k"));
    let mut s = build(&pr);
    let rows_ok = s.variables.s.len() == pr.b.len();
    if !s.cones.is_symmetric() || !rows_ok {
        return format!("skip=1 cones={}", cone_tags(&pr));
    }
    // poison the incoming iterate: it must not be read (zero fill since /repo 7c1c881)
    for v in s.variables.x.iter_mut().chain(s.variables.s.iter_mut()).chain(s.variables.z.iter_mut()) {
        *v = 7.0;
    }
    s.cones.set_identity_scaling();
    let ok1 = s.kktsystem.update(&s.data, &s.cones, &s.settings);
    let ok2 = s.kktsystem.solve_initial_point(&mut s.variables, &s.data, &s.settings);
    if !(ok1 && ok2) {
        return format!("skip=2 ok1={} ok2={} cones={}", ok1 as u8, ok2 as u8, cone_tags(&pr));
    }
    // d = 0 on zero-cone rows, 1 elsewhere (the Hs block after set_identity_scaling)
    let mut d = vec![];
    for c in &pr.cones {
        let v = if matches!(c, ZeroConeT(_)) { 0.0 } else { 1.0 };
        d.extend(std::iter::repeat(v).take(cone_dim(c)));
    }
    let (x, sv, z) = (&s.variables.x, &s.variables.s, &s.variables.z);
    let (P, A, q, b) = (&s.data.P, &s.data.A, &s.data.q, &s.data.b);
    let an = A.nzval.iter().fold(0.0f64, |a, v| a.max(v.abs()));
    let pn = P.nzval.iter().fold(0.0f64, |a, v| a.max(v.abs()));
    let quad = P.nnz() != 0;
    let (e1, e2, e3);
    if !quad {
        // Aᵀs = 0 ; Ax + Ds = b ; Aᵀz + q = 0
        let ats = csc_mtv(A, sv);
        let ax = csc_mv(A, x);
        let atz = csc_mtv(A, z);
        e1 = ninf(&ats) / (an * ninf(sv) + 1.0);
        e2 = (0..b.len()).map(|i| (ax[i] + d[i] * sv[i] - b[i]).abs()).fold(0.0, f64::max)
            / (an * ninf(x) + ninf(sv) + ninf(b) + 1.0);
        e3 = (0..q.len()).map(|j| (atz[j] + q[j]).abs()).fold(0.0, f64::max) / (an * ninf(z) + ninf(q) + 1.0);
    } else {
        // Px + Aᵀz = −q ; Ax − Dz = b ; s = −z
        let px = csc_symv(P, x);
        let atz = csc_mtv(A, z);
        let ax = csc_mv(A, x);
        e1 = (0..q.len()).map(|j| (px[j] + atz[j] + q[j]).abs()).fold(0.0, f64::max)
            / (pn * ninf(x) + an * ninf(z) + ninf(q) + 1.0);
        e2 = (0..b.len()).map(|i| (ax[i] - d[i] * z[i] - b[i]).abs()).fold(0.0, f64::max)
            / (an * ninf(x) + ninf(z) + ninf(b) + 1.0);
        e3 = (0..b.len()).map(|i| (sv[i] + z[i]).abs()).fold(0.0, f64::max);
    }
    format!("skip=0 quad={} e1={} e2={} e3={} tau={} kappa={} cones={}", quad as u8, ff(e1), ff(e2), ff(e3),
        ff(s.variables.τ), ff(s.variables.κ), cone_tags(&pr))
}
fn oracle_init(_r: &Req, out: &str) -> Result<(), String> {
    let o = Req::parse(&format!("x {}", out)).ok_or("parse")?;
    if o.u("skip") != 0 {
        return Ok(());
    }
    let quad = o.u("quad") == 1;
    for (key, lp, qp) in [
        ("e1", "A's = 0", "Px + A'z = -q"),
        ("e2", "Ax + Ds = b", "Ax - Dz = b"),
        ("e3", "A'z + q = 0", "s = -z"),
    ] {
        let e = o.f(key);
        if !(e <= INIT_TOL) {
            return Err(format!("solve_initial_point violates {}: relative error {:e} > {:e}", if quad { qp } else { lp }, e, INIT_TOL));
        }
    }
    Ok(())
}

fn channels() -> Vec<Channel> {
    let mut v = own_channels();
    v.extend(c05::channels().into_iter().filter(|c| c.name.starts_with("step.") || c.name.starts_with("kkt.")));
    v
}
fn own_channels() -> Vec<Channel> {
    vec![
        Channel { name: "g.solve", tol: Tol::Exact, run: run_g, oracle: Some(oracle_g), modelled: false,
            rust_fn: "DefaultSolver::solve on family G (status, iterations)", lean: "(measured; C06 theorems are about the mechanism)" },
        Channel { name: "gc.solve", tol: Tol::Exact, run: run_gc, oracle: Some(oracle_gc), modelled: false,
            rust_fn: "DefaultSolver::solve on the per-cone-class sub-families (status, iterations)", lean: "(measured)" },
        Channel { name: "gx.solve", tol: Tol::Exact, run: run_gx, oracle: None, modelled: false,
            rust_fn: "DefaultSolver::solve on the extended family (reported only)", lean: "-" },
        Channel { name: "traj.sigma_mu", tol: Tol::Exact, run: run_traj, oracle: Some(oracle_traj), modelled: true,
            rust_fn: "solve(): calc_mu, centering_parameter, Mehrotra damping per pass (observer)",
            lean: "Step.calcMu / Step.centeringParameter / Step.mehrotraM; C06.centering_range, C06.mu_update_nn" },
        Channel { name: "pass.newton", tol: Tol::Exact, run: run_pass, oracle: Some(oracle_pass), modelled: false,
            rust_fn: "one hand-driven pass of solve(): affine_step_rhs, combined_step_rhs, kktsystem.solve, add_step, calc_mu (all cone types)",
            lean: "(oracle) C06.residual_contraction_array, mu_update_nn_array, mu_update_sum, soc_combined_step_aggregated, newton_step_orthogonality" },
        Channel { name: "init.lsq", tol: Tol::Exact, run: run_init, oracle: Some(oracle_init), modelled: false,
            rust_fn: "set_identity_scaling, kktsystem.update, DefaultKKTSystem::solve_initial_point on a poisoned iterate (symmetric cones)",
            lean: "(oracle) C06.solve_initial_point_lp, solve_initial_point_qp" },
    ]
}

fn percentile(v: &mut [u32], p: f64) -> u32 {
    v.sort();
    if v.is_empty() {
        return 0;
    }
    let k = ((p * v.len() as f64).ceil() as usize).clamp(1, v.len());
    v[k - 1]
}

fn gen_pass(s: &mut Session) {
    // --- one pass of the main loop, fixed corpus (no draws from s.rng)
    let mut worst = [0.0f64; 6];
    let mut npass = 0;
    let srcs: Vec<&str> = std::iter::once("corpus").chain(CLASSES.iter().map(|c| c.0)).collect();
    for src in srcs {
        for k in 0..PASS_CORPUS {
            let out = s.submit(Line::new("pass.newton").s("src", src).u("k", k).u("passes", 4).done());
            if let Some(o) = Req::parse(&format!("x {}", out)) {
                if o.has("ex") {
                    npass += o.u("passes");
                    for (i, key) in ["ex", "ez", "et", "emu", "eor", "esoc"].iter().enumerate() {
                        worst[i] = worst[i].max(o.f(key));
                    }
                }
            }
        }
    }
    // --- the starting point on the same corpus
    let (mut winit, mut ninit, mut nskip) = ([0.0f64; 3], 0, 0);
    let srcs: Vec<&str> = std::iter::once("corpus").chain(CLASSES.iter().map(|c| c.0)).collect();
    for src in srcs {
        for k in 0..PASS_CORPUS {
            let out = s.submit(Line::new("init.lsq").s("src", src).u("k", k).done());
            if let Some(o) = Req::parse(&format!("x {}", out)) {
                if o.has("e1") {
                    ninit += 1;
                    for (i, key) in ["e1", "e2", "e3"].iter().enumerate() {
                        winit[i] = winit[i].max(o.f(key));
                    }
                } else {
                    nskip += 1;
                }
            }
        }
    }
    s.note(format!(
        "init.lsq: {} starting points judged ({} skipped: nonsymmetric cones, dropped rows or a failed solve); largest relative error of the three least-squares equations: {:e}, {:e}, {:e} (tolerance {:e})",
        ninit, nskip, winit[0], winit[1], winit[2], INIT_TOL));
    s.note(format!(
        "pass.newton: {} hand-driven passes; largest relative error: rx {:e}, rz {:e}, rtau {:e}, mu update {:e}, orthogonality {:e}, SOC complementarity {:e} (tolerances {:e}, orthogonality {:e})",
        npass, worst[0], worst[1], worst[2], worst[3], worst[4], worst[5], PASS_TOL, PASS_TOL_ORTH));
}

fn generate(s: &mut Session) {
    if std::env::var("C06_ONLY_PASS").is_ok() {
        // debugging aid: only the hand-driven passes
        gen_pass(s);
        return;
    }
    c05::gen_step_cases(s);
    if s.is_searching() {
        return;
    }
    // --- one pass of the main loop (fixed corpus, no draws from s.rng: the instance stream of
    // the families below is unchanged)
    gen_pass(s);
    // --- trajectory corpus (fixed)
    for k in 0..30 {
        let t = record(&corpus_problem(k));
        s.count(&format!("corpus:{:?}", t.status));
        s.count(&format!("corpus-passes:{}", t.s.len().min(20)));
        let _ = &t.alpha;
        s.submit(traj_request(k, &t));
    }
    // --- family G
    let nq = s.budget(3000, 20000);
    let mut iters = vec![];
    let mut bad: Vec<(String, String)> = vec![];
    let mut slow: Vec<(u32, String, String)> = vec![];
    let mut by_fam: std::collections::BTreeMap<String, (u32, u32, u32)> = Default::default();
    for k in 0..nq {
        let size = 1 + (k * 60) / nq.max(1);
        let size = if s.rng.bool(0.3) { 1 + s.rng.below(60) } else { size };
        let seed = (s.rng.next_u64() >> 12) as usize;
        let line = Line::new("g.solve").u("seed", seed).u("size", size).done();
        let out = s.submit(line.clone());
        let o = match Req::parse(&format!("x {}", out)) {
            Some(o) if o.has("status") => o,
            _ => {
                bad.push((line, out));
                continue;
            }
        };
        let it = o.u("iters") as u32;
        let key = if std::env::var("C06_BUCKET").is_ok() { format!("quad{} n{:02}", o.str("quad"), o.u("n") / 10 * 10) } else { o.str("cones").to_string() };
        let e = by_fam.entry(key).or_insert((0, 0, 0));
        e.0 += 1;
        e.2 = e.2.max(it);
        if o.str("status") == "Solved" {
            e.1 += 1;
            iters.push(it);
            if it > ENVELOPE {
                slow.push((it, line, out));
            }
        } else {
            s.count(&format!("g-status:{}", o.str("status")));
            bad.push((line, out));
        }
        s.count(&format!("g-size:{}", (size - 1) / 10 * 10));
    }
    let total = nq as f64;
    let solved = iters.len() as f64;
    let mut it2 = iters.clone();
    let p95 = percentile(&mut it2, 0.95);
    let p50 = percentile(&mut it2, 0.5);
    let maxit = it2.last().cloned().unwrap_or(0);
    s.note(format!(
        "family G: {} instances, Solved {} ({:.3} %), iterations p50={} p95={} max={}, envelope={}",
        nq, iters.len(), 100.0 * solved / total, p50, p95, maxit, ENVELOPE
    ));
    for (fam, (n, ok, mx)) in &by_fam {
        s.note(format!("family G / cones {}: {} instances, {} Solved, max iterations {}", fam, n, ok, mx));
    }
    for (line, out) in bad.iter().take(25) {
        s.note(format!("not Solved: {} -> {}", line, out));
    }
    // decision rule
    // H0: the true failure rate is at most 0.5 %; reject (violation) at level 1e-4
    let allowance = binom_allowance(nq, 1.0 - MIN_SOLVED, 1e-4);
    s.note(format!(
        "decision rule: VIOLATION iff more than {} of {} instances are not Solved (one-sided binomial test of \
         'failure rate <= 0.5 %' at level 1e-4) or p95(iterations) > {}; observed {} not Solved",
        allowance, nq, ENVELOPE, bad.len()));
    if bad.len() > allowance {
        let (line, out) = bad[0].clone();
        s.fail("g.solve", line, out.clone(), format!(
            "family G: only {} of {} instances Solved ({:.2} % < 99.5 %); first failing instance ends {}",
            iters.len(), nq, 100.0 * solved / total, out));
    }
    // --- per-cone-class sub-families, each with its own rule
    let nc = s.budget(400, 4000);
    for &(class, p95_env, mean_env, p0) in CLASS_RULE {
        let mut its: Vec<u32> = vec![];
        let mut cbad: Vec<(String, String)> = vec![];
        let mut cslow: Vec<(u32, String, String)> = vec![];
        for _ in 0..nc {
            let size = 2 + s.rng.below(CLASS_SIZE - 1);
            let seed = (s.rng.next_u64() >> 12) as usize;
            let line = Line::new("gc.solve").u("seed", seed).u("size", size).s("class", class).done();
            let out = s.submit(line.clone());
            match Req::parse(&format!("x {}", out)) {
                Some(o) if o.has("status") && o.str("status") == "Solved" => {
                    let it = o.u("iters") as u32;
                    its.push(it);
                    cslow.push((it, line, out));
                }
                _ => cbad.push((line, out)),
            }
        }
        let mean = its.iter().map(|&x| x as f64).sum::<f64>() / (its.len().max(1) as f64);
        let mut v = its.clone();
        let (q50, q95) = (percentile(&mut v, 0.5), percentile(&mut v, 0.95));
        let allowance = binom_allowance(nc, p0, 1e-4);
        s.note(format!(
            "sub-family {}: {} instances, {} not Solved (allowance {}), iterations mean={:.2} (envelope {}) p50={} p95={} (envelope {}) max={}",
            class, nc, cbad.len(), allowance, mean, mean_env, q50, q95, p95_env, v.last().cloned().unwrap_or(0)));
        for (l, o) in cbad.iter().take(5) {
            s.note(format!("not Solved: {} -> {}", l, o));
        }
        cslow.sort();
        if cbad.len() > allowance {
            let (l, o) = cbad[0].clone();
            s.fail("gc.solve", l, o.clone(), format!(
                "sub-family {}: {} of {} instances not Solved (allowance {} for a failure rate <= {}); first: {}",
                class, cbad.len(), nc, allowance, p0, o));
        } else if q95 > p95_env || mean > mean_env {
            let (it, l, o) = cslow.last().cloned().unwrap();
            s.fail("gc.solve", l, o, format!(
                "sub-family {}: iteration count mean={:.2} (envelope {}) p95={} (envelope {}); slowest instance needs {} iterations",
                class, mean, mean_env, q95, p95_env, it));
        }
    }
    // extended family: conic LPs of every size (reported, no decision)
    let nx = s.budget(300, 3000);
    let (mut xs, mut xl, mut xls) = (0usize, 0usize, 0usize);
    for _ in 0..nx {
        let size = 1 + s.rng.below(60);
        let seed = (s.rng.next_u64() >> 12) as usize;
        let out = s.submit(Line::new("gx.solve").u("seed", seed).u("size", size).done());
        if let Some(o) = Req::parse(&format!("x {}", out)) {
            if o.has("status") {
                let ok = o.str("status") == "Solved";
                xs += ok as usize;
                let large_conic_lp = o.str("quad") == "0" && o.u("n") > CONIC_LP_NMAX
                    && o.str("cones").split('+').any(|c| c != "nn" && c != "zero");
                if large_conic_lp {
                    xl += 1;
                    xls += ok as usize;
                }
            }
        }
    }
    s.note(format!(
        "extended family (conic programmes with linear objective at every size; reported, not decided): {} of {} Solved; \
         of these, conic LPs with more than {} variables: {} of {} Solved", xs, nx, CONIC_LP_NMAX, xls, xl));
    if p95 > ENVELOPE {
        slow.sort();
        let (it, line, out) = slow.last().cloned().unwrap();
        s.fail("g.solve", line, out, format!(
            "family G: 95th percentile of the iteration count is {} > envelope {} (slowest instance: {} iterations)",
            p95, ENVELOPE, it));
    }
}

fn main() {
    Session::from_args("C06", channels()).run(generate)
}
