//! C13 — symmetric-cone scaling operators satisfy the Nesterov–Todd identities.
//!
//! Correspondence channels: every scaling / Jordan-algebra function of the nonnegative and
//! second-order cones against the Lean model run at `Float` (same operation order, so the
//! comparison is in ulps).  Oracle channels (`*.identities`, not modelled): the NT
//! identities evaluated on the implementation's own operators, for NN, SOC and PSD cones,
//! with a tolerance scaled by the conditioning of the scaling point.
use clarabel::algebra::*;
use clarabel::verif_hooks::cones::*;
use clarabel::verif_hooks::step::ScalingStrategy;
use clarabel::verif_hooks::cones::verif_hooks_socone::matrix_shape;
use vharness::*;

const PD: ScalingStrategy = ScalingStrategy::PrimalDual;

thread_local! {
    /// largest normalised residual seen per (cone, identity) — reported in the evidence notes
    static MAXRES: std::cell::RefCell<std::collections::BTreeMap<String, f64>> = const { std::cell::RefCell::new(std::collections::BTreeMap::new()) };
}
fn record(cone: &str, res: &[f64]) {
    MAXRES.with(|m| {
        let mut m = m.borrow_mut();
        for (i, v) in res.iter().enumerate() {
            let e = m.entry(format!("{}#{}", cone, i)).or_insert(0.0);
            if *v > *e || v.is_nan() {
                *e = *v;
            }
        }
    });
}

// ------------------------------------------------------------------ small helpers

fn dot(a: &[f64], b: &[f64]) -> f64 {
    a.iter().zip(b).map(|(x, y)| x * y).sum()
}
fn nrm(a: &[f64]) -> f64 {
    dot(a, a).sqrt()
}
fn sub(a: &[f64], b: &[f64]) -> Vec<f64> {
    a.iter().zip(b).map(|(x, y)| x - y).collect()
}
/// ‖a−b‖ / (tol·scale); a NaN anywhere gives +∞
fn rel(a: &[f64], b: &[f64], scale: f64, tol: f64) -> f64 {
    if a.len() != b.len() || a.iter().chain(b.iter()).any(|v| !v.is_finite()) {
        return f64::INFINITY;
    }
    nrm(&sub(a, b)) / (tol * scale.max(f64::MIN_POSITIVE))
}

fn nn_cone(r: &Req) -> NonnegativeCone<f64> {
    let (s, z) = (r.fs("s"), r.fs("z"));
    let mut k = NonnegativeCone::<f64>::new(s.len());
    k.update_scaling(&s, &z, 1.0, PD);
    k
}
fn soc_cone(r: &Req) -> (bool, SecondOrderCone<f64>) {
    let (s, z) = (r.fs("s"), r.fs("z"));
    let mut k = SecondOrderCone::<f64>::new(s.len());
    let ok = k.update_scaling(&s, &z, 1.0, PD);
    (ok, k)
}

// ------------------------------------------------------------------ NN channels

fn run_nn_update_scaling(r: &Req) -> String {
    let k = nn_cone(r);
    Line::out().u("ok", 1).fs("w", verif_hooks_nncone::w(&k)).fs("lam", verif_hooks_nncone::λ(&k)).done()
}
fn run_nn_get_hs(r: &Req) -> String {
    let k = nn_cone(r);
    let mut h = vec![0.0; r.u("len")];
    k.get_Hs(&mut h);
    Line::out().fs("hs", &h).done()
}
fn run_nn_mul_hs(r: &Req) -> String {
    let mut k = nn_cone(r);
    let x = r.fs("x");
    let mut y = vec![0.0; x.len()];
    let mut work = vec![0.0; x.len()];
    k.mul_Hs(&mut y, &x, &mut work);
    Line::out().fs("y", &y).done()
}
fn shape(r: &Req) -> bool {
    r.has("t") && r.b("t")
}
fn run_nn_mul_w(r: &Req) -> String {
    let mut k = nn_cone(r);
    let mut y = r.fs("y");
    k.mul_W(matrix_shape(shape(r)), &mut y, &r.fs("x"), r.f("a"), r.f("b"));
    Line::out().fs("y", &y).done()
}
fn run_nn_mul_winv(r: &Req) -> String {
    let mut k = nn_cone(r);
    let mut y = r.fs("y");
    k.mul_Winv(matrix_shape(shape(r)), &mut y, &r.fs("x"), r.f("a"), r.f("b"));
    Line::out().fs("y", &y).done()
}
fn run_nn_circ_op(r: &Req) -> String {
    let (y, z) = (r.fs("y"), r.fs("z"));
    let mut k = NonnegativeCone::<f64>::new(y.len());
    let mut x = vec![0.0; y.len()];
    k.circ_op(&mut x, &y, &z);
    Line::out().fs("x", &x).done()
}
fn run_nn_inv_circ_op(r: &Req) -> String {
    let (y, z) = (r.fs("y"), r.fs("z"));
    let mut k = NonnegativeCone::<f64>::new(y.len());
    let mut x = vec![0.0; y.len()];
    k.inv_circ_op(&mut x, &y, &z);
    Line::out().fs("x", &x).done()
}
fn run_nn_lam_inv_circ_op(r: &Req) -> String {
    let mut k = nn_cone(r);
    let z = r.fs("x");
    let mut x = vec![0.0; z.len()];
    k.λ_inv_circ_op(&mut x, &z);
    Line::out().fs("x", &x).done()
}
fn run_nn_affine_ds(r: &Req) -> String {
    let k = nn_cone(r);
    let mut ds = vec![0.0; r.u("len")];
    k.affine_ds(&mut ds, &r.fs("s"));
    Line::out().fs("ds", &ds).done()
}
fn run_nn_combined_ds_shift(r: &Req) -> String {
    let mut k = nn_cone(r);
    let (mut dz, mut ds) = (r.fs("dz"), r.fs("ds"));
    let mut shift = vec![0.0; dz.len()];
    k.combined_ds_shift(&mut shift, &mut dz, &mut ds, r.f("sigmamu"));
    Line::out().fs("shift", &shift).fs("stepz", &dz).fs("steps", &ds).done()
}
fn run_nn_ds_from_dz_offset(r: &Req) -> String {
    let (ds, zz) = (r.fs("ds"), r.fs("zz"));
    let mut k = NonnegativeCone::<f64>::new(ds.len());
    let mut out = vec![0.0; ds.len()];
    let mut work = vec![0.0; ds.len()];
    k.Δs_from_Δz_offset(&mut out, &ds, &mut work, &zz);
    Line::out().fs("out", &out).done()
}

// ------------------------------------------------------------------ SOC channels

fn run_soc_update_scaling(r: &Req) -> String {
    let (ok, k) = soc_cone(r);
    let (u, v, d): (Vec<f64>, Vec<f64>, String) = match &k.sparse_data {
        Some(sp) => (sp.u.clone(), sp.v.clone(), proto::ff(sp.d)),
        None => (vec![], vec![], String::new()),
    };
    format!(
        "ok={} w={} lam={} eta={} u={} v={} d={}",
        proto::fb(ok), proto::ffs(&k.w), proto::ffs(&k.λ), proto::ff(k.η), proto::ffs(&u), proto::ffs(&v), d
    )
}
fn hs_len(k: &SecondOrderCone<f64>) -> usize {
    if k.Hs_is_diagonal() { k.numel() } else { k.numel() * (k.numel() + 1) / 2 }
}
fn run_soc_get_hs(r: &Req) -> String {
    let (_, k) = soc_cone(r);
    let mut h = vec![0.0; hs_len(&k)];
    k.get_Hs(&mut h);
    Line::out().fs("hs", &h).done()
}
fn run_soc_mul_hs(r: &Req) -> String {
    let (_, mut k) = soc_cone(r);
    let x = r.fs("x");
    let mut y = vec![0.0; x.len()];
    let mut work = vec![0.0; x.len()];
    k.mul_Hs(&mut y, &x, &mut work);
    Line::out().fs("y", &y).done()
}
fn run_soc_mul_w(r: &Req) -> String {
    let (_, mut k) = soc_cone(r);
    let mut y = r.fs("y");
    k.mul_W(matrix_shape(shape(r)), &mut y, &r.fs("x"), r.f("a"), r.f("b"));
    Line::out().fs("y", &y).done()
}
fn run_soc_mul_winv(r: &Req) -> String {
    let (_, mut k) = soc_cone(r);
    let mut y = r.fs("y");
    k.mul_Winv(matrix_shape(shape(r)), &mut y, &r.fs("x"), r.f("a"), r.f("b"));
    Line::out().fs("y", &y).done()
}
fn run_soc_circ_op(r: &Req) -> String {
    let (y, z) = (r.fs("y"), r.fs("z"));
    let mut k = SecondOrderCone::<f64>::new(y.len());
    let mut x = vec![0.0; y.len()];
    k.circ_op(&mut x, &y, &z);
    Line::out().fs("x", &x).done()
}
fn run_soc_inv_circ_op(r: &Req) -> String {
    let (y, z) = (r.fs("y"), r.fs("z"));
    let mut k = SecondOrderCone::<f64>::new(y.len());
    let mut x = vec![0.0; y.len()];
    k.inv_circ_op(&mut x, &y, &z);
    Line::out().fs("x", &x).done()
}
fn run_soc_lam_inv_circ_op(r: &Req) -> String {
    let (_, mut k) = soc_cone(r);
    let z = r.fs("x");
    let mut x = vec![0.0; z.len()];
    k.λ_inv_circ_op(&mut x, &z);
    Line::out().fs("x", &x).done()
}
fn run_soc_affine_ds(r: &Req) -> String {
    let (_, k) = soc_cone(r);
    let s = r.fs("s");
    let mut ds = vec![0.0; s.len()];
    k.affine_ds(&mut ds, &s);
    Line::out().fs("ds", &ds).done()
}
fn run_soc_combined_ds_shift(r: &Req) -> String {
    let (_, mut k) = soc_cone(r);
    let (mut dz, mut ds) = (r.fs("dz"), r.fs("ds"));
    let mut shift = vec![0.0; dz.len()];
    k.combined_ds_shift(&mut shift, &mut dz, &mut ds, r.f("sigmamu"));
    Line::out().fs("shift", &shift).fs("stepz", &dz).fs("steps", &ds).done()
}
fn run_soc_ds_from_dz_offset(r: &Req) -> String {
    let (_, mut k) = soc_cone(r);
    let (ds, zz) = (r.fs("ds"), r.fs("zz"));
    let mut out = vec![0.0; ds.len()];
    let mut work = vec![0.0; ds.len()];
    k.Δs_from_Δz_offset(&mut out, &ds, &mut work, &zz);
    Line::out().fs("out", &out).done()
}

// ------------------------------------------------------------------ identity oracles

/// generic operator access used by the identity checks
trait Ops {
    fn w(&mut self, t: bool, x: &[f64]) -> Vec<f64>;
    fn winv(&mut self, t: bool, x: &[f64]) -> Vec<f64>;
    fn hs(&mut self, x: &[f64]) -> Vec<f64>;
    fn circ(&mut self, y: &[f64], z: &[f64]) -> Vec<f64>;
    fn laminv(&mut self, z: &[f64]) -> Vec<f64>;
    fn affine(&mut self, s: &[f64]) -> Vec<f64>;
    fn offset(&mut self, ds: &[f64], z: &[f64]) -> Vec<f64>;
    fn shift(&mut self, dz: &[f64], ds: &[f64], sm: f64) -> Vec<f64>;
    fn unit(&mut self, n: usize) -> Vec<f64>;
}
macro_rules! impl_ops {
    ($t:ty) => {
        impl Ops for $t {
            fn w(&mut self, t: bool, x: &[f64]) -> Vec<f64> {
                let mut y = vec![0.0; x.len()];
                self.mul_W(matrix_shape(t), &mut y, x, 1.0, 0.0);
                y
            }
            fn winv(&mut self, t: bool, x: &[f64]) -> Vec<f64> {
                let mut y = vec![0.0; x.len()];
                self.mul_Winv(matrix_shape(t), &mut y, x, 1.0, 0.0);
                y
            }
            fn hs(&mut self, x: &[f64]) -> Vec<f64> {
                let mut y = vec![0.0; x.len()];
                let mut work = vec![0.0; x.len()];
                self.mul_Hs(&mut y, x, &mut work);
                y
            }
            fn circ(&mut self, y: &[f64], z: &[f64]) -> Vec<f64> {
                let mut x = vec![0.0; y.len()];
                self.circ_op(&mut x, y, z);
                x
            }
            fn laminv(&mut self, z: &[f64]) -> Vec<f64> {
                let mut x = vec![0.0; z.len()];
                self.λ_inv_circ_op(&mut x, z);
                x
            }
            fn affine(&mut self, s: &[f64]) -> Vec<f64> {
                let mut ds = vec![0.0; s.len()];
                self.affine_ds(&mut ds, s);
                ds
            }
            fn offset(&mut self, ds: &[f64], z: &[f64]) -> Vec<f64> {
                let mut out = vec![0.0; ds.len()];
                let mut work = vec![0.0; ds.len()];
                self.Δs_from_Δz_offset(&mut out, ds, &mut work, z);
                out
            }
            fn shift(&mut self, dz: &[f64], ds: &[f64], sm: f64) -> Vec<f64> {
                let (mut a, mut b) = (dz.to_vec(), ds.to_vec());
                let mut sh = vec![0.0; dz.len()];
                self.combined_ds_shift(&mut sh, &mut a, &mut b, sm);
                sh
            }
            fn unit(&mut self, n: usize) -> Vec<f64> {
                let mut e = vec![0.0; n];
                self.scaled_unit_shift(&mut e, 1.0, PrimalOrDualCone::PrimalCone);
                e
            }
        }
    };
}
impl_ops!(NonnegativeCone<f64>);
impl_ops!(SecondOrderCone<f64>);
impl_ops!(PSDTriangleCone<f64>);

const NAMES: [&str; 14] = [
    "W z = lam", "W^-T s = lam", "W^T W z = s", "mul_Hs z = s", "W W^-1 x = x", "W^-1 W x = x",
    "W^T = W' (adjoint)", "get_Hs acts as mul_Hs", "lam o lam = affine_ds", "lam \\ (lam o x) = x",
    "ds_offset = W^T(lam \\ ds)", "shift = W^-1 ds o W dz - sigma mu e", "W^-T W^T x = x", "circ_op commutes",
];

/// The identities shared by all three cones, evaluated on the implementation's operators.
/// `lam` is the scaling point in the cone's vector form, `hmat` the dense matrix that
/// `get_Hs` (plus the sparse expansion, where used) represents; `cond` bounds the
/// amplification of rounding errors by the scaling.
#[allow(clippy::too_many_arguments)]
fn identities(k: &mut dyn Ops, s: &[f64], z: &[f64], lam: &[f64], hmat: &[Vec<f64>], base: f64, cond: f64,
              x: &[f64], dz: &[f64], ds: &[f64], sm: f64) -> Vec<f64> {
    const N: bool = false;
    const T: bool = true;
    let n = s.len();
    let tol = base * cond;
    let mut out = vec![];
    let wz = k.w(N, z);
    let wits = k.winv(T, s);
    out.push(rel(&wz, lam, nrm(lam), tol));
    out.push(rel(&wits, lam, nrm(lam), tol));
    let wtwz = k.w(T, &wz);
    out.push(rel(&wtwz, s, nrm(s), tol));
    out.push(rel(&k.hs(z), s, nrm(s), tol));
    let wx = k.w(N, x);
    let wix = k.winv(N, x);
    out.push(rel(&k.w(N, &wix), x, nrm(x), tol));
    out.push(rel(&k.winv(N, &wx), x, nrm(x), tol));
    // adjoint: <W x, dz> = <x, W^T dz>
    let wtdz = k.w(T, dz);
    let (l, r) = (dot(&wx, dz), dot(x, &wtdz));
    out.push((l - r).abs() / (tol * (nrm(&wx) * nrm(dz)).max(f64::MIN_POSITIVE)));
    // the KKT block acts as mul_Hs
    let hx: Vec<f64> = (0..n).map(|i| dot(&hmat[i], x)).collect();
    let mhx = k.hs(x);
    out.push(rel(&hx, &mhx, nrm(&mhx).max(nrm(&hx)), tol));
    // Jordan algebra
    let ll = k.circ(lam, lam);
    out.push(rel(&k.affine(s), &ll, nrm(&ll), tol));
    let lx = k.circ(lam, x);
    out.push(rel(&k.laminv(&lx), x, nrm(x), tol));
    let q = k.laminv(ds);
    let wtq = k.w(T, &q);
    out.push(rel(&k.offset(ds, z), &wtq, nrm(&wtq), tol));
    let a = k.winv(T, ds);
    let b = k.w(N, dz);
    let mut c = k.circ(&a, &b);
    let e = k.unit(n);
    for i in 0..n {
        c[i] -= sm * e[i];
    }
    out.push(rel(&k.shift(dz, ds, sm), &c, nrm(&a) * nrm(&b) + sm.abs(), tol));
    let wtx = k.w(T, x);
    out.push(rel(&k.winv(T, &wtx), x, nrm(x), tol));
    let xl = k.circ(x, lam);
    out.push(rel(&lx, &xl, nrm(&lx), tol));
    out
}

fn oracle_identities(_r: &Req, out: &str) -> Result<(), String> {
    let o = Req::parse(&format!("x {}", out)).ok_or("unparsable response")?;
    if !o.has("r") {
        return Err(format!("implementation returned {}", out));
    }
    let names = o.str("names").to_string();
    let extra: Vec<&str> = names.split('|').collect();
    for (i, v) in o.fs("r").iter().enumerate() {
        if !(*v <= 1.0) {
            let nm = if i < NAMES.len() { NAMES[i] } else { extra.get(i - NAMES.len()).copied().unwrap_or("?") };
            return Err(format!("identity `{}` violated: normalised residual {:.3e} (> 1), cond {:.3e}", nm, v, o.f("cond")));
        }
    }
    Ok(())
}

fn run_nn_identities(r: &Req) -> String {
    let (s, z) = (r.fs("s"), r.fs("z"));
    let mut k = nn_cone(r);
    let n = s.len();
    let lam = verif_hooks_nncone::λ(&k).to_vec();
    let mut h = vec![0.0; n];
    k.get_Hs(&mut h);
    let hmat: Vec<Vec<f64>> = (0..n).map(|i| (0..n).map(|j| if i == j { h[i] } else { 0.0 }).collect()).collect();
    let mut res = identities(&mut k, &s, &z, &lam, &hmat, 4e-14, 4.0, &r.fs("x"), &r.fs("dz"), &r.fs("ds"), r.f("sigmamu"));
    // element-wise definition: lam = sqrt(s z)
    let l2: Vec<f64> = s.iter().zip(&z).map(|(a, b)| (a * b).sqrt()).collect();
    res.push(rel(&lam, &l2, nrm(&l2), 1e-14));
    record("nn", &res);
    Line::out().fs("r", &res).f("cond", 1.0).s("names", "lam-is-sqrt(s.z)").done()
}

/// (conditioning bound, relative interiority of s, of z) from the request alone
fn soc_cond(s: &[f64], z: &[f64]) -> f64 {
    let rs = (s[0] - nrm(&s[1..])) * (s[0] + nrm(&s[1..]));
    let rz = (z[0] - nrm(&z[1..])) * (z[0] + nrm(&z[1..]));
    let ds = (s[0] - nrm(&s[1..])) / s[0];
    let dz = (z[0] - nrm(&z[1..])) / z[0];
    // cond(W) ~ 2(1 + <s̄,z̄>);  the computed residuals carry a relative error ~ eps/δ
    let cw = 2.0 + 2.0 * dot(s, z) / (rs * rz).sqrt();
    let kappa = nrm(s) * nrm(z) / dot(s, z);
    (cw + kappa) * (1.0 + 1e-2 * (1.0 / ds + 1.0 / dz))
}

fn soc_hmat(k: &SecondOrderCone<f64>) -> Vec<Vec<f64>> {
    let n = k.numel();
    let mut h = vec![0.0; hs_len(k)];
    k.get_Hs(&mut h);
    let mut m = vec![vec![0.0; n]; n];
    match &k.sparse_data {
        Some(sp) => {
            // sparse expansion: H = D + η²(u u' − v v'), D = get_Hs (diagonal)
            let e2 = k.η * k.η;
            for i in 0..n {
                for j in 0..n {
                    m[i][j] = e2 * (sp.u[i] * sp.u[j] - sp.v[i] * sp.v[j]) + if i == j { h[i] } else { 0.0 };
                }
            }
        }
        None => {
            let mut idx = 0;
            for col in 0..n {
                for row in 0..=col {
                    m[row][col] = h[idx];
                    m[col][row] = h[idx];
                    idx += 1;
                }
            }
        }
    }
    m
}

fn run_soc_identities(r: &Req) -> String {
    let (s, z) = (r.fs("s"), r.fs("z"));
    let (ok, mut k) = soc_cone(r);
    if !ok {
        return "update_scaling=false".into();
    }
    let cond = soc_cond(&s, &z);
    let lam = k.λ.clone();
    let hmat = soc_hmat(&k);
    let x = r.fs("x");
    let mut res = identities(&mut k, &s, &z, &lam, &hmat, 2e-13, cond, &x, &r.fs("dz"), &r.fs("ds"), r.f("sigmamu"));
    let tol = 2e-13 * cond;
    // w is normalised: w0² − ‖w1‖² = 1
    let w = k.w.clone();
    res.push(((w[0] - nrm(&w[1..])) * (w[0] + nrm(&w[1..])) - 1.0).abs() / (tol * w[0] * w[0]));
    // η⁴ = res(s)/res(z)
    let rs = (s[0] - nrm(&s[1..])) * (s[0] + nrm(&s[1..]));
    let rz = (z[0] - nrm(&z[1..])) * (z[0] + nrm(&z[1..]));
    res.push((k.η.powi(4) / (rs / rz) - 1.0).abs() / tol);
    // mul_Hs = η²(2ww' − J)
    let c = 2.0 * dot(&w, &x);
    let mut hx: Vec<f64> = (0..x.len()).map(|i| k.η * k.η * (c * w[i] + if i == 0 { -x[0] } else { x[i] })).collect();
    let mhx = Ops::hs(&mut k, &x);
    res.push(rel(&hx, &mhx, k.η * k.η * (c.abs() * nrm(&w) + nrm(&x)), tol));
    hx.clear();
    // Jordan product definition and inverse on an interior point (y := s)
    let y = &s;
    let mut def = vec![dot(y, &x)];
    for i in 1..x.len() {
        def.push(y[0] * x[i] + x[0] * y[i]);
    }
    let yx = Ops::circ(&mut k, y, &x);
    res.push(rel(&yx, &def, nrm(y) * nrm(&x), 1e-14));
    let mut back = vec![0.0; x.len()];
    k.inv_circ_op(&mut back, y, &yx);
    let dsy = (s[0] - nrm(&s[1..])) / s[0];
    res.push(rel(&back, &x, nrm(&x), 1e-13 / dsy));
    record("soc", &res);
    Line::out().fs("r", &res).f("cond", cond)
        .s("names", "w0^2-|w1|^2-is-1|eta^4-is-res(s)/res(z)|mul_Hs-is-eta^2(2ww'-J)|circ_op-is-Jordan-product|inv_circ_op-inverts").done()
}

// ---- PSD: svec helpers, n ≤ 4, implementation only

fn svec_to_mat(x: &[f64], n: usize) -> Vec<Vec<f64>> {
    let mut m = vec![vec![0.0; n]; n];
    let mut idx = 0;
    let isq2 = std::f64::consts::FRAC_1_SQRT_2;
    for col in 0..n {
        for row in 0..=col {
            if row == col {
                m[row][col] = x[idx];
            } else {
                m[row][col] = x[idx] * isq2;
                m[col][row] = x[idx] * isq2;
            }
            idx += 1;
        }
    }
    m
}
fn mat_to_svec(m: &[Vec<f64>]) -> Vec<f64> {
    let n = m.len();
    let mut x = vec![];
    for col in 0..n {
        for row in 0..=col {
            x.push(if row == col { m[row][col] } else { (m[row][col] + m[col][row]) * std::f64::consts::FRAC_1_SQRT_2 });
        }
    }
    x
}
fn matmul(a: &[Vec<f64>], b: &[Vec<f64>]) -> Vec<Vec<f64>> {
    let n = a.len();
    (0..n).map(|i| (0..n).map(|j| (0..n).map(|k| a[i][k] * b[k][j]).sum()).collect()).collect()
}
/// Jacobi eigenvalues of a small symmetric matrix (own routine, no LAPACK)
fn jacobi_eigs(a: &[Vec<f64>]) -> Vec<f64> {
    let n = a.len();
    let mut a: Vec<Vec<f64>> = a.to_vec();
    for _sweep in 0..60 {
        let off: f64 = (0..n).flat_map(|i| (0..n).map(move |j| (i, j))).filter(|(i, j)| i != j).map(|(i, j)| a[i][j] * a[i][j]).sum();
        let diag: f64 = (0..n).map(|i| a[i][i] * a[i][i]).sum();
        if off <= 1e-34 * diag.max(f64::MIN_POSITIVE) {
            break;
        }
        for p in 0..n {
            for q in p + 1..n {
                if a[p][q] == 0.0 {
                    continue;
                }
                let theta = (a[q][q] - a[p][p]) / (2.0 * a[p][q]);
                let t = theta.signum() / (theta.abs() + (theta * theta + 1.0).sqrt());
                let t = if theta == 0.0 { 1.0 } else { t };
                let c = 1.0 / (t * t + 1.0).sqrt();
                let s = t * c;
                for k in 0..n {
                    let (akp, akq) = (a[k][p], a[k][q]);
                    a[k][p] = c * akp - s * akq;
                    a[k][q] = s * akp + c * akq;
                }
                for k in 0..n {
                    let (apk, aqk) = (a[p][k], a[q][k]);
                    a[p][k] = c * apk - s * aqk;
                    a[q][k] = s * apk + c * aqk;
                }
            }
        }
    }
    (0..n).map(|i| a[i][i]).collect()
}

fn run_psd_identities(r: &Req) -> String {
    let (s, z) = (r.fs("s"), r.fs("z"));
    let n = r.u("n");
    let mut k = PSDTriangleCone::<f64>::new(n);
    if !k.update_scaling(&s, &z, 1.0, PD) {
        return "update_scaling=false".into();
    }
    let es = jacobi_eigs(&svec_to_mat(&s, n));
    let ez = jacobi_eigs(&svec_to_mat(&z, n));
    let mx = |v: &[f64]| v.iter().cloned().fold(f64::MIN, f64::max);
    let mn = |v: &[f64]| v.iter().cloned().fold(f64::MAX, f64::min);
    let cond = 10.0 * (n as f64) * (mx(&es) / mn(&es)) * (mx(&ez) / mn(&ez));
    let lv = verif_hooks_psdcone::λ(&k).to_vec();
    let mut lam_m = vec![vec![0.0; n]; n];
    for i in 0..n {
        lam_m[i][i] = lv[i];
    }
    let lam = mat_to_svec(&lam_m);
    let m = s.len();
    let mut h = vec![0.0; m * (m + 1) / 2];
    k.get_Hs(&mut h);
    let mut hmat = vec![vec![0.0; m]; m];
    let mut idx = 0;
    for col in 0..m {
        for row in 0..=col {
            hmat[row][col] = h[idx];
            hmat[col][row] = h[idx];
            idx += 1;
        }
    }
    let x = r.fs("x");
    let mut res = identities(&mut k, &s, &z, &lam, &hmat, 4e-14, cond, &x, &r.fs("dz"), &r.fs("ds"), r.f("sigmamu"));
    let tol = 4e-14 * cond;
    // Jordan product definition: svec((YX + XY)/2)
    let (ym, xm) = (svec_to_mat(&s, n), svec_to_mat(&x, n));
    let (a, b) = (matmul(&ym, &xm), matmul(&xm, &ym));
    let half: Vec<Vec<f64>> = (0..n).map(|i| (0..n).map(|j| 0.5 * (a[i][j] + b[i][j])).collect()).collect();
    let def = mat_to_svec(&half);
    res.push(rel(&Ops::circ(&mut k, &s, &x), &def, nrm(&s) * nrm(&x), 1e-13));
    // R R⁻¹ = I on the stored factors
    let (rr, ri) = (verif_hooks_psdcone::R(&k).to_vec(), verif_hooks_psdcone::Rinv(&k).to_vec());
    let rm: Vec<Vec<f64>> = (0..n).map(|i| (0..n).map(|j| rr[i + j * n]).collect()).collect();
    let rim: Vec<Vec<f64>> = (0..n).map(|i| (0..n).map(|j| ri[i + j * n]).collect()).collect();
    let p = matmul(&rm, &rim);
    let mut dev: f64 = 0.0;
    for i in 0..n {
        for j in 0..n {
            dev = dev.max((p[i][j] - if i == j { 1.0 } else { 0.0 }).abs());
        }
    }
    res.push(dev / tol);
    // λ are the positive singular values in descending order
    res.push(if lv.iter().all(|v| *v > 0.0) && lv.windows(2).all(|w| w[0] >= w[1]) { 0.0 } else { 2.0 });
    record("psd", &res);
    Line::out().fs("r", &res).f("cond", cond).s("names", "circ_op-is-svec((YX+XY)/2)|R.Rinv-is-I|lam>0-sorted").done()
}

// ------------------------------------------------------------------ per-function oracles (cheap, direct)

fn oracle_nn_update(r: &Req, out: &str) -> Result<(), String> {
    let o = Req::parse(&format!("x {}", out)).ok_or("unparsable")?;
    let (s, z, w, lam) = (r.fs("s"), r.fs("z"), o.fs("w"), o.fs("lam"));
    for i in 0..s.len() {
        let t = 1e-14;
        if (w[i] * z[i] - lam[i]).abs() > t * lam[i] || (s[i] / w[i] - lam[i]).abs() > t * lam[i]
            || (w[i] * w[i] * z[i] - s[i]).abs() > t * s[i] {
            return Err(format!("NN scaling identity fails at {}: s={} z={} w={} lam={}", i, s[i], z[i], w[i], lam[i]));
        }
    }
    Ok(())
}
fn oracle_soc_update(r: &Req, out: &str) -> Result<(), String> {
    // `true` on interior (s,z); `false` whenever the residual s0²−‖s1‖² (or z's) is not
    // positive.  (Points of −int K have a positive residual and are *not* rejected by the
    // code; they are outside the quantifier of the property — noted in the report.)
    let o = Req::parse(&format!("x {}", out)).ok_or("unparsable")?;
    let (s, z) = (r.fs("s"), r.fs("z"));
    let int = |v: &[f64]| v[0] > nrm(&v[1..]) * (1.0 + 1e-15);
    let nonpos = |v: &[f64]| v[0].abs() < nrm(&v[1..]) * (1.0 - 1e-15) || v.iter().all(|t| *t == 0.0);
    let ok = o.b("ok");
    if int(&s) && int(&z) && !ok {
        return Err("update_scaling returned false on interior (s,z)".into());
    }
    if (nonpos(&s) || nonpos(&z)) && ok {
        return Err("update_scaling returned true although the residual of s or z is not positive".into());
    }
    Ok(())
}

/// `y_out = α·(W x) + β·y_in` (resp. `W⁻¹`), with `W x` evaluated densely from the stored
/// `w`, `η` — independent of `mul_W` / `mul_Winv` and of their `(α, β)` handling.
fn oracle_soc_mulw_general(r: &Req, out: &str, inverse: bool) -> Result<(), String> {
    let o = Req::parse(&format!("x {}", out)).ok_or("unparsable")?;
    if !o.has("y") {
        return Err(format!("implementation returned {}", out));
    }
    let (ok, k) = soc_cone(r);
    if !ok {
        return Ok(());
    }
    let (x, yin, a, b) = (r.fs("x"), r.fs("y"), r.f("a"), r.f("b"));
    let (w, eta) = (&k.w, k.η);
    let n = x.len();
    // W = η [w0, w1'; w1, I + w1 w1'/(1+w0)],  W⁻¹ = (1/η) [w0, −w1'; −w1, I + w1 w1'/(1+w0)]
    let sg = if inverse { -1.0 } else { 1.0 };
    let sc = if inverse { 1.0 / eta } else { eta };
    let zeta = dot(&w[1..], &x[1..]);
    let mut wx = vec![0.0; n];
    wx[0] = sc * (w[0] * x[0] + sg * zeta);
    for i in 1..n {
        wx[i] = sc * (sg * w[i] * x[0] + x[i] + w[i] * zeta / (1.0 + w[0]));
    }
    let want: Vec<f64> = (0..n).map(|i| a * wx[i] + b * yin[i]).collect();
    // rounding scale: |α|·‖W‖·‖x‖ + |β|·‖y‖ with ‖W‖ ≤ η(w0+‖w1‖)
    let scale = a.abs() * sc * (w[0] + nrm(&w[1..])) * nrm(&x) + b.abs() * nrm(&yin);
    let got = o.fs("y");
    let d = rel(&got, &want, scale, 1e-13);
    if !(d <= 1.0) {
        return Err(format!(
            "{} is not α·{}x + β·y (α={}, β={}): normalised defect {:.3e}, got {:?} expected {:?}",
            if inverse { "mul_Winv" } else { "mul_W" }, if inverse { "W⁻¹" } else { "W" }, a, b, d, got, want
        ));
    }
    Ok(())
}
fn oracle_soc_mul_w(r: &Req, out: &str) -> Result<(), String> {
    oracle_soc_mulw_general(r, out, false)
}
fn oracle_soc_mul_winv(r: &Req, out: &str) -> Result<(), String> {
    oracle_soc_mulw_general(r, out, true)
}
fn oracle_nn_mulw_general(r: &Req, out: &str, inverse: bool) -> Result<(), String> {
    let (s, z, x, yin, a, b) = (r.fs("s"), r.fs("z"), r.fs("x"), r.fs("y"), r.f("a"), r.f("b"));
    if yin.len() != x.len() || x.len() != s.len() {
        return if out.starts_with("panic") { Ok(()) } else { Err("length mismatch must panic (assert_eq!)".into()) };
    }
    let o = Req::parse(&format!("x {}", out)).ok_or("unparsable")?;
    let got = o.fs("y");
    for i in 0..x.len() {
        let w = (s[i] / z[i]).sqrt();
        let wx = if inverse { x[i] / w } else { x[i] * w };
        let want = a * wx + b * yin[i];
        if !((got[i] - want).abs() <= 1e-14 * ((a * wx).abs() + (b * yin[i]).abs())) {
            return Err(format!("entry {}: got {} expected α·Wx + β·y = {}", i, got[i], want));
        }
    }
    Ok(())
}
fn oracle_nn_mul_w(r: &Req, out: &str) -> Result<(), String> {
    oracle_nn_mulw_general(r, out, false)
}
fn oracle_nn_mul_winv(r: &Req, out: &str) -> Result<(), String> {
    oracle_nn_mulw_general(r, out, true)
}

// ------------------------------------------------------------------ PSD model channels
//
// The LAPACK results are taken from the implementation: the generator runs `update_scaling`
// on (s,z), reads λ, R, R⁻¹ (and the Cholesky/SVD factors, RRᵀ) through the hooks and puts
// them into the request; `run` rebuilds the same cone from (s,z) and calls the function, the
// Lean model evaluates it from the R, R⁻¹, λ in the request.  Functions that contain a BLAS
// product (gemm/syrk/syr2k accumulate in a different order than the model's left fold) are
// compared with a relative tolerance `PSD_TOL`; the BLAS-free ones are bit-exact.
use clarabel::verif_hooks::cones::verif_hooks_psdcone as hp;
use clarabel::verif_hooks::cones::verif_hooks_psdcone_scaling as hps;

// calibrated: no mismatch in 3×6000 thorough cases per channel at (1e-13, 1e-13); first ones at 1e-14
const PSD_TOL: Tol = Tol::Rel(1e-11, 1e-11);

fn tri(n: usize) -> usize {
    n * (n + 1) / 2
}
fn psd_cone(r: &Req) -> (bool, PSDTriangleCone<f64>) {
    let mut k = PSDTriangleCone::<f64>::new(r.u("n"));
    let ok = k.update_scaling(&r.fs("s"), &r.fs("z"), 1.0, PD);
    (ok, k)
}
fn run_psd_svec_to_mat(r: &Req) -> String {
    let (n, x) = (r.u("n"), r.fs("x"));
    if x.len() != tri(n) {
        return "err:unmodelled-size".into();
    }
    Line::out().fs("m", &hp::svec_to_mat_dense(n, &x)).done()
}
fn run_psd_mat_to_svec(r: &Req) -> String {
    let (n, m) = (r.u("n"), r.fs("m"));
    if m.len() != n * n {
        return "err:unmodelled-size".into();
    }
    Line::out().fs("x", &hp::mat_to_svec_dense(n, &m)).done()
}
/// packed upper triangle (column by column) of a column-major m×m matrix
fn pack_triu(m: usize, a: &[f64]) -> Vec<f64> {
    let mut v = Vec::with_capacity(tri(m));
    for c in 0..m {
        for r in 0..=c {
            v.push(a[r + m * c]);
        }
    }
    v
}
fn run_psd_skron(r: &Req) -> String {
    let (n, a) = (r.u("n"), r.fs("a"));
    if a.len() != n * n {
        return "err:unmodelled-size".into();
    }
    let out = hps::skron_dense(n, &a);
    // `skron` must leave the strict lower triangle untouched
    let bm = tri(n);
    for c in 0..bm {
        for rr in c + 1..bm {
            if out[rr + bm * c] != 0.0 {
                return "skron-wrote-below-diagonal".into();
            }
        }
    }
    Line::out().fs("hs", &pack_triu(bm, &out)).done()
}
fn run_psd_update_tail(r: &Req) -> String {
    let (ok, k) = psd_cone(r);
    if !ok {
        return "update_scaling=false".into();
    }
    let n = r.u("n");
    let mut hs = vec![0.0; tri(tri(n))];
    k.get_Hs(&mut hs);
    Line::out().fs("lam", hp::λ(&k)).fs("lamisqrt", hp::Λisqrt(&k)).fs("r", hp::R(&k)).fs("rinv", hp::Rinv(&k))
        .fs("rrt", hps::workmat1(&k)).fs("hs", &hs).done()
}

// ---- round 5: `update_scaling` as a whole, LAPACK failures included -------------------------
use clarabel::verif_hooks::cones::verif_hooks_psdcone_lapack as hpl;

/// `(λ, Λisqrt, R, R⁻¹, packed Hs)` — the scaling state the LAPACK-free functions read
fn psd_state(k: &PSDTriangleCone<f64>, n: usize) -> [Vec<f64>; 5] {
    let mut hs = vec![0.0; tri(tri(n))];
    k.get_Hs(&mut hs);
    [hp::λ(k).to_vec(), hp::Λisqrt(k).to_vec(), hp::R(k).to_vec(), hp::Rinv(k).to_vec(), hs]
}
const PSD_STATE_KEYS: [&str; 5] = ["lam", "lamisqrt", "r", "rinv", "hs"];
/// a fresh cone, an optional earlier successful update `(s0, z0)`, then `update_scaling(s, z)`:
/// the flag and the state the cone is left with
fn run_psd_update_scaling(r: &Req) -> String {
    let n = r.u("n");
    let (sv, zv) = (r.fs("s"), r.fs("z"));
    if !sv.is_empty() && (sv.len() != tri(n) || zv.len() != tri(n)) {
        return "err:unmodelled-size".into();
    }
    let mut k = PSDTriangleCone::<f64>::new(n);
    if r.has("s0") {
        k.update_scaling(&r.fs("s0"), &r.fs("z0"), 1.0, PD);
    }
    let ok = k.update_scaling(&sv, &zv, 1.0, PD);
    let st = psd_state(&k, n);
    let mut l = Line::out().b("ok", ok);
    for (key, v) in PSD_STATE_KEYS.iter().zip(st.iter()) {
        l = l.fs(key, v);
    }
    l.done()
}
fn same_bits(a: &[f64], b: &[f64]) -> bool {
    a.len() == b.len() && a.iter().zip(b).all(|(x, y)| x.to_bits() == y.to_bits() || (x.is_nan() && y.is_nan()))
}
/// independent of the model: a reported LAPACK failure (flags `c1`, `c2`, `svd` of the request,
/// taken from fresh LAPACK engines) ⇒ `false` and the scaling state is bit for bit the one before
/// the call; no failure ⇒ `true`; `s` or `z` not positive definite by construction ⇒ `false`.
fn oracle_psd_update_scaling(r: &Req, out: &str) -> Result<(), String> {
    let o = Req::parse(&format!("x {}", out)).ok_or("unparsable")?;
    if !o.has("ok") {
        return if out.starts_with("err:") { Ok(()) } else { Err(format!("implementation returned {}", out)) };
    }
    let ok = o.b("ok");
    if r.fs("s").is_empty() {
        return if ok { Ok(()) } else { Err("empty cone: update_scaling returned false".into()) };
    }
    let failed = r.u("c1") == 0 || r.u("c2") == 0 || r.u("svd") == 0;
    if failed {
        if ok {
            return Err("update_scaling returned true although a LAPACK call fails on (s,z)".into());
        }
        for key in PSD_STATE_KEYS {
            if !same_bits(&o.fs(key), &r.fs(&format!("{}0", key))) {
                return Err(format!("failed update_scaling changed the scaling state ({})", key));
            }
        }
    } else if !ok {
        return Err("update_scaling returned false although every LAPACK call succeeds on (s,z)".into());
    }
    if r.str("bad") != "none" && ok {
        return Err(format!("update_scaling returned true although {} is not positive definite", r.str("bad")));
    }
    Ok(())
}
fn run_psd_get_hs(r: &Req) -> String {
    let (ok, k) = psd_cone(r);
    if !ok {
        return "update_scaling=false".into();
    }
    let mut hs = vec![0.0; r.u("len")];
    k.get_Hs(&mut hs);
    Line::out().fs("hs", &hs).done()
}
fn run_psd_set_identity(r: &Req) -> String {
    let n = r.u("n");
    let mut k = PSDTriangleCone::<f64>::new(n);
    if r.has("s") {
        // a non-trivial scaling first: `set_identity_scaling` must not depend on the history
        k.update_scaling(&r.fs("s"), &r.fs("z"), 1.0, PD);
    }
    k.set_identity_scaling();
    let mut hs = vec![0.0; tri(tri(n))];
    k.get_Hs(&mut hs);
    Line::out().fs("r", hp::R(&k)).fs("rinv", hp::Rinv(&k)).fs("hs", &hs).done()
}
fn run_psd_mul_w(r: &Req) -> String {
    let (_, mut k) = psd_cone(r);
    let mut y = r.fs("y");
    k.mul_W(matrix_shape(r.u("t") != 0), &mut y, &r.fs("x"), r.f("a"), r.f("b"));
    Line::out().fs("y", &y).done()
}
fn run_psd_mul_winv(r: &Req) -> String {
    let (_, mut k) = psd_cone(r);
    let mut y = r.fs("y");
    k.mul_Winv(matrix_shape(r.u("t") != 0), &mut y, &r.fs("x"), r.f("a"), r.f("b"));
    Line::out().fs("y", &y).done()
}
fn run_psd_mul_hs(r: &Req) -> String {
    let (_, mut k) = psd_cone(r);
    let x = r.fs("x");
    let mut y = vec![0.0; x.len()];
    let mut work = vec![0.0; x.len()];
    k.mul_Hs(&mut y, &x, &mut work);
    Line::out().fs("y", &y).done()
}
fn run_psd_circ_op(r: &Req) -> String {
    let (y, z) = (r.fs("y"), r.fs("z"));
    let mut k = PSDTriangleCone::<f64>::new(r.u("n"));
    let mut x = vec![0.0; y.len()];
    k.circ_op(&mut x, &y, &z);
    Line::out().fs("x", &x).done()
}
fn run_psd_lam_inv_circ_op(r: &Req) -> String {
    let (_, mut k) = psd_cone(r);
    let z = r.fs("x");
    let mut x = vec![0.0; z.len()];
    k.λ_inv_circ_op(&mut x, &z);
    Line::out().fs("x", &x).done()
}
fn run_psd_affine_ds(r: &Req) -> String {
    let (_, k) = psd_cone(r);
    let mut ds = vec![f64::NAN; r.u("len")];
    k.affine_ds(&mut ds, &r.fs("s"));
    Line::out().fs("ds", &ds).done()
}
fn run_psd_combined_ds_shift(r: &Req) -> String {
    let (_, mut k) = psd_cone(r);
    let (mut dz, mut ds) = (r.fs("dz"), r.fs("ds"));
    let mut shift = vec![0.0; dz.len()];
    k.combined_ds_shift(&mut shift, &mut dz, &mut ds, r.f("sigmamu"));
    Line::out().fs("shift", &shift).fs("stepz", &dz).fs("steps", &ds).done()
}
fn run_psd_ds_from_dz_offset(r: &Req) -> String {
    let (_, mut k) = psd_cone(r);
    let ds = r.fs("ds");
    let mut out = vec![0.0; ds.len()];
    let mut work = vec![0.0; ds.len()];
    k.Δs_from_Δz_offset(&mut out, &ds, &mut work, &r.fs("z"));
    Line::out().fs("out", &out).done()
}

// ---- direct oracles for the PSD functions (dense re-evaluation, independent of the model)

fn cm_to_rows(n: usize, a: &[f64]) -> Vec<Vec<f64>> {
    (0..n).map(|i| (0..n).map(|j| a[i + n * j]).collect()).collect()
}
fn transpose(a: &[Vec<f64>]) -> Vec<Vec<f64>> {
    let n = a.len();
    (0..n).map(|i| (0..n).map(|j| a[j][i]).collect()).collect()
}
fn fro(a: &[Vec<f64>]) -> f64 {
    a.iter().flatten().map(|v| v * v).sum::<f64>().sqrt()
}
fn parsed(out: &str, key: &str) -> Result<Vec<f64>, String> {
    let o = Req::parse(&format!("x {}", out)).ok_or("unparsable response")?;
    if !o.has(key) {
        return Err(format!("implementation returned {}", out));
    }
    Ok(o.fs(key))
}
/// `svec_to_mat` gives a symmetric matrix whose `mat_to_svec` is the argument again
fn oracle_psd_svec_to_mat(r: &Req, out: &str) -> Result<(), String> {
    let (n, x) = (r.u("n"), r.fs("x"));
    if x.len() != tri(n) {
        return Ok(());
    }
    let m = cm_to_rows(n, &parsed(out, "m")?);
    for i in 0..n {
        for j in 0..n {
            if m[i][j].to_bits() != m[j][i].to_bits() {
                return Err(format!("svec_to_mat result not symmetric at ({},{})", i, j));
            }
        }
    }
    let back = mat_to_svec(&m);
    for (a, b) in back.iter().zip(&x) {
        if !((a - b).abs() <= 4e-16 * b.abs()) {
            return Err(format!("mat_to_svec(svec_to_mat(x)) = {} differs from x = {}", a, b));
        }
    }
    Ok(())
}
/// `⟨svec M, svec M⟩ = tr(Mₛ Mₛ)` with `Mₛ` the symmetric part, and the round trip gives `Mₛ`
fn oracle_psd_mat_to_svec(r: &Req, out: &str) -> Result<(), String> {
    let (n, m) = (r.u("n"), r.fs("m"));
    if m.len() != n * n {
        return Ok(());
    }
    let x = parsed(out, "x")?;
    let mm = cm_to_rows(n, &m);
    let ms: Vec<Vec<f64>> = (0..n).map(|i| (0..n).map(|j| 0.5 * (mm[i][j] + mm[j][i])).collect()).collect();
    let trace: f64 = (0..n).map(|i| (0..n).map(|j| ms[i][j] * ms[j][i]).sum::<f64>()).sum();
    if !((dot(&x, &x) - trace).abs() <= 1e-14 * trace.abs()) {
        return Err(format!("<svec M, svec M> = {} but tr(Ms Ms) = {}", dot(&x, &x), trace));
    }
    let back = svec_to_mat(&x, n);
    for i in 0..n {
        for j in 0..n {
            if !((back[i][j] - ms[i][j]).abs() <= 1e-15 * (mm[i][j].abs() + mm[j][i].abs())) {
                return Err(format!("svec_to_mat(mat_to_svec(M)) is not the symmetric part at ({},{})", i, j));
            }
        }
    }
    Ok(())
}
/// the packed block acts as `x ↦ svec(A X A)` on a fixed symmetric test matrix
fn oracle_psd_skron(r: &Req, out: &str) -> Result<(), String> {
    let (n, a) = (r.u("n"), r.fs("a"));
    if a.len() != n * n {
        return Ok(());
    }
    let h = parsed(out, "hs")?;
    let bm = tri(n);
    let au = cm_to_rows(n, &a);
    let am: Vec<Vec<f64>> = (0..n).map(|i| (0..n).map(|j| if i <= j { au[i][j] } else { au[j][i] }).collect()).collect();
    let xm: Vec<Vec<f64>> = (0..n).map(|i| (0..n).map(|j| 1.0 / (1.0 + (i + j) as f64) - if (i + j) % 3 == 0 { 0.75 } else { 0.0 }).collect()).collect();
    let x = mat_to_svec(&xm);
    let want = mat_to_svec(&matmul(&matmul(&am, &xm), &am));
    let hx: Vec<f64> = (0..bm).map(|rr| (0..bm).map(|c| {
        let (lo, hi) = if rr <= c { (rr, c) } else { (c, rr) };
        h[tri(hi) + lo] * x[c]
    }).sum()).collect();
    let d = rel(&hx, &want, fro(&am) * fro(&am) * fro(&xm), 1e-13);
    if !(d <= 1.0) {
        return Err(format!("skron(A)·svec(X) is not svec(A X A): normalised defect {:.3e}", d));
    }
    Ok(())
}
/// `y_out = a·svec(RxᵀXRx) + b·y` (shape N) resp. `a·svec(RxXRxᵀ) + b·y` (shape T), evaluated
/// densely from the R / R⁻¹ of the request
fn oracle_psd_mulw_general(r: &Req, out: &str, inverse: bool) -> Result<(), String> {
    let n = r.u("n");
    let got = parsed(out, "y")?;
    let rx = cm_to_rows(n, &r.fs(if inverse { "rinv" } else { "r" }));
    let (x, yin, a, b) = (r.fs("x"), r.fs("y"), r.f("a"), r.f("b"));
    let xm = svec_to_mat(&x, n);
    let p = if r.u("t") != 0 { matmul(&matmul(&rx, &xm), &transpose(&rx)) } else { matmul(&matmul(&transpose(&rx), &xm), &rx) };
    let ps = mat_to_svec(&p);
    let want: Vec<f64> = (0..x.len()).map(|i| a * ps[i] + if b == 0.0 { 0.0 } else { b * yin[i] }).collect();
    let scale = a.abs() * fro(&rx) * fro(&rx) * nrm(&x) + b.abs() * nrm(&yin);
    let d = rel(&got, &want, scale, 1e-13);
    if !(d <= 1.0) {
        return Err(format!("{} is not α·svec(R X R') + β·y: normalised defect {:.3e}", if inverse { "mul_Winv" } else { "mul_W" }, d));
    }
    Ok(())
}
fn oracle_psd_mul_w(r: &Req, out: &str) -> Result<(), String> {
    oracle_psd_mulw_general(r, out, false)
}
fn oracle_psd_mul_winv(r: &Req, out: &str) -> Result<(), String> {
    oracle_psd_mulw_general(r, out, true)
}
fn oracle_psd_circ_op(r: &Req, out: &str) -> Result<(), String> {
    let n = r.u("n");
    let got = parsed(out, "x")?;
    let (ym, zm) = (svec_to_mat(&r.fs("y"), n), svec_to_mat(&r.fs("z"), n));
    let (p, q) = (matmul(&ym, &zm), matmul(&zm, &ym));
    let h: Vec<Vec<f64>> = (0..n).map(|i| (0..n).map(|j| 0.5 * (p[i][j] + q[i][j])).collect()).collect();
    let d = rel(&got, &mat_to_svec(&h), fro(&ym) * fro(&zm), 1e-13);
    if !(d <= 1.0) {
        return Err(format!("circ_op is not svec((YZ+ZY)/2): normalised defect {:.3e}", d));
    }
    Ok(())
}
/// `Λ ∘ (λ \ z) = z` with `Λ = diag(λ)`, evaluated densely
fn oracle_psd_lam_inv(r: &Req, out: &str) -> Result<(), String> {
    let n = r.u("n");
    let got = parsed(out, "x")?;
    let lam = r.fs("lam");
    let z = r.fs("x");
    let xm = svec_to_mat(&got, n);
    let h: Vec<Vec<f64>> = (0..n).map(|i| (0..n).map(|j| 0.5 * (lam[i] + lam[j]) * xm[i][j]).collect()).collect();
    let d = rel(&mat_to_svec(&h), &z, nrm(&z), 1e-14);
    if !(d <= 1.0) {
        return Err(format!("Λ∘(λ\\z) is not z: normalised defect {:.3e}", d));
    }
    Ok(())
}
fn oracle_psd_affine_ds(r: &Req, out: &str) -> Result<(), String> {
    let n = r.u("n");
    if r.u("len") != tri(n) {
        return Ok(());
    }
    let got = parsed(out, "ds")?;
    let lam = r.fs("lam");
    let mut m = vec![vec![0.0; n]; n];
    for i in 0..n {
        m[i][i] = lam[i] * lam[i];
    }
    if got != mat_to_svec(&m) {
        return Err("affine_ds is not svec(diag(λ²))".into());
    }
    Ok(())
}

// ------------------------------------------------------------------ histories on one cone object
//
// `ops=u,i,…`: a sequence of `update_scaling(s<k>, z<k>)` / `set_identity_scaling()` calls on ONE
// cone object; after every operation the scaling state, `get_Hs` and `mul_Hs x` are reported.
// Correspondence is exact.  The oracle replays the history and checks after every operation
// that the operator represented by the data handed to the KKT assembly (dense packed block,
// diagonal, or sparse-expanded η²(D + uu' − vv')) is `mul_Hs` on every unit vector — in
// particular the identity after `set_identity_scaling`, whatever happened before.

fn parse_ops(r: &Req) -> Vec<bool> {
    r.str("ops").split(',').filter(|t| !t.is_empty()).map(|t| t == "u").collect()
}
fn run_soc_history(r: &Req) -> String {
    let mut k = SecondOrderCone::<f64>::new(r.u("dim"));
    let x = r.fs("x");
    let mut parts = vec![];
    for (i, upd) in parse_ops(r).iter().enumerate() {
        let ok = if *upd {
            k.update_scaling(&r.fs(&format!("s{}", i)), &r.fs(&format!("z{}", i)), 1.0, PD)
        } else {
            k.set_identity_scaling();
            true
        };
        let mut hs = vec![0.0; hs_len(&k)];
        k.get_Hs(&mut hs);
        let mut y = vec![0.0; x.len()];
        let mut work = vec![0.0; x.len()];
        k.mul_Hs(&mut y, &x, &mut work);
        let (u, v, d): (Vec<f64>, Vec<f64>, String) = match &k.sparse_data {
            Some(sp) => (sp.u.clone(), sp.v.clone(), proto::ff(sp.d)),
            None => (vec![], vec![], String::new()),
        };
        parts.push(format!(
            "ok{i}={} w{i}={} eta{i}={} u{i}={} v{i}={} d{i}={} hs{i}={} y{i}={}",
            proto::fb(ok), proto::ffs(&k.w), proto::ff(k.η), proto::ffs(&u), proto::ffs(&v), d, proto::ffs(&hs), proto::ffs(&y), i = i
        ));
    }
    parts.join(" ")
}
fn run_nn_history(r: &Req) -> String {
    let mut k = NonnegativeCone::<f64>::new(r.u("dim"));
    let x = r.fs("x");
    let mut parts = vec![];
    for (i, upd) in parse_ops(r).iter().enumerate() {
        if *upd {
            k.update_scaling(&r.fs(&format!("s{}", i)), &r.fs(&format!("z{}", i)), 1.0, PD);
        } else {
            k.set_identity_scaling();
        }
        let mut hs = vec![0.0; r.u("dim")];
        k.get_Hs(&mut hs);
        let mut y = vec![0.0; x.len()];
        let mut work = vec![0.0; x.len()];
        k.mul_Hs(&mut y, &x, &mut work);
        parts.push(format!("w{i}={} hs{i}={} y{i}={}", proto::ffs(verif_hooks_nncone::w(&k)), proto::ffs(&hs), proto::ffs(&y), i = i));
    }
    parts.join(" ")
}
/// max over unit vectors of the normalised distance between column j of `hmat` and `mul_Hs e_j`
fn block_vs_mulhs(k: &mut dyn Ops, hmat: &[Vec<f64>], tol: f64) -> (f64, usize) {
    let n = hmat.len();
    let mut worst = (0.0f64, 0usize);
    for j in 0..n {
        let mut e = vec![0.0; n];
        e[j] = 1.0;
        let col: Vec<f64> = (0..n).map(|i| hmat[i][j]).collect();
        let m = k.hs(&e);
        let d = rel(&col, &m, nrm(&col).max(nrm(&m)), tol);
        if !(d <= worst.0) {
            worst = (d, j);
        }
    }
    worst
}
fn oracle_soc_history(r: &Req, out: &str) -> Result<(), String> {
    if out.starts_with("panic") {
        return Err(format!("history panicked: {}", out));
    }
    let dim = r.u("dim");
    let mut k = SecondOrderCone::<f64>::new(dim);
    for (i, upd) in parse_ops(r).iter().enumerate() {
        let (ok, tol) = if *upd {
            let (s, z) = (r.fs(&format!("s{}", i)), r.fs(&format!("z{}", i)));
            let ok = k.update_scaling(&s, &z, 1.0, PD);
            (ok, if ok { 2e-13 * soc_cond(&s, &z) } else { 0.0 })
        } else {
            k.set_identity_scaling();
            (true, 1e-14)
        };
        if !ok {
            continue; // a failed update leaves a partially written state; the solver stops there
        }
        let hmat = soc_hmat(&k);
        let (d, j) = block_vs_mulhs(&mut k, &hmat, tol);
        if !(d <= 1.0) {
            return Err(format!(
                "after operation {} ({}): the block handed to the KKT assembly ({}) is not mul_Hs on e_{} — normalised defect {:.3e}",
                i, if *upd { "update_scaling" } else { "set_identity_scaling" },
                if k.sparse_data.is_some() { "sparse-expanded η²(D+uu'−vv')" } else { "dense packed Hs" }, j, d
            ));
        }
        if !*upd {
            // at the identity scaling point the block must be the identity matrix
            for a in 0..dim {
                for b in 0..dim {
                    let want = if a == b { 1.0 } else { 0.0 };
                    if !((hmat[a][b] - want).abs() <= 1e-14) {
                        return Err(format!(
                            "after set_identity_scaling (operation {}) the KKT block is not the identity: entry ({},{}) = {}",
                            i, a, b, hmat[a][b]
                        ));
                    }
                }
            }
        }
    }
    Ok(())
}
fn oracle_nn_history(r: &Req, out: &str) -> Result<(), String> {
    if out.starts_with("panic") {
        return Err(format!("history panicked: {}", out));
    }
    let dim = r.u("dim");
    let mut k = NonnegativeCone::<f64>::new(dim);
    for (i, upd) in parse_ops(r).iter().enumerate() {
        if *upd {
            k.update_scaling(&r.fs(&format!("s{}", i)), &r.fs(&format!("z{}", i)), 1.0, PD);
        } else {
            k.set_identity_scaling();
        }
        let mut h = vec![0.0; dim];
        k.get_Hs(&mut h);
        let hmat: Vec<Vec<f64>> = (0..dim).map(|a| (0..dim).map(|b| if a == b { h[a] } else { 0.0 }).collect()).collect();
        let (d, j) = block_vs_mulhs(&mut k, &hmat, 1e-14);
        if !(d <= 1.0) {
            return Err(format!("after operation {}: the diagonal block is not mul_Hs on e_{} (defect {:.3e})", i, j, d));
        }
        if !*upd && h.iter().any(|v| *v != 1.0) {
            return Err(format!("after set_identity_scaling (operation {}) the diagonal block is not the identity", i));
        }
    }
    Ok(())
}

// ------------------------------------------------------------------ channel table

macro_rules! ch {
    ($name:expr, $tol:expr, $run:expr, $oracle:expr, $modelled:expr, $rust:expr, $lean:expr) => {
        Channel { name: $name, tol: $tol, run: $run, oracle: $oracle, modelled: $modelled, rust_fn: $rust, lean: $lean }
    };
}

fn channels() -> Vec<Channel> {
    let u = Tol::Exact;
    vec![
        ch!("nn.update_scaling", u, run_nn_update_scaling, Some(oracle_nn_update), true, "NonnegativeCone::update_scaling", "Nonneg.updateScaling / C13.nn_*"),
        ch!("nn.get_hs", u, run_nn_get_hs, None, true, "NonnegativeCone::get_Hs", "Nonneg.getHs / C13.nn_getHs_eq_mulHs"),
        ch!("nn.mul_hs", u, run_nn_mul_hs, None, true, "NonnegativeCone::mul_Hs", "Nonneg.mulHs"),
        ch!("nn.mul_w", u, run_nn_mul_w, Some(oracle_nn_mul_w), true, "NonnegativeCone::mul_W", "Nonneg.mulW"),
        ch!("nn.mul_winv", u, run_nn_mul_winv, Some(oracle_nn_mul_winv), true, "NonnegativeCone::mul_Winv", "Nonneg.mulWinv"),
        ch!("nn.circ_op", u, run_nn_circ_op, None, true, "nonnegativecone::_circ_op", "Nonneg.circOp"),
        ch!("nn.inv_circ_op", u, run_nn_inv_circ_op, None, true, "nonnegativecone::_inv_circ_op", "Nonneg.invCircOp"),
        ch!("nn.lam_inv_circ_op", u, run_nn_lam_inv_circ_op, None, true, "NonnegativeCone::λ_inv_circ_op", "Nonneg.lamInvCircOp"),
        ch!("nn.affine_ds", u, run_nn_affine_ds, None, true, "NonnegativeCone::affine_ds", "Nonneg.affineDs"),
        ch!("nn.combined_ds_shift", u, run_nn_combined_ds_shift, None, true, "SymmetricConeUtils::_combined_ds_shift_symmetric (NN)", "Nonneg.combinedDsShift"),
        ch!("nn.ds_from_dz_offset", u, run_nn_ds_from_dz_offset, None, true, "NonnegativeCone::Δs_from_Δz_offset", "Nonneg.dsFromDzOffset"),
        ch!("soc.update_scaling", u, run_soc_update_scaling, Some(oracle_soc_update), true, "SecondOrderCone::update_scaling", "Soc.updateScaling / C13.soc_*"),
        ch!("soc.get_hs", u, run_soc_get_hs, None, true, "SecondOrderCone::get_Hs", "Soc.getHs"),
        ch!("soc.mul_hs", u, run_soc_mul_hs, None, true, "SecondOrderCone::mul_Hs", "Soc.mulHs / C13.soc_mulHs_eq"),
        ch!("soc.mul_w", u, run_soc_mul_w, Some(oracle_soc_mul_w), true, "socone::_soc_mul_W_inner", "Soc.mulW"),
        ch!("soc.mul_winv", u, run_soc_mul_winv, Some(oracle_soc_mul_winv), true, "socone::_soc_mul_Winv_inner", "Soc.mulWinv"),
        ch!("soc.circ_op", u, run_soc_circ_op, None, true, "socone::_circ_op", "Soc.circOp"),
        ch!("soc.inv_circ_op", u, run_soc_inv_circ_op, None, true, "socone::_inv_circ_op", "Soc.invCircOp"),
        ch!("soc.lam_inv_circ_op", u, run_soc_lam_inv_circ_op, None, true, "SecondOrderCone::λ_inv_circ_op", "Soc.lamInvCircOp"),
        ch!("soc.affine_ds", u, run_soc_affine_ds, None, true, "SecondOrderCone::affine_ds", "Soc.affineDs"),
        ch!("soc.combined_ds_shift", u, run_soc_combined_ds_shift, None, true, "SymmetricConeUtils::_combined_ds_shift_symmetric (SOC)", "Soc.combinedDsShift"),
        ch!("soc.ds_from_dz_offset", u, run_soc_ds_from_dz_offset, None, true, "SecondOrderCone::Δs_from_Δz_offset", "Soc.dsFromDzOffset / C13.soc_dsOffset_eq"),
        ch!("psd.svec_to_mat", u, run_psd_svec_to_mat, Some(oracle_psd_svec_to_mat), true, "matrix_math::svec_to_mat", "PsdTri.svecToMat / C13.psd_svec_roundtrip"),
        ch!("psd.mat_to_svec", u, run_psd_mat_to_svec, Some(oracle_psd_mat_to_svec), true, "matrix_math::mat_to_svec", "PsdTri.matToSvec / C13.psd_svec_inner"),
        ch!("psd.skron", u, run_psd_skron, Some(oracle_psd_skron), true, "psdtrianglecone::skron + pack_triu", "PsdTri.skronPacked / C13.psd_getHs_eq_mulHs"),
        ch!("psd.get_hs", u, run_psd_get_hs, None, true, "PSDTriangleCone::get_Hs (after update_scaling)", "PsdTri.getHs"),
        ch!("psd.update_scaling_tail", PSD_TOL, run_psd_update_tail, None, true, "PSDTriangleCone::update_scaling (after the LAPACK calls)", "PsdTri.assembleScaling / C13.psd_assemble_*"),
        ch!("psd.update_scaling", PSD_TOL, run_psd_update_scaling, Some(oracle_psd_update_scaling), true, "PSDTriangleCone::update_scaling (whole function; LAPACK results incl. failures as inputs)", "PsdTri.updateScaling / C13.psd_update_scaling_*"),
        ch!("psd.set_identity", u, run_psd_set_identity, None, true, "PSDTriangleCone::set_identity_scaling", "PsdTri.identityScaling"),
        ch!("psd.mul_w", PSD_TOL, run_psd_mul_w, Some(oracle_psd_mul_w), true, "psdtrianglecone::mul_Wx_inner (R)", "PsdTri.mulW"),
        ch!("psd.mul_winv", PSD_TOL, run_psd_mul_winv, Some(oracle_psd_mul_winv), true, "psdtrianglecone::mul_Wx_inner (Rinv)", "PsdTri.mulWinv"),
        ch!("psd.mul_hs", PSD_TOL, run_psd_mul_hs, None, true, "PSDTriangleCone::mul_Hs", "PsdTri.mulHs"),
        ch!("psd.circ_op", PSD_TOL, run_psd_circ_op, Some(oracle_psd_circ_op), true, "PSDTriangleCone::circ_op", "PsdTri.circOp"),
        ch!("psd.lam_inv_circ_op", u, run_psd_lam_inv_circ_op, Some(oracle_psd_lam_inv), true, "PSDTriangleCone::λ_inv_circ_op", "PsdTri.lamInvCircOp"),
        ch!("psd.affine_ds", u, run_psd_affine_ds, Some(oracle_psd_affine_ds), true, "PSDTriangleCone::affine_ds", "PsdTri.affineDs"),
        ch!("psd.combined_ds_shift", PSD_TOL, run_psd_combined_ds_shift, None, true, "SymmetricConeUtils::_combined_ds_shift_symmetric (PSD)", "PsdTri.combinedDsShift"),
        ch!("psd.ds_from_dz_offset", PSD_TOL, run_psd_ds_from_dz_offset, None, true, "SymmetricConeUtils::_Δs_from_Δz_offset_symmetric (PSD)", "PsdTri.dsFromDzOffset"),
        ch!("soc.history", u, run_soc_history, Some(oracle_soc_history), true, "SecondOrderCone::{update_scaling, set_identity_scaling, get_Hs, mul_Hs} on one object", "Soc.runHistory / C13.soc_setIdentity_state"),
        ch!("nn.history", u, run_nn_history, Some(oracle_nn_history), true, "NonnegativeCone::{update_scaling, set_identity_scaling, get_Hs, mul_Hs} on one object", "Nonneg.runHistory / C13.nn_setIdentity_state"),
        ch!("nn.identities", Tol::Exact, run_nn_identities, Some(oracle_identities), false, "NonnegativeCone (all scaling operators)", "-"),
        ch!("soc.identities", Tol::Exact, run_soc_identities, Some(oracle_identities), false, "SecondOrderCone (all scaling operators)", "-"),
        ch!("psd.identities", Tol::Exact, run_psd_identities, Some(oracle_identities), false, "PSDTriangleCone (all scaling operators; LAPACK not modelled)", "-"),
    ]
}

// ------------------------------------------------------------------ generators

/// interior point of the SOC of dimension n: relative distance `delta` from the boundary,
/// overall magnitude `mag`
fn soc_interior(rng: &mut Rng, n: usize, delta: f64, mag: f64) -> Vec<f64> {
    let mut v: Vec<f64> = (0..n - 1).map(|_| rng.normal()).collect();
    if rng.bool(0.15) {
        // sparse tail
        for t in v.iter_mut() {
            if rng.bool(0.6) {
                *t = 0.0;
            }
        }
    }
    let nv = nrm(&v);
    let mut x = vec![nv * (1.0 + delta)];
    if nv == 0.0 {
        x[0] = 1.0;
    }
    x.extend(v);
    for t in x.iter_mut() {
        *t *= mag;
    }
    // make sure the point is interior in floating point as well
    while !(x[0] > nrm(&x[1..])) {
        x[0] *= 1.0 + 1e-15;
    }
    x
}

fn deltas(rng: &mut Rng) -> f64 {
    *rng.choose(&[1e-8, 1e-6, 1e-4, 1e-2, 0.1, 0.5, 1.0, 3.0, 10.0])
}
fn mags(rng: &mut Rng) -> f64 {
    if rng.bool(0.3) { 1.0 } else { 10f64.powf(rng.uniform(-12.0, 12.0)) }
}
fn anyvec(rng: &mut Rng, n: usize) -> Vec<f64> {
    let m = mags(rng);
    (0..n).map(|_| if rng.bool(0.1) { 0.0 } else { rng.normal() * m }).collect()
}

fn gen_nn(s: &mut Session) {
    let n = if s.rng.bool(0.1) { s.rng.below(2) } else { 1 + s.rng.below(8) };
    let ms = mags(&mut s.rng);
    let mz = if s.rng.bool(0.35) { ms } else { mags(&mut s.rng) };
    let mut sv: Vec<f64> = (0..n).map(|_| 10f64.powf(s.rng.uniform(-3.0, 3.0)) * ms).collect();
    let mut zv: Vec<f64> = (0..n).map(|_| 10f64.powf(s.rng.uniform(-3.0, 3.0)) * mz).collect();
    if s.rng.bool(0.15) && n > 0 {
        // an inactive inequality near convergence: huge slack, multiplier far below machine
        // epsilon (s·z = μ stays moderate); guards of the form max(z, ε) change the result here
        let i = s.rng.below(n);
        zv[i] = 10f64.powf(s.rng.uniform(-30.0, -16.5));
        sv[i] = 10f64.powf(s.rng.uniform(-9.0, -6.0)) / zv[i];
        s.count("nn:tiny-multiplier");
    }
    let x = anyvec(&mut s.rng, n);
    let y = anyvec(&mut s.rng, n);
    let dz = anyvec(&mut s.rng, n);
    let ds = anyvec(&mut s.rng, n);
    let (a, b) = (*s.rng.choose(&[1.0, -1.0, 0.5, 2.0, 0.0, 0.3]), *s.rng.choose(&[0.0, 1.0, -1.0, 0.25, 1.0, -0.7]));
    let sm = 10f64.powf(s.rng.uniform(-8.0, 2.0));
    let t = s.rng.bool(0.5);
    let base = |c: &str| Line::new(c).fs("s", &sv).fs("z", &zv);
    s.submit(base("nn.update_scaling").done());
    s.submit(base("nn.get_hs").u("len", n).done());
    s.submit(base("nn.mul_hs").fs("x", &x).done());
    s.submit(base("nn.mul_w").fs("x", &x).fs("y", &y).f("a", a).f("b", b).b("t", t).done());
    s.submit(base("nn.mul_winv").fs("x", &x).fs("y", &y).f("a", a).f("b", b).b("t", t).done());
    s.submit(Line::new("nn.circ_op").fs("y", &x).fs("z", &y).done());
    s.submit(Line::new("nn.inv_circ_op").fs("y", &sv).fs("z", &y).done());
    s.submit(base("nn.lam_inv_circ_op").fs("x", &x).done());
    s.submit(base("nn.affine_ds").u("len", n).done());
    s.submit(base("nn.combined_ds_shift").fs("dz", &dz).fs("ds", &ds).f("sigmamu", sm).done());
    s.submit(Line::new("nn.ds_from_dz_offset").fs("ds", &ds).fs("zz", &zv).done());
    if n > 0 {
        s.submit(base("nn.identities").fs("x", &x).fs("dz", &dz).fs("ds", &ds).f("sigmamu", sm).done());
    }
    // assert_eq! sites
    if s.rng.bool(0.05) {
        s.submit(base("nn.get_hs").u("len", n + 1).done());
        s.submit(base("nn.affine_ds").u("len", n + 1).done());
        let mut y2 = y.clone();
        y2.push(1.0);
        s.submit(base("nn.mul_w").fs("x", &x).fs("y", &y2).f("a", a).f("b", b).done());
    }
}

fn gen_soc(s: &mut Session) {
    let n = 2 + s.rng.below(11); // 2..12, both sides of the sparse threshold (4)
    let (dsl, dzl) = (deltas(&mut s.rng), deltas(&mut s.rng));
    let ms = mags(&mut s.rng);
    let mz = if s.rng.bool(0.35) { ms } else { mags(&mut s.rng) };
    let sv = soc_interior(&mut s.rng, n, dsl, ms);
    let mut zv = soc_interior(&mut s.rng, n, dzl, mz);
    if s.rng.bool(0.1) {
        // z nearly parallel / anti-parallel tail to s (well / badly centred pairs)
        let sign = if s.rng.bool(0.5) { 1.0 } else { -1.0 };
        for i in 1..n {
            zv[i] = sign * sv[i] / ms * mz;
        }
        zv[0] = nrm(&zv[1..]) * (1.0 + dzl);
        if zv[0] == 0.0 {
            zv[0] = mz;
        }
    }
    s.count(&format!("soc.dim:{}", if n <= 4 { "dense" } else { "sparse" }));
    let x = anyvec(&mut s.rng, n);
    let y = anyvec(&mut s.rng, n);
    let dz = anyvec(&mut s.rng, n);
    let ds = anyvec(&mut s.rng, n);
    let (a, b) = (*s.rng.choose(&[1.0, -1.0, 0.5, 2.0, 0.0, 0.3]), *s.rng.choose(&[0.0, 1.0, -1.0, 0.25, 1.0, -0.7]));
    let sm = 10f64.powf(s.rng.uniform(-8.0, 2.0));
    let t = s.rng.bool(0.5);
    let (yd, ym) = (deltas(&mut s.rng).max(1e-4), mags(&mut s.rng));
    let yint = soc_interior(&mut s.rng, n, yd, ym);
    let base = |c: &str| Line::new(c).fs("s", &sv).fs("z", &zv);
    s.submit(base("soc.update_scaling").done());
    s.submit(base("soc.get_hs").done());
    s.submit(base("soc.mul_hs").fs("x", &x).done());
    s.submit(base("soc.mul_w").fs("x", &x).fs("y", &y).f("a", a).f("b", b).b("t", t).done());
    s.submit(base("soc.mul_winv").fs("x", &x).fs("y", &y).f("a", a).f("b", b).b("t", t).done());
    s.submit(Line::new("soc.circ_op").fs("y", &x).fs("z", &y).done());
    s.submit(Line::new("soc.inv_circ_op").fs("y", &yint).fs("z", &y).done());
    s.submit(base("soc.lam_inv_circ_op").fs("x", &x).done());
    s.submit(base("soc.affine_ds").done());
    s.submit(base("soc.combined_ds_shift").fs("dz", &dz).fs("ds", &ds).f("sigmamu", sm).done());
    s.submit(base("soc.ds_from_dz_offset").fs("ds", &ds).fs("zz", &zv).done());
    s.submit(base("soc.identities").fs("x", &x).fs("dz", &dz).fs("ds", &ds).f("sigmamu", sm).done());
}

/// non-interior arguments: `update_scaling` must report failure
fn gen_soc_fail(s: &mut Session) {
    let n = 2 + s.rng.below(8);
    let mut sv = soc_interior(&mut s.rng, n, 0.5, 1.0);
    let mut zv = soc_interior(&mut s.rng, n, 0.5, 1.0);
    match s.rng.below(5) {
        0 => sv[0] = nrm(&sv[1..]) * 0.9,
        1 => zv[0] = -zv[0],
        2 => {
            // exactly on the boundary (small integers)
            sv = vec![5.0, 3.0, 4.0];
            zv = vec![2.0, 1.0, 0.0];
        }
        3 => {
            // w = s̄ + J z̄ on the boundary is impossible for interior s,z; zero vector instead
            zv = vec![0.0; n];
        }
        _ => sv = vec![0.0; n],
    }
    s.count("soc.update_scaling:non-interior");
    s.submit(Line::new("soc.update_scaling").fs("s", &sv).fs("z", &zv).done());
}

fn psd_point(rng: &mut Rng, n: usize, spread: f64, mag: f64) -> Vec<f64> {
    // A = Q diag(e) Q' through random Givens-free construction: B B' + shift
    let b: Vec<Vec<f64>> = (0..n).map(|_| (0..n).map(|_| rng.normal()).collect()).collect();
    let mut m = vec![vec![0.0; n]; n];
    for i in 0..n {
        for j in 0..n {
            m[i][j] = (0..n).map(|k| b[i][k] * b[j][k]).sum::<f64>();
        }
        m[i][i] += spread;
    }
    for row in m.iter_mut() {
        for v in row.iter_mut() {
            *v *= mag;
        }
    }
    mat_to_svec(&m)
}

fn gen_psd(s: &mut Session) {
    let n = 1 + s.rng.below(4);
    let m = n * (n + 1) / 2;
    let sp = *s.rng.choose(&[1.0, 0.3, 0.1, 3.0]);
    let (ms, mz) = (10f64.powf(s.rng.uniform(-3.0, 3.0)), 10f64.powf(s.rng.uniform(-3.0, 3.0)));
    let sv = psd_point(&mut s.rng, n, sp, ms);
    let zv = psd_point(&mut s.rng, n, sp, mz);
    let x = anyvec(&mut s.rng, m);
    let dz = anyvec(&mut s.rng, m);
    let ds = anyvec(&mut s.rng, m);
    let sm = 10f64.powf(s.rng.uniform(-8.0, 2.0));
    s.submit(Line::new("psd.identities").u("n", n).fs("s", &sv).fs("z", &zv).fs("x", &x).fs("dz", &dz).fs("ds", &ds).f("sigmamu", sm).done());
}

/// moderate-magnitude vector (the tolerance-compared PSD channels use an absolute floor)
fn modvec(rng: &mut Rng, n: usize) -> Vec<f64> {
    let m = 10f64.powf(rng.uniform(-1.0, 1.0));
    (0..n).map(|_| if rng.bool(0.1) { 0.0 } else { rng.normal() * m }).collect()
}


/// `update_scaling` as a whole: success paths and the three LAPACK failure paths (Cholesky of
/// `S`, of `Z`, SVD), on a fresh cone or after an earlier successful update
fn gen_psd_update(s: &mut Session) {
    let n = if s.rng.bool(0.04) { 0 } else { 1 + s.rng.below(4) };
    let sp = *s.rng.choose(&[1.0, 0.3, 3.0]);
    let (ms, mz) = (10f64.powf(s.rng.uniform(-1.0, 1.0)), 10f64.powf(s.rng.uniform(-1.0, 1.0)));
    let mut sv = psd_point(&mut s.rng, n, sp, ms);
    let mut zv = psd_point(&mut s.rng, n, sp, mz);
    let diag = |k: usize| (k + 1) * (k + 2) / 2 - 1;
    let kind = if n == 0 { 0 } else { s.rng.below(9) };
    let mut bad = "none";
    match kind {
        3 => {
            // negative definite S
            sv.iter_mut().for_each(|v| *v = -*v);
            bad = "s";
        }
        4 => {
            // a negative diagonal entry in Z
            let k = s.rng.below(n);
            zv[diag(k)] = -zv[diag(k)].abs() - mz;
            bad = "z";
        }
        5 => {
            let k = s.rng.below(n);
            sv[diag(k)] = -sv[diag(k)].abs() - ms;
            zv.iter_mut().for_each(|v| *v = -*v);
            bad = "sz";
        }
        6 => {
            // a non-finite entry (what a numerical breakdown leaves behind)
            let v = *s.rng.choose(&[f64::NAN, f64::INFINITY, f64::NEG_INFINITY]);
            let i = s.rng.below(sv.len());
            if s.rng.bool(0.5) { sv[i] = v } else { zv[i] = v }
        }
        7 => {
            // finite but huge: the product of the Cholesky factors overflows
            let e = s.rng.uniform(300.0, 307.5);
            sv.iter_mut().for_each(|v| *v *= 10f64.powf(e) / ms);
            zv.iter_mut().for_each(|v| *v *= 10f64.powf(e) / mz);
        }
        8 => {
            // singular S (rank one)
            let b: Vec<f64> = (0..n).map(|_| s.rng.normal()).collect();
            let m: Vec<Vec<f64>> = (0..n).map(|i| (0..n).map(|j| b[i] * b[j]).collect()).collect();
            sv = mat_to_svec(&m);
        }
        _ => {}
    }
    let mut k = PSDTriangleCone::<f64>::new(n);
    let prior = s.rng.bool(0.6);
    let (s0, z0) = (psd_point(&mut s.rng, n, sp, ms), psd_point(&mut s.rng, n, sp, mz));
    if prior && !k.update_scaling(&s0, &z0, 1.0, PD) {
        s.count("psd.update_scaling:prior update failed (skipped)");
        return;
    }
    let st0 = psd_state(&k, n);
    let (c1, c2, sv_ok) = if n == 0 { (true, true, Some(true)) } else { hpl::update_scaling_lapack_ok(n, &sv, &zv) };
    let all_ok = c1 && c2 && sv_ok == Some(true);
    if all_ok && kind >= 6 {
        // non-finite / overflowing / singular data on which LAPACK still reports success: the
        // assembled numbers are inf/NaN soup, not comparable under a tolerance
        s.count("psd.update_scaling:degenerate data but LAPACK ok (skipped)");
        return;
    }
    s.count(match (c1, c2, sv_ok) {
        (true, true, Some(true)) => "psd.update_scaling:success",
        (true, true, _) => "psd.update_scaling:svd fails",
        (false, true, _) => "psd.update_scaling:chol(S) fails",
        (true, false, _) => "psd.update_scaling:chol(Z) fails",
        (false, false, _) => "psd.update_scaling:chol(S) and chol(Z) fail",
    });
    let mut l = Line::new("psd.update_scaling").u("n", n).fs("s", &sv).fs("z", &zv).s("bad", bad)
        .u("c1", c1 as usize).u("c2", c2 as usize).u("svd", match sv_ok { Some(true) => 1, Some(false) => 0, None => 2 });
    if prior {
        l = l.fs("s0", &s0).fs("z0", &z0);
    }
    for (key, v) in PSD_STATE_KEYS.iter().zip(st0.iter()) {
        l = l.fs(&format!("{}0", key), v);
    }
    if all_ok && n > 0 {
        // the LAPACK results themselves, read after the implementation's own update
        k.update_scaling(&sv, &zv, 1.0, PD);
        l = l.fs("l1", hps::chol1_L(&k)).fs("l2", hps::chol2_L(&k)).fs("u", hps::svd_U(&k)).fs("vt", hps::svd_Vt(&k)).fs("sig", hps::svd_s(&k));
    }
    s.submit(l.done());
}

/// the PSD functions against the model, with the LAPACK results of the implementation
fn gen_psd_model(s: &mut Session) {
    let n = if s.rng.bool(0.04) { 0 } else { 1 + s.rng.below(5) };
    let m = tri(n);
    // BLAS/LAPACK-free functions: any magnitudes, bit-exact
    let x = anyvec(&mut s.rng, m);
    s.submit(Line::new("psd.svec_to_mat").u("n", n).fs("x", &x).done());
    let mat = anyvec(&mut s.rng, n * n);
    s.submit(Line::new("psd.mat_to_svec").u("n", n).fs("m", &mat).done());
    let mut a = modvec(&mut s.rng, n * n);
    if s.rng.bool(0.3) {
        a = anyvec(&mut s.rng, n * n).iter().map(|v| v.clamp(-1e100, 1e100)).collect();
    }
    for c in 0..n {
        for r in c + 1..n {
            a[r + n * c] = 0.0;
        }
    }
    s.submit(Line::new("psd.skron").u("n", n).fs("a", &a).done());
    let ident = s.rng.bool(0.1);
    if ident && s.rng.bool(0.3) {
        s.submit(Line::new("psd.set_identity").u("n", n).done());
    }
    // scaling-dependent functions: moderate magnitudes and conditioning
    let sp = *s.rng.choose(&[1.0, 0.3, 3.0]);
    let (ms, mz) = (10f64.powf(s.rng.uniform(-1.0, 1.0)), 10f64.powf(s.rng.uniform(-1.0, 1.0)));
    let sv = psd_point(&mut s.rng, n, sp, ms);
    let zv = psd_point(&mut s.rng, n, sp, mz);
    if ident {
        s.submit(Line::new("psd.set_identity").u("n", n).fs("s", &sv).fs("z", &zv).done());
    }
    let mut k = PSDTriangleCone::<f64>::new(n);
    if !k.update_scaling(&sv, &zv, 1.0, PD) {
        s.count("psd.model:update_scaling=false");
        return;
    }
    let (lam, rr, ri) = (hp::λ(&k).to_vec(), hp::R(&k).to_vec(), hp::Rinv(&k).to_vec());
    let rrt = hps::workmat1(&k).to_vec();
    let base = |c: &str| Line::new(c).u("n", n).fs("s", &sv).fs("z", &zv).fs("lam", &lam).fs("r", &rr).fs("rinv", &ri);
    s.submit(Line::new("psd.update_scaling_tail").u("n", n).fs("s", &sv).fs("z", &zv)
        .fs("l1", hps::chol1_L(&k)).fs("l2", hps::chol2_L(&k)).fs("u", hps::svd_U(&k)).fs("vt", hps::svd_Vt(&k)).fs("sig", hps::svd_s(&k)).done());
    let len = if s.rng.bool(0.03) { tri(m) + 1 } else { tri(m) };
    s.submit(Line::new("psd.get_hs").u("n", n).fs("s", &sv).fs("z", &zv).fs("rrt", &rrt).u("len", len).done());
    let x = modvec(&mut s.rng, m);
    let y = modvec(&mut s.rng, m);
    let dz = modvec(&mut s.rng, m);
    let ds = modvec(&mut s.rng, m);
    let (a, b) = (*s.rng.choose(&[1.0, -1.0, 0.5, 2.0, 0.0, 0.3]), *s.rng.choose(&[0.0, 0.0, 1.0, -1.0, 0.25, -0.7]));
    let sm = 10f64.powf(s.rng.uniform(-8.0, 1.0));
    let t = s.rng.below(2);
    s.submit(base("psd.mul_w").fs("x", &x).fs("y", &y).f("a", a).f("b", b).u("t", t).done());
    s.submit(base("psd.mul_winv").fs("x", &x).fs("y", &y).f("a", a).f("b", b).u("t", t).done());
    s.submit(base("psd.mul_hs").fs("x", &x).done());
    s.submit(Line::new("psd.circ_op").u("n", n).fs("y", &x).fs("z", &y).done());
    let xa = anyvec(&mut s.rng, m);
    s.submit(base("psd.lam_inv_circ_op").fs("x", &xa).done());
    s.submit(base("psd.affine_ds").u("len", m).done());
    s.submit(base("psd.combined_ds_shift").fs("dz", &dz).fs("ds", &ds).f("sigmamu", sm).done());
    s.submit(base("psd.ds_from_dz_offset").fs("ds", &ds).done());
}

/// operation histories on one cone object (SOC on both sides of the sparse threshold, NN)
fn gen_history(s: &mut Session) {
    let soc = s.rng.bool(0.8);
    let dim = if soc { 2 + s.rng.below(11) } else { s.rng.below(9) };
    let nops = 1 + s.rng.below(5);
    let mut ops: Vec<&str> = vec![];
    let mut line = Line::new(if soc { "soc.history" } else { "nn.history" }).u("dim", dim);
    let mut fails = false;
    for i in 0..nops {
        // make `update … identity` frequent: an identity op is likelier right after an update
        let p_upd = if ops.last() == Some(&"u") { 0.5 } else { 0.8 };
        if s.rng.bool(p_upd) {
            ops.push("u");
            let (sv, zv) = if soc {
                let (d1, d2) = (deltas(&mut s.rng), deltas(&mut s.rng));
                let (m1, m2) = (mags(&mut s.rng), mags(&mut s.rng));
                let mut sv = soc_interior(&mut s.rng, dim, d1, m1);
                let zv = soc_interior(&mut s.rng, dim, d2, m2);
                if s.rng.bool(0.08) {
                    sv[0] = nrm(&sv[1..]) * 0.5; // not interior: update_scaling reports failure
                    fails = true;
                }
                (sv, zv)
            } else {
                let (m1, m2) = (mags(&mut s.rng), mags(&mut s.rng));
                ((0..dim).map(|_| 10f64.powf(s.rng.uniform(-3.0, 3.0)) * m1).collect::<Vec<f64>>(),
                 (0..dim).map(|_| 10f64.powf(s.rng.uniform(-3.0, 3.0)) * m2).collect::<Vec<f64>>())
            };
            line = line.fs(&format!("s{}", i), &sv).fs(&format!("z{}", i), &zv);
        } else {
            ops.push("i");
        }
    }
    let x = anyvec(&mut s.rng, dim);
    let opstr = ops.join(",");
    if soc {
        s.count(&format!("soc.history:{}", if dim <= 4 { "dense" } else { "sparse" }));
        if opstr.contains("u,i") {
            s.count(&format!("soc.history:identity-after-update:{}", if dim <= 4 { "dense" } else { "sparse" }));
        }
        if fails {
            s.count("soc.history:with-failed-update");
        }
    }
    s.submit(line.s("ops", &opstr).fs("x", &x).done());
}

fn generate(s: &mut Session) {
    for _ in 0..s.budget(1000, 8000) {
        gen_nn(s);
    }
    for _ in 0..s.budget(4000, 30000) {
        gen_soc(s);
    }
    for _ in 0..s.budget(200, 1000) {
        gen_soc_fail(s);
    }
    for _ in 0..s.budget(1200, 6000) {
        gen_psd(s);
    }
    for _ in 0..s.budget(800, 6000) {
        gen_psd_model(s);
    }
    for _ in 0..s.budget(600, 5000) {
        gen_psd_update(s);
    }
    for _ in 0..s.budget(2500, 20000) {
        gen_history(s);
    }
    let summary = MAXRES.with(|m| m.borrow().iter().map(|(k, v)| format!("{}:{:.2e}", k, v)).collect::<Vec<_>>().join(" "));
    s.note(format!("largest normalised identity residuals (must be <= 1): {}", summary));
}

fn main() {
    Session::from_args("C13", channels()).run(generate)
}
