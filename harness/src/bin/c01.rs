//! C01 — a `Solved` verdict is a certified approximate optimum of the user's problem.
#[path = "common_kkt.rs"]
mod common_kkt;
use common_kkt::*;
use vharness::*;

fn generate(s: &mut Session) {
    // planted feasible problems, all settings toggles, three backends
    for k in 0..s.budget(1500, 20000) {
        let exotic = k % 3 == 0;
        let illcond = s.rng.bool(0.2);
        let infb = s.rng.bool(0.15);
        let p = plant(s, Plant::Feasible, exotic, illcond, infb);
        let st = random_sets(s);
        s.count(if exotic { "family:feasible-exotic" } else { "family:feasible-symmetric" });
        submit_solve(s, &p, &st, "c01");
        if k % 8 == 0 {
            submit_live_components(s, &p, &st);
        }
    }
    // infeasible plants must never be called Solved wrongly (relative test, DESIGN §4.1)
    for k in 0..s.budget(240, 3000) {
        let kind = if k % 2 == 0 { Plant::PrimalInfeasible } else { Plant::DualInfeasible };
        let p = plant(s, kind, k % 4 == 0, false, false);
        let st = random_sets(s);
        submit_solve(s, &p, &st, "c01");
    }
    // objective scaled by 10^U(-8,8) relative to the constraints (the cost scaling c of the
    // equilibration hits its clip bounds), equilibration on and off
    for k in 0..s.budget(500, 8000) {
        let p = plant_cost_scaled(s, k % 4 == 0);
        let mut st = random_sets(s);
        st.eq = k % 5 != 0;
        s.count("family:cost-scaled-qp");
        submit_solve(s, &p, &st, "c01");
        if k % 10 == 0 {
            submit_live_components(s, &p, &st);
        }
    }
    // re-solve histories on one solver object
    for k in 0..s.budget(100, 3000) {
        let h = plant_history(s, k % 4 == 0);
        let st = random_sets(s);
        submit_history(s, &h, &st, "c01");
    }
    // the modelled functions on constructed inputs (correspondence + their own oracles)
    gen_components(s, 3.0);
}

fn main() {
    Session::from_args("C01", all_channels()).run(generate)
}
