//! SplitMix64: the single source of randomness (seeded from VERIF_SEED).
#[derive(Clone, Debug)]
pub struct Rng(pub u64);

impl Rng {
    pub fn new(seed: u64) -> Self {
        Rng(seed.wrapping_mul(0x9E3779B97F4A7C15) ^ 0xD1B54A32D192ED03)
    }
    pub fn next_u64(&mut self) -> u64 {
        self.0 = self.0.wrapping_add(0x9E3779B97F4A7C15);
        let mut z = self.0;
        z = (z ^ (z >> 30)).wrapping_mul(0xBF58476D1CE4E5B9);
        z = (z ^ (z >> 27)).wrapping_mul(0x94D049BB133111EB);
        z ^ (z >> 31)
    }
    /// uniform in 0..n (n>0)
    pub fn below(&mut self, n: usize) -> usize {
        (self.next_u64() % (n as u64)) as usize
    }
    /// uniform in lo..=hi
    pub fn range(&mut self, lo: i64, hi: i64) -> i64 {
        lo + (self.next_u64() % ((hi - lo + 1) as u64)) as i64
    }
    pub fn bool(&mut self, p: f64) -> bool {
        self.unit() < p
    }
    /// uniform in [0,1)
    pub fn unit(&mut self) -> f64 {
        (self.next_u64() >> 11) as f64 / (1u64 << 53) as f64
    }
    /// uniform in [lo,hi)
    pub fn uniform(&mut self, lo: f64, hi: f64) -> f64 {
        lo + (hi - lo) * self.unit()
    }
    /// standard normal (Box-Muller)
    pub fn normal(&mut self) -> f64 {
        let u1 = (self.unit()).max(1e-300);
        let u2 = self.unit();
        (-2.0 * u1.ln()).sqrt() * (2.0 * std::f64::consts::PI * u2).cos()
    }
    /// sign * 10^uniform(lo,hi)
    pub fn logmag(&mut self, lo: f64, hi: f64) -> f64 {
        let m = 10f64.powf(self.uniform(lo, hi));
        if self.bool(0.5) { m } else { -m }
    }
    /// small integer valued float in -k..=k
    pub fn smallint(&mut self, k: i64) -> f64 {
        self.range(-k, k) as f64
    }
    pub fn choose<'a, T>(&mut self, xs: &'a [T]) -> &'a T {
        &xs[self.below(xs.len())]
    }
    pub fn shuffle<T>(&mut self, xs: &mut [T]) {
        for i in (1..xs.len()).rev() {
            let j = self.below(i + 1);
            xs.swap(i, j);
        }
    }
    pub fn perm(&mut self, n: usize) -> Vec<usize> {
        let mut p: Vec<usize> = (0..n).collect();
        self.shuffle(&mut p);
        p
    }
    pub fn fork(&mut self) -> Rng {
        Rng(self.next_u64())
    }
}
