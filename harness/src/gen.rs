//! Generators shared by several properties.
use crate::rng::Rng;
use clarabel::algebra::CscMatrix;

/// Value families used across the harness.
#[derive(Clone, Copy, Debug)]
pub enum Vals {
    /// integers in -k..=k (exact in f64; zero included)
    SmallInt(i64),
    /// nonzero integers in -k..=k
    SmallIntNZ(i64),
    /// standard normal
    Normal,
    /// sign * 10^U(lo,hi)
    LogMag(f64, f64),
}

pub fn value(rng: &mut Rng, v: Vals) -> f64 {
    match v {
        Vals::SmallInt(k) => rng.smallint(k),
        Vals::SmallIntNZ(k) => loop {
            let x = rng.smallint(k);
            if x != 0.0 {
                return x;
            }
        },
        Vals::Normal => rng.normal(),
        Vals::LogMag(lo, hi) => rng.logmag(lo, hi),
    }
}

/// Random canonical CSC matrix with density `p`.
pub fn csc(rng: &mut Rng, m: usize, n: usize, p: f64, vals: Vals) -> CscMatrix<f64> {
    let mut colptr = vec![0usize];
    let mut rowval = vec![];
    let mut nzval = vec![];
    for _c in 0..n {
        for r in 0..m {
            if rng.bool(p) {
                rowval.push(r);
                nzval.push(value(rng, vals));
            }
        }
        colptr.push(rowval.len());
    }
    CscMatrix::new(m, n, colptr, rowval, nzval)
}

/// Random canonical upper-triangular CSC matrix; `diag` forces a full diagonal.
pub fn csc_triu(rng: &mut Rng, n: usize, p: f64, diag: bool, vals: Vals) -> CscMatrix<f64> {
    let mut colptr = vec![0usize];
    let mut rowval = vec![];
    let mut nzval = vec![];
    for c in 0..n {
        for r in 0..=c {
            if (diag && r == c) || rng.bool(p) {
                rowval.push(r);
                nzval.push(value(rng, vals));
            }
        }
        colptr.push(rowval.len());
    }
    CscMatrix::new(n, n, colptr, rowval, nzval)
}

/// Dense row-major copy (duplicates add).
pub fn to_dense(a: &CscMatrix<f64>) -> Vec<Vec<f64>> {
    let mut d = vec![vec![0.0; a.n]; a.m];
    for c in 0..a.n {
        for k in a.colptr[c]..a.colptr[c + 1] {
            d[a.rowval[k]][c] += a.nzval[k];
        }
    }
    d
}

pub fn vec_of(rng: &mut Rng, n: usize, vals: Vals) -> Vec<f64> {
    (0..n).map(|_| value(rng, vals)).collect()
}
