//! Line protocol shared with the Lean model drivers (see /verif/lean/Driver/Common.lean).
//!
//! request : `<channel> key=v1,v2,... key=...`
//! floats  : `x<16 hex digits>` (IEEE-754 bits) or `xnan`;  naturals/integers in decimal.
use std::collections::BTreeMap;
use std::fmt::Write;

pub fn ff(x: f64) -> String {
    if x.is_nan() {
        "xnan".to_string()
    } else {
        format!("x{:016x}", x.to_bits())
    }
}
pub fn ffs(xs: &[f64]) -> String {
    let mut s = String::new();
    for (i, x) in xs.iter().enumerate() {
        if i > 0 {
            s.push(',');
        }
        s.push_str(&ff(*x));
    }
    s
}
pub fn fus(xs: &[usize]) -> String {
    let mut s = String::new();
    for (i, x) in xs.iter().enumerate() {
        if i > 0 {
            s.push(',');
        }
        write!(s, "{}", x).unwrap();
    }
    s
}
pub fn fis<T: std::fmt::Display>(xs: &[T]) -> String {
    let mut s = String::new();
    for (i, x) in xs.iter().enumerate() {
        if i > 0 {
            s.push(',');
        }
        write!(s, "{}", x).unwrap();
    }
    s
}
pub fn fbs(xs: &[bool]) -> String {
    let v: Vec<usize> = xs.iter().map(|&b| b as usize).collect();
    fus(&v)
}
pub fn fb(b: bool) -> &'static str {
    if b { "1" } else { "0" }
}

pub fn parse_f(s: &str) -> Option<f64> {
    if s == "xnan" {
        return Some(f64::NAN);
    }
    let h = s.strip_prefix('x')?;
    if h.len() != 16 {
        return None;
    }
    u64::from_str_radix(h, 16).ok().map(f64::from_bits)
}

/// Parsed request line.
#[derive(Clone, Debug)]
pub struct Req {
    pub chan: String,
    pub kv: BTreeMap<String, String>,
}

impl Req {
    pub fn parse(line: &str) -> Option<Req> {
        let mut it = line.split_whitespace();
        let chan = it.next()?.to_string();
        let mut kv = BTreeMap::new();
        for tok in it {
            let (k, v) = tok.split_once('=')?;
            kv.insert(k.to_string(), v.to_string());
        }
        Some(Req { chan, kv })
    }
    fn list(&self, k: &str) -> Vec<&str> {
        match self.kv.get(k) {
            None => panic!("protocol: missing key {}", k),
            Some(s) if s.is_empty() => vec![],
            Some(s) => s.split(',').collect(),
        }
    }
    pub fn has(&self, k: &str) -> bool {
        self.kv.contains_key(k)
    }
    pub fn str(&self, k: &str) -> &str {
        self.kv.get(k).unwrap_or_else(|| panic!("protocol: missing key {}", k))
    }
    pub fn us(&self, k: &str) -> Vec<usize> {
        self.list(k).iter().map(|s| s.parse().expect("usize")).collect()
    }
    pub fn is(&self, k: &str) -> Vec<i64> {
        self.list(k).iter().map(|s| s.parse().expect("i64")).collect()
    }
    pub fn u(&self, k: &str) -> usize {
        self.str(k).parse().expect("usize")
    }
    pub fn i(&self, k: &str) -> i64 {
        self.str(k).parse().expect("i64")
    }
    pub fn fs(&self, k: &str) -> Vec<f64> {
        self.list(k).iter().map(|s| parse_f(s).expect("float")).collect()
    }
    pub fn f(&self, k: &str) -> f64 {
        parse_f(self.str(k)).expect("float")
    }
    pub fn bs(&self, k: &str) -> Vec<bool> {
        self.us(k).iter().map(|&x| x != 0).collect()
    }
    pub fn b(&self, k: &str) -> bool {
        self.u(k) != 0
    }
}

/// Builder for request / response lines.
#[derive(Clone, Debug, Default)]
pub struct Line(pub String);
impl Line {
    pub fn new(chan: &str) -> Line {
        Line(chan.to_string())
    }
    pub fn out() -> Line {
        Line(String::new())
    }
    fn key(&mut self, k: &str) {
        if !self.0.is_empty() {
            self.0.push(' ');
        }
        self.0.push_str(k);
        self.0.push('=');
    }
    pub fn fs(mut self, k: &str, xs: &[f64]) -> Line {
        self.key(k);
        self.0.push_str(&ffs(xs));
        self
    }
    pub fn f(mut self, k: &str, x: f64) -> Line {
        self.key(k);
        self.0.push_str(&ff(x));
        self
    }
    pub fn us(mut self, k: &str, xs: &[usize]) -> Line {
        self.key(k);
        self.0.push_str(&fus(xs));
        self
    }
    pub fn is<T: std::fmt::Display>(mut self, k: &str, xs: &[T]) -> Line {
        self.key(k);
        self.0.push_str(&fis(xs));
        self
    }
    pub fn u(mut self, k: &str, x: usize) -> Line {
        self.key(k);
        write!(self.0, "{}", x).unwrap();
        self
    }
    pub fn i(mut self, k: &str, x: i64) -> Line {
        self.key(k);
        write!(self.0, "{}", x).unwrap();
        self
    }
    pub fn bs(mut self, k: &str, xs: &[bool]) -> Line {
        self.key(k);
        self.0.push_str(&fbs(xs));
        self
    }
    pub fn b(mut self, k: &str, x: bool) -> Line {
        self.key(k);
        self.0.push_str(fb(x));
        self
    }
    pub fn s(mut self, k: &str, x: &str) -> Line {
        assert!(!x.contains(' ') && !x.contains('='));
        self.key(k);
        self.0.push_str(x);
        self
    }
    pub fn done(self) -> String {
        self.0
    }
}

/// How two response tokens are compared.
#[derive(Clone, Copy, Debug)]
pub enum Tol {
    /// all tokens (float bit patterns included) must be identical
    Exact,
    /// floats may differ by at most this many ulps (same sign / both tiny)
    Ulp(u64),
    /// |a-b| <= rel*max(|a|,|b|) + abs
    Rel(f64, f64),
}

pub fn ulp_dist(a: f64, b: f64) -> u64 {
    if a == b {
        return 0;
    }
    if a.is_nan() || b.is_nan() {
        return if a.is_nan() && b.is_nan() { 0 } else { u64::MAX };
    }
    let ia = a.to_bits() as i64;
    let ib = b.to_bits() as i64;
    let ia = if ia < 0 { i64::MIN.wrapping_sub(ia) } else { ia };
    let ib = if ib < 0 { i64::MIN.wrapping_sub(ib) } else { ib };
    (ia as i128 - ib as i128).unsigned_abs().min(u64::MAX as u128) as u64
}

fn float_ok(a: f64, b: f64, tol: Tol) -> bool {
    if a.is_nan() || b.is_nan() {
        return a.is_nan() && b.is_nan();
    }
    if a == b {
        return true;
    }
    match tol {
        Tol::Exact => a.to_bits() == b.to_bits(),
        Tol::Ulp(n) => ulp_dist(a, b) <= n,
        Tol::Rel(r, abs) => (a - b).abs() <= r * a.abs().max(b.abs()) + abs,
    }
}

/// Compare two response lines; returns (ok, max ulp distance over float tokens).
pub fn compare_lines(a: &str, b: &str, tol: Tol) -> (bool, u64) {
    let ta: Vec<&str> = a.split_whitespace().collect();
    let tb: Vec<&str> = b.split_whitespace().collect();
    if ta.len() != tb.len() {
        return (false, 0);
    }
    let mut maxulp = 0u64;
    for (x, y) in ta.iter().zip(tb.iter()) {
        // panic tokens: only the class is compared, not the site
        if x.starts_with("panic") && y.starts_with("panic") {
            continue;
        }
        let (kx, vx) = x.split_once('=').unwrap_or(("", x));
        let (ky, vy) = y.split_once('=').unwrap_or(("", y));
        if kx != ky {
            return (false, maxulp);
        }
        let lx: Vec<&str> = if vx.is_empty() { vec![] } else { vx.split(',').collect() };
        let ly: Vec<&str> = if vy.is_empty() { vec![] } else { vy.split(',').collect() };
        if lx.len() != ly.len() {
            return (false, maxulp);
        }
        for (p, q) in lx.iter().zip(ly.iter()) {
            if p == q {
                continue;
            }
            match (parse_f(p), parse_f(q)) {
                (Some(fa), Some(fb)) => {
                    let d = ulp_dist(fa, fb);
                    if d != u64::MAX {
                        maxulp = maxulp.max(d);
                    }
                    if !float_ok(fa, fb, tol) {
                        return (false, maxulp);
                    }
                }
                _ => return (false, maxulp),
            }
        }
    }
    (true, maxulp)
}

// ---- CSC matrices on the wire ---------------------------------------------------------
use clarabel::algebra::CscMatrix;

impl Line {
    /// `<p>m <p>n <p>colptr <p>rowval <p>nzval`
    pub fn csc(self, p: &str, a: &CscMatrix<f64>) -> Line {
        self.u(&format!("{}m", p), a.m)
            .u(&format!("{}n", p), a.n)
            .us(&format!("{}colptr", p), &a.colptr)
            .us(&format!("{}rowval", p), &a.rowval)
            .fs(&format!("{}nzval", p), &a.nzval)
    }
}
impl Req {
    /// Reads a matrix *without* validation (the struct is built field by field, so
    /// malformed encodings can be represented).
    pub fn csc(&self, p: &str) -> CscMatrix<f64> {
        CscMatrix {
            m: self.u(&format!("{}m", p)),
            n: self.u(&format!("{}n", p)),
            colptr: self.us(&format!("{}colptr", p)),
            rowval: self.us(&format!("{}rowval", p)),
            nzval: self.fs(&format!("{}nzval", p)),
        }
    }
}
pub fn fmt_csc(a: &CscMatrix<f64>) -> String {
    Line::out().csc("", a).done()
}
