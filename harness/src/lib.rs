//! Shared machinery of the correspondence / oracle harness (see /verif/DESIGN.md §2).
#![allow(non_snake_case)]
#![allow(confusable_idents)]
#![allow(mixed_script_confusables)]
pub mod blas_shim;
pub mod gen;
pub mod proto;
pub mod rng;
pub mod session;

pub use proto::{Line, Req, Tol};
pub use rng::Rng;
pub use session::{guarded, run_isolated, Channel, Session};
