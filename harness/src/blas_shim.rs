//! Trampolines from the Fortran BLAS/LAPACK symbol names used by the `blas`/`lapack`
//! crates to the `scipy_`-prefixed symbols exported by scipy's bundled OpenBLAS.
macro_rules! tramp {
    ($($name:literal),*) => {
        $( core::arch::global_asm!(
            concat!(".globl ", $name, "_"),
            concat!($name, "_:"),
            concat!("jmp scipy_", $name, "_@PLT"),
        ); )*
    };
}
tramp!(
    "dsyevr", "dpotrf", "dpotrs", "dgesdd", "dgesvd", "dgemm", "dgemv", "dsymv", "dsyrk", "dsyr2k", "dgesv",
    "ssyevr", "spotrf", "spotrs", "sgesdd", "sgesvd", "sgemm", "sgemv", "ssymv", "ssyrk", "ssyr2k", "sgesv"
);
