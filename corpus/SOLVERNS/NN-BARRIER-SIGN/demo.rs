// The barrier of the homogeneous embedding, evaluated ON the central path (s∘z = μe, τκ = μ),
// should not depend on μ: ν·log μ − log τ − log κ − Σ log(sᵢzᵢ) = 0.  The second-order and the
// nonsymmetric cones contribute −log(…) terms; the nonnegative cone contributes +Σ log(sᵢzᵢ).
#![allow(non_snake_case)]
mod blas_shim;
use clarabel::verif_hooks::cones::CompositeCone;
use clarabel::solver::traits::Variables;
use clarabel::solver::SupportedConeT::*;
use clarabel::solver::*;

fn central(cones: &[SupportedConeT<f64>], s: Vec<f64>, z: Vec<f64>, t: f64) -> f64 {
    let mut K = CompositeCone::<f64>::new(cones);
    let m = s.len();
    let mut v = DefaultVariables::<f64>::new(1, m);
    v.s = s;
    v.z = z;
    v.τ = t;
    v.κ = t;
    let step = DefaultVariables::<f64>::new(1, m); // zero direction (τ = κ = 1 there, α = 0)
    v.barrier(&step, 0.0, &mut K)
}

fn main() {
    for t in [0.5, 1.0, 2.0, 4.0] {
        // μ = t²: nonnegative cone s = z = t·e;  second-order cone s = z = (t, 0, 0)
        let nn = central(&[NonnegativeConeT(2)], vec![t, t], vec![t, t], t);
        let soc = central(&[SecondOrderConeT(3)], vec![t, 0.0, 0.0], vec![t, 0.0, 0.0], t);
        println!("mu = {:5.2}   barrier(NN(2), central) = {:+.6}   barrier(SOC(3), central) = {:+.6}", t * t, nn, soc);
    }
}
