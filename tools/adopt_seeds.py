#!/usr/bin/env python3
"""Copy verified seeded changes from /tmp/seeded/<id>/ to /verif/seeded/<id>/ and record the
coordinator's own verification (tools/verify_seed.sh output) in meta.json."""
import json, os, re, shutil, sys
log = open(sys.argv[1]).read()
blocks = re.split(r"^##### ", log, flags=re.M)[1:]
for b in blocks:
    lines = b.strip().splitlines()
    src = lines[0].strip()
    sid = os.path.basename(src)
    res = [l for l in lines if l.startswith("test result") or l.startswith("passed=")]
    ok = (len(res) >= 3 and res[0].startswith("test result: ok") and res[1].startswith("test result: FAILED")
          and re.search(r"failed=0$", res[2]) is not None)
    # a panic/abort inside the demo counts as failing too
    if len(res) == 2 and res[0].startswith("test result: ok") and "failed=0" in res[1]:
        ok = "panicked" in b or "error" in b
    dst = os.path.join("/verif/seeded", sid)
    if not ok:
        print("NOT VERIFIED", sid, res)
        continue
    os.makedirs(dst, exist_ok=True)
    for f in ("patch.diff", "demo.rs", "meta.json"):
        shutil.copy(os.path.join(src, f), os.path.join(dst, f))
    mp = os.path.join(dst, "meta.json")
    try:
        meta = json.load(open(mp))
    except Exception:
        meta = {"raw_meta": open(mp).read()}
    meta["coordinator_verification"] = {
        "tool": "tools/verify_seed.sh (scratch worktree of /repo HEAD)",
        "demo_without_patch": res[0], "demo_with_patch": res[1], "existing_suite_with_patch": res[-1],
    }
    meta.setdefault("detected_by", "see DESIGN.md §8 (filled in after tools/mutcheck.sh runs)")
    json.dump(meta, open(mp, "w"), indent=1)
    print("adopted", sid)
