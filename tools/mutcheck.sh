#!/bin/sh
# tools/mutcheck.sh <patch.diff> <Cxx> [<Cyy> ...]
# Runs the given checks against a scratch worktree of /repo (HEAD + patch) without
# touching /repo or /verif's evidence.  Prints each check's output; cleans up afterwards.
set -u
PATCH=$(readlink -f "$1"); shift
N=$$
W=/tmp/mw-$N; H=/tmp/mh-$N; O=/tmp/mo-$N
cleanup() {
  git -C /repo worktree remove --force "$W" >/dev/null 2>&1
  rm -rf "$W" "$H" "$O"
  git -C /repo worktree prune >/dev/null 2>&1
}
trap cleanup EXIT INT TERM
git -C /repo worktree add --detach "$W" HEAD >/dev/null 2>&1 || { echo "worktree failed"; exit 2; }
git -C "$W" apply "$PATCH" || { echo "patch does not apply"; exit 2; }
mkdir -p "$H" "$O"
rsync -a --exclude target /verif/harness/ "$H"/
[ "${MUT_COPY_TARGET:-1}" = 1 ] && cp -r /verif/harness/target "$H"/target
sed -i "s#path = \"/repo\"#path = \"$W\"#" "$H"/Cargo.toml
rc=0
for id in "$@"; do
  echo "=== $id against $(basename "$PATCH")"
  VERIF_HARNESS="$H" VERIF_OUT="$O" /verif/check "$id" ${MUT_TIER:+--tier $MUT_TIER} > "$O/out.txt" 2>&1
  r=$?
  tail -n 25 "$O/out.txt"
  [ -n "${MUT_SHOW_REPLAY:-}" ] && for f in $(grep -o 'replay=[^ ]*' "$O/out.txt" | head -2 | cut -d= -f2); do echo "--- $f"; head -c 1500 "$f"; echo; done
  [ $r -ne 0 ] && rc=1
done
exit $rc
