#!/bin/sh
# tools/run_all.sh [tier] [jobs] — run every claimed check (MANIFEST.json) and summarise.
cd "$(dirname "$0")/.."
TIER=${1:-quick}; JOBS=${2:-4}
IDS=$(python3 -c "import json;print(' '.join(c['property_id'] for c in json.load(open('MANIFEST.json'))['checks']))")
D=${RUNALL_DIR:-/tmp/runall}; mkdir -p $D
echo $IDS | tr ' ' '\n' | xargs -P "$JOBS" -I{} sh -c "./check {} --tier $TIER > $D/{}.log 2>&1; echo {} rc=\$? \$(grep -c VIOLATION $D/{}.log) violations, \$(grep -o 'wall=[0-9.]*s' $D/{}.log)"
