#!/usr/bin/env python3
"""
tools/fingerprint.py — source-drift fingerprints of /repo/src (DESIGN §2.5 step 4).

    tools/fingerprint.py --record     rewrite /verif/fingerprints.json from /repo's working tree
    tools/fingerprint.py              list files whose fingerprint differs from the record

A fingerprint is the SHA-256 of a file's *normalised* text: comments removed, every item or
statement guarded by `#[cfg(feature = "verif-hooks")]` removed (hook code is add-only and
must not count as drift), all whitespace removed.  A changed fingerprint is NOT an alarm:
`check` only uses it to spend a larger case budget and more seeds on a tree whose source is
no longer the one the model was last validated against.
"""
import hashlib
import json
import os
import re
import sys

VERIF = os.path.dirname(os.path.dirname(os.path.abspath(__file__)))
REPO = os.environ.get("VERIF_REPO", "/repo")
RECORD = os.path.join(VERIF, "fingerprints.json")
HOOK_ATTR = re.compile(r'#\s*\[\s*cfg\s*\([^\]]*feature\s*=\s*"verif-hooks"[^\]]*\]')


def strip_comments(src):
    out = []
    i, n = 0, len(src)
    while i < n:
        c = src[i]
        if src.startswith("//", i):
            j = src.find("\n", i)
            i = n if j < 0 else j
        elif src.startswith("/*", i):
            depth, i = 1, i + 2
            while i < n and depth:
                if src.startswith("/*", i):
                    depth += 1; i += 2
                elif src.startswith("*/", i):
                    depth -= 1; i += 2
                else:
                    i += 1
        elif c == '"':
            j = i + 1
            while j < n and src[j] != '"':
                j += 2 if src[j] == "\\" else 1
            out.append(src[i:j + 1]); i = j + 1
        elif c == "'" and i + 2 < n and (src[i + 2] == "'" or (src[i + 1] == "\\" and src.find("'", i + 2) in range(i + 2, i + 8))):
            j = src.find("'", i + 2 if src[i + 1] != "\\" else i + 3)
            out.append(src[i:j + 1]); i = j + 1
        else:
            out.append(c); i += 1
    return "".join(out)


def strip_hooks(src):
    """remove `#[cfg(feature = "verif-hooks")] <item-or-statement>`"""
    while True:
        m = HOOK_ATTR.search(src)
        if not m:
            return src
        i, n = m.end(), len(src)
        depth = 0
        while i < n:
            c = src[i]
            if c in "([":
                depth += 1
            elif c in ")]":
                depth -= 1
            elif c == "{" and depth == 0:
                # item with a body: skip the matched braces
                d = 0
                while i < n:
                    if src[i] == "{":
                        d += 1
                    elif src[i] == "}":
                        d -= 1
                        if d == 0:
                            break
                    i += 1
                i += 1
                break
            elif c == ";" and depth == 0:
                i += 1
                break
            elif c == "}" and depth == 0:   # attribute on the last field/arm of a block
                break
            i += 1
        src = src[:m.start()] + src[i:]


def fingerprint(path):
    text = open(path, encoding="utf-8", errors="replace").read()
    text = strip_hooks(strip_comments(text))
    text = re.sub(r'#!\[cfg_attr\(feature\s*=\s*"verif-hooks"[^\]]*\]', "", text)
    text = re.sub(r"\s+", "", text)
    return hashlib.sha256(text.encode()).hexdigest()[:24]


def current(repo=None):
    repo = repo or REPO
    fp = {}
    for root, _dirs, files in os.walk(os.path.join(repo, "src")):
        for f in files:
            if f.endswith(".rs"):
                p = os.path.join(root, f)
                rel = os.path.relpath(p, repo)
                if rel == "src/verif_hooks.rs":
                    continue
                fp[rel] = fingerprint(p)
    for extra in ():
        p = os.path.join(repo, extra)
        if os.path.exists(p):
            fp[extra] = hashlib.sha256(re.sub(r"\s+", "", open(p).read()).encode()).hexdigest()[:24]
    return fp


def drift(repo=None):
    """files whose normalised text differs from the recorded one (added/removed files too)"""
    if not os.path.exists(RECORD):
        return None
    rec = json.load(open(RECORD))["files"]
    cur = current(repo)
    return sorted(f for f in set(rec) | set(cur) if rec.get(f) != cur.get(f))


if __name__ == "__main__":
    if "--record" in sys.argv:
        import subprocess
        head = subprocess.run(["git", "-C", REPO, "rev-parse", "--short", "HEAD"], capture_output=True, text=True).stdout.strip()
        json.dump({"recorded_at_repo_commit": head, "files": current()}, open(RECORD, "w"), indent=0, sort_keys=True)
        print(f"recorded {len(current())} files at {head}")
    else:
        d = drift()
        print("no record" if d is None else ("no drift" if not d else "\n".join(d)))
