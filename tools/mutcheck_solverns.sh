#!/bin/sh
# tools/mutcheck_solverns.sh <patch.diff> [<patch.diff> ...]
# Whole-solver correspondence (harness bin `solverns`, model exe `cm_solverns`, nonsymmetric cones) against a scratch
# worktree of /repo (HEAD + patch).  Leaves /repo and /verif untouched.  Adapted from
# tools/mutcheck.sh (the `solver` bin has no ./check entry of its own).
set -u
N=$$
W=/tmp/msw-$N; H=/tmp/msh-$N
cleanup() {
  git -C /repo worktree remove --force "$W" >/dev/null 2>&1
  rm -rf "$W" "$H"
  git -C /repo worktree prune >/dev/null 2>&1
}
trap cleanup EXIT INT TERM
mkdir -p "$H"
rsync -a --exclude target /verif/harness/ "$H"/
[ "${MUT_COPY_TARGET:-1}" = 1 ] && cp -r /verif/harness/target "$H"/target
sed -i "s#path = \"/repo\"#path = \"$W\"#" "$H"/Cargo.toml
MODEL=/verif/lean/.lake/build/bin/cm_solverns
for PATCH in "$@"; do
  PATCH=$(readlink -f "$PATCH")
  echo "=== solverns against $PATCH"
  git -C /repo worktree remove --force "$W" >/dev/null 2>&1
  git -C /repo worktree add --detach "$W" HEAD >/dev/null 2>&1 || { echo "worktree failed"; exit 2; }
  git -C "$W" apply "$PATCH" || { echo "patch does not apply"; continue; }
  (cd "$H" && CARGO_NET_OFFLINE=true cargo build --release --offline --bin solverns >"$H/build.log" 2>&1) \
    || { echo "harness does not build"; tail -n 15 "$H/build.log"; continue; }
  rm -rf "$H/replays"; mkdir -p "$H/replays"
  "$H/target/release/solverns" --tier "${MUT_TIER:-quick}" --seed "${VERIF_SEED:-1}" --model "$MODEL" \
      --out "$H/out.json" --replay-dir "$H/replays" >/dev/null 2>&1
  python3 - "$H/out.json" <<'EOF'
import json, sys
r = json.load(open(sys.argv[1]))
tot = sum(c["mismatches"] for c in r["channels"].values())
print("verdict:", "CAUGHT" if r["failures"] else "missed",
      "| cases", r["evaluations"], "| mismatching cases", tot)
for k, c in sorted(r["channels"].items()):
    print("   %-14s cases=%5d mismatches=%5d max_ulp=%d" % (k, c["cases"], c["mismatches"], c["max_ulp"]))
for f in r["failures"][:4]:
    print("   first failure:", f["kind"], f["channel"], "|", f["detail"][:160].replace("\n", " "))
EOF
done
