#!/bin/sh
# tools/verify_seed.sh <seed-dir>   (dir with patch.diff + demo.rs [+ meta.json])
# Confirms a seeded change: applies cleanly, crate builds, existing suite passes with it,
# the demonstration fails with it and passes without it.  Works in a scratch worktree.
set -u
D=$(readlink -f "$1")
N=$$
W=/tmp/vs-$N
cleanup() { git -C /repo worktree remove --force "$W" >/dev/null 2>&1; rm -rf "$W"; git -C /repo worktree prune; }
trap cleanup EXIT INT TERM
export CARGO_NET_OFFLINE=true
git -C /repo worktree add --detach "$W" HEAD >/dev/null 2>&1 || exit 2
cp "$D/demo.rs" "$W/tests/seed_demo.rs"
FEAT="${SEED_FEATURES:-}"
cd "$W"
echo "--- demo WITHOUT patch (must pass)"
cargo test --offline $FEAT --test seed_demo 2>&1 | grep -E "^test result|panicked|error(\[|:)" | head -5
git apply "$D/patch.diff" || { echo "PATCH DOES NOT APPLY"; exit 2; }
echo "--- demo WITH patch (must fail)"
cargo test --offline $FEAT --test seed_demo 2>&1 | grep -E "^test result|panicked|error(\[|:)" | head -5
rm tests/seed_demo.rs
echo "--- existing suite WITH patch (must pass)"
cargo test --workspace --no-fail-fast --offline 2>&1 | grep -E "^test result" | awk '{p+=$4; f+=$6} END {print "passed="p" failed="f}'
