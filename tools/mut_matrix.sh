#!/bin/sh
# tools/mut_matrix.sh <jobs> <dir>...   — run each change (dir with patch.diff + meta.json) against the
# check of its own property (meta.json "property"; or the Cxx prefix of the directory name).
# Scratch worktrees only; logs in /tmp/mutmatrix/<name>.log; one summary line per change.
JOBS=$1; shift
mkdir -p /tmp/mutmatrix
for s in "$@"; do echo $s; done | xargs -P "$JOBS" -I{} sh -c '
  d=$(readlink -f {}); name=$(basename $d)
  id=$(echo $name | grep -o "^C[0-9][0-9]")
  MUT_SHOW_REPLAY=1 /verif/tools/mutcheck.sh $d/patch.diff $id > /tmp/mutmatrix/$name.log 2>&1
  if grep -q "^VIOLATION" /tmp/mutmatrix/$name.log; then
     n=$(grep -c "^VIOLATION" /tmp/mutmatrix/$name.log); nf=$(grep -c "no-failing-input-found" /tmp/mutmatrix/$name.log)
     echo "$name CAUGHT violations=$n no-failing-input=$nf"
  else echo "$name MISSED"; fi'
