#!/bin/sh
# tools/mut_matrix.sh <jobs> <seed-id>...   — run each seeded change against the check of its own property
# (scratch worktrees; results in /tmp/mutmatrix/<seed>.log; summary on stdout)
JOBS=$1; shift
mkdir -p /tmp/mutmatrix
for s in "$@"; do echo $s; done | xargs -P "$JOBS" -I{} sh -c '
  id=$(echo {} | cut -d- -f1)
  MUT_SHOW_REPLAY=1 /verif/tools/mutcheck.sh /verif/seeded/{}/patch.diff $id > /tmp/mutmatrix/{}.log 2>&1
  if grep -q "^VIOLATION" /tmp/mutmatrix/{}.log; then
     n=$(grep -c "^VIOLATION" /tmp/mutmatrix/{}.log); nf=$(grep -c "no-failing-input-found" /tmp/mutmatrix/{}.log)
     echo "{} CAUGHT violations=$n no-failing-input=$nf"
  else echo "{} MISSED"; fi'
