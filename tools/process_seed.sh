#!/bin/sh
# tools/process_seed.sh <dir with patch.diff demo.rs meta.json> — verify the change in a scratch
# worktree (suite passes, demo fails with / passes without), adopt it under /verif/seeded/,
# run its property's quick check against it (scratch worktree) and record the outcome.
D=$(readlink -f "$1"); name=$(basename "$D")
L=/tmp/seedverify-$name.log
echo "##### $D" > $L
SEED_FEATURES="${SEED_FEATURES:-}" /verif/tools/verify_seed.sh "$D" >> $L 2>&1
python3 /verif/tools/adopt_seeds.py $L || exit 1
[ -d /verif/seeded/$name ] || { echo "$name not adopted"; tail -20 $L; exit 1; }
/verif/tools/mut_matrix.sh 1 /verif/seeded/$name
