#!/usr/bin/env python3
"""tools/coverage_report.py — which Rust functions of each property's anchor files are named by a
correspondence channel (harness `rust_fn:` strings / hook call-throughs) and which are not.
Heuristic (name matching), used to plan model growth; prints markdown."""
import json, os, re, glob, sys
REPO = "/repo"
chan_text = {}
for f in glob.glob("/verif/harness/src/bin/*.rs"):
    chan_text[os.path.basename(f)] = open(f).read()
all_harness = "\n".join(chan_text.values())
lean_text = "\n".join(open(f).read() for f in glob.glob("/verif/lean/ClarabelModel/**/*.lean", recursive=True))
def camel(n):
    parts = n.strip("_").split("_")
    return parts[0] + "".join(p.capitalize() for p in parts[1:])
props = [json.loads(l) for l in open("/verif/properties.jsonl")]
seen_files = {}
for p in props:
    for f in p["anchors"]["files"]:
        seen_files.setdefault(f, []).append(p["id"])
print("| file | properties | fns | named in harness | modelled name in Lean | not covered |")
print("|---|---|---|---|---|---|")
tot = cov = 0
for f, ids in sorted(seen_files.items()):
    path = os.path.join(REPO, f)
    if not os.path.exists(path):
        continue
    src = open(path).read()
    # drop verif hook modules and tests
    src = re.split(r"#\[cfg\(test\)\]|#\[test\]", src)[0]
    src = re.sub(r'#\[cfg\(feature = "verif-hooks"\)\][\s\S]*', "", src) if "verif-hooks" in src and src.find('#[cfg(feature = "verif-hooks")]') > len(src) * 0.6 else src
    fns = sorted(set(re.findall(r"\bfn\s+([A-Za-z_ΔλμσταωΛ0-9]+)\s*[<(]", src)))
    named, lean_named, missing = [], [], []
    for fn in fns:
        in_h = re.search(r"\b" + re.escape(fn) + r"\b", all_harness) is not None
        in_l = re.search(r"\b" + re.escape(camel(fn)) + r"\b", lean_text) is not None
        if in_h: named.append(fn)
        if in_l: lean_named.append(fn)
        if not in_h and not in_l: missing.append(fn)
    tot += len(fns); cov += len(fns) - len(missing)
    print(f"| {f} | {','.join(ids)} | {len(fns)} | {len(named)} | {len(lean_named)} | {', '.join(missing) if missing else '—'} |")
print(f"\n{cov} of {tot} functions in anchor files are named by the harness or have a model counterpart.")
