#!/bin/sh
# tools/verify_seed_sdp.sh <seed-dir> — like verify_seed.sh for demonstrations that need the
# `sdp` feature: links scipy's OpenBLAS and appends the BLAS/LAPACK trampolines to the demo.
set -u
D=$(readlink -f "$1")
N=$$
W=/tmp/vs-$N
cleanup() { git -C /repo worktree remove --force "$W" >/dev/null 2>&1; rm -rf "$W"; git -C /repo worktree prune; }
trap cleanup EXIT INT TERM
export CARGO_NET_OFFLINE=true
L=/opt/veriftools/pyvenv/lib/python3.11/site-packages/scipy.libs
SDPFLAGS="-L native=$L -C link-arg=-Wl,-rpath,$L -l dylib:+verbatim=libscipy_openblas-6cdc3b4a.so"
git -C /repo worktree add --detach "$W" HEAD >/dev/null 2>&1 || exit 2
cp "$D/demo.rs" "$W/tests/seed_demo.rs"
grep -v '^//!' /verif/harness/src/blas_shim.rs >> "$W/tests/seed_demo.rs"
cd "$W"
echo "--- demo WITHOUT patch (must pass)"
RUSTFLAGS="$SDPFLAGS" timeout 1200 cargo test --offline --features sdp,blas-src,lapack-src --test seed_demo 2>&1 | grep -E "^test result|panicked|error(\[|:)" | head -5
git apply "$D/patch.diff" || { echo "PATCH DOES NOT APPLY"; exit 2; }
echo "--- demo WITH patch (must fail)"
RUSTFLAGS="$SDPFLAGS" timeout 1200 cargo test --offline --features sdp,blas-src,lapack-src --test seed_demo 2>&1 | grep -E "^test result|panicked|error(\[|:)|timed out" | head -5
echo "demo-with-patch-exit=$?"
rm tests/seed_demo.rs
echo "--- existing suite WITH patch (must pass)"
cargo test --workspace --no-fail-fast --offline 2>&1 | grep -E "^test result" | awk '{p+=$4; f+=$6} END {print "passed="p" failed="f}'
