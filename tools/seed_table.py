#!/usr/bin/env python3
"""tools/seed_table.py — prints the markdown table 'which check catches which change' from
/tmp/mutmatrix/*.log (written by tools/mut_matrix.sh) and seeded/*/meta.json, regressions/*/meta.json."""
import glob, json, os, re
rows = []
for d in sorted(glob.glob('/verif/seeded/*') + glob.glob('/verif/regressions/*')):
    name = os.path.basename(d)
    meta = json.load(open(os.path.join(d, 'meta.json'))) if os.path.exists(os.path.join(d, 'meta.json')) else {}
    what = (meta.get('summary') or meta.get('fix_subject') or '').replace('\n', ' ').replace('|', '/')
    what = what[:150] + ('…' if len(what) > 150 else '')
    log = f'/tmp/mutmatrix/{name}.log'
    res, chans, nf = 'not run', '', ''
    if os.path.exists(log):
        t = open(log).read()
        n = len(re.findall(r'^VIOLATION', t, flags=re.M))
        res = 'caught' if n else 'MISSED'
        cs = {}
        for c in re.findall(r'"channel": *"([^"]*)"', t):
            cs[c] = cs.get(c, 0) + 1
        chans = ', '.join(sorted(cs, key=lambda c: -cs[c])[:3])
        kinds = set(re.findall(r'"kind": *"([^"]*)"', t))
        if 'oracle' in kinds: chans += ' (property oracle)'
        elif chans: chans += ' (correspondence + search)'
        nf = 'yes' if 'no-failing-input-found' in t else ''
    rows.append((name, res, chans, what))
print('| change | result | first failing channel(s) | what the change does |')
print('|---|---|---|---|')
for r in rows:
    print('| ' + ' | '.join(r) + ' |')
