/-
  Model of `DefaultProblemData::new` (`src/solver/implementations/default/problemdata.rs`)
  and `DefaultEquilibrationData::new` (`equilibration.rs`): collapse of the cone list,
  presolve, cap of `b` at the infinity bound, identity equilibration data.

  Chordal decomposition (feature `sdp`) is *not* modelled here (C18): with
  `chordal_decomposition_enable` and a PSD cone of dimension > 3 in the (reduced) cone
  list the model answers `err:chordal-not-modelled`.
-/
import ClarabelModel.Scalar
import ClarabelModel.Vec
import ClarabelModel.Csc
import ClarabelModel.Collapse
import ClarabelModel.Presolve

namespace Clarabel

/-- `DefaultEquilibrationData<T>` -/
structure EquilData (α : Type) where
  d : Array α
  dinv : Array α
  e : Array α
  einv : Array α
  c : α
  deriving Repr, BEq, Inhabited

/-- `DefaultEquilibrationData::new(n, m)` -/
def EquilData.new {α : Type} [OfNat α 1] (n m : Nat) : EquilData α :=
  { d := Array.replicate n 1, dinv := Array.replicate n 1,
    e := Array.replicate m 1, einv := Array.replicate m 1, c := 1 }

/-- `DefaultProblemData<T>` -/
structure ProblemData (α : Type) where
  P : Csc α
  q : Array α
  A : Csc α
  b : Array α
  cones : List (ConeT α)
  n : Nat
  m : Nat
  equilibration : EquilData α
  normq : Option α
  normb : Option α
  presolver : Option (Presolve.Presolver α)
  deriving Repr, Inhabited

namespace ProblemData
variable {α : Type}
variable [Add α] [Sub α] [Mul α] [Div α] [OfNat α 0] [OfNat α 1] [LT α] [DecidableLT α] [FloatLike α]

/-- `try_presolver` -/
def tryPresolver (b : Array α) (cones : List (ConeT α)) (presolveEnable : Bool) (infbound : α) :
    MErr (Option (Presolve.Presolver α)) :=
  if !presolveEnable then pure none else do
    let p ← Presolve.Presolver.new b cones infbound
    if !p.isReduced then pure none else pure (some p)

/-- the cap `b_new.scalarop(|x| T::min(x, infbound))` -/
def capB (b : Array α) (infbound : α) : Array α := b.map (fun x => fmin x infbound)

/-- `if !P.is_triu() { P_new = Some(P.to_triu()) }` -/
def triuStep (P : Csc α) : MErr (Csc α) := if !P.isTriu then P.toTriu else pure P

/-- `presolver.presolve(A, b, &cones)` when a presolver exists, the untouched data otherwise -/
def reduceStep (presolver : Option (Presolve.Presolver α)) (A : Csc α) (b : Array α)
    (cones : List (ConeT α)) : MErr (Csc α × Array α × List (ConeT α)) :=
  match presolver with
  | some p => p.presolve A b cones
  | none => pure (A, b, cones)

/-- a PSD cone that chordal decomposition would look at (`dim > 3`) -/
def hasLargePsd (cones : List (ConeT α)) : Bool :=
  cones.any (fun c => match c with | .psd d => decide (d > 3) | _ => false)

/-- the final record: cap of `b`, sizes from the (reduced) `A`, identity equilibration -/
def assemble (Pnew : Csc α) (q : Array α) (Anew : Csc α) (bnew : Array α) (conesNew : List (ConeT α))
    (presolver : Option (Presolve.Presolver α)) (infbound : α) : ProblemData α :=
  let bcap := capB bnew infbound
  { P := Pnew, q := q, A := Anew, b := bcap, cones := conesNew, n := Anew.n, m := Anew.m,
    equilibration := EquilData.new Anew.n Anew.m,
    normq := some (Vec.normInf q), normb := some (Vec.normInf bcap),
    presolver := presolver }

/-- `DefaultProblemData::new`.  `infbound` is `get_infinity()` at the time of the call
(read by `Presolver::new` and again for the cap). -/
def new (P : Csc α) (q : Array α) (A : Csc α) (b : Array α) (cones : List (ConeT α))
    (presolveEnable chordalEnable : Bool) (infbound : α) : MErr (ProblemData α) := do
  let cones := Cones.newCollapsed cones
  let Pnew ← triuStep P
  let presolver ← tryPresolver b cones presolveEnable infbound
  let r ← reduceStep presolver A b cones
  if chordalEnable && hasLargePsd r.2.2 then
    throw (.err "chordal-not-modelled")
  pure (assemble Pnew q r.1 r.2.1 r.2.2 presolver infbound)

end ProblemData
end Clarabel
