/-
  Model of what `save_to_file` / `load_from_file` (`src/solver/implementations/default/json.rs`)
  compute around serde_json's text layer (which is library code and not modelled):

  * `saveData`: the numbers that are written — the internal data with the equilibration
    divided out, in the operation order of the Rust code
    (`P.lrscale(dinv,dinv); q.hadamard(dinv); P.scale(c.recip()); q.scale(c.recip());
      A.lrscale(einv,dinv); b.hadamard(einv)`);
  * `sanitize` / `desanitize`: the `time_limit` representation (`+∞ ↔ f64::MAX`);
  * `loadSettings`: which settings the loaded solver is built with.

  The post-parse logic of `load_from_file` (validation, error kinds, the call to
  `DefaultSolver::new`) and the whole record `save_to_file` writes are modelled in
  `ClarabelModel/JsonLoad.lean` (built on the definitions of this file); the serde
  representation of the cone list in `ClarabelModel/JsonCones.lean`.
-/
import ClarabelModel.Update

namespace Clarabel
namespace Json

open Update

variable {α : Type}

section
variable [Mul α] [Div α] [OfNat α 0] [OfNat α 1]

/-- `(P, q, A, b)` value arrays as serialised (patterns, dimensions and the cone list are
copied verbatim from `solver.data`) -/
def saveData (st : State α) : UserData α :=
  let cinv : α := 1 / st.c
  { P := st.P.nzval.mapIdx (fun k v => scaleFull st.P st.dinv st.dinv (some cinv) k v),
    q := st.q.mapIdx (fun k x => vscaleFull st.dinv (some cinv) k x),
    A := st.A.nzval.mapIdx (fun k v => scaleFull st.A st.einv st.dinv none k v),
    b := st.b.mapIdx (fun k x => vscaleFull st.einv none k x) }
end

/-- the three kinds of `time_limit` values the (de)sanitiser distinguishes -/
inductive TimeLimit (α : Type) where
  /-- `f64::INFINITY` (the default) -/
  | infinity
  /-- `f64::MAX` -/
  | maxValue
  /-- any other value -/
  | other (v : α)
  deriving Repr, BEq, DecidableEq, Inhabited

/-- `DefaultSettings`: `time_limit` and all remaining fields (never touched here) -/
structure Settings (α : Type) (β : Type) where
  timeLimit : TimeLimit α
  rest : β
  deriving Repr, BEq, DecidableEq, Inhabited

variable {β : Type}

/-- `sanitize_settings` -/
def sanitize (s : Settings α β) : Settings α β :=
  match s.timeLimit with
  | .infinity => { s with timeLimit := .maxValue }
  | _ => s

/-- `desanitize_settings` -/
def desanitize (s : Settings α β) : Settings α β :=
  match s.timeLimit with
  | .maxValue => { s with timeLimit := .infinity }
  | _ => s

/-- `settings.unwrap_or(json_data.settings)` after `desanitize_settings` -/
def loadSettings (fileSettings : Settings α β) (arg : Option (Settings α β)) : Settings α β :=
  arg.getD (desanitize fileSettings)

/-- the time-limit test of the main loop, `solve_time > time_limit`, for a finite elapsed
time `t` (`maxv` is `f64::MAX`) -/
def exceeded [LT α] [DecidableLT α] (maxv t : α) : TimeLimit α → Bool
  | .infinity => false
  | .maxValue => decide (maxv < t)
  | .other v => decide (v < t)

end Json
end Clarabel
