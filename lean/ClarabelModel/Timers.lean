/-
  `Timers` (src/timers/timers.rs) as a pure state machine over an abstract clock, and the
  sequence of timer calls `DefaultSolver::new` and `solve()` perform (the expansions of the
  `timeit!` / `notimeit!` macros in implementations/default/solver.rs and core/solver.rs).

  Rust                                   model
  ------------------------------------   -------------------------------------------------
  `Timers { stack, subtimers }`          `State { stack, keys, cell }`
  tree of `InnerTimer`s (nested          finite partial function `cell : Path → Option Cell`
  `HashMap<&str, InnerTimer>`)           on key paths from the root; `keys` lists its domain
  `InnerTimer { start, elapsed, .. }`    `Cell { start : Option Nat, elapsed : Nat }`
  `Instant::now()`, `Instant::elapsed`   one clock reading per timer and call: `ro p` (a reading
                                         stored into `start`), `rc p` (a reading an interval is
                                         closed with); time is in nanoseconds (`Nat`)
  `start_as_current(key)`                `Op.start key`
  `stop_current()`                       `Op.stop`
  `suspend()` / `resume()` (`notimeit!`) `Op.suspend` / `Op.resume`
  `reset_timer(key)`                     `Op.reset key`
  `total_time()`                         `totalTime` (`Op.read` records it)

  Every timer reads the clock by itself (`suspend` walks the tree and calls
  `instant.elapsed()` once per active timer, in `HashMap` order), which is why the readings are
  indexed by the path of the timer: the model then covers every iteration order.  An "atomic"
  clock is the special case of constant functions.

  `unwrap()` on a missing timer / on `start = None` / on an empty stack → `.panic`.

  This file imports only `ClarabelModel.Scalar`.
-/
import ClarabelModel.Scalar

namespace Clarabel
namespace Timers

/-- keys from the root of the tree to a timer -/
abbrev Path := List String

/-- `InnerTimer` without its `subtimers` -/
structure Cell where
  /-- `start: Option<Instant>` -/
  start : Option Nat
  /-- `elapsed: Duration` (ns) -/
  elapsed : Nat
  deriving Repr, DecidableEq, Inhabited

/-- `InnerTimer::default()` / after `reset()` -/
def Cell.fresh : Cell := ⟨none, 0⟩

/-- `Timers` -/
structure State where
  /-- `stack: Vec<&'static str>`, root first -/
  stack : List String
  /-- the paths of all timers in the tree (order of creation) -/
  keys : List Path
  /-- the timer at a path -/
  cell : Path → Option Cell

/-- `Timers::default()` -/
def State.empty : State := { stack := [], keys := [], cell := fun _ => none }

/-- `entry(key).or_default()` followed by a write of the timer's own fields -/
def State.put (s : State) (p : Path) (c : Cell) : State :=
  { s with keys := if (s.cell p).isSome then s.keys else s.keys ++ [p],
           cell := fun q => if q = p then some c else s.cell q }

/-- is `p` strictly below the root timer `key`? -/
def under (key : String) : Path → Bool
  | k :: _ :: _ => k == key
  | _ => false

/-- the non-empty prefixes of a path, shortest first -/
def prefixes : Path → List Path
  | [] => []
  | k :: ks => [k] :: (prefixes ks).map (k :: ·)

/-- `mut_active_timer` finds a timer at every level of the stack (otherwise `unwrap()` on `None`) -/
def walkOk (s : State) : Bool := (prefixes s.stack).all fun q => (s.cell q).isSome

/-- `suspend` / `resume` reach the timer at `p`: every timer on the way down, and the timer
itself, "appears active" (`start.is_some()`) -/
def activeChain (s : State) (p : Path) : Bool :=
  (prefixes p).all fun q =>
    match s.cell q with
    | some c => c.start.isSome
    | none => false

/-- `Timers::total_time` = `subtimers.total_time()`: the sum of `elapsed` over the ROOT timers
(a running timer contributes what has been folded into `elapsed` so far) -/
def totalTime (s : State) : Nat :=
  (s.keys.filter fun p => p.length == 1).foldl
    (fun acc p => acc + (match s.cell p with | some c => c.elapsed | none => 0)) 0

/-- the calls -/
inductive Op where
  | start (key : String)
  | stop
  | suspend
  | resume
  | reset (key : String)
  /-- `total_time()`; no effect on the timers -/
  | read
  deriving Repr, DecidableEq, Inhabited

/-- one call.  `ro p` is the reading timer `p` stores into `start` in this call, `rc p` the
reading it closes an interval with (the real code: the same clock, `ro = rc`). -/
def step (ro rc : Path → Nat) : Op → State → MErr State
  | .read, s => pure s
  | .reset key, s =>
    -- `reset_subtimer`: `entry(key).or_default()`, `start = None`, `elapsed = 0`, `subtimers.clear()`
    let s1 : State :=
      { s with keys := s.keys.filter fun p => !(under key p),
               cell := fun q => if under key q then none else s.cell q }
    pure (s1.put [key] Cell.fresh)
  | .start key, s =>
    if !(walkOk s) then throw (.panic "timers: no timer at a level of the stack (unwrap on None)")
    else
      let p := s.stack ++ [key]
      -- `entry(key).or_default()` keeps `elapsed` (and an old `start` is overwritten)
      let c := (s.cell p).getD Cell.fresh
      pure { (s.put p { c with start := some (ro p) }) with stack := s.stack ++ [key] }
  | .stop, s =>
    if s.stack.isEmpty then throw (.panic "timers: stop_current with an empty stack (unwrap on None)")
    else if !(walkOk s) then throw (.panic "timers: no timer at a level of the stack (unwrap on None)")
    else
      match s.cell s.stack with
      | none => throw (.panic "timers: no timer at a level of the stack (unwrap on None)")
      | some c =>
        match c.start with
        | none => throw (.panic "timers: stop of a timer that is not running (start.unwrap())")
        | some t0 =>
          pure { (s.put s.stack ⟨none, c.elapsed + (rc s.stack - t0)⟩) with stack := s.stack.dropLast }
  | .suspend, s =>
    pure { s with cell := fun q =>
      match s.cell q with
      | some c =>
        match c.start with
        | some t0 => if activeChain s q then some { c with elapsed := c.elapsed + (rc q - t0) } else some c
        | none => some c
      | none => none }
  | .resume, s =>
    pure { s with cell := fun q =>
      match s.cell q with
      | some c =>
        match c.start with
        | some _ => if activeChain s q then some { c with start := some (ro q) } else some c
        | none => some c
      | none => none }

/-- a clock: the reading the timer at path `p` obtains in the `n`-th call of a run -/
abbrev Clock := Nat → Path → Nat

/-- a sequence of calls, the `n`-th of which reads the clocks `co n` / `cc n`; returns the final
state and the values of `total_time()` at the `read`s, oldest first -/
def run (co cc : Clock) : Nat → List Op → State → MErr (State × List Nat)
  | _, [], s => pure (s, [])
  | n, op :: ops, s => do
    let s1 ← step (co n) (cc n) op s
    let r ← run co cc (n + 1) ops s1
    pure (r.1, if op = .read then totalTime s :: r.2 else r.2)

/-- the same state with `cell` tabulated over `keys` (for execution only: `step` wraps one more
closure around `cell` per call, and `suspend` / `resume` consult it several times per timer, so an
untabulated run costs time exponential in the number of calls; on a well-formed state — `cell` is
`none` outside `keys` — this is the identity, `Lemmas/LoopTimers.lean: norm_cell`) -/
def State.norm (s : State) : State :=
  let tbl := s.keys.map fun p => (p, s.cell p)
  { s with cell := fun q => match tbl.lookup q with | some c => c | none => none }

/-- `run` that also says where it stopped: `(index of the first call that panics, the state before
that call (the final state if none does), the `total_time()` readings so far)` -/
def runUntil (co cc : Clock) : Nat → List Op → State → List Nat → Option Nat × State × List Nat
  | _, [], s, rs => (none, s, rs)
  | n, op :: ops, s, rs =>
    match step (co n) (cc n) op s with
    | .ok s1 => runUntil co cc (n + 1) ops s1.norm (if op = .read then rs ++ [totalTime s] else rs)
    | .error _ => (some n, s, rs)

/-! ### the call sequences of the solver -/

/-- `timeit!{timers => key; …}` around a block that makes the calls `body` -/
def timeit (key : String) (body : List Op) : List Op := [.start key] ++ body ++ [.stop]

/-- `notimeit!{timers; …}` (the block prints, it makes no timer call) -/
def notimeit : List Op := [.suspend, .resume]

/-- `DefaultSolver::new` -/
def newOps : List Op :=
  timeit "setup" (timeit "presolve" [] ++ timeit "equilibration" [] ++ timeit "kktinit" [])

/-- the control decisions of one pass of the loop that decide which timer calls it makes -/
structure PassShape where
  /-- `isdone` after `check_termination` -/
  done : Bool
  /-- `isdone` and the insufficient-progress checkpoint answered `Fail` (one more status line) -/
  failLine : Bool
  /-- `is_scaling_success` -/
  scaleOk : Bool
  /-- the affine KKT solve succeeded (the combined solve is timed as well) -/
  kktAffOk : Bool
  deriving Repr, DecidableEq, Inhabited

/-- one pass of `loop { … }`: `info.update` reads `total_time()`, `print_status` under
`notimeit!`, then either the `isdone` arm or the timed numerical stages -/
def passOps (p : PassShape) : List Op :=
  [.read] ++ notimeit ++
  (if p.done then (if p.failLine then notimeit else [])
   else
    timeit "scale cones" [] ++
    (if p.scaleOk then
      timeit "kkt update" [] ++ timeit "kkt solve" [] ++ (if p.kktAffOk then timeit "kkt solve" [] else [])
     else []))

/-- the timed body of `solve()`: "solve" ⊃ "default start", "IP iteration" ⊃ the passes -/
def solveBody (passes : List PassShape) : List Op :=
  timeit "solve" (timeit "default start" [] ++ timeit "IP iteration" (passes.flatMap passOps))

/-- `solve()`: banner under `notimeit!`, `info.reset` (→ `reset_timer("solve")`), the timed body,
the optional last status line (`α == 0`), "post-process", `info.finalize` (→ `total_time()`) -/
def solveOps (passes : List PassShape) (extraLine : Bool) : List Op :=
  notimeit ++ [.reset "solve"] ++ solveBody passes ++
  (if extraLine then notimeit else []) ++ timeit "post-process" [] ++ [.read]

/-! ### wire helpers (model driver) -/
namespace Wire

/-- `S:key` start, `T` stop, `U` suspend, `R` resume, `X:key` reset, `D` read -/
def parseOp (t : String) : Option Op :=
  match t.splitOn ":" with
  | ["T"] => some .stop
  | ["U"] => some .suspend
  | ["R"] => some .resume
  | ["D"] => some .read
  | ["S", k] => some (.start k)
  | ["X", k] => some (.reset k)
  | _ => none

/-- a path on the wire: keys joined by `/`, blanks inside a key written `_` -/
def fmtPath (p : Path) : String := "/".intercalate (p.map fun k => k.replace " " "_")

/-- insertion sort of paths by their rendering (the harness sorts the rendered rows) -/
def insertPath (p : Path) : List Path → List Path
  | [] => [p]
  | q :: qs => if decide (fmtPath p < fmtPath q) then p :: q :: qs else q :: insertPath p qs

def sortPaths (ps : List Path) : List Path := ps.foldr insertPath []

def fmtB (b : Bool) : String := if b then "1" else "0"

/-- `stack=… keys=… running=…`: which timers exist, the nesting, which are running -/
def fmtShape (s : State) : String :=
  let ks := sortPaths s.keys
  let dash (x : String) := if x.isEmpty then "-" else x
  s!"stack={dash (fmtPath s.stack)} keys={dash (";".intercalate (ks.map fmtPath))} " ++
  s!"running={dash (",".intercalate (ks.map fun p => fmtB (match s.cell p with | some c => c.start.isSome | none => false)))}"

end Wire

end Timers
end Clarabel
