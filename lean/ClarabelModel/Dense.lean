/-
  Model of the dense matrix module `src/algebra/dense/**` (compiled with the `sdp` feature;
  crate-private, reached by the harness through `clarabel::verif_hooks::dense`).

  * part 1 (LAPACK-free, bit-exact): `types.rs`, `core.rs`, `borrowed.rs`,
    `block_concatenate.rs`, `kron.rs`, `matrix_math.rs`.
  * part 2 (BLAS wrappers `blas/{gemm,gemv,symv,syrk,syr2k}.rs`): the wrapper logic (asserts,
    quick returns, leading dimensions, which triangle is referenced / written) around the
    reference index-order loops, with the BLAS `beta = 0` rule (C is not read).
  * part 3 (LAPACK wrappers `blas/{cholesky,syevr,svd,lu}.rs`): only the Rust wrapper logic;
    the LAPACK routine is a parameter.

  A dense matrix is `(m, n, data)` with `data` column major; nothing ties `data.size` to
  `m * n` (a `BorrowedMatrix` is built without any check), every read is an `Array` access that
  panics when out of range, exactly as the Rust `Index` impls do: entry `(i, j)` of the matrix
  itself is `data[i + m*j]` whether or not `i < m`.

  Entry-wise results are written with `tabulate` (entry `k` of the column-major result is a
  function of `(k % m, k / m)`); the Rust loops visit the same entries in nested-loop order
  and no entry depends on another one, so the values (and whether some read panics) are the
  same.  In-place updates that touch only some entries are lists of `(position, value)`
  writes applied in loop order (`applyWrites`).  Reductions are left folds in the loop order
  of the Rust code.
-/
import ClarabelModel.Scalar
import ClarabelModel.Vec

namespace Clarabel

/-- `DenseStorageMatrix { size: (m, n), data }` (owned `Matrix`, `BorrowedMatrix(Mut)`) -/
structure Dense (α : Type) where
  m : Nat
  n : Nat
  data : Array α
  deriving Repr

/-- how a matrix is looked at: itself, `t()` (`Adjoint`), `sym()` (`Symmetric`) -/
inductive DView where
  | N | T | S
  deriving Repr, DecidableEq, BEq, Inhabited

/-- `DenseFactorizationError` -/
inductive FactErr where
  | incompatibleDimension
  | eigen (info : Int)
  | svd (info : Int)
  | cholesky (info : Int)
  | lu (info : Int)
  deriving Repr, DecidableEq, BEq, Inhabited

namespace Dense

variable {α : Type}

/-! ### types.rs / matrix_types.rs : shapes, index maps -/

/-- `ShapedMatrix::nrows` of a view (`Adjoint` and `Symmetric` both report
`(src.ncols(), src.nrows())`) -/
def nrowsV (v : DView) (A : Dense α) : Nat := match v with
  | .N => A.m
  | _ => A.n

/-- `ShapedMatrix::ncols` of a view -/
def ncolsV (v : DView) (A : Dense α) : Nat := match v with
  | .N => A.n
  | _ => A.m

/-- `ShapedMatrix::is_square` -/
def isSquareV (v : DView) (A : Dense α) : Bool := nrowsV v A == ncolsV v A

/-- `ShapedMatrix::shape() == MatrixShape::T` (`Symmetric` reports `N`) -/
def shapeIsT (v : DView) : Bool := match v with
  | .T => true
  | _ => false

/-- `DenseMatrix::index_linear`: column major, `Adjoint` swaps the indices, `Symmetric` uses
the upper-triangle entry -/
def indexLinear (v : DView) (A : Dense α) (i j : Nat) : Nat := match v with
  | .N => i + A.m * j
  | .T => j + A.m * i
  | .S => if i ≤ j then i + A.m * j else j + A.m * i

/-- `Index<(usize, usize)>`: `&self.data()[index_linear(idx)]` -/
def get (v : DView) (A : Dense α) (i j : Nat) : MErr α :=
  getE A.data (indexLinear v A i j) "dense index"

/-- `IndexMut<(usize, usize)>` (storage only) -/
def set (A : Dense α) (i j : Nat) (x : α) : MErr (Dense α) := do
  let d ← setE A.data (i + A.m * j) x "dense index_mut"
  pure { A with data := d }

/-- `data.size = m * n` (what `Matrix::new` asserts) -/
def wf (A : Dense α) : Bool := A.data.size == A.m * A.n

/-- `MatrixTriangle::{as_blas_char, t().as_blas_char}`, `MatrixShape::{as_blas_char,
t().as_blas_char}` as character codes (`U` 85, `L` 76, `N` 78, `T` 84) -/
def typeMarkers (triu transposed : Bool) : Nat × Nat × Nat × Nat :=
  (if triu then 85 else 76, if triu then 76 else 85,
   if transposed then 84 else 78, if transposed then 78 else 84)

/-! ### building blocks -/

/-- column-major table of an `m × n` matrix whose entry `(i, j)` is `f i j`; any failing
read fails the whole table -/
def tabulate (m n : Nat) (f : Nat → Nat → MErr α) : MErr (Array α) := do
  let l ← (List.range (m * n)).mapM (fun k => f (k % m) (k / m))
  pure l.toArray

/-- pure table -/
def tab (m n : Nat) (g : Nat → Nat → α) : Array α :=
  ((List.range (m * n)).map (fun k => g (k % m) (k / m))).toArray

/-- a sequence of `data[pos] = val` statements in program order -/
def applyWrites (d : Array α) (ws : List (Nat × α)) : MErr (Array α) :=
  ws.foldlM (fun d w => setE d w.1 w.2 "dense index_mut") d

/-- `&data[lo..hi]` (panics when `hi > len`; `lo ≤ hi` always holds at the call sites) -/
def sliceE (d : Array α) (lo hi : Nat) (site : String) : MErr (Array α) :=
  if hi > d.size then throw (.panic site) else pure (d.extract lo hi)

/-! ### an operand on the wire: owned matrix or unchecked view of a parent buffer -/

/-- `view = none`: `Matrix::new((m, n), parent)`; `view = some (off, len)`:
`BorrowedMatrixMut::from_slice_mut(&mut parent[off..off+len], m, n)` -/
structure Opnd (α : Type) where
  m : Nat
  n : Nat
  parent : Array α
  view : Option (Nat × Nat)
  shape : DView

/-- `Matrix::new` -/
def new (m n : Nat) (data : Array α) : MErr (Dense α) :=
  if m * n != data.size then throw (.panic "Matrix::new: assert size") else pure ⟨m, n, data⟩

/-- `BorrowedMatrix::from_slice` / `BorrowedMatrixMut::from_slice_mut`: no check -/
def fromSlice (data : Array α) (m n : Nat) : Dense α := ⟨m, n, data⟩

def Opnd.load (o : Opnd α) : MErr (Dense α) :=
  match o.view with
  | none => new o.m o.n o.parent
  | some (off, len) => do
    let s ← sliceE o.parent off (off + len) "slice index"
    pure (fromSlice s o.m o.n)

/-- the parent buffer after the (borrowed) matrix was modified in place -/
def Opnd.store (o : Opnd α) (A : Dense α) : Array α :=
  match o.view with
  | none => A.data
  | some (off, len) =>
    (o.parent.toList.take off ++ A.data.toList ++ o.parent.toList.drop (off + len)).toArray

/-! ### core.rs -/

section
variable [OfNat α 0]

/-- `Matrix::zeros` -/
def zeros (m n : Nat) : Dense α := ⟨m, n, Array.replicate (m * n) 0⟩

/-- `Matrix::new_from_slice` -/
def newFromSlice (m n : Nat) (src : Array α) : MErr (Dense α) := new m n src

/-- `Matrix::from(rows)`: `m = rows.len()`, `n` = length of the first row (0 if none),
`assert!(all rows have length n)`, column-major copy -/
def fromRows (rows : Array (Array α)) : MErr (Dense α) := do
  let m := rows.size
  let n := match rows[0]? with
    | some r => r.size
    | none => 0
  if !(rows.toList.all (fun r => r.size == n)) then throw (.panic "Matrix::from: assert row lengths")
  let d ← tabulate m n (fun i j => do
    let r ← getE rows i "rows[r]"
    getE r j "rows[r][c]")
  new m n d

/-- `Matrix::resize`: `data.resize(m*n, 0)` (truncate or pad with zeros; kept values are
whatever they were) -/
def resize (A : Dense α) (m n : Nat) : Dense α :=
  ⟨m, n, (A.data.toList.take (m * n) ++ List.replicate (m * n - A.data.size) 0).toArray⟩

variable [OfNat α 1]

/-- the diagonal writes of `set_identity`: `self[(i, i)] = 1` for `i in 0..ncols` -/
def diagWrites (A : Dense α) : List (Nat × α) := (List.range A.n).map (fun i => (i + A.m * i, 1))

/-- `set_identity`: `assert!(is_square)`, `data.fill(0)`, diagonal -/
def setIdentity (A : Dense α) : MErr (Dense α) :=
  if A.m != A.n then throw (.panic "set_identity: assert is_square") else do
    let d ← applyWrites (A.data.map (fun _ => 0)) (diagWrites A)
    pure { A with data := d }

/-- `Matrix::identity` -/
def identity (n : Nat) : MErr (Dense α) := setIdentity (zeros n n)

end

/-- `copy_from_slice` (`data.copy_from_slice(src)` panics on a length mismatch) -/
def copyFromSlice (A : Dense α) (src : Array α) : MErr (Dense α) := do
  let d ← Vec.copyFrom A.data src
  pure { A with data := d }

/-- `col_slice` / `col_slice_mut`: `assert!(col < n)`, `&data[col*m .. (col+1)*m]` -/
def colSlice (A : Dense α) (col : Nat) : MErr (Array α) :=
  if !(col < A.n) then throw (.panic "col_slice: assert col < n")
  else sliceE A.data (col * A.m) ((col + 1) * A.m) "col_slice: range"

/-- writing `vals` entry by entry through `col_slice_mut(col)` (up to the shorter length) -/
def colSliceMutSet (A : Dense α) (col : Nat) (vals : Array α) : MErr (Dense α) := do
  let s ← colSlice A col
  let d ← applyWrites A.data (((vals.toList.take s.size).zipIdx).map (fun p => (col * A.m + p.2, p.1)))
  pure { A with data := d }

section
variable [OfNat α 0] [BEq α]

/-- the strictly lower positions in the order `is_triu` visits them -/
def lowerPositions (m n : Nat) : List (Nat × Nat) :=
  (List.range n).flatMap (fun c => (List.range (m - (c + 1))).map (fun k => (c + 1 + k, c)))

/-- `is_triu`: returns `false` at the first strictly lower entry with `!= 0` (a NaN counts);
entries after it are not read -/
def isTriu (A : Dense α) : MErr Bool :=
  (lowerPositions A.m A.n).foldlM (fun (acc : Bool) p =>
    if !acc then pure false else do
      let v ← get .N A p.1 p.2
      pure (v == 0)) true

end

/-- index pairs `(i, row)` × `(j, col)` in the order of the `subsasgn` / `subsref` loops
(columns outer, rows inner) -/
def subsPairs (rows cols : Array Nat) : List ((Nat × Nat) × (Nat × Nat)) :=
  (cols.toList.zipIdx).flatMap (fun c => (rows.toList.zipIdx).map (fun r => ((r.2, r.1), (c.2, c.1))))

/-- `self.subsasgn(rows, cols, B)`: `self[(row, col)] = B[(i, j)]` -/
def subsasgn (A : Dense α) (rows cols : Array Nat) (vs : DView) (S : Dense α) : MErr (Dense α) := do
  let ws ← (subsPairs rows cols).mapM (fun p => do
    let x ← get vs S p.1.1 p.2.1
    pure (p.1.2 + A.m * p.2.2, x))
  let d ← applyWrites A.data ws
  pure { A with data := d }

/-- `self.subsref(B, rows, cols)`: `self[(i, j)] = B[(row, col)]` -/
def subsref (A : Dense α) (vs : DView) (S : Dense α) (rows cols : Array Nat) : MErr (Dense α) := do
  let ws ← (subsPairs rows cols).mapM (fun p => do
    let x ← get vs S p.1.2 p.2.2
    pure (p.1.1 + A.m * p.2.1, x))
  let d ← applyWrites A.data ws
  pure { A with data := d }

/-- `triangular_number` -/
def triangularNumber (k : Nat) : Nat := (k * (k + 1)) / 2

/-- the upper-triangle positions `(row, col)`, columns outer, `row ≤ col` -/
def upperPositions (n : Nat) : List (Nat × Nat) :=
  (List.range n).flatMap (fun c => (List.range (c + 1)).map (fun r => (r, c)))

/-- `Symmetric<Matrix>::pack_triu(v)`: `n = self.ncols()` (`= src.nrows()`),
`assert!(v.len() == triangular_number(n))`, `v[k] = src[(row, col)]` -/
def packTriu (A : Dense α) (v : Array α) : MErr (Array α) := do
  let n := ncolsV .S A
  if v.size != triangularNumber n then throw (.panic "pack_triu: assert len")
  let l ← (upperPositions n).mapM (fun p => get .N A p.1 p.2)
  pure l.toArray

/-! ### block_concatenate.rs -/

/-- `hvcat_dim_check` (shared with the CSC implementation; `false` = `IncompatibleDimension`) -/
def hvcatDimCheck (mats : List (List (Dense α))) : Bool :=
  match mats with
  | [] => false
  | r0 :: rest =>
    if r0.isEmpty then false
    else if rest.any (fun br => br.length != r0.length) then false
    else if mats.any (fun br => match br with
        | [] => false
        | b0 :: bs => bs.any (fun b => b.m != b0.m)) then false
    else if (List.range r0.length).any (fun k =>
        rest.any (fun br => (br[k]?.map (·.n)) != (r0[k]?.map (·.n)))) then false
    else true

/-- `hvcat`: for every block column, for every column of it, the column slices of the blocks
from top to bottom; `Matrix::new((nrows, ncols), data)` -/
def hvcat (mats : List (List (Dense α))) : MErr (Dense α) :=
  if !hvcatDimCheck mats then throw (.err "IncompatibleDimension") else
  match mats with
  | [] => throw (.err "IncompatibleDimension")
  | r0 :: _ => do
    let nrows := (mats.map (fun br => match br with
      | [] => 0
      | b0 :: _ => b0.m)).foldl (· + ·) 0
    let ncols := (r0.map (·.n)).foldl (· + ·) 0
    let pieces ← ((r0.zipIdx).flatMap (fun bk =>
        (List.range bk.1.n).flatMap (fun col =>
          mats.map (fun br => (br[bk.2]?, col))))).mapM (fun q =>
      match q.1 with
      | some b => colSlice b q.2
      | none => throw (.panic "blockrow[blockcolidx]"))
    new nrows ncols (pieces.map Array.toList).flatten.toArray

/-- `hcat` -/
def hcat (A B : Dense α) : MErr (Dense α) := hvcat [[A, B]]

/-- `vcat` -/
def vcat (A B : Dense α) : MErr (Dense α) := hvcat [[A], [B]]

/-- `blockdiag`: zeros, then every column of every block copied to
`index_linear((blockrow, blockcol + col)) ..+ block.nrows()` -/
def blockdiag [OfNat α 0] (mats : List (Dense α)) : MErr (Dense α) :=
  if mats.isEmpty then throw (.err "IncompatibleDimension") else do
    let nrows := (mats.map (·.m)).foldl (· + ·) 0
    let ncols := (mats.map (·.n)).foldl (· + ·) 0
    let roffs := (List.range mats.length).map (fun k => ((mats.map (·.m)).take k).foldl (· + ·) 0)
    let coffs := (List.range mats.length).map (fun k => ((mats.map (·.n)).take k).foldl (· + ·) 0)
    let ws ← ((mats.zip (roffs.zip coffs)).flatMap (fun (q : Dense α × Nat × Nat) =>
        (List.range q.1.n).map (fun col => ((q.1, col, q.2.1 + nrows * (q.2.2 + col)) : Dense α × Nat × Nat)))).mapM (fun (q : Dense α × Nat × Nat) => do
      let s ← colSlice q.1 q.2.1
      -- `M.data[range].copy_from_slice(..)`: the range must lie inside the data
      if q.2.2 + q.1.m > nrows * ncols then throw (.panic "blockdiag: range")
      pure ((s.toList.zipIdx).map (fun e => (q.2.2 + e.2, e.1))))
    let d ← applyWrites (Array.replicate (nrows * ncols) 0) ws.flatten
    pure ⟨nrows, ncols, d⟩

/-! ### kron.rs -/

/-- `K.kron(A, B)`: `assert!(K.nrows == pp*rr)`, `assert!(K.ncols == qq*ss)`, then the entries
`A[(p, q)] * B[(r, s)]` are written to `data[0], data[1], …` in the order `q, s, p, r`
(= column-major order of the `pp·rr × qq·ss` result: entry `(p·rr + r, q·ss + s)`).
`A[(p, q)]` is read once per `(q, s, p)`, also when `B` has no rows. -/
def kron [Mul α] (K : Dense α) (va : DView) (A : Dense α) (vb : DView) (B : Dense α) : MErr (Dense α) := do
  let pp := nrowsV va A
  let qq := ncolsV va A
  let rr := nrowsV vb B
  let ss := ncolsV vb B
  if K.m != pp * rr then throw (.panic "kron: assert nrows")
  if K.n != qq * ss then throw (.panic "kron: assert ncols")
  if ss > 0 then
    let _ ← tabulate pp qq (fun p q => get va A p q)
  let vals ← tabulate (pp * rr) (qq * ss) (fun row col => do
    let a ← get va A (row / rr) (col / ss)
    let b ← get vb B (row % rr) (col % ss)
    pure (a * b))
  if vals.size > K.data.size then throw (.panic "kron: data[i]")
  pure { K with data := (vals.toList ++ K.data.toList.drop vals.size).toArray }

/-! ### matrix_math.rs -/

section
variable [Add α] [Mul α] [OfNat α 0]

/-- `col_sums`: `assert_eq!(ncols, sums.len())`, `sums[col] = col_slice(col).sum()` -/
def colSums (A : Dense α) (sums : Array α) : MErr (Array α) := do
  if A.n != sums.size then throw (.panic "col_sums: assert_eq")
  let l ← (List.range A.n).mapM (fun c => do
    let s ← colSlice A c
    pure (Vec.sum s))
  pure l.toArray

/-- `row_sums`: `assert_eq!(nrows, sums.len())`, zero fill, then column by column
`sums[row] += v` (per row: the left fold over the columns) -/
def rowSums (A : Dense α) (sums : Array α) : MErr (Array α) := do
  if A.m != sums.size then throw (.panic "row_sums: assert_eq")
  let cols ← (List.range A.n).mapM (fun c => colSlice A c)
  pure ((List.range A.m).map (fun r =>
    cols.foldl (fun acc s => match s[r]? with
      | some v => acc + v
      | none => acc) 0)).toArray

/-- `quad_form(y, x)`: `assert!(is_square)`, upper triangle only -/
def quadForm (A : Dense α) (y x : Array α) : MErr α := do
  if A.m != A.n then throw (.panic "quad_form: assert is_square")
  (List.range A.n).foldlM (fun (out : α) col => do
    let (o, t1, t2) ← (List.range (col + 1)).foldlM (fun (st : α × α × α) row => do
      let mv ← get .N A row col
      if row < col then do
        let xr ← getE x row "x[row]"
        let yr ← getE y row "y[row]"
        pure (st.1, st.2.1 + mv * xr, st.2.2 + mv * yr)
      else do
        let xc ← getE x col "x[col]"
        let yc ← getE y col "y[col]"
        pure (st.1 + mv * xc * yc, st.2.1, st.2.2)) (out, (0 : α), (0 : α))
    let yc ← getE y col "y[col]"
    let xc ← getE x col "x[col]"
    pure (o + (t1 * yc + t2 * xc))) 0

/-- `scale` -/
def scale (A : Dense α) (c : α) : Dense α := { A with data := Vec.scale A.data c }

/-- `lscale(l)`: `col_slice_mut(col).hadamard(l)` for every column (the zip stops at the
shorter of the column and `l`) -/
def lscale (A : Dense α) (l : Array α) : MErr (Dense α) := do
  if A.n > 0 ∧ A.n * A.m > A.data.size then throw (.panic "col_slice_mut: range")
  pure { A with data := ((A.data.toList.zipIdx).map (fun e =>
    if e.2 < A.m * A.n then
      match l[e.2 % A.m]? with
      | some li => e.1 * li
      | none => e.1
    else e.1)).toArray }

/-- `rscale(r)`: `col_slice_mut(col).scale(r[col])` for `col in 0..r.len()` -/
def rscale (A : Dense α) (r : Array α) : MErr (Dense α) := do
  if r.size > A.n then throw (.panic "col_slice_mut: assert col < n")
  if r.size * A.m > A.data.size then throw (.panic "col_slice_mut: range")
  pure { A with data := ((A.data.toList.zipIdx).map (fun e =>
    if A.m > 0 then
      match r[e.2 / A.m]? with
      | some rj => e.1 * rj
      | none => e.1
    else e.1)).toArray }

/-- `lrscale(l, r)`: `self[(i, j)] *= l[i] * r[j]` for `i in 0..m`, `j in 0..n` -/
def lrscale (A : Dense α) (l r : Array α) : MErr (Dense α) := do
  let vals ← tabulate A.m A.n (fun i j => do
    let li ← getE l i "l[i]"
    let rj ← getE r j "r[j]"
    let a ← get .N A i j
    pure (a * (li * rj)))
  pure { A with data := (vals.toList ++ A.data.toList.drop vals.size).toArray }

end

/-- `negate` -/
def negate [Neg α] (A : Dense α) : Dense α := { A with data := Vec.negate A.data }

section
variable [Add α] [Sub α] [Mul α] [Div α] [OfNat α 0] [OfNat α 1] [LT α] [DecidableLT α] [FloatLike α]

/-- `col_norms_no_reset`: for `(i, norm)` in `norms`: `norm = max(norm, col_slice(i).norm_inf())` -/
def colNormsNoReset (A : Dense α) (norms : Array α) : MErr (Array α) := do
  let l ← (norms.toList.zipIdx).mapM (fun e => do
    let s ← colSlice A e.2
    pure (fmax e.1 (Vec.normInf s)))
  pure l.toArray

/-- `col_norms`: zero fill + `col_norms_no_reset` -/
def colNorms (A : Dense α) (norms : Array α) : MErr (Array α) :=
  colNormsNoReset A (norms.map (fun _ => 0))

/-- `col_norms_sym_no_reset`: for `c in 0..ncols`, `r in 0..=c`: `tmp = self[(r, c)]`,
`norms[r] = max(norms[r], tmp)`, `norms[c] = max(norms[c], tmp)` — NB no absolute value is
taken (the CSC twin takes `abs`) -/
def colNormsSymNoReset (A : Dense α) (norms : Array α) : MErr (Array α) :=
  (upperPositions A.n).foldlM (fun (nm : Array α) p => do
    let tmp ← get .N A p.1 p.2
    let nr ← getE nm p.1 "norms[r]"
    let nm ← setE nm p.1 (fmax nr tmp) "norms[r]"
    let nc ← getE nm p.2 "norms[c]"
    setE nm p.2 (fmax nc tmp) "norms[c]") norms

/-- `col_norms_sym` -/
def colNormsSym (A : Dense α) (norms : Array α) : MErr (Array α) :=
  colNormsSymNoReset A (norms.map (fun _ => 0))

/-- `row_norms_no_reset`: for `r in 0..m`, `c in 0..n`: `norms[r] = max(norms[r], |self[(r, c)]|)` -/
def rowNormsNoReset (A : Dense α) (norms : Array α) : MErr (Array α) :=
  (List.range (A.m * A.n)).foldlM (fun (nm : Array α) k => do
    let r := k / A.n
    let c := k % A.n
    let nr ← getE nm r "norms[r]"
    let v ← get .N A r c
    setE nm r (fmax nr (fabs v)) "norms[r]") norms

/-- `row_norms` -/
def rowNorms (A : Dense α) (norms : Array α) : MErr (Array α) :=
  rowNormsNoReset A (norms.map (fun _ => 0))

/-- `(0.5).as_T()` -/
@[inline] def half : α := 1 / (1 + 1)

/-- `T::FRAC_1_SQRT_2()` (the correctly rounded `sqrt(1/2)`) -/
@[inline] def isqrt2 : α := sqrt (1 / (1 + 1))

/-- the strictly-lower pairs `(r, c)`, `c < r`, rows outer -/
def lowerPairs (m : Nat) : List (Nat × Nat) :=
  (List.range m).flatMap (fun r => (List.range r).map (fun c => (r, c)))

/-- `symmetric_part`: `assert!(is_square)`; for `r`, `c < r`:
`val = 0.5 * (self[(r,c)] + self[(c,r)])` written to both -/
def symmetricPart (A : Dense α) : MErr (Dense α) := do
  if A.m != A.n then throw (.panic "symmetric_part: assert is_square")
  let ws ← (lowerPairs A.m).mapM (fun p => do
    let x ← get .N A p.1 p.2
    let y ← get .N A p.2 p.1
    let v : α := half * (x + y)
    pure [(p.2 + A.m * p.1, v), (p.1 + A.m * p.2, v)])
  let d ← applyWrites A.data ws.flatten
  pure { A with data := d }

/-- `svec_to_mat(M, x)` -/
def svecToMat (A : Dense α) (x : Array α) : MErr (Dense α) := do
  let ws ← ((upperPositions A.n).zipIdx).mapM (fun q => do
    let xi ← getE x q.2 "x[idx]"
    let (row, col) := q.1
    if row == col then pure [(row + A.m * col, xi)]
    else pure [(row + A.m * col, xi * isqrt2), (col + A.m * row, xi * isqrt2)])
  -- the reads of `x` and the writes interleave in the Rust loop; `x` is not written
  let d ← applyWrites A.data ws.flatten
  pure { A with data := d }

/-- `mat_to_svec(x, M)` (`M` any view) -/
def matToSvec (x : Array α) (v : DView) (A : Dense α) : MErr (Array α) := do
  let ws ← ((upperPositions (ncolsV v A)).zipIdx).mapM (fun q => do
    let (row, col) := q.1
    let a ← get v A row col
    if row == col then pure (q.2, a)
    else do
      let b ← get v A col row
      pure (q.2, (a + b) * isqrt2))
  applyWrites x ws

end

/-! ### BLAS wrappers (blas/gemm.rs, gemv.rs, symv.rs, syrk.rs, syr2k.rs)

The Fortran routine receives the raw buffer and a leading dimension and does no bounds
check; a buffer shorter than the dimensions say is undefined behaviour in the Rust code
(only `BorrowedMatrix::from_slice` can produce one).  The model answers `err ub` there and
the harness never sends such a request. -/

section
variable [Add α] [Mul α] [OfNat α 0] [BEq α]

/-- entry `(i, l)` of `op(A)` as BLAS reads it from the buffer: `trans` = `shape()`
(`N` for the matrix and for `sym()`, `T` for `t()`), `lda` = `A.nrows()` of the view for `N`
and `A.ncols()` of the view for `T` -/
def blasElem (v : DView) (A : Dense α) (i l : Nat) : α := match v with
  | .N => A.data.getD (i + A.m * l) 0
  | .T => A.data.getD (l + A.m * i) 0
  | .S => A.data.getD (i + A.n * l) 0

/-- `Σ_l f l` as the reference loop accumulates it (`l = 0, 1, …`) -/
def dotN (k : Nat) (f : Nat → α) : α := (List.range k).foldl (fun acc l => acc + f l) 0

/-- `alpha * acc + beta * c`, with the BLAS rule that `c` is not read when `beta == 0` -/
def axpbyBlas (a acc b c : α) : α := if b == 0 then a * acc else a * acc + b * c

/-- `C.mul(A, B, α, β)`: `C = α·op(A)·op(B) + β·C` -/
def mul (C : Dense α) (va : DView) (A : Dense α) (vb : DView) (B : Dense α) (a b : α) :
    MErr (Dense α) := do
  if !(ncolsV va A == nrowsV vb B && C.m == nrowsV va A && C.n == ncolsV vb B) then
    throw (.panic "gemm: assert dims")
  if C.m == 0 || C.n == 0 then return C
  if !(wf A && wf B && wf C) then throw (.err "ub")
  let k := ncolsV va A
  pure { C with data := tab C.m C.n (fun i j =>
    axpbyBlas a (dotN k (fun l => blasElem va A i l * blasElem vb B l j)) b (C.data.getD (i + C.m * j) 0)) }

/-- `gemv` (`A` itself or its `t()`): the asserts of `_gemv`, then `?gemv`.  BLAS returns at
once when `m == 0` or `n == 0` (`y` is NOT scaled by `β` then). -/
def gemv (v : DView) (A : Dense α) (x y : Array α) (a b : α) : MErr (Array α) := do
  let t := shapeIsT v
  if !t && !(A.n == x.size && A.m == y.size) then throw (.panic "gemv: assert N")
  if t && !(A.m == x.size && A.n == y.size) then throw (.panic "gemv: assert T")
  if A.m == 0 || A.n == 0 then return y
  if !(wf A) then throw (.err "ub")
  let k := if t then A.m else A.n
  pure ((y.toList.zipIdx).map (fun e =>
    axpbyBlas a (dotN k (fun l => (if t then A.data.getD (l + A.m * e.2) 0 else A.data.getD (e.2 + A.m * l) 0)
      * x.getD l 0)) b e.1)).toArray

/-- the symmetric matrix `?symv` / `?syrk('U')` see: upper triangle of the `n × n` buffer -/
def symElem (A : Dense α) (n i l : Nat) : α :=
  if i ≤ l then A.data.getD (i + n * l) 0 else A.data.getD (l + n * i) 0

/-- `A.sym().symv(x, y, α, β)`: `assert!(m == n)` only; `x`, `y` are handed to BLAS unchecked -/
def symv (A : Dense α) (x y : Array α) (a b : α) : MErr (Array α) := do
  if A.m != A.n then throw (.panic "symv: assert m == n")
  let n := A.m
  if n == 0 then return y
  if !(wf A) || x.size != n || y.size != n then throw (.err "ub")
  pure ((y.toList.zipIdx).map (fun e =>
    axpbyBlas a (dotN n (fun l => symElem A n e.2 l * x.getD l 0)) b e.1)).toArray

/-- `C.syrk(A, α, β)`: upper triangle of `C = α·A·Aᵀ + β·C` (`A` any view).  With `A` a `t()`
view that has no columns (`k = 0`) the wrapper passes `lda = 0`, BLAS rejects the call and `C`
is left as it was. -/
def syrk (C : Dense α) (va : DView) (A : Dense α) (a b : α) : MErr (Dense α) := do
  if C.m != nrowsV va A then throw (.panic "syrk: assert nrows")
  if C.n != nrowsV va A then throw (.panic "syrk: assert ncols")
  if C.m == 0 then return C
  let k := ncolsV va A
  if shapeIsT va && k == 0 then return C
  if !(wf A && wf C) then throw (.err "ub")
  pure { C with data := tab C.m C.n (fun i j =>
    let c := C.data.getD (i + C.m * j) 0
    if i ≤ j then axpbyBlas a (dotN k (fun l => blasElem va A i l * blasElem va A j l)) b c else c) }

/-- `C.syr2k(A, B, α, β)`: upper triangle of `C = α·(A·Bᵀ + B·Aᵀ) + β·C` -/
def syr2k (C A B : Dense α) (a b : α) : MErr (Dense α) := do
  if C.m != A.m then throw (.panic "syr2k: assert A.nrows")
  if C.m != B.m then throw (.panic "syr2k: assert B.nrows")
  if C.n != B.m then throw (.panic "syr2k: assert ncols")
  if A.n != B.n then throw (.panic "syr2k: assert k")
  if C.m == 0 then return C
  if !(wf A && wf B && wf C) then throw (.err "ub")
  pure { C with data := tab C.m C.n (fun i j =>
    let c := C.data.getD (i + C.m * j) 0
    if i ≤ j then
      axpbyBlas a (dotN A.n (fun l => blasElem .N A i l * blasElem .N B j l + blasElem .N B i l * blasElem .N A j l)) b c
    else c) }

end

/-! ### LAPACK wrappers (blas/cholesky.rs, syevr.rs, svd.rs, lu.rs)

Only the Rust around the Fortran call is modelled; what the routine returns is a parameter.
The wrappers pass `lda = n`, so an empty matrix violates LAPACK's `lda ≥ max(1, n)` and the
routine reports the argument number as a negative `info` before doing anything. -/

/-- what `?potrf('L', n, a, n)` leaves behind: `info` and the buffer -/
structure PotrfOut (α : Type) where
  info : Int
  buf : Array α

/-- the writes that copy `triu(A)` into `tril(L)`: `L[(i, j)] = A.t()[(i, j)]`, `j ≤ i < n` -/
def cholCopyWrites (n : Nat) (A : Dense α) : MErr (List (Nat × α)) :=
  ((List.range n).flatMap (fun j => (List.range (n - j)).map (fun k => (j + k, j)))).mapM (fun p => do
    let x ← get .T A p.1 p.2
    pure (p.1 + n * p.2, x))

/-- `CholeskyEngine::factor`: returns the engine's `L` afterwards and the result -/
def cholFactor (L A : Dense α) (potrf : Array α → PotrfOut α) : MErr (Dense α × Option FactErr) := do
  if L.m != L.n then throw (.err "engine not square")
  if (A.m, A.n) != (L.m, L.n) then return (L, some .incompatibleDimension)
  let n := L.m
  let ws ← cholCopyWrites n A
  let pre ← applyWrites L.data ws
  -- lda = n = 0 is an illegal argument (number 4)
  if n == 0 then return ({ L with data := pre }, some (.cholesky (-4)))
  let out := potrf pre
  if out.buf.size != pre.size then throw (.err "potrf: buffer size")
  pure ({ L with data := out.buf }, if out.info != 0 then some (.cholesky out.info) else none)

/-- the abstraction of `?potrf('L')` used by the correspondence channel: `info` and the lower
triangle as observed on the implementation, the strictly upper triangle not referenced -/
def potrfObserved (n : Nat) (info : Int) (res : Array α) (pre : Array α) : PotrfOut α :=
  ⟨info, ((pre.toList.zipIdx).map (fun e =>
    if e.2 % n ≥ e.2 / n then (match res[e.2]? with
      | some v => v
      | none => e.1) else e.1)).toArray⟩

/-- `CholeskyEngine::solve(B)`: `?potrs('L', n, nrhs, L, n, B, B.nrows)` and
`assert_eq!(info, 0)`; the argument checks fail (→ panic) for `n = 0` (`lda`) and for
`B.nrows < n` (`ldb`) -/
def cholSolve (L B : Dense α) (potrs : Array α → Array α) : MErr (Dense α) := do
  if L.m == 0 then throw (.panic "potrs: info -5")
  if B.m < L.m then throw (.panic "potrs: info -7")
  if !(wf L && wf B) then throw (.err "ub")
  let out := potrs B.data
  if out.size != B.data.size then throw (.err "potrs: buffer size")
  pure { B with data := out }

/-- `CholeskyEngine::logdet`: `ld = Σ ln(L[(i,i)])` (left fold), returns `ld + ld` -/
def cholLogdet [Add α] [OfNat α 0] [FloatLike α] (L : Dense α) : MErr α := do
  let ld ← (List.range L.m).foldlM (fun (acc : α) i => do
    let v ← get .N L i i
    pure (acc + log v)) 0
  pure (ld + ld)

/-- `EigEngine` state that the wrapper logic touches -/
structure EigEngine (α : Type) where
  lam : Array α
  V : Option (Dense α)
  isuppzLen : Nat
  workLen : Nat
  iworkLen : Nat

/-- what the two `?syevr` calls return: `info`, `a`, `w`, `z` and the requested work sizes -/
structure SyevrOut (α : Type) where
  info : Int
  a : Array α
  w : Array α
  z : Array α
  lwork : Nat
  liwork : Nat

/-- `EigEngine::new` -/
def eigNew [OfNat α 0] (n : Nat) : EigEngine α := ⟨Array.replicate n 0, none, 2 * n, 1, 1⟩

/-- `EigEngine::syevr(A, jobz)` (`eigvals`: `wantV = false`, `eigen`: `wantV = true`) -/
def eigSyevr [OfNat α 0] (E : EigEngine α) (A : Dense α) (wantV : Bool)
    (syevr : Array α → SyevrOut α) : MErr (EigEngine α × Dense α × Option FactErr) := do
  if !(A.m == A.n) || A.m != E.lam.size then return (E, A, some .incompatibleDimension)
  let n := A.m
  let E := if wantV && E.V.isNone then { E with V := some (zeros n n) } else E
  -- lda = n = 0 is an illegal argument (number 6), reported by the workspace query
  if n == 0 then return (E, A, some (.eigen (-6)))
  if !(wf A) then throw (.err "ub")
  let out := syevr A.data
  if out.a.size != A.data.size || out.w.size != E.lam.size then throw (.err "syevr: buffer size")
  let E := { E with workLen := out.lwork, iworkLen := out.liwork, lam := out.w }
  let E := match E.V with
    | some V => if wantV then { E with V := some { V with data := out.z } } else E
    | none => E
  pure (E, { A with data := out.a }, if out.info != 0 then some (.eigen out.info) else none)

/-- `SVDEngine` state -/
structure SvdEngine (α : Type) where
  s : Array α
  U : Dense α
  Vt : Dense α
  qr : Bool
  workLen : Nat
  iworkLen : Nat

/-- what the two `?gesdd` / `?gesvd` calls return -/
structure GesvdOut (α : Type) where
  info : Int
  a : Array α
  s : Array α
  u : Array α
  vt : Array α
  lwork : Nat

/-- `SVDEngine::new` -/
def svdNew [OfNat α 0] (m n : Nat) : SvdEngine α :=
  ⟨Array.replicate (min m n) 0, zeros m (min m n), zeros (min m n) n, false, 1, 1⟩

/-- `SVDEngine::resize` -/
def svdResize [OfNat α 0] (E : SvdEngine α) (m n : Nat) : SvdEngine α :=
  { E with s := (E.s.toList.take (min m n) ++ List.replicate (min m n - E.s.size) 0).toArray,
           U := resize E.U m (min m n), Vt := resize E.Vt (min m n) n }

/-- `SVDEngine::factor` -/
def svdFactor (E : SvdEngine α) (A : Dense α) (gesvd : Array α → GesvdOut α) :
    MErr (SvdEngine α × Dense α × Option FactErr) := do
  let m := A.m
  let n := A.n
  if E.U.m != m || E.Vt.n != n then return (E, A, some .incompatibleDimension)
  -- iwork.resize(8 * min(m, n)) happens before the first call (divide and conquer only)
  let E := if !E.qr then { E with iworkLen := 8 * min m n } else E
  -- illegal arguments: lda = m = 0 (argument 5 of gesdd, 6 of gesvd); ldvt = min(m,n) = 0
  -- (argument 10 of gesdd, 11 of gesvd)
  if m == 0 then return (E, A, some (.svd (if E.qr then -6 else -5)))
  if n == 0 then return (E, A, some (.svd (if E.qr then -11 else -10)))
  if !(wf A && wf E.U && wf E.Vt) || E.s.size != min m n then throw (.err "ub")
  let out := gesvd A.data
  if out.a.size != A.data.size || out.s.size != E.s.size || out.u.size != E.U.data.size
      || out.vt.size != E.Vt.data.size then throw (.err "gesvd: buffer size")
  let E := { E with workLen := out.lwork, s := out.s, U := { E.U with data := out.u },
                    Vt := { E.Vt with data := out.vt } }
  pure (E, { A with data := out.a }, if out.info != 0 then some (.svd out.info) else none)

/-- `SVDEngine::solve(B)`: `B ← V·Σ⁺·Uᵀ·B` with the singular values below
`eps·|s[0]|·k` treated as zero (two `gemm` calls with `β = 0`) -/
def svdSolve [Add α] [Mul α] [Div α] [OfNat α 0] [OfNat α 1] [BEq α] [LT α] [DecidableLT α] [FloatLike α]
    (E : SvdEngine α) (B : Dense α) : MErr (Dense α) := do
  let m := E.U.m
  let n := E.Vt.n
  let k := min m n
  if m != n then throw (.panic "svd solve: assert_eq m n")
  if B.m != m then throw (.panic "svd solve: assert_eq B.nrows")
  let nrhs := B.n
  -- the engine keeps `s.len() == min(m, n)`; otherwise `zip(sinv, s)` leaves stale work values
  if E.s.size != k then throw (.err "unmodelled: s.len != k")
  let s0 ← getE E.s 0 "s[0]"
  let tol : α := FloatLike.eps * fabs s0 * FloatLike.ofNat k
  -- `work.resize(k + k*nrhs)`, `C = BorrowedMatrixMut(workC, k, nrhs)`; `mul` with β = 0 does not read it
  let C ← mul ⟨k, nrhs, Array.replicate (k * nrhs) 0⟩ .T E.U .N B 1 0
  let sinv := (E.s.toList.take k).map (fun s => if tol < fabs s then 1 / fabs s else 0)
  let C ← lscale C sinv.toArray
  mul B .T E.Vt .N C 1 0

/-- what `?gesv` returns -/
structure GesvOut (α : Type) where
  info : Int
  a : Array α
  b : Array α
  ipiv : Array Int

/-- `LuSolver::lusolve(A, B)`: returns `A`, `B`, `ipiv` afterwards and the result -/
def luSolve (A B : Dense α) (ipiv : Array Int) (gesv : Array α → Array α → GesvOut α) :
    MErr (Dense α × Dense α × Array Int × Option FactErr) := do
  if !(A.m == A.n) || A.n != B.m then return (A, B, ipiv, some .incompatibleDimension)
  let n := A.m
  -- `ipiv.resize(n, 0)`
  let ipiv := (ipiv.toList.take n ++ List.replicate (n - ipiv.size) 0).toArray
  -- lda = n = 0 is an illegal argument (number 4)
  if n == 0 then return (A, B, ipiv, some (.lu (-4)))
  if !(wf A && wf B) then throw (.err "ub")
  let out := gesv A.data B.data
  if out.a.size != A.data.size || out.b.size != B.data.size || out.ipiv.size != n then
    throw (.err "gesv: buffer size")
  pure ({ A with data := out.a }, { B with data := out.b }, out.ipiv,
    if out.info != 0 then some (.lu out.info) else none)

end Dense
end Clarabel
