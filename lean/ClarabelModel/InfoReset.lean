/-
  Model of `DefaultInfo::reset` and of the `iterations` half of `DefaultInfo::save_scalars`
  (`src/solver/implementations/default/info.rs`), kept in a file of its own so that the shared
  `Info.lean` is not rebuilt.  `solve_time`, `μ`, `σ`, `step_length` live outside `InfoS`.
  The whole-solver model (`Solver/Solve.lean`, `runSolve`) inlines the same record update.
-/
import ClarabelModel.Info

namespace Clarabel
namespace Info

variable {α : Type}

/-- `DefaultInfo::reset`: `status = Unsolved`, `iterations = 0` (and `solve_time = 0`, the
"solve" timer); every other field is left as the previous solve wrote it -/
def reset (i : InfoS α) : InfoS α := { i with status := .unsolved, iterations := 0 }

/-- `DefaultInfo::save_scalars`, the field of `InfoS` it writes -/
def saveScalars (i : InfoS α) (iter : Nat) : InfoS α := { i with iterations := iter }

end Info
end Clarabel
