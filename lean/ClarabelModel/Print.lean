/-
  Output routing and log rendering.

  Rust anchors
    src/io/mod.rs                                      `PrintTarget`, its `Write` impl, `Clone`,
                                                       `ConfigurablePrintTarget`
    src/solver/implementations/default/info_print.rs  `print_configuration`, `print_status_header`,
                                                       `print_status`, `print_footer`,
                                                       `_print_conedims_by_type`, `_exp_str_reformat`
    src/solver/core/solver.rs                          `_print_banner` and the call sites in `solve()`

  Not modelled: the OS side of stdout / files, Rust's float formatting (`{:e}`): the table
  cells enter as already formatted strings.

  Continued in `PrintWrite.lean` (`impl Write for PrintTarget` over sinks that answer short
  counts / `Interrupted` / errors; `write_all`) and `PrintHeader.lean` (`print_configuration`
  with `print_settings` and the chordal block, `print_status_header`, `print_footer`, the
  banner, the whole log of a solve; float formatting as a parameter).

  Imports only `ClarabelModel.Loop` (the event order comes from the loop skeleton).
-/
import ClarabelModel.Loop

namespace Clarabel
namespace Print
open Loop

abbrev Bytes := List UInt8

/-- `io::PrintTarget`; every variant carries the bytes its sink has received so far -/
inductive PrintTarget where
  | stdout (b : Bytes)
  | file (b : Bytes)
  | buffer (b : Bytes)
  | stream (b : Bytes)
  | sink
  deriving Repr, DecidableEq

/-- `impl Write for PrintTarget`: every variant forwards the whole slice to its sink -/
def PrintTarget.write : PrintTarget → Bytes → PrintTarget
  | .stdout b, x => .stdout (b ++ x)
  | .file b, x => .file (b ++ x)
  | .buffer b, x => .buffer (b ++ x)
  | .stream b, x => .stream (b ++ x)
  | .sink, _ => .sink

/-- bytes that reached the sink of the target -/
def PrintTarget.delivered : PrintTarget → Bytes
  | .stdout b | .file b | .buffer b | .stream b => b
  | .sink => []

/-- `get_print_buffer` -/
def PrintTarget.getPrintBuffer : PrintTarget → MErr Bytes
  | .buffer b => pure b
  | _ => throw (.err "Print-buffering-is-not-configured")

/-- `impl Clone`: an arbitrary stream cannot be cloned and becomes a sink -/
def PrintTarget.clone : PrintTarget → PrintTarget
  | .stream _ => .sink
  | t => t

/-- the print calls of one `solve()`, in program order -/
inductive Event (α : Type) where
  | banner
  | configuration
  | statusHeader
  | status (r : Row α)
  | footer (s : Status)

/-- how events become bytes (float formatting etc. is not modelled) -/
structure Renderer (α : Type) where
  render : Event α → Bytes

/-- every `print_*` function (and `_print_banner`) starts with
`if !settings.verbose { return Ok(()) }` and otherwise writes to `self.stream` only -/
def printEvent {α : Type} (verbose : Bool) (R : Renderer α) (t : PrintTarget) (e : Event α) : PrintTarget :=
  if !verbose then t else t.write (R.render e)

def runEvents {α : Type} (verbose : Bool) (R : Renderer α) (t : PrintTarget) (es : List (Event α)) : PrintTarget :=
  es.foldl (printEvent verbose R) t

/-- the print calls `solve()` makes, given the rows the loop produced.  (The rows of a
`Result` already include the extra line printed when the loop ends with `α = 0`.) -/
def eventsOf {α : Type} (rows : List (Row α)) (final : Status) : List (Event α) :=
  [.banner, .configuration, .statusHeader] ++ rows.map .status ++ [.footer final]

/-! ### `_exp_str_reformat` -/

/-- `str::find(c)` on ASCII text -/
def findChar (c : Char) : List Char → Option Nat
  | [] => none
  | x :: xs => if x = c then some 0 else (findChar c xs).map (· + 1)

/-- `_exp_str_reformat`: always a sign after `e`, at least two exponent digits.
`unwrap()` sites are modelled as panics. -/
def expStrReformat (s : List Char) : MErr (List Char) :=
  match findChar 'e' s with
  | none => throw (.panic "unwrap:find-e")
  | some eidx =>
    match s[eidx + 1]? with
    | none => throw (.panic "unwrap:nth")
    | some c =>
      let hasSign := c = '-'
      let hasShortExp := if !hasSign then s.length = eidx + 2 else s.length = eidx + 3
      let chars : List Char :=
        if !hasSign then (if hasShortExp then ['+', '0'] else ['+'])
        else if hasShortExp then ['0'] else []
      let shift := if hasSign then 2 else 1
      pure (s.take (eidx + shift) ++ chars ++ s.drop (eidx + shift))

/-! ### `print_status` -/

/-- `{:>w}` for text shorter than `w` -/
def padLeft (w : Nat) (s : String) : String :=
  String.ofList (List.replicate (w - s.length) ' ') ++ s

/-- one table row from the iteration count and the eight formatted cells
(`pcost dcost gap pres dres k/t μ step`) -/
def statusLine (iterations : Nat) (cells : Array String) : MErr String := do
  if cells.size ≠ 8 then throw (.err "cells")
  let mut s := padLeft 3 (toString iterations) ++ "  "
  for c in cells.toList.take 7 do
    s := s ++ c ++ "  "
  if iterations > 0 then
    s := s ++ cells[7]! ++ "  "
  else
    s := s ++ " ------   "
  pure (s ++ "\n")

/-- the two fixed lines of `print_footer` that do not depend on the clock -/
def footerHead (s : Status) : String :=
  "---------------------------------------------------------------------------------------------\n"
    ++ "Terminated with status = " ++ s.toString ++ "\n"

/-- `_bool_on_off` (sic: `false` is rendered as "false") -/
def boolOnOff : Bool → String
  | true => "on"
  | false => "false"

/-! ### `_print_conedims_by_type` -/

inductive Tag where
  | Zero | Nonnegative | SecondOrder | Exponential | Power | GenPower | PSDTriangle
  deriving DecidableEq, Repr

/-- `as_str()` with the trailing "Cone" dropped -/
def Tag.name : Tag → String
  | .Zero => "Zero" | .Nonnegative => "Nonnegative" | .SecondOrder => "SecondOrder"
  | .Exponential => "Exponential" | .Power => "Power" | .GenPower => "GenPower"
  | .PSDTriangle => "PSDTriangle"

def Tag.ofIndex : Nat → Option Tag
  | 0 => some .Zero | 1 => some .Nonnegative | 2 => some .SecondOrder | 3 => some .Exponential
  | 4 => some .Power | 5 => some .GenPower | 6 => some .PSDTriangle | _ => none

/-- the `numel`s of the cones carrying `tag`, in order -/
def nvarsOf (cones : List (Tag × Nat)) (tag : Tag) : List Nat :=
  (cones.filter (fun c => c.1 = tag)).map (·.2)

/-- the text written for one cone type (`maxlistlen = 5`) -/
def printConedimsByType (cones : List (Tag × Nat)) (tag : Tag) : String :=
  let nvars := nvarsOf cones tag
  let count := nvars.length
  if count = 0 then "" else
  let head := "    : " ++ padLeft 11 tag.name ++ " = " ++ toString count ++ ", "
  let last := toString (nvars.getLast?.getD 0)
  let body :=
    if count = 1 then " numel = " ++ last
    else if count ≤ 5 then
      " numel = (" ++ String.join ((nvars.take (count - 1)).map (fun v => toString v ++ ",")) ++ last ++ ")"
    else
      " numel = (" ++ String.join ((nvars.take 4).map (fun v => toString v ++ ",")) ++ "...," ++ last ++ ")"
  head ++ body ++ "\n"

end Print
end Clarabel
