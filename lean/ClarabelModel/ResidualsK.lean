/-
  `DefaultResiduals::update` once more, this time calling the CSC kernels of
  `ClarabelModel/CscMath.lean` (`Csc.gemvN`, `Csc.gemvT`, `Csc.symv` — the models of
  `_csc_axpby_N`, `_csc_axpby_T`, `_csc_symv_unsafe` that C16's theorems
  `gemvN_spec`/`gemvT_spec`/`symv_spec` are about and that C16's channels tie to the code)
  instead of the private imperative copies in `Residuals.lean`.

  Everything else is `Residuals.update` verbatim.  The channel `residuals.update_k` of
  C01/C02 compares this function bit-for-bit with the Rust `DefaultResiduals::update` on
  the same requests as `residuals.update`; C01/C02's end-to-end theorems are stated about it.
-/
import ClarabelModel.Scalar
import ClarabelModel.Vec
import ClarabelModel.Csc
import ClarabelModel.CscMath
import ClarabelModel.Residuals

namespace Clarabel
namespace Residuals

variable {α : Type}
variable [Add α] [Sub α] [Mul α] [Div α] [Neg α] [OfNat α 0] [OfNat α 1] [BEq α]

/-- `DefaultResiduals::update` with C16's kernels. -/
def updateK (r : Resid α) (v : Vars α) (d : Data α) : MErr (Resid α) := do
  let qx := Vec.dot d.q v.x
  let bz := Vec.dot d.b v.z
  let sz := Vec.dot v.s v.z
  let Px ← Csc.symv d.P r.Px v.x 1 0
  let xPx := Vec.dot v.x Px
  let rx_inf ← Csc.gemvT d.A r.rx_inf v.z (-1) 0
  -- `copy_from_slice` panics on a length mismatch
  if r.rz_inf.size != v.s.size then throw (.panic "copy_from: length")
  let rz_inf ← Csc.gemvN d.A v.s v.x 1 1
  let rx0 ← waxpbyInto r.rx.size (-1) Px (-v.τ) d.q
  let rx ← axpbyInto 1 rx_inf 1 rx0
  let rz ← waxpbyInto r.rz.size 1 rz_inf (-v.τ) d.b
  let rτ := qx + bz + v.κ + xPx / v.τ
  pure { rx, rz, rτ, rx_inf, rz_inf, dot_qx := qx, dot_bz := bz, dot_sz := sz, dot_xPx := xPx, Px }

end Residuals
end Clarabel
