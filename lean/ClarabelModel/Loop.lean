/-
  Control skeleton of the interior point loop.

  Rust anchors
    src/solver/core/solver.rs                      `solve()` and the four `strategy_checkpoint_*`
    src/solver/implementations/default/info.rs     `check_termination`, `check_convergence*`,
                                                   `post_process`, `save_prev_iterate`,
                                                   `reset_to_prev_iterate`, `save_scalars`
    src/solver/implementations/default/solution.rs `post_process` (status / iterations / NaN objectives)

  Every numerical sub-step of a pass (residual update, `info.update`, cone scaling, the KKT
  solves, the step lengths, the clock) is replaced by an *oracle argument* `PassOracle`; the
  decision logic that consumes those numbers is modelled in full.  Theorems about `solve`
  quantify over all oracle lists, i.e. over every behaviour of the numerics.

  The iterate itself is kept symbolically (`Iter`): which steps of which pass with which
  step length have been applied, so that "the run with a smaller budget returns the k-th
  iterate of the longer run" is a statement about the model.

  This file imports only `ClarabelModel.Scalar`.
-/
import ClarabelModel.Scalar
import ClarabelModel.Vec

namespace Clarabel
namespace Loop

/-- `SolverStatus` (same order as the Rust enum) -/
inductive Status where
  | Unsolved | Solved | PrimalInfeasible | DualInfeasible
  | AlmostSolved | AlmostPrimalInfeasible | AlmostDualInfeasible
  | MaxIterations | MaxTime | NumericalError | InsufficientProgress
  deriving DecidableEq, Repr, Inhabited

/-- `SolverStatus::is_infeasible` -/
def Status.isInfeasible : Status → Bool
  | .PrimalInfeasible | .DualInfeasible | .AlmostPrimalInfeasible | .AlmostDualInfeasible => true
  | _ => false

/-- `SolverStatus::is_errored` -/
def Status.isErrored : Status → Bool
  | .NumericalError | .InsufficientProgress => true
  | _ => false

def Status.toString : Status → String
  | .Unsolved => "Unsolved" | .Solved => "Solved"
  | .PrimalInfeasible => "PrimalInfeasible" | .DualInfeasible => "DualInfeasible"
  | .AlmostSolved => "AlmostSolved" | .AlmostPrimalInfeasible => "AlmostPrimalInfeasible"
  | .AlmostDualInfeasible => "AlmostDualInfeasible" | .MaxIterations => "MaxIterations"
  | .MaxTime => "MaxTime" | .NumericalError => "NumericalError"
  | .InsufficientProgress => "InsufficientProgress"

/-- `ScalingStrategy` -/
inductive Scaling where
  | PrimalDual | Dual
  deriving DecidableEq, Repr, Inhabited

/-- `StrategyCheckpoint` -/
inductive Checkpoint where
  | Update (s : Scaling) | NoUpdate | Fail
  deriving DecidableEq, Repr, Inhabited

def Checkpoint.toString : Checkpoint → String
  | .Update .Dual => "Update(Dual)" | .Update .PrimalDual => "Update(PrimalDual)"
  | .NoUpdate => "NoUpdate" | .Fail => "Fail"

/-- one family of tolerances (`tol_*` or `reduced_tol_*`) -/
structure Tols (α : Type) where
  gapAbs : α
  gapRel : α
  feas : α
  infeasAbs : α
  infeasRel : α
  ktratio : α

/-- the settings and cone facts the loop control reads -/
structure Config (α : Type) where
  maxIter : Nat
  timeLimit : α
  verbose : Bool
  full : Tols α
  reduced : Tols α
  minSwitchStepLength : α
  minTerminateStepLength : α
  /-- `cones.is_symmetric()` -/
  symmetric : Bool
  /-- `cones.allows_primal_dual_scaling()` -/
  allowsPD : Bool
  /-- not a setting of the solver: `true` is the code as it is (one more status line is
  printed when the loop is left after an insufficient-progress rollback, so that the table
  ends with the figures of the returned iterate); `false` is the behaviour before that repair,
  kept so that the old defect stays documented by a machine-checked counterexample -/
  rollbackLine : Bool := true

/-- the scalar part of `DefaultInfo` -/
structure Info (α : Type) where
  mu : α
  sigma : α
  stepLength : α
  iterations : Nat
  costPrimal : α
  costDual : α
  resPrimal : α
  resDual : α
  resPrimalInf : α
  resDualInf : α
  gapAbs : α
  gapRel : α
  ktratio : α
  prevCostPrimal : α
  prevCostDual : α
  prevResPrimal : α
  prevResDual : α
  prevGapAbs : α
  prevGapRel : α
  solveTime : α
  status : Status

/-- `residuals.dot_bz`, `residuals.dot_qx` (the only residual fields the termination logic reads) -/
structure Dots (α : Type) where
  dotBz : α
  dotQx : α

section logic
variable {α : Type} [Mul α] [Div α] [Neg α] [OfNat α 0] [OfNat α 1]
  [LT α] [DecidableLT α] [LE α] [DecidableLE α] [FloatLike α]

/-- `(100.).as_T()` etc. -/
@[inline] def lit (n : Nat) : α := FloatLike.ofNat n

/-- `DefaultInfo::is_solved` -/
def isSolved (i : Info α) (t : Tols α) : Bool :=
  (decide (i.gapAbs < t.gapAbs) || decide (i.gapRel < t.gapRel))
    && decide (i.resPrimal < t.feas) && decide (i.resDual < t.feas)

/-- `DefaultInfo::is_primal_infeasible` -/
def isPrimalInfeasible (i : Info α) (d : Dots α) (t : Tols α) : Bool :=
  decide (d.dotBz < (-t.infeasAbs)) && decide (i.resPrimalInf < (-t.infeasRel) * d.dotBz)

/-- `DefaultInfo::is_dual_infeasible` -/
def isDualInfeasible (i : Info α) (d : Dots α) (t : Tols α) : Bool :=
  decide (d.dotQx < (-t.infeasAbs)) && decide (i.resDualInf < (-t.infeasRel) * d.dotQx)

/-- `DefaultInfo::check_convergence`: the status it leaves in `self.status` -/
def checkConvergence (i : Info α) (d : Dots α) (t : Tols α) (solved pinf dinf : Status) : Status :=
  if decide (i.ktratio ≤ 1) && isSolved i t then solved
  else if ((1 : α) / t.ktratio) * lit 1000 < i.ktratio then
    if isPrimalInfeasible i d t then pinf
    else if isDualInfeasible i d t then dinf
    else i.status
  else i.status

/-- the "poor progress" block of `check_termination`, entered with status `Unsolved` -/
def poorProgress (i : Info α) (full : Tols α) : Status :=
  let s1 :=
    if decide (i.ktratio < FloatLike.eps * lit 100)
        && (decide (i.prevGapAbs < full.gapAbs) || decide (i.prevGapRel < full.gapRel)) then
      Status.InsufficientProgress
    else Status.Unsolved
  if decide (i.ktratio < 1)
      && ((decide (full.feas * lit 100 < i.resDual) && decide (i.prevResDual * lit 100 < i.resDual))
        || (decide (full.feas * lit 100 < i.resPrimal) && decide (i.prevResPrimal * lit 100 < i.resPrimal))) then
    Status.InsufficientProgress
  else s1

/-- the convergence / infeasibility / poor-progress part of `check_termination`: the verdict
reached from the numbers alone, before the limits are looked at -/
def verdict (i : Info α) (d : Dots α) (cfg : Config α) (iter : Nat) : Status :=
  let s1 := checkConvergence i d cfg.full .Solved .PrimalInfeasible .DualInfeasible
  if s1 = .Unsolved ∧ iter > 1
      ∧ (decide (i.prevResDual < i.resDual) || decide (i.prevResPrimal < i.resPrimal)) = true then
    poorProgress i cfg.full
  else s1

/-- `Info::check_termination`: the status it settles on (`isdone` is `≠ Unsolved`).
`max_iter` and `time_limit` are read here and nowhere else in the loop. -/
def checkTermination (i : Info α) (d : Dots α) (cfg : Config α) (iter : Nat) : Status :=
  if verdict i d cfg iter = .Unsolved then
    if cfg.maxIter = i.iterations then .MaxIterations
    else if cfg.timeLimit < i.solveTime then .MaxTime
    else .Unsolved
  else verdict i d cfg iter

/-- `Info::post_process`: the "almost" check for error / limit statuses -/
def postProcess (i : Info α) (d : Dots α) (cfg : Config α) : Status :=
  if i.status.isErrored || i.status == .MaxIterations || i.status == .MaxTime then
    checkConvergence i d cfg.reduced .AlmostSolved .AlmostPrimalInfeasible .AlmostDualInfeasible
  else i.status

end logic

/-- `Info::save_prev_iterate` (scalar part) -/
def Info.savePrev {α : Type} (i : Info α) : Info α :=
  { i with prevCostPrimal := i.costPrimal, prevCostDual := i.costDual,
           prevResPrimal := i.resPrimal, prevResDual := i.resDual,
           prevGapAbs := i.gapAbs, prevGapRel := i.gapRel }

/-- `Info::reset_to_prev_iterate` (scalar part) -/
def Info.resetToPrev {α : Type} (i : Info α) : Info α :=
  { i with costPrimal := i.prevCostPrimal, costDual := i.prevCostDual,
           resPrimal := i.prevResPrimal, resDual := i.prevResDual,
           gapAbs := i.prevGapAbs, gapRel := i.prevGapRel }

/-- `Info::save_scalars` -/
def Info.saveScalars {α : Type} (i : Info α) (mu a sigma : α) (iter : Nat) : Info α :=
  { i with mu := mu, stepLength := a, sigma := sigma, iterations := iter }

/-- what one pass of the loop obtains from the numerics -/
structure PassOracle (α : Type) where
  -- written by `residuals.update`
  dotBz : α
  dotQx : α
  -- `variables.calc_mu`
  mu : α
  -- written by `info.update`
  costPrimal : α
  costDual : α
  resPrimal : α
  resDual : α
  resPrimalInf : α
  resDualInf : α
  gapAbs : α
  gapRel : α
  ktratio : α
  /-- the clock: `timers.total_time()` as read by `info.update` -/
  solveTime : α
  /-- `variables.scale_cones` -/
  scaleOk : Bool
  /-- `kktsystem.update && kktsystem.solve(Affine)` -/
  kktAffOk : Bool
  /-- `get_step_length(Affine)` -/
  alphaAff : α
  /-- `centering_parameter(α)` -/
  sigma : α
  /-- `kktsystem.solve(Combined)` -/
  kktCombOk : Bool
  /-- `get_step_length(Combined)` -/
  alpha : α

/-- symbolic iterate: which steps have been applied -/
inductive Iter (α : Type) where
  /-- the point produced by `default_start` -/
  | start
  /-- the zero vector a fresh `prev_vars` holds -/
  | blank
  /-- `add_step` with the direction computed in pass number `pass` and step length `a` -/
  | step (base : Iter α) (pass : Nat) (a : α)

/-- one printed table row (`print_status`) -/
structure Row (α : Type) where
  iterations : Nat
  costPrimal : α
  costDual : α
  gap : α
  resPrimal : α
  resDual : α
  ktratio : α
  mu : α
  stepLength : α

/-- decisions taken in one pass, as the observer hook records them -/
structure PassLog where
  /-- status after `check_termination` -/
  status : Status
  isdone : Bool
  insufficientProgress : Option Checkpoint := none
  scalingSuccess : Option Bool := none
  numericalError : Option Checkpoint := none
  smallStep : Option Checkpoint := none

/-- loop-carried state at the top of a pass -/
structure State (α : Type) where
  iter : Nat
  scaling : Scaling
  alpha : α
  sigma : α
  mu : α
  info : Info α
  dots : Dots α
  vars : Iter α
  prevVars : Iter α
  /-- has `save_prev_iterate` been executed in this solve? -/
  saved : Bool
  /-- was `reset_to_prev_iterate` ever executed while `saved = false`? -/
  staleReset : Bool
  /-- rows printed so far, oldest first -/
  rows : List (Row α)
  /-- number of passes started -/
  passes : Nat
  /-- status lines printed after a rollback (0 or 1) -/
  rollbackLines : Nat := 0
  log : List PassLog

inductive PassResult (σ : Type) where
  | brk (s : σ)
  | cont (s : σ)
  /-- an `unreachable!()` arm was reached -/
  | panic (site : String)

section skeleton
variable {α : Type} [Mul α] [Div α] [Neg α] [OfNat α 0] [OfNat α 1]
  [LT α] [DecidableLT α] [LE α] [DecidableLE α] [BEq α] [FloatLike α]

/-- the row `print_status` renders from `info` -/
def rowOf (i : Info α) : Row α :=
  { iterations := i.iterations, costPrimal := i.costPrimal, costDual := i.costDual,
    gap := fmin i.gapAbs i.gapRel, resPrimal := i.resPrimal, resDual := i.resDual,
    ktratio := i.ktratio, mu := i.mu, stepLength := i.stepLength }

/-- `print_status`: gated on `settings.verbose` -/
def printStatus (cfg : Config α) (i : Info α) (rows : List (Row α)) : List (Row α) :=
  if cfg.verbose then rows ++ [rowOf i] else rows

/-! The four `strategy_checkpoint_*` functions return a `StrategyCheckpoint` and, as a side
effect, may set `info.status` (and roll the iterate back).  Each is modelled by a pure function
for the returned value and one for the status it leaves behind. -/

/-- `strategy_checkpoint_insufficient_progress`: returned checkpoint -/
def cpInsufficientProgress (cfg : Config α) (status : Status) (scaling : Scaling) : Checkpoint :=
  if status ≠ .InsufficientProgress then .NoUpdate
  else if !cfg.symmetric && scaling == .PrimalDual then .Update .Dual
  else .Fail

/-- `strategy_checkpoint_insufficient_progress`: status afterwards -/
def cpInsufficientProgressStatus (cfg : Config α) (status : Status) (scaling : Scaling) : Status :=
  if status ≠ .InsufficientProgress then status
  else if !cfg.symmetric && scaling == .PrimalDual then .Unsolved
  else status

/-- `strategy_checkpoint_is_scaling_success` -/
def cpIsScalingSuccess (ok : Bool) : Checkpoint := if ok then .NoUpdate else .Fail
def cpIsScalingSuccessStatus (ok : Bool) (status : Status) : Status :=
  if ok then status else .NumericalError

/-- `strategy_checkpoint_numerical_error` -/
def cpNumericalError (cfg : Config α) (ok : Bool) (scaling : Scaling) : Checkpoint :=
  if ok then .NoUpdate
  else if !cfg.symmetric && scaling == .PrimalDual then .Update .Dual
  else .Fail
def cpNumericalErrorStatus (cfg : Config α) (ok : Bool) (status : Status) (scaling : Scaling) : Status :=
  if ok then status
  else if !cfg.symmetric && scaling == .PrimalDual then status
  else .NumericalError

/-- `strategy_checkpoint_small_step` -/
def cpSmallStep (cfg : Config α) (a : α) (scaling : Scaling) : Checkpoint :=
  if !cfg.symmetric && scaling == .PrimalDual && decide (a < cfg.minSwitchStepLength) then .Update .Dual
  else if a ≤ fmax 0 cfg.minTerminateStepLength then .Fail
  else .NoUpdate
def cpSmallStepStatus (cfg : Config α) (a : α) (status : Status) (scaling : Scaling) : Status :=
  if !cfg.symmetric && scaling == .PrimalDual && decide (a < cfg.minSwitchStepLength) then status
  else if a ≤ fmax 0 cfg.minTerminateStepLength then .InsufficientProgress
  else status

/-- top of a pass: `residuals.update`, `calc_mu`, `save_scalars`, `info.update`,
`print_status`, `check_termination` (whose verdict is left in `info.status`) -/
def top (cfg : Config α) (o : PassOracle α) (st : State α) : State α :=
  let dots : Dots α := ⟨o.dotBz, o.dotQx⟩
  let i0 := st.info.saveScalars o.mu st.alpha st.sigma st.iter
  let i1 : Info α :=
    { i0 with costPrimal := o.costPrimal, costDual := o.costDual, resPrimal := o.resPrimal,
              resDual := o.resDual, resPrimalInf := o.resPrimalInf, resDualInf := o.resDualInf,
              gapAbs := o.gapAbs, gapRel := o.gapRel, ktratio := o.ktratio,
              solveTime := o.solveTime }
  { st with mu := o.mu, dots := dots, rows := printStatus cfg i1 st.rows, passes := st.passes + 1,
            info := { i1 with status := checkTermination i1 dots cfg st.iter } }

/-- the `if isdone { … }` arm: `strategy_checkpoint_insufficient_progress` -/
def passDone (cfg : Config α) (st1 : State α) : PassResult (State α) :=
  let cp := cpInsufficientProgress cfg st1.info.status st1.scaling
  -- `reset_to_prev_iterate` happens exactly when the status is InsufficientProgress
  let rollback : Bool := decide (st1.info.status = .InsufficientProgress)
  let st2 : State α :=
    { st1 with info := { (if rollback then st1.info.resetToPrev else st1.info) with
                         status := cpInsufficientProgressStatus cfg st1.info.status st1.scaling },
               vars := if rollback then st1.prevVars else st1.vars,
               staleReset := st1.staleReset || (rollback && !st1.saved),
               log := st1.log ++ [{ status := st1.info.status, isdone := true,
                                    insufficientProgress := some cp }] }
  match cp with
  | .Update s => .cont { st2 with scaling := s }
  | .NoUpdate => .brk st2
  | .Fail =>
    -- the iterate just reported was discarded: print the restored figures
    if cfg.rollbackLine then
      .brk { st2 with rows := printStatus cfg st2.info st2.rows, rollbackLines := st2.rollbackLines + 1 }
    else .brk st2

/-- after `save_prev_iterate` / `add_step` -/
def stepped (o : PassOracle α) (st : State α) : State α :=
  { st with alpha := o.alpha, info := st.info.savePrev, prevVars := st.vars, saved := true,
            vars := .step st.vars (st.passes - 1) o.alpha }

/-- after a successful scaling update: `iter += 1`, the KKT solves, the two remaining
checkpoints, `save_prev_iterate`, `add_step` -/
def passKkt (cfg : Config α) (o : PassOracle α) (st1 : State α) : PassResult (State α) :=
  -- KKT update, affine solve, (on success) affine step length, centring, combined solve
  let ok := o.kktAffOk && o.kktCombOk
  let cpNe := cpNumericalError cfg ok st1.scaling
  let lg : PassLog := { status := st1.info.status, isdone := false, scalingSuccess := some true,
                        numericalError := some cpNe }
  let st2 : State α :=
    { st1 with iter := st1.iter + 1, alpha := 0,
               sigma := if o.kktAffOk then o.sigma else st1.sigma,
               info := { st1.info with status := cpNumericalErrorStatus cfg ok st1.info.status st1.scaling } }
  match cpNe with
  | .Update s => .cont { st2 with scaling := s, log := st1.log ++ [lg] }
  | .Fail => .brk { st2 with log := st1.log ++ [lg] }
  | .NoUpdate =>
    let cpSm := cpSmallStep cfg o.alpha st1.scaling
    let lg := { lg with smallStep := some cpSm }
    let st3 : State α :=
      { st2 with info := { st2.info with status := cpSmallStepStatus cfg o.alpha st2.info.status st1.scaling },
                 log := st1.log ++ [lg] }
    match cpSm with
    | .Update s => .cont { st3 with scaling := s }
    | .Fail => .brk st3
    | .NoUpdate => .cont (stepped o st3)

/-- the not-done arm: `scale_cones` and `strategy_checkpoint_is_scaling_success` -/
def passStep (cfg : Config α) (o : PassOracle α) (st1 : State α) : PassResult (State α) :=
  match cpIsScalingSuccess o.scaleOk with
  | .Update _ => .panic "unreachable:scaling_success"
  | .Fail =>
    .brk { st1 with info := { st1.info with status := cpIsScalingSuccessStatus o.scaleOk st1.info.status },
                    log := st1.log ++ [{ status := st1.info.status, isdone := false,
                                         scalingSuccess := some false }] }
  | .NoUpdate => passKkt cfg o st1

/-- one pass of the `loop { … }` in `solve()` -/
def pass (cfg : Config α) (o : PassOracle α) (st : State α) : PassResult (State α) :=
  if (top cfg o st).info.status ≠ .Unsolved then passDone cfg (top cfg o st)
  else passStep cfg o (top cfg o st)

inductive Outcome (σ : Type) where
  /-- the loop was left through a `break` -/
  | done (s : σ)
  /-- the oracle list ended before the loop did -/
  | exhausted (s : σ)
  | panic (site : String)

/-- the `loop { … }`: one oracle per pass -/
def loop (cfg : Config α) : List (PassOracle α) → State α → Outcome (State α)
  | [], st => .exhausted st
  | o :: os, st =>
    match pass cfg o st with
    | .brk st' => .done st'
    | .cont st' => loop cfg os st'
    | .panic s => .panic s

/-- state after `info.reset`, before the first pass (`iter = 0, σ = 1, α = 0`) -/
def initState (cfg : Config α) (z : α) : State α :=
  { iter := 0,
    scaling := if cfg.allowsPD then .PrimalDual else .Dual,
    alpha := 0, sigma := 1, mu := z,
    info := { mu := z, sigma := z, stepLength := z, iterations := 0, costPrimal := z, costDual := z,
              resPrimal := z, resDual := z, resPrimalInf := z, resDualInf := z, gapAbs := z,
              gapRel := z, ktratio := z, prevCostPrimal := z, prevCostDual := z, prevResPrimal := z,
              prevResDual := z, prevGapAbs := z, prevGapRel := z, solveTime := z, status := .Unsolved },
    dots := ⟨z, z⟩, vars := .start, prevVars := .blank, saved := false, staleReset := false,
    rows := [], passes := 0, rollbackLines := 0, log := [] }

/-- what `solve()` leaves behind -/
structure Result (α : Type) where
  /-- `solution.status` -/
  status : Status
  /-- `info.status` as printed by the footer (`none` when not verbose) -/
  footerStatus : Option Status
  /-- `solution.iterations` = `info.iterations` -/
  iterations : Nat
  passes : Nat
  rows : List (Row α)
  /-- was the extra `print_status` after the loop executed (`α == 0`)? -/
  extraLine : Bool
  /-- objectives are set to NaN -/
  objNaN : Bool
  /-- the iterate handed to `variables.unscale` -/
  vars : Iter α
  /-- `unscale` normalises by κ instead of τ -/
  unscaleByKappa : Bool
  info : Info α
  staleReset : Bool
  /-- status lines printed after a rollback (0 or 1) -/
  rollbackLines : Nat
  log : List PassLog

/-- everything after the loop: the extra status line, `info.post_process`,
`solution.post_process`, footer -/
def finish (cfg : Config α) (st : State α) : Result α :=
  let extra := st.alpha == 0
  let info1 := if extra then st.info.saveScalars st.mu st.alpha st.sigma st.iter else st.info
  let rows := if extra then printStatus cfg info1 st.rows else st.rows
  let status := postProcess info1 st.dots cfg
  let info2 := { info1 with status := status }
  { status := status,
    footerStatus := if cfg.verbose then some info2.status else none,
    iterations := info2.iterations, passes := st.passes, rows := rows, extraLine := extra,
    objNaN := status.isInfeasible, vars := st.vars, unscaleByKappa := status.isInfeasible,
    info := info2, staleReset := st.staleReset, rollbackLines := st.rollbackLines, log := st.log }

/-- `solve()` with one oracle per pass -/
def solve (cfg : Config α) (z : α) (os : List (PassOracle α)) : Outcome (Result α) :=
  match loop cfg os (initState cfg z) with
  | .done st => .done (finish cfg st)
  | .exhausted st => .exhausted (finish cfg st)
  | .panic s => .panic s

end skeleton

/-- `_check_dimensions` of `DefaultSolver::new`: the five asserts, in order.
`coneNvars` is the list of `cone.nvars()`. -/
def checkDimensions (Pm Pn qlen Am An blen : Nat) (coneNvars : List Nat) : MErr Unit :=
  let m := blen
  let n := qlen
  let p := coneNvars.foldl (fun acc c => acc + c) 0
  if m ≠ Am then throw (.panic "assert:A-and-b-incompatible-dimensions")
  else if p ≠ m then throw (.panic "assert:constraint-dimensions-inconsistent-with-size-of-cones")
  else if n ≠ An then throw (.panic "assert:A-and-q-incompatible-dimensions")
  else if n ≠ Pn then throw (.panic "assert:P-and-q-incompatible-dimensions")
  else if Pm ≠ Pn then throw (.panic "assert:P-not-square")
  else pure ()

/-! ### step lengths and the step itself (`variables.rs`, `solver.rs`) -/
namespace Step
variable {α : Type} [Add α] [Mul α] [Div α] [Neg α] [OfNat α 0] [OfNat α 1]
  [LT α] [DecidableLT α] [FloatLike α]

/-- `ατ` / `ακ` of `calc_step_length`: `-v/dv` if `dv < 0`, else `T::max_value()` -/
def ratio (v dv maxValue : α) : α := if dv < 0 then (-v) / dv else maxValue

/-- `[ατ, ακ, 1].minimum()` (a fold of `T::min` starting from `+∞`) -/
def alphaMax (tau kappa dtau dkappa maxValue : α) : α :=
  fmin (fmin (ratio tau dtau maxValue) (ratio kappa dkappa maxValue)) 1

/-- `DefaultVariables::calc_step_length`; `coneStep αmax` stands for
`cones.step_length(dz, ds, z, s, settings, αmax) = (αz, αs)` -/
def calcStepLength (tau kappa dtau dkappa maxValue : α) (coneStep : α → α × α)
    (combined : Bool) (maxStepFraction : α) : α :=
  let amax := alphaMax tau kappa dtau dkappa maxValue
  let zs := coneStep amax
  let a := fmin zs.1 zs.2
  if combined then a * maxStepFraction else a

/-- `NonnegativeCone::step_length` (one slice) -/
def nnStep (v dv : Array α) (amax : α) : α :=
  (v.toList.zip dv.toList).foldl (fun a p => if p.2 < 0 then fmin a ((-p.1) / p.2) else a) amax

/-- `NonnegativeCone::step_length` -/
def nnStepLength (z dz s ds : Array α) (amax : α) : α × α := (nnStep z dz amax, nnStep s ds amax)

/-- `add_step`, scalar part: `τ += α·dτ` -/
def addStepScalar (v dv a : α) : α := v + a * dv

/-- `add_step`, vector part: `x.axpby(α, dx, 1)`, i.e. `xᵢ ← α·dxᵢ + 1·xᵢ` -/
def addStepVec (x dx : Array α) (a : α) : Array α := Vec.axpby a dx 1 x

/-- `backtrack_step_to_barrier`: at most `fuel` (= 50) contractions by `step`;
`ok a` stands for `barrier(a) < 1` -/
def backtrack (step : α) (ok : α → Bool) : Nat → α → α
  | 0, a => a
  | n + 1, a => if ok a then a else backtrack step ok n (step * a)

end Step

/-! ### wire helpers (used by the model drivers; parametrised by the key lookups so that this
file stays import-free) -/
namespace Wire

def parseStatus : String → Option Status
  | "Unsolved" => some .Unsolved | "Solved" => some .Solved
  | "PrimalInfeasible" => some .PrimalInfeasible | "DualInfeasible" => some .DualInfeasible
  | "AlmostSolved" => some .AlmostSolved | "AlmostPrimalInfeasible" => some .AlmostPrimalInfeasible
  | "AlmostDualInfeasible" => some .AlmostDualInfeasible | "MaxIterations" => some .MaxIterations
  | "MaxTime" => some .MaxTime | "NumericalError" => some .NumericalError
  | "InsufficientProgress" => some .InsufficientProgress
  | _ => none

variable {α : Type} [Inhabited α]

def mkTols (xs : Array α) : Option (Tols α) :=
  if xs.size != 6 then none else
  some { gapAbs := xs[0]!, gapRel := xs[1]!, feas := xs[2]!, infeasAbs := xs[3]!,
         infeasRel := xs[4]!, ktratio := xs[5]! }

/-- keys `maxiter tl verbose sym pd tols rtols minsw minterm` -/
def config (nat : String → Option Nat) (fl : String → Option α)
    (fls : String → Option (Array α)) : Option (Config α) := do
  let maxIter ← nat "maxiter"
  let timeLimit ← fl "tl"
  let verbose ← nat "verbose"
  let symmetric ← nat "sym"
  let allowsPD ← nat "pd"
  let full ← (fls "tols") >>= mkTols
  let reduced ← (fls "rtols") >>= mkTols
  let minSwitchStepLength ← fl "minsw"
  let minTerminateStepLength ← fl "minterm"
  pure { maxIter, timeLimit, verbose := verbose != 0, full, reduced, minSwitchStepLength,
         minTerminateStepLength, symmetric := symmetric != 0, allowsPD := allowsPD != 0,
         rollbackLine := (nat "legacy").getD 0 == 0 }

/-- per-pass oracle arrays (all of one length), keys
`dbz dqx mu cp cd rp rd rpi rdi ga gr kt time sok kaff aaff sig kcomb alpha` -/
def oracles (fls : String → Option (Array α)) (bls : String → Option (Array Bool)) :
    Option (List (PassOracle α)) := do
  let dbz ← fls "dbz"
  let dqx ← fls "dqx"
  let mu ← fls "mu"
  let cp ← fls "cp"
  let cd ← fls "cd"
  let rp ← fls "rp"
  let rd ← fls "rd"
  let rpi ← fls "rpi"
  let rdi ← fls "rdi"
  let ga ← fls "ga"
  let gr ← fls "gr"
  let kt ← fls "kt"
  let tm ← fls "time"
  let sok ← bls "sok"
  let kaff ← bls "kaff"
  let aaff ← fls "aaff"
  let sig ← fls "sig"
  let kcomb ← bls "kcomb"
  let alpha ← fls "alpha"
  let n := dbz.size
  if dqx.size != n || mu.size != n || cp.size != n || cd.size != n || rp.size != n || rd.size != n
      || rpi.size != n || rdi.size != n || ga.size != n || gr.size != n || kt.size != n
      || tm.size != n || sok.size != n || kaff.size != n || aaff.size != n || sig.size != n
      || kcomb.size != n || alpha.size != n then none
  else
    pure ((List.range n).map fun j =>
      { dotBz := dbz[j]!, dotQx := dqx[j]!, mu := mu[j]!, costPrimal := cp[j]!, costDual := cd[j]!,
        resPrimal := rp[j]!, resDual := rd[j]!, resPrimalInf := rpi[j]!, resDualInf := rdi[j]!,
        gapAbs := ga[j]!, gapRel := gr[j]!, ktratio := kt[j]!, solveTime := tm[j]!,
        scaleOk := sok[j]!, kktAffOk := kaff[j]!, alphaAff := aaff[j]!, sigma := sig[j]!,
        kktCombOk := kcomb[j]!, alpha := alpha[j]! })

def fmtCk : Option Checkpoint → String
  | none => "-"
  | some c => c.toString

def fmtOB : Option Bool → String
  | none => "-"
  | some true => "1"
  | some false => "0"

def fmtB (b : Bool) : String := if b then "1" else "0"

def joinC (xs : List String) : String := ",".intercalate xs

/-- canonical rendering of what a solve did (decisions only, no floats) -/
def fmtResult (r : Result α) : String :=
  s!"status={r.status.toString} iterations={r.iterations} passes={r.passes} " ++
  s!"rows={joinC (r.rows.map fun w => toString w.iterations)} extra={fmtB r.extraLine} " ++
  s!"st={joinC (r.log.map fun l => l.status.toString)} " ++
  s!"done={joinC (r.log.map fun l => fmtB l.isdone)} " ++
  s!"ip={joinC (r.log.map fun l => fmtCk l.insufficientProgress)} " ++
  s!"ss={joinC (r.log.map fun l => fmtOB l.scalingSuccess)} " ++
  s!"ne={joinC (r.log.map fun l => fmtCk l.numericalError)} " ++
  s!"sm={joinC (r.log.map fun l => fmtCk l.smallStep)} " ++
  s!"stale={fmtB r.staleReset} rb={r.rollbackLines}"

def fmtOutcome : Outcome (Result α) → String
  | .done r => fmtResult r
  | .exhausted r => "oracle-exhausted " ++ fmtResult r
  | .panic s => "panic:" ++ s

end Wire

end Loop
end Clarabel
