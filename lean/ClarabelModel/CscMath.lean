/-
  Model of `src/algebra/csc/matrix_math.rs` (gemv / symv / quad_form / sums / norms /
  scalings) and `src/algebra/csc/block_concatenate.rs` (hcat / vcat / blockdiag / hvcat).

  Same domain as `Csc.lean`: well-dimensioned encodings (`check_dimensions` passes and
  `colptr[0] = 0`).  Every accumulation is performed in the order of the Rust loops, so
  the `Float` instance reproduces the roundings.
-/
import ClarabelModel.Csc
import ClarabelModel.Vec

namespace Clarabel
namespace Csc
variable {α : Type}

/-- `for (i,v) in l { y[i] = f(y[i], v) }` with Rust's bounds-checked indexing -/
def scatter (f : α → α → α) (y : Array α) (l : List (Nat × α)) : MErr (Array α) :=
  l.foldlM (fun y e => do
    let yi ← getE y e.1 "y[row]"
    setE y e.1 (f yi e.2) "y[row]") y

/-- `assert_eq!(A.nzval.len(), *A.colptr.last().unwrap())` -/
def nzvalMatchesColptr (A : Csc α) : MErr Unit :=
  match A.colptr.back? with
  | none => throw (.panic "colptr.last().unwrap()")
  | some l => if A.nzval.size != l then throw (.panic "assert nzval.len == colptr.last") else pure ()

section gemv
variable [Add α] [Sub α] [Mul α] [Neg α] [BEq α] [OfNat α 0] [OfNat α 1]

/-- the `b*y` part of `_csc_axpby_N/T` with its fast paths -/
def applyB (b : α) (y : Array α) : Array α :=
  if b == 0 then y.map (fun _ => 0)
  else if b == 1 then y
  else if b == -1 then Vec.negate y
  else Vec.scale y b

/-- the `(row, g A_ij x_j)` pairs visited by `for (j,xj) in x.iter().enumerate() { for i in colptr[j]..colptr[j+1] {..} }` -/
def gemvTerms (A : Csc α) (x : Array α) (g : α → α → α) : List (Nat × α) :=
  (x.toList.zipIdx.map (fun (p : α × Nat) => (A.col p.2).map (fun e => (e.1, g e.2 p.1)))).flatten

/-- `_csc_axpby_N`: `y ← a·A·x + b·y` -/
def gemvN (A : Csc α) (y x : Array α) (a b : α) : MErr (Array α) :=
  let y := applyB b y
  if a == 0 then pure y else
  match nzvalMatchesColptr A with
  | .error e => .error e
  | .ok () =>
    if x.size != A.n then throw (.panic "assert x.len == A.n") else
    if a == 1 then scatter (fun yi t => yi + t) y (gemvTerms A x (fun v xj => v * xj))
    else if a == -1 then scatter (fun yi t => yi - t) y (gemvTerms A x (fun v xj => v * xj))
    else scatter (fun yi t => yi + t) y (gemvTerms A x (fun v xj => a * v * xj))

/-- inner loop of `_csc_axpby_T` for one column: `*yj (+|-)= term(A.nzval[k], x[A.rowval[k]])` -/
def colDotM (c : List (Nat × α)) (x : Array α) (upd term : α → α → α) (y0 : α) : MErr α :=
  c.foldlM (fun acc e => do
    let xr ← getE x e.1 "x[row]"
    pure (upd acc (term e.2 xr))) y0

/-- `_csc_axpby_T`: `y ← a·Aᵀ·x + b·y` (only the first `A.n` entries of `y` are updated;
the code does not assert `y.len()`). -/
def gemvT (A : Csc α) (y x : Array α) (a b : α) : MErr (Array α) :=
  let y := applyB b y
  if a == 0 then pure y else
  match nzvalMatchesColptr A with
  | .error e => .error e
  | .ok () =>
    if x.size != A.m then throw (.panic "assert x.len == A.m") else
    let upd := fun (acc t : α) => if a == 1 then acc + t else if a == -1 then acc - t else acc + t
    let term := fun (v xr : α) => if a == 1 then v * xr else if a == -1 then v * xr else a * v * xr
    match y.toList.zipIdx.mapM (fun (p : α × Nat) =>
      if p.2 < A.n then colDotM (A.col p.2) x upd term p.1 else pure p.1) with
    | .error e => .error e
    | .ok ys => pure ys.toArray

/-- the updates `_csc_symv_unsafe` performs for one stored entry `e = (row, Aij)` of column
`col`: `y[row] += a*Aij*x[col]`, then, off the diagonal, `y[col] += a*Aij*x[row]` -/
def symvEntry (a : α) (col : Nat) (xcol : α) (e : Nat × α) (xrow : α) : List (Nat × α) :=
  if e.1 != col then [(e.1, a * e.2 * xcol), (col, a * e.2 * xrow)] else [(e.1, a * e.2 * xcol)]

/-- the updates for column `p.2` (with `p.1 = x[p.2]`) -/
def symvCol (A : Csc α) (x : Array α) (a : α) (p : α × Nat) : MErr (List (List (Nat × α))) :=
  (A.col p.2).mapM (fun e => do
    let xr ← getE x e.1 "UB: x.get_unchecked(row)"
    if e.1 ≥ A.n then throw (.panic "UB: y.get_unchecked_mut(row)")
    pure (symvEntry a p.2 p.1 e xr))

/-- the `b*y` part of `_csc_symv_unsafe` (since /repo 1706c1f): as in gemv, `y` is not
read when `b == 0` (it may hold NaN/Inf), otherwise it is scaled -/
def symvB (b : α) (y : Array α) : Array α :=
  if b == 0 then y.map (fun _ => 0) else Vec.scale y b

/-- `_csc_symv_unsafe`: `y ← a·sym(A)·x + b·y`, `A` upper triangular.  The Rust code
uses unchecked indexing: a row index `≥ n` is undefined behaviour there (`.panic "UB"`
here; never generated).  (Before /repo 1706c1f the prologue was `y.scale(b)` for every `b`,
so a NaN in `y` survived `b = 0`: `symvOld` below.) -/
def symv (A : Csc α) (y x : Array α) (a b : α) : MErr (Array α) :=
  let y := symvB b y
  if x.size != A.n then throw (.panic "assert x.len == A.n") else
  if y.size != A.n then throw (.panic "assert y.len == A.n") else
  if A.n != A.m then throw (.panic "assert A.n == A.m") else
  match x.toList.zipIdx.mapM (symvCol A x a) with
  | .error e => .error e
  | .ok terms => scatter (fun yi t => yi + t) y terms.flatten.flatten

/-- `_csc_symv_unsafe` before /repo 1706c1f (`y.scale(b)` unconditionally) -/
def symvOld (A : Csc α) (y x : Array α) (a b : α) : MErr (Array α) :=
  let y := Vec.scale y b
  if x.size != A.n then throw (.panic "assert x.len == A.n") else
  if y.size != A.n then throw (.panic "assert y.len == A.n") else
  if A.n != A.m then throw (.panic "assert A.n == A.m") else
  match x.toList.zipIdx.mapM (symvCol A x a) with
  | .error e => .error e
  | .ok terms => scatter (fun yi t => yi + t) y terms.flatten.flatten

/-- `_csc_quad_form`, inner loop body: state `(out, tmp1, tmp2)`, entry `e = (row, Mv)` -/
def quadEntry (x y : Array α) (col : Nat) (xc yc : α) (st : α × α × α) (e : Nat × α) :
    MErr (α × α × α) :=
  if e.1 < col then do
    let xr ← getE x e.1 "x[row]"
    let yr ← getE y e.1 "y[row]"
    pure (st.1, st.2.1 + e.2 * xr, st.2.2 + e.2 * yr)
  else if e.1 == col then pure (st.1 + e.2 * xc * yc, st.2.1, st.2.2)
  else throw (.panic "Input matrix should be triu form.")

/-- `_csc_quad_form`, one column -/
def quadCol (M : Csc α) (y x : Array α) (out : α) (col : Nat) : MErr α := do
  let xc ← getE x col "x[col]"
  let yc ← getE y col "y[col]"
  let st ← (M.col col).foldlM (quadEntry x y col xc yc) (out, (0 : α), (0 : α))
  pure (st.1 + (st.2.1 * yc + st.2.2 * xc))

/-- `_csc_quad_form`: `yᵀ·sym(M)·x`, `M` upper triangular (panics on a lower entry) -/
def quadForm (M : Csc α) (y x : Array α) : MErr α :=
  if M.n != M.m then throw (.panic "assert n == m") else
  if x.size != M.n then throw (.panic "assert x.len == n") else
  if y.size != M.n then throw (.panic "assert y.len == n") else
  if M.colptr.size != M.n + 1 then throw (.panic "assert colptr.len == n+1") else
  if M.nzval.size != M.rowval.size then throw (.panic "assert nzval.len == rowval.len") else
  if M.n == 0 then pure 0 else
  (List.range M.n).foldlM (quadCol M y x) 0

end gemv

section sums
variable [Add α] [OfNat α 0]

/-- `col_sums` -/
def colSums (M : Csc α) (sums : Array α) : MErr (Array α) :=
  if M.n != sums.size then throw (.panic "assert n == sums.len") else
  pure ((List.range M.n).map (fun j => (M.col j).foldl (fun acc e => acc + e.2) 0)).toArray

/-- all stored entries in storage order: `zip(&self.rowval, &self.nzval)` -/
def entries (M : Csc α) : List (Nat × α) := M.rowval.toList.zip M.nzval.toList

/-- `row_sums` -/
def rowSums (M : Csc α) (sums : Array α) : MErr (Array α) :=
  if M.m != sums.size then throw (.panic "assert m == sums.len") else
  scatter (fun s v => s + v) (sums.map (fun _ => 0)) M.entries

end sums

section norms
variable [OfNat α 0] [FloatLike α]

/-- `col_norms_no_reset` -/
def colNormsNoReset (M : Csc α) (norms : Array α) : MErr (Array α) :=
  if M.colptr.size == 0 then throw (.panic "colptr.len() - 1 underflow") else
  if norms.size != M.colptr.size - 1 then throw (.panic "assert norms.len == colptr.len-1") else
  pure (norms.toList.zipIdx.map (fun (p : α × Nat) =>
    (M.col p.2).foldl (fun m e => fmax m (fabs e.2)) p.1)).toArray

/-- `col_norms` -/
def colNorms (M : Csc α) (norms : Array α) : MErr (Array α) :=
  colNormsNoReset M (norms.map (fun _ => 0))

/-- `col_norms_sym_no_reset` -/
def colNormsSymNoReset (M : Csc α) (norms : Array α) : MErr (Array α) :=
  if M.colptr.size == 0 then throw (.panic "colptr.len() - 1 underflow") else
  if norms.size != M.colptr.size - 1 then throw (.panic "assert norms.len == colptr.len-1") else
  scatter (fun m t => fmax m t) norms
    ((List.range norms.size).map (fun i =>
      ((M.col i).map (fun e => [(i, fabs e.2), (e.1, fabs e.2)])).flatten)).flatten

/-- `col_norms_sym` -/
def colNormsSym (M : Csc α) (norms : Array α) : MErr (Array α) :=
  colNormsSymNoReset M (norms.map (fun _ => 0))

/-- `row_norms_no_reset` -/
def rowNormsNoReset (M : Csc α) (norms : Array α) : MErr (Array α) :=
  match M.colptr.back? with
  | none => throw (.panic "colptr.last().unwrap()")
  | some l =>
    if M.rowval.size != l then throw (.panic "assert rowval.len == colptr.last") else
    scatter (fun m t => fmax m t) norms (M.entries.map (fun e => (e.1, fabs e.2)))

/-- `row_norms` -/
def rowNorms (M : Csc α) (norms : Array α) : MErr (Array α) :=
  rowNormsNoReset M (norms.map (fun _ => 0))

end norms

section scalings
variable [Mul α]

/-- `scale` -/
def scale (M : Csc α) (c : α) : Csc α := { M with nzval := M.nzval.map (· * c) }

/-- `negate` -/
def negate [Neg α] (M : Csc α) : Csc α := { M with nzval := M.nzval.map (fun v => -v) }

/-- `lscale`: `val *= l[row]` over `zip(nzval, rowval)` -/
def lscale (M : Csc α) (l : Array α) : MErr (Csc α) := do
  let nz ← (M.nzval.toList.zip M.rowval.toList).mapM (fun (p : α × Nat) => do
    let lr ← getE l p.2 "l[row]"
    pure (p.1 * lr))
  pure { M with nzval := (nz ++ M.nzval.toList.drop nz.length).toArray }

/-- `rscale`: column `i` is scaled by `r[i]` -/
def rscale (M : Csc α) (r : Array α) : MErr (Csc α) := do
  nzvalMatchesColptr M
  let cols ← (List.range M.n).mapM (fun i => do
    let ri ← getE r i "r[i]"
    pure ((M.col i).map (fun e => (e.1, e.2 * ri))))
  pure (ofCols M.m M.n cols)

/-- one column of `lrscale`: `*val *= l[*row] * ri` -/
def lrscaleCol (M : Csc α) (l r : Array α) (i : Nat) : MErr (List (Nat × α)) :=
  if hi : i < r.size then
    (M.col i).mapM (fun e => do
      let lr ← getE l e.1 "l[row]"
      pure (e.1, e.2 * (lr * r[i])))
  else pure (M.col i)

/-- `lrscale`: `val *= l[row] * r[col]`; iterates over `r` (columns beyond `r.len()`
stay unscaled, `r.len() > n` is an index panic) -/
def lrscale (M : Csc α) (l r : Array α) : MErr (Csc α) :=
  match nzvalMatchesColptr M with
  | .error e => .error e
  | .ok () =>
    if r.size > M.n then throw (.panic "colptr[col+1]") else
    match (List.range M.n).mapM (lrscaleCol M l r) with
    | .error e => .error e
    | .ok cols => pure (ofCols M.m M.n cols)

end scalings

/-! ### block concatenation -/

inductive ConcatError where
  | incompatibleDimension
  deriving Repr, BEq, DecidableEq, Inhabited

/-- `hvcat_dim_check` -/
def hvcatDimCheck (mats : List (List (Csc α))) : Bool :=
  match mats with
  | [] => false
  | r0 :: rest =>
    if r0.isEmpty then false
    else if rest.any (fun br => br.length != r0.length) then false
    else if mats.any (fun br => match br with
        | [] => false
        | b0 :: bs => bs.any (fun b => b.m != b0.m)) then false
    else if (List.range r0.length).any (fun k =>
        rest.any (fun br => (br[k]?.map (·.n)) != (r0[k]?.map (·.n)))) then false
    else true

/-- shift the row indices of a column -/
def shiftRows (off : Nat) (c : List (Nat × α)) : List (Nat × α) := c.map (fun e => (e.1 + off, e.2))

/-- row offsets of the block rows: `currentrow += blockrow[i].nrows()` -/
def rowOffsets (mats : List (List (Csc α))) : List Nat :=
  let ms := mats.map (fun br => match br with
    | [] => 0
    | b0 :: _ => b0.m)
  (List.range mats.length).map (fun k => (ms.take k).foldl (· + ·) 0)

/-- `hvcat` -/
def hvcat (mats : List (List (Csc α))) : Except ConcatError (Csc α) :=
  if !hvcatDimCheck mats then .error .incompatibleDimension else
  match mats with
  | [] => .error .incompatibleDimension
  | r0 :: _ =>
    let offs := rowOffsets mats
    let nrows := (mats.map (fun br => match br with
      | [] => 0
      | b0 :: _ => b0.m)).foldl (· + ·) 0
    let ncols := (r0.map (·.n)).foldl (· + ·) 0
    let cols := ((List.range r0.length).map (fun k =>
      let nk := match r0[k]? with
        | some b => b.n
        | none => 0
      (List.range nk).map (fun c =>
        ((mats.zip offs).map (fun (p : List (Csc α) × Nat) =>
          match p.1[k]? with
          | some b => shiftRows p.2 (b.col c)
          | none => [])).flatten))).flatten
    .ok (ofCols nrows ncols cols)

/-- `hcat` -/
def hcat (A B : Csc α) : Except ConcatError (Csc α) := hvcat [[A, B]]

/-- `vcat` -/
def vcat (A B : Csc α) : Except ConcatError (Csc α) := hvcat [[A], [B]]

/-- `blockdiag` -/
def blockdiag (mats : List (Csc α)) : Except ConcatError (Csc α) :=
  if mats.isEmpty then .error .incompatibleDimension else
  let nrows := (mats.map (·.m)).foldl (· + ·) 0
  let ncols := (mats.map (·.n)).foldl (· + ·) 0
  let offs := (List.range mats.length).map (fun k => ((mats.map (·.m)).take k).foldl (· + ·) 0)
  let cols := ((mats.zip offs).map (fun (p : Csc α × Nat) =>
    (List.range p.1.n).map (fun c => shiftRows p.2 (p.1.col c)))).flatten
  .ok (ofCols nrows ncols cols)

end Csc
end Clarabel
