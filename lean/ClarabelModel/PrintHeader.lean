/-
  The configuration header, the table header and the footer of the solver log.

  Rust anchors (src/solver/implementations/default/info_print.rs)
    `print_configuration`          presolve line, chordal block, `problem:` block, cone lines
    `print_settings`               the settings echo (no `verbose` guard of its own: it is only
                                   reached from `print_configuration`, behind that guard)
    `print_chordal_decomposition`  (feature `sdp`)
    `print_nthreads`, `_get_precision_string`, `_bool_on_off`
    `print_status_header`          fixed text + `flush`
    `print_footer`                 rule, status, `solve time = {:?}`
  and `_print_banner` of src/solver/core/solver.rs.

  Rust's float formatting is *not* re-implemented.  It enters as the parameter `FloatFmt`:
  one function per format specification used by the code (`{:.1e}`, `{:.3}`, `{:.1}`, `{:?}`,
  `Duration`'s `{:?}`), together with `is_infinite` and `size_of::<T>()`.  The driver
  instantiates it with the tokens the implementation's own `format!` produces.

  A header is first a list of tokens `Tok` — the literal pieces of the format strings and the
  rendered arguments, the latter labelled with the struct field they show — and then their
  concatenation.  Theorems speak about the labelled tokens.

  Imports only `ClarabelModel.*`.
-/
import ClarabelModel.Print
import ClarabelModel.ProblemData

namespace Clarabel
namespace Print
open Loop

/-- how the scalar type is turned into text (not modelled further) -/
structure FloatFmt (α : Type) where
  /-- `{:.1e}` -/
  e1 : α → String
  /-- `{:.3}` -/
  f3 : α → String
  /-- `{:.1}` -/
  f1 : α → String
  /-- `{:?}` (used for `time_limit`) -/
  dbg : α → String
  /-- `f64::is_infinite` -/
  isInfinite : α → Bool
  /-- `{:?}` of `Duration::from_secs_f64(·)` -/
  duration : α → String
  /-- `size_of::<T>()` in bytes -/
  sizeOf : Nat

/-- `LinearSolverInfo` (the fields the header reads) -/
structure LinearSolverInfo where
  name : String
  threads : Nat
  direct : Bool
  deriving Repr, DecidableEq

/-- the fields of `DefaultSettings<T>` the log shows (plus `verbose`) -/
structure Settings (α : Type) where
  verbose : Bool
  maxIter : Nat
  timeLimit : α
  maxStepFraction : α
  tolFeas : α
  tolGapAbs : α
  tolGapRel : α
  staticRegularizationEnable : Bool
  staticRegularizationConstant : α
  staticRegularizationProportional : α
  dynamicRegularizationEnable : Bool
  dynamicRegularizationEps : α
  dynamicRegularizationDelta : α
  iterativeRefinementEnable : Bool
  iterativeRefinementReltol : α
  iterativeRefinementAbstol : α
  iterativeRefinementMaxIter : Nat
  iterativeRefinementStopRatio : α
  equilibrateEnable : Bool
  equilibrateMinScaling : α
  equilibrateMaxScaling : α
  equilibrateMaxIter : Nat
  chordalDecompositionCompact : Bool
  chordalDecompositionCompleteDual : Bool
  chordalDecompositionMergeMethod : String

/-- the four counters of `ChordalInfo` the header prints -/
structure ChordalCounts where
  /-- `init_psd_cone_count()` -/
  initPsd : Nat
  /-- `decomposable_cone_count()` -/
  decomposable : Nat
  /-- `premerge_psd_cone_count()` -/
  premerge : Nat
  /-- `final_psd_cone_count()` -/
  final : Nat
  deriving Repr, DecidableEq

/-- what `print_configuration` reads from `data` and `cones` -/
structure Summary where
  /-- `data.presolver.map(count_reduced)` -/
  presolveRemoved : Option Nat
  /-- `data.chordal_info` -/
  chordal : Option ChordalCounts
  /-- `data.n` -/
  n : Nat
  /-- `data.m` -/
  m : Nat
  /-- `data.P.nnz()` -/
  nnzP : Nat
  /-- `data.A.nnz()` -/
  nnzA : Nat
  /-- `(as_tag(), numel())` of every cone of the composite cone, in order -/
  cones : List (Tag × Nat)
  deriving Repr, DecidableEq

/-- `SupportedConeT::as_tag` -/
def Tag.ofCone {α : Type} : ConeT α → Tag
  | .zero _ => .Zero
  | .nonneg _ => .Nonnegative
  | .soc _ => .SecondOrder
  | .exp => .Exponential
  | .pow _ => .Power
  | .genpow _ _ => .GenPower
  | .psd _ => .PSDTriangle

/-- the order in which `print_configuration` walks the cone types -/
def allTags : List Tag :=
  [.Zero, .Nonnegative, .SecondOrder, .Exponential, .Power, .GenPower, .PSDTriangle]

/-- `(as_tag(), numel())` of the cones of a `SupportedConeT` list
(`numel` of the internal cone is `nvars` of the specification it was built from) -/
def coneSummary {α : Type} (cones : List (ConeT α)) : List (Tag × Nat) :=
  cones.map (fun c => (Tag.ofCone c, c.nvars))

/-- the summary of the problem data the solver holds -/
def Summary.ofData {α : Type} (d : ProblemData α) (chordal : Option ChordalCounts) : Summary :=
  { presolveRemoved := d.presolver.map (·.countReduced),
    chordal := chordal,
    n := d.n, m := d.m, nnzP := d.P.nnz, nnzA := d.A.nnz,
    cones := coneSummary d.cones }

/-! ### tokens -/

/-- a piece of output: literal text of a format string, or a rendered argument labelled with
the field it shows -/
inductive Tok where
  | lit (s : String)
  | fld (name : String) (s : String)
  deriving Repr, DecidableEq

def Tok.text : Tok → String
  | .lit s => s
  | .fld _ s => s

/-- what reaches the print target -/
def renderToks (ts : List Tok) : String := String.join (ts.map Tok.text)

/-- the labelled arguments, in order of appearance -/
def fieldsOf : List Tok → List (String × String)
  | [] => []
  | .lit _ :: ts => fieldsOf ts
  | .fld n s :: ts => (n, s) :: fieldsOf ts

/-! ### `print_settings` and its helpers -/

/-- `print_nthreads` -/
def nthreadsText : Nat → String
  | 0 => ""
  | 1 => "(1 thread)"
  | n => "(" ++ toString n ++ " threads)"

/-- `_get_precision_string::<T>()` -/
def getPrecisionString {α : Type} (fmt : FloatFmt α) : String := toString (fmt.sizeOf * 8)

/-- the `time_lim_str` block -/
def timeLimStr {α : Type} (fmt : FloatFmt α) (t : α) : String :=
  if fmt.isInfinite t then "Inf" else fmt.dbg t

/-- `print_settings` (called behind the `verbose` guard of `print_configuration`) -/
def settingsToks {α : Type} (fmt : FloatFmt α) (lin : LinearSolverInfo) (set : Settings α) : List Tok :=
  [ .lit "settings:\n",
    .lit "  linear algebra: ",
    .fld "linsolver.direct" (if lin.direct then "direct" else "indirect"),
    .lit " / ", .fld "linsolver.name" lin.name, .lit ", ",
    .lit "precision: ", .fld "size_of<T>" (getPrecisionString fmt), .lit " bit ",
    .fld "linsolver.threads" (nthreadsText lin.threads),
    .lit "\n",
    .lit "  max iter = ", .fld "max_iter" (toString set.maxIter),
    .lit ", time limit = ", .fld "time_limit" (timeLimStr fmt set.timeLimit),
    .lit ",  max step = ", .fld "max_step_fraction" (fmt.f3 set.maxStepFraction), .lit "\n",
    .lit "  tol_feas = ", .fld "tol_feas" (fmt.e1 set.tolFeas),
    .lit ", tol_gap_abs = ", .fld "tol_gap_abs" (fmt.e1 set.tolGapAbs),
    .lit ", tol_gap_rel = ", .fld "tol_gap_rel" (fmt.e1 set.tolGapRel), .lit ",\n",
    .lit "  static reg : ", .fld "static_regularization_enable" (boolOnOff set.staticRegularizationEnable),
    .lit ", ϵ1 = ", .fld "static_regularization_constant" (fmt.e1 set.staticRegularizationConstant),
    .lit ", ϵ2 = ", .fld "static_regularization_proportional" (fmt.e1 set.staticRegularizationProportional),
    .lit "\n",
    .lit "  dynamic reg: ", .fld "dynamic_regularization_enable" (boolOnOff set.dynamicRegularizationEnable),
    .lit ", ϵ = ", .fld "dynamic_regularization_eps" (fmt.e1 set.dynamicRegularizationEps),
    .lit ", δ = ", .fld "dynamic_regularization_delta" (fmt.e1 set.dynamicRegularizationDelta),
    .lit "\n",
    .lit "  iter refine: ", .fld "iterative_refinement_enable" (boolOnOff set.iterativeRefinementEnable),
    .lit ", reltol = ", .fld "iterative_refinement_reltol" (fmt.e1 set.iterativeRefinementReltol),
    .lit ", abstol = ", .fld "iterative_refinement_abstol" (fmt.e1 set.iterativeRefinementAbstol),
    .lit ",\n",
    .lit "               max iter = ", .fld "iterative_refinement_max_iter" (toString set.iterativeRefinementMaxIter),
    .lit ", stop ratio = ", .fld "iterative_refinement_stop_ratio" (fmt.f1 set.iterativeRefinementStopRatio),
    .lit "\n",
    .lit "  equilibrate: ", .fld "equilibrate_enable" (boolOnOff set.equilibrateEnable),
    .lit ", min_scale = ", .fld "equilibrate_min_scaling" (fmt.e1 set.equilibrateMinScaling),
    .lit ", max_scale = ", .fld "equilibrate_max_scaling" (fmt.e1 set.equilibrateMaxScaling),
    .lit "\n",
    .lit "               max iter = ", .fld "equilibrate_max_iter" (toString set.equilibrateMaxIter),
    .lit "\n",
    .lit "\n" ]

def printSettings {α : Type} (fmt : FloatFmt α) (lin : LinearSolverInfo) (set : Settings α) : String :=
  renderToks (settingsToks fmt lin set)

/-! ### `print_configuration` -/

/-- the presolve line (only when a presolver object exists) -/
def presolveToks : Option Nat → List Tok
  | none => []
  | some k => [.lit "\npresolve: removed ", .fld "presolver.count_reduced" (toString k), .lit " constraints\n"]

/-- `print_chordal_decomposition` (only when `data.chordal_info` is `Some`) -/
def chordalToks {α : Type} (set : Settings α) : Option ChordalCounts → List Tok
  | none => []
  | some c =>
    [ .lit "\nchordal decomposition:\n",
      .lit "  compact format = ", .fld "chordal_decomposition_compact" (boolOnOff set.chordalDecompositionCompact),
      .lit ", dual completion = ",
      .fld "chordal_decomposition_complete_dual" (boolOnOff set.chordalDecompositionCompleteDual), .lit "\n",
      .lit "  merge method = ", .fld "chordal_decomposition_merge_method" set.chordalDecompositionMergeMethod,
      .lit "\n",
      .lit "  PSD cones initial             = ", .fld "init_psd_cone_count" (toString c.initPsd), .lit "\n",
      .lit "  PSD cones decomposable        = ", .fld "decomposable_cone_count" (toString c.decomposable), .lit "\n",
      .lit "  PSD cones after decomposition = ", .fld "premerge_psd_cone_count" (toString c.premerge), .lit "\n",
      .lit "  PSD cones after merges        = ", .fld "final_psd_cone_count" (toString c.final), .lit "\n" ]

/-- the seven calls of `_print_conedims_by_type`, one token per cone type -/
def coneToks (cones : List (Tag × Nat)) : List Tok :=
  allTags.map (fun t => .fld ("cones." ++ t.name) (printConedimsByType cones t))

/-- the `problem:` block -/
def problemToks (s : Summary) : List Tok :=
  [ .lit "\nproblem:\n",
    .lit "  variables     = ", .fld "data.n" (toString s.n), .lit "\n",
    .lit "  constraints   = ", .fld "data.m" (toString s.m), .lit "\n",
    .lit "  nnz(P)        = ", .fld "data.P.nnz" (toString s.nnzP), .lit "\n",
    .lit "  nnz(A)        = ", .fld "data.A.nnz" (toString s.nnzA), .lit "\n",
    .lit "  cones (total) = ", .fld "cones.len" (toString s.cones.length), .lit "\n" ]
  ++ coneToks s.cones ++ [.lit "\n"]

/-- `print_configuration`: nothing unless `verbose` -/
def configurationToks {α : Type} (fmt : FloatFmt α) (lin : LinearSolverInfo) (set : Settings α)
    (s : Summary) : List Tok :=
  if !set.verbose then [] else
    presolveToks s.presolveRemoved ++ chordalToks set s.chordal ++ problemToks s ++ settingsToks fmt lin set

def printConfiguration {α : Type} (fmt : FloatFmt α) (lin : LinearSolverInfo) (set : Settings α)
    (s : Summary) : String :=
  renderToks (configurationToks fmt lin set s)

/-! ### `print_status_header`, `print_footer`, `_print_banner` -/

def ruleLine : String :=
  "---------------------------------------------------------------------------------------------\n"

/-- the text `print_status_header` writes (followed by one `flush`) -/
def statusHeaderText : String :=
  "iter    " ++ "pcost        " ++ "dcost       " ++ "gap       " ++ "pres      " ++ "dres      "
    ++ "k/t       " ++ " μ       " ++ "step      " ++ "\n" ++ ruleLine

def printStatusHeader (verbose : Bool) : String := if !verbose then "" else statusHeaderText

/-- `print_footer` -/
def footerToks {α : Type} (fmt : FloatFmt α) (verbose : Bool) (status : Status) (solveTime : α) : List Tok :=
  if !verbose then [] else
    [ .lit ruleLine,
      .lit "Terminated with status = ", .fld "info.status" status.toString, .lit "\n",
      .lit "solve time = ", .fld "info.solve_time" (fmt.duration solveTime), .lit "\n" ]

def printFooter {α : Type} (fmt : FloatFmt α) (verbose : Bool) (status : Status) (solveTime : α) : String :=
  renderToks (footerToks fmt verbose status solveTime)

def bannerRule : String := "-------------------------------------------------------------\n"

/-- `_print_banner`; `version` is `crate::VERSION`, `debug` is `cfg!(debug_assertions)` -/
def printBanner (verbose : Bool) (version : String) (debug : Bool) : String :=
  if !verbose then "" else
    bannerRule
      ++ "           Clarabel.rs v" ++ version ++ "  -  Clever Acronym                \n"
      ++ (if debug then "                  *** debug build ***                        \n" else "\n")
      ++ "                   (c) Paul Goulart                          \n"
      ++ "                University of Oxford, 2022                   \n"
      ++ bannerRule

/-! ### the whole log of one `solve()` -/

/-- a table row as it enters the renderer: iteration count and the eight formatted cells -/
structure RowText where
  iterations : Nat
  cells : Array String

/-- the log of a solve: banner, configuration, table header, rows, footer — the byte sequence
of the print calls in `eventsOf` with the concrete renderers of this file.  A malformed row
(not eight cells) is an error of the caller. -/
def wholeLog {α : Type} (fmt : FloatFmt α) (lin : LinearSolverInfo) (set : Settings α) (s : Summary)
    (version : String) (debug : Bool) (rows : List RowText) (status : Status) (solveTime : α) : MErr String := do
  if !set.verbose then return "" else
  let mut out := printBanner true version debug ++ printConfiguration fmt lin set s ++ printStatusHeader true
  for r in rows do
    let l ← statusLine r.iterations r.cells
    out := out ++ l
  pure (out ++ printFooter fmt true status solveTime)

/-! ### one settings record for the echo and for the loop -/

/-- `solve()` hands the same `self.settings` to `print_configuration` and to the loop control:
the `Config` the loop skeleton reads, built from the settings record the echo shows (the
fields the echo does not show — infeasibility / κτ tolerances, the reduced tolerances, the step
length thresholds — and the two cone facts are passed separately) -/
def Settings.toConfig {α : Type} (set : Settings α) (infeasAbs infeasRel ktratio : α) (reduced : Tols α)
    (minSwitchStepLength minTerminateStepLength : α) (symmetric allowsPD : Bool) : Config α :=
  { maxIter := set.maxIter, timeLimit := set.timeLimit, verbose := set.verbose,
    full := { gapAbs := set.tolGapAbs, gapRel := set.tolGapRel, feas := set.tolFeas,
              infeasAbs := infeasAbs, infeasRel := infeasRel, ktratio := ktratio },
    reduced := reduced, minSwitchStepLength := minSwitchStepLength,
    minTerminateStepLength := minTerminateStepLength, symmetric := symmetric, allowsPD := allowsPD }

end Print
end Clarabel
