/-
  `DefaultVariables::calc_step_length` / `add_step` over a *composite* cone of every cone kind,
  and the step acceptance at the end of a pass of `solve()` (C07).

  Rust anchors
    src/solver/implementations/default/variables.rs   `calc_step_length`, `add_step`
    src/solver/core/cones/compositecone.rs            `step_length` (= `Composite.stepLength`)
    src/solver/core/solver.rs                         `get_step_length`, `backtrack_step_to_barrier`,
                                                      `strategy_checkpoint_small_step`, `add_step`

  The iterate `(s, z)` and the direction `(ds, dz)` are kept cut into the cones' ranges
  (`rng_cones`): one `Blk` per constituent cone, holding that cone's slices.  Each block runs the
  cone's own step-length model (`Nonneg/Soc/Exp/Pow/GenPow/PsdStep.stepLength`, all of them tied to
  the code by C15's channels); the composite is `Composite.stepLength`; the scalar part
  (`ατ, ακ`, the cap by 1, the final `max_step_fraction`) is `Loop.Step.alphaMax` and the tail of
  `Loop.Step.calcStepLength`.  `add_step` is `axpby(α, d·, 1)` on every slice — on the flat
  vectors this is the same as `Loop.Step.addStepVec` on the concatenation.

  Imports only model files.
-/
import ClarabelModel.Loop
import ClarabelModel.Cones.Composite
import ClarabelModel.Cones.Exp
import ClarabelModel.Cones.Pow
import ClarabelModel.Cones.GenPow
import ClarabelModel.Cones.PsdStep

namespace Clarabel
namespace StepK
open Nonsym

/-- one constituent cone with its slices of `z, s` (iterate) and `dz, ds` (step) -/
inductive Blk (α : Type) where
  | zero (z s dz ds : Array α)
  | nn (z s dz ds : Array α)
  | soc (z s dz ds : Array α)
  | exp (z s dz ds : V3 α)
  | pow (a : α) (z s dz ds : V3 α)
  | genpow (al : Array α) (z s dz ds : Array α)
  /-- PSD triangle cone: the scaling `K` (`R`, `Rinv`, `λ`, `Λisqrt`) and the two LAPACK answers
  (`γz`, `γs`: least eigenvalues of the scaled directions; `none` = `eigvals` failed) -/
  | psd (K : PsdTri.Cone α) (γz γs : Option α) (z s dz ds : Array α)

/-- the line-search settings the nonsymmetric cones read
(`linesearch_backtrack_step`, `min_terminate_step_length`) and the model's fuel -/
structure LineSearch (α : Type) where
  step : α
  amin : α
  fuel : Nat

/-- the homogeneous iterate and the step direction of one pass -/
structure Pt (α : Type) where
  x : Array α
  dx : Array α
  blks : List (Blk α)
  τ : α
  κ : α
  dτ : α
  dκ : α

section
variable {α : Type} [Add α] [Sub α] [Mul α] [Div α] [Neg α] [LT α] [LE α] [DecidableLT α]
  [DecidableLE α] [BEq α] [OfNat α 0] [OfNat α 1] [OfNat α 2] [OfNat α 3] [OfNat α 4]
  [OfScientific α] [FloatLike α]

/-- `cone.is_symmetric()` -/
def Blk.symmetric : Blk α → Bool
  | .exp .. | .pow .. | .genpow .. => false
  | _ => true

/-- `cone.step_length(dz, ds, z, s, settings, ·)` of one block -/
def Blk.coneFn (ls : LineSearch α) : Blk α → Composite.ConeFn α
  | .zero .. => ⟨true, fun a => pure (Zero.stepLength a)⟩
  | .nn z s dz ds => ⟨true, fun a => Nonneg.stepLength dz ds z s a⟩
  | .soc z s dz ds => ⟨true, fun a => Soc.stepLength dz ds z s a⟩
  | .exp z s dz ds => ⟨false, fun a => Exp.stepLength dz ds z s ls.step ls.amin a ls.fuel⟩
  | .pow al z s dz ds => ⟨false, fun a => Pow.stepLength al dz ds z s ls.step ls.amin a ls.fuel⟩
  | .genpow al z s dz ds => ⟨false, fun a => GenPow.stepLength al dz ds z s ls.step ls.amin a ls.fuel⟩
  | .psd K γz γs _ _ dz ds => ⟨true, fun a => PsdStep.stepLength K dz ds γz γs a⟩

/-- `cones.step_length(&step.z, &step.s, &self.z, &self.s, settings, α)` -/
def coneStep (ls : LineSearch α) (blks : List (Blk α)) (msf amax : α) : MErr (α × α) :=
  Composite.stepLength (blks.map (Blk.coneFn ls)) msf amax

/-- `DefaultVariables::calc_step_length`; `maxValue` is `T::max_value()` -/
def calcStepLength (maxValue : α) (ls : LineSearch α) (p : Pt α) (combined : Bool) (msf : α) :
    MErr α := do
  let amax := Loop.Step.alphaMax p.τ p.κ p.dτ p.dκ maxValue
  let zs ← coneStep ls p.blks msf amax
  let a := fmin zs.1 zs.2
  pure (if combined then a * msf else a)

/-- `axpby(a, d, 1)` on a triple -/
def addV3 (v d : V3 α) (a : α) : V3 α :=
  (a * d.1 + 1 * v.1, a * d.2.1 + 1 * v.2.1, a * d.2.2 + 1 * v.2.2)

/-- `add_step` on one cone's slices (the direction is left as it is) -/
def Blk.addStep (a : α) : Blk α → Blk α
  | .zero z s dz ds => .zero (Loop.Step.addStepVec z dz a) (Loop.Step.addStepVec s ds a) dz ds
  | .nn z s dz ds => .nn (Loop.Step.addStepVec z dz a) (Loop.Step.addStepVec s ds a) dz ds
  | .soc z s dz ds => .soc (Loop.Step.addStepVec z dz a) (Loop.Step.addStepVec s ds a) dz ds
  | .exp z s dz ds => .exp (addV3 z dz a) (addV3 s ds a) dz ds
  | .pow al z s dz ds => .pow al (addV3 z dz a) (addV3 s ds a) dz ds
  | .genpow al z s dz ds => .genpow al (Loop.Step.addStepVec z dz a) (Loop.Step.addStepVec s ds a) dz ds
  | .psd K γz γs z s dz ds => .psd K γz γs (Loop.Step.addStepVec z dz a) (Loop.Step.addStepVec s ds a) dz ds

/-- `DefaultVariables::add_step` -/
def addStep (p : Pt α) (a : α) : Pt α :=
  { p with x := Loop.Step.addStepVec p.x p.dx a,
           blks := p.blks.map (Blk.addStep a),
           τ := Loop.Step.addStepScalar p.τ p.dτ a,
           κ := Loop.Step.addStepScalar p.κ p.dκ a }

/-- `get_step_length(Combined, scaling)`: `calc_step_length`, then — nonsymmetric cones under the
`Dual` strategy only — `backtrack_step_to_barrier` (`ok a` stands for `barrier(a) < 1`) -/
def getStepLength (maxValue : α) (ls : LineSearch α) (btStep : α) (ok : α → Bool) (p : Pt α)
    (sc : Loop.Scaling) (msf : α) : MErr α := do
  let a ← calcStepLength maxValue ls p true msf
  pure (if !(p.blks.all Blk.symmetric) && sc == .Dual then Loop.Step.backtrack btStep ok 50 a else a)

/-- the end of a pass: `strategy_checkpoint_small_step(α)`; `add_step` is reached on `NoUpdate`
only (`Update` → `continue`, `Fail` → `break`, both before `add_step`) -/
def acceptStep (cfg : Loop.Config α) (sc : Loop.Scaling) (p : Pt α) (a : α) : Option (Pt α) :=
  match Loop.cpSmallStep cfg a sc with
  | .NoUpdate => some (addStep p a)
  | _ => none

/-! ### flat views (wire / statement helpers) -/

def v3l (x : V3 α) : List α := [x.1, x.2.1, x.2.2]

def Blk.zList : Blk α → List α
  | .zero z .. | .nn z .. | .soc z .. | .genpow _ z .. | .psd _ _ _ z .. => z.toList
  | .exp z .. | .pow _ z .. => v3l z
def Blk.sList : Blk α → List α
  | .zero _ s .. | .nn _ s .. | .soc _ s .. | .genpow _ _ s .. | .psd _ _ _ _ s .. => s.toList
  | .exp _ s .. | .pow _ _ s .. => v3l s
def Blk.dzList : Blk α → List α
  | .zero _ _ dz _ | .nn _ _ dz _ | .soc _ _ dz _ | .genpow _ _ _ dz _ | .psd _ _ _ _ _ dz _ => dz.toList
  | .exp _ _ dz _ | .pow _ _ _ dz _ => v3l dz
def Blk.dsList : Blk α → List α
  | .zero _ _ _ ds | .nn _ _ _ ds | .soc _ _ _ ds | .genpow _ _ _ _ ds | .psd _ _ _ _ _ _ ds => ds.toList
  | .exp _ _ _ ds | .pow _ _ _ _ ds => v3l ds

/-- the flat `variables.z` / `variables.s` -/
def Pt.zFlat (p : Pt α) : List α := p.blks.flatMap Blk.zList
def Pt.sFlat (p : Pt α) : List α := p.blks.flatMap Blk.sList
def Pt.dzFlat (p : Pt α) : List α := p.blks.flatMap Blk.dzList
def Pt.dsFlat (p : Pt α) : List α := p.blks.flatMap Blk.dsList

end

end StepK
end Clarabel
