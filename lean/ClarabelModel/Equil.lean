/-
  Model of the Ruiz equilibration, `ProblemData::equilibrate` in
  `src/solver/implementations/default/problemdata.rs`, with its helpers
  `kkt_col_norms` / `scale_data`, the matrix kernels of `src/algebra/csc/matrix_math.rs`
  (`col_norms(_sym)(_no_reset)`, `row_norms`, `lscale`, `lrscale`, `scale`) and
  `rectify_equilibration` of the cones (`compositecone.rs`, `socone.rs`, `zerocone.rs`, …).

  Matrices are handled through their entry list `(row, col, value)` in storage order
  (`Csc.colIdx` expands `colptr` to one column index per stored entry).  All loops of the
  Rust kernels visit the stored entries in exactly this order, so every norm is the same
  left fold and every scaling the same product as in the Rust code.  This view needs a
  well-formed `colptr` (`colptr[0] = 0`, monotone, last = nnz): `equilibrate` answers
  `err:noncanonical-matrix` otherwise (the solver does not validate its input either; such
  matrices are outside this model).
-/
import ClarabelModel.Scalar
import ClarabelModel.Vec
import ClarabelModel.Csc
import ClarabelModel.Collapse
import ClarabelModel.ProblemData

namespace Clarabel

namespace Csc
variable {α : Type}

/-- the column index of every stored entry (storage order) -/
def colIdx (M : Csc α) : Array Nat :=
  ((List.range M.n).flatMap (fun j =>
    List.replicate (M.colptr.getD (j + 1) 0 - M.colptr.getD j 0) j)).toArray

/-- what the entry view needs: consistent sizes, `colptr[0] = 0`, monotone `colptr`,
`colptr[n] = nnz`, row indices `< m` -/
def wellFormed (M : Csc α) : Bool :=
  M.colptr.size == M.n + 1 && M.colptr.getD 0 0 == 0 &&
  !(anyAdjacent (fun a b => decide (a > b)) M.colptr.toList) &&
  M.colptr.getD M.n 0 == M.nzval.size && M.rowval.size == M.nzval.size &&
  M.colIdx.size == M.nzval.size &&
  M.rowval.toList.all (fun r => decide (r < M.m)) &&
  M.colIdx.toList.all (fun c => decide (c < M.n))

/-- apply `f row col value` to every stored entry -/
def mapEntries (M : Csc α) (f : Nat → Nat → α → α) : Csc α :=
  { M with nzval := M.nzval.mapIdx (fun t v => f (M.rowval.getD t 0) (M.colIdx.getD t 0) v) }

/-- stored entries `(row, col, value)` in storage order -/
def storedEntries (M : Csc α) : List (Nat × Nat × α) :=
  M.rowval.toList.zip (M.colIdx.toList.zip M.nzval.toList)

end Csc

namespace Equil
variable {α : Type}

/-- `x[i] *= y[i]` over `zip(x, y)` (in place: `x` keeps its length).  A missing partner
counts as the factor 1 (`v * 1 = v` exactly in IEEE arithmetic); inside `equilibrate` the
lengths always agree (`shapesOk`). -/
def hadamardInPlace [Mul α] [OfNat α 1] (x y : Array α) : Array α :=
  x.mapIdx (fun i v => v * y.getD i 1)

section norms
variable [OfNat α 0] [FloatLike α]

/-- `norms[i] = max(norms[i], v)` -/
def bump (norms : Array α) (i : Nat) (v : α) : Array α := norms.modify i (fun x => fmax x v)

/-- `col_norms_no_reset`: for every stored entry, `norms[col] = max(norms[col], |v|)` -/
def colNormsNoReset (M : Csc α) (norms : Array α) : Array α :=
  M.storedEntries.foldl (fun ns e => bump ns e.2.1 (fabs e.2.2)) norms

/-- `col_norms` -/
def colNorms (M : Csc α) (norms : Array α) : Array α :=
  colNormsNoReset M (norms.map (fun _ => 0))

/-- `col_norms_sym` (after the reset): every stored entry bumps its column and its row -/
def colNormsSym (M : Csc α) (norms : Array α) : Array α :=
  M.storedEntries.foldl (fun ns e => bump (bump ns e.2.1 (fabs e.2.2)) e.1 (fabs e.2.2))
    (norms.map (fun _ => 0))

/-- `row_norms` (after the reset) -/
def rowNorms (M : Csc α) (norms : Array α) : Array α :=
  M.storedEntries.foldl (fun ns e => bump ns e.1 (fabs e.2.2)) (norms.map (fun _ => 0))

/-- `kkt_col_norms(P, A, norm_LHS, norm_RHS)` -/
def kktColNorms (P A : Csc α) (normLHS normRHS : Array α) : Array α × Array α :=
  (colNormsNoReset A (colNormsSym P normLHS), rowNorms A normRHS)

end norms

section scale
variable [Mul α] [OfNat α 1]

/-- `lrscale(l, r)`: `v *= l[row] * r[col]` (the Rust code indexes `l[row]`, `r[col]`; inside
`equilibrate` both are in range — `shapesOk` — and the default 1 is never used) -/
def lrscale (M : Csc α) (l r : Array α) : Csc α :=
  M.mapEntries (fun i j v => v * (l.getD i 1 * r.getD j 1))

/-- `lscale(l)`: `v *= l[row]` -/
def lscale (M : Csc α) (l : Array α) : Csc α :=
  M.mapEntries (fun i _ v => v * l.getD i 1)

/-- `scale(c)`: `v *= c` -/
def scaleMat (M : Csc α) (c : α) : Csc α := { M with nzval := M.nzval.map (· * c) }

/-- `scale_data(P, A, q, b, d, e)` -/
def scaleData (P A : Csc α) (q b : Array α) (d : Option (Array α)) (e : Array α) :
    Csc α × Csc α × Array α × Array α :=
  match d with
  | some d => (lrscale P d d, lrscale A e d, hadamardInPlace q d, hadamardInPlace b e)
  | none => (P, lscale A e, q, hadamardInPlace b e)

end scale

/-- the `equilibrate_*` settings -/
structure Settings (α : Type) where
  enable : Bool
  maxIter : Nat
  minScaling : α
  maxScaling : α
  deriving Repr, Inhabited

section rectify
variable [Add α] [Mul α] [Div α] [OfNat α 0] [OfNat α 1] [FloatLike α]

/-- `rectify_equilibration` of one cone on its segment of `e`:
zero / nonnegative: `δ = 1`, returns `false`;
all other cones: `δ = (1/e) · mean(e)`, returns `true`. -/
def rectifyCone (c : ConeT α) (seg : List α) : List α × Bool :=
  if c.isScalar then (seg.map (fun _ => 1), false)
  else
    let mean : α := if seg.length = 0 then 0 else seg.foldl (fun acc v => acc + v) 0 / FloatLike.ofNat seg.length
    (seg.map (fun ei => (1 / ei) * mean), true)

/-- `CompositeCone::rectify_equilibration(δ, e)`: `δ` is filled with 1 and then every cone
rewrites its own range; the flag is the disjunction of the per-cone answers. -/
def rectifyGo : List (ConeT α) → List α → List α × Bool
  | [], rest => (rest.map (fun _ => 1), false)
  | c :: cs, es =>
    let r := rectifyCone c (es.take c.nvars)
    let rs := rectifyGo cs (es.drop c.nvars)
    (r.1 ++ rs.1, r.2 || rs.2)

end rectify

section main
variable [Add α] [Sub α] [Mul α] [Div α] [OfNat α 0] [OfNat α 1] [LT α] [DecidableLT α] [BEq α]
  [FloatLike α]

/-- `x.scalarop(|x| if x == 0 {1} else {x})` -/
def unzero (x : Array α) : Array α := x.map (fun v => if v == 0 then 1 else v)

/-- `work[i] = clip(work[i], min/cum[i], max/cum[i])` over `zip(work, cum)` -/
def clipWork (work cum : Array α) (lo hi : α) : Array α :=
  work.mapIdx (fun i w => match cum[i]? with
    | some c => Vec.clip w (lo / c) (hi / c)
    | none => w)

/-- the scaling vectors of one pass: inverse square roots of the KKT column norms, clipped
so that the cumulative scalings stay in `[min, max]` (held in `dinv`, `einv` in the Rust code) -/
def stepScalings (s : Settings α) (dt : ProblemData α) : Array α × Array α :=
  let eq := dt.equilibration
  let (dwork, ework) := kktColNorms dt.P dt.A eq.dinv eq.einv
  let dwork := Vec.rsqrt (unzero dwork)
  let ework := Vec.rsqrt (unzero ework)
  (clipWork dwork eq.d s.minScaling s.maxScaling, clipWork ework eq.e s.minScaling s.maxScaling)

/-- `scale_data(P, A, q, b, d?, e)` followed by `d.hadamard(dwork)`, `e.hadamard(ework)`;
the work vectors stay in `dinv` / `einv`. -/
def applyScaling (dt : ProblemData α) (dwork : Option (Array α)) (ework : Array α) : ProblemData α :=
  let eq := dt.equilibration
  let (P, A, q, b) := scaleData dt.P dt.A dt.q dt.b dwork ework
  { dt with P := P, A := A, q := q, b := b,
            equilibration := { eq with
              d := match dwork with | some dw => hadamardInPlace eq.d dw | none => eq.d,
              e := hadamardInPlace eq.e ework,
              dinv := match dwork with | some dw => dw | none => eq.dinv,
              einv := ework } }

/-- the cost scaling of one pass: column norms of the scaled `P` (left in `dinv`) and the
factor `ctmp` (`none` when the mean column norm of `P` or `‖q‖∞` is zero) -/
def costScaling (s : Settings α) (dt : ProblemData α) : Array α × Option α :=
  let eq := dt.equilibration
  let dwork := colNorms dt.P eq.dinv
  let meanColNormP := Vec.mean dwork
  let infNormQ := Vec.normInf dt.q
  if !(meanColNormP == 0) && !(infNormQ == 0) then
    let scaleCost := fmax infNormQ meanColNormP
    (dwork, some (Vec.clip (1 / scaleCost) (s.minScaling / eq.c) (s.maxScaling / eq.c)))
  else (dwork, none)

/-- `P.scale(ctmp); q.scale(ctmp); c *= ctmp` -/
def applyCost (dt : ProblemData α) (dwork : Array α) (ctmp : Option α) : ProblemData α :=
  let eq := dt.equilibration
  match ctmp with
  | some ct =>
    { dt with P := scaleMat dt.P ct, q := dt.q.map (· * ct),
              equilibration := { eq with dinv := dwork, c := eq.c * ct } }
  | none => { dt with equilibration := { eq with dinv := dwork } }

/-- one pass of the Ruiz loop -/
def ruizStep (s : Settings α) (dt : ProblemData α) : ProblemData α :=
  let w := stepScalings s dt
  let dt1 := applyScaling dt (some w.1) w.2
  let cs := costScaling s dt1
  applyCost dt1 cs.1 cs.2

/-- the Ruiz loop -/
def ruizLoop (s : Settings α) : Nat → ProblemData α → ProblemData α
  | 0, dt => dt
  | k + 1, dt => ruizLoop s k (ruizStep s dt)

/-- the final inverse scalings `dinv = 1/d`, `einv = 1/e` -/
def setInverses (dt : ProblemData α) : ProblemData α :=
  let eq := dt.equilibration
  { dt with equilibration := { eq with dinv := eq.d.map (fun v => 1 / v), einv := eq.e.map (fun v => 1 / v) } }

/-- the rectification step after the loop: cones that cannot be scaled elementwise get a
uniform scaling; `A`, `b`, `e` are rescaled only if some cone asked for it -/
def rectifyStep (dt : ProblemData α) (cones : List (ConeT α)) : ProblemData α :=
  let eq := dt.equilibration
  let r := rectifyGo cones eq.e.toList
  if r.2 then applyScaling dt none r.1.toArray
  else { dt with equilibration := { eq with einv := r.1.toArray } }

/-- rectification and final inverses -/
def finish (dt : ProblemData α) (cones : List (ConeT α)) : ProblemData α :=
  setInverses (rectifyStep dt cones)

/-- shape guards under which the entry view is the Rust loop nest and no index panics:
well-formed square `P` (n×n), well-formed `A` (m×n), vectors of matching length. -/
def shapesOk (dt : ProblemData α) : Bool :=
  dt.P.wellFormed && dt.A.wellFormed && dt.P.m == dt.n && dt.P.n == dt.n &&
  dt.A.m == dt.m && dt.A.n == dt.n && dt.q.size == dt.n && dt.b.size == dt.m &&
  dt.equilibration.d.size == dt.n && dt.equilibration.dinv.size == dt.n &&
  dt.equilibration.e.size == dt.m && dt.equilibration.einv.size == dt.m

/-- `ProblemData::equilibrate(cones, settings)`; `cones` is the composite cone built from
`data.cones` (`DefaultSolver::new` asserts `cones.numel == data.m`). -/
def equilibrate (dt : ProblemData α) (cones : List (ConeT α)) (s : Settings α) : MErr (ProblemData α) :=
  if !s.enable then pure dt
  else if !(shapesOk dt) then throw (.err "noncanonical-matrix")
  else if Cones.numel cones != dt.m then throw (.panic "assert_eq!(cones.numel, data.m)")
  else pure (finish (ruizLoop s s.maxIter dt) cones)

end main
end Equil
end Clarabel
