/-
  Model of `src/solver/implementations/default/info.rs`:
  `DefaultInfo::update`, `check_termination`, `check_convergence_{full,almost}`,
  `check_convergence`, `is_solved`, `is_primal_infeasible`, `is_dual_infeasible`,
  `post_process`, `save_prev_iterate`, `reset_to_prev_iterate`, and the norm caches
  `get_normq/get_normb` of `problemdata.rs`.
-/
import ClarabelModel.Scalar
import ClarabelModel.Vec
import ClarabelModel.Residuals

namespace Clarabel
namespace Info
open Residuals

variable {α : Type}

/-- `SolverStatus` (same order as the Rust enum, `repr(u32)`) -/
inductive SolverStatus where
  | unsolved | solved | primalInfeasible | dualInfeasible
  | almostSolved | almostPrimalInfeasible | almostDualInfeasible
  | maxIterations | maxTime | numericalError | insufficientProgress
  deriving Repr, BEq, DecidableEq, Inhabited

namespace SolverStatus
def isInfeasible : SolverStatus → Bool
  | primalInfeasible | dualInfeasible | almostPrimalInfeasible | almostDualInfeasible => true
  | _ => false

def isErrored : SolverStatus → Bool
  | numericalError | insufficientProgress => true
  | _ => false

def isAlmost : SolverStatus → Bool
  | almostSolved | almostPrimalInfeasible | almostDualInfeasible => true
  | _ => false

def toNat : SolverStatus → Nat
  | unsolved => 0 | solved => 1 | primalInfeasible => 2 | dualInfeasible => 3
  | almostSolved => 4 | almostPrimalInfeasible => 5 | almostDualInfeasible => 6
  | maxIterations => 7 | maxTime => 8 | numericalError => 9 | insufficientProgress => 10

def ofNat? : Nat → Option SolverStatus
  | 0 => some unsolved | 1 => some solved | 2 => some primalInfeasible | 3 => some dualInfeasible
  | 4 => some almostSolved | 5 => some almostPrimalInfeasible | 6 => some almostDualInfeasible
  | 7 => some maxIterations | 8 => some maxTime | 9 => some numericalError
  | 10 => some insufficientProgress | _ => none
end SolverStatus

/-- `DefaultEquilibrationData` -/
structure Equil (α : Type) where
  d : Array α
  dinv : Array α
  e : Array α
  einv : Array α
  c : α
  deriving Repr, Inhabited

/-- the numeric fields of `DefaultInfo` that the termination logic reads or writes -/
structure InfoS (α : Type) where
  cost_primal : α
  cost_dual : α
  res_primal : α
  res_dual : α
  res_primal_inf : α
  res_dual_inf : α
  gap_abs : α
  gap_rel : α
  ktratio : α
  prev_cost_primal : α
  prev_cost_dual : α
  prev_res_primal : α
  prev_res_dual : α
  prev_gap_abs : α
  prev_gap_rel : α
  iterations : Nat
  status : SolverStatus
  deriving Repr, Inhabited

/-- one set of tolerances (`settings.tol_*` or `settings.reduced_tol_*`) -/
structure Tols (α : Type) where
  gap_abs : α
  gap_rel : α
  feas : α
  infeas_abs : α
  infeas_rel : α
  ktratio : α
  deriving Repr, Inhabited

/-- the settings read by `info.rs` -/
structure Settings (α : Type) where
  full : Tols α
  reduced : Tols α
  max_iter : Nat
  deriving Repr, Inhabited

section norms
variable [Add α] [Sub α] [Mul α] [Div α] [OfNat α 0] [OfNat α 1] [LT α] [DecidableLT α] [FloatLike α]

/-- `norm_scaled` with its `assert_eq!` -/
def normScaledE (x v : Array α) : MErr α :=
  if x.size != v.size then throw (.panic "norm_scaled: length") else pure (Vec.normScaled x v)

/-- `norm_inf_scaled` with its `assert_eq!` -/
def normInfScaledE (x v : Array α) : MErr α :=
  if x.size != v.size then throw (.panic "norm_inf_scaled: length") else pure (Vec.normInfScaled x v)

/-- `DefaultProblemData::get_normq` (`cache` is the `Option` field) -/
def getNormq (cache : Option α) (q dinv : Array α) (c : α) : MErr α :=
  match cache with
  | some v => pure v
  | none => do
    let cinv := 1 / c
    let nrm ← normInfScaledE q dinv
    pure (nrm * cinv)

/-- `DefaultProblemData::get_normb` -/
def getNormb (cache : Option α) (b einv : Array α) : MErr α :=
  match cache with
  | some v => pure v
  | none => normInfScaledE b einv
end norms

section update
variable [Add α] [Sub α] [Mul α] [Div α] [Neg α] [OfNat α 0] [OfNat α 1] [OfNat α 2]
  [LT α] [DecidableLT α] [FloatLike α]

/-- `DefaultInfo::update` (everything except `solve_time`).  `normq`,`normb` are the
results of `get_normq/get_normb`. -/
def update (i : InfoS α) (eq : Equil α) (normq normb : α) (v : Vars α) (r : Resid α) :
    MErr (InfoS α) := do
  let τinv := 1 / v.τ
  let cinv := 1 / eq.c
  let xPx_τinvsq_over2 := r.dot_xPx * τinv * τinv / 2
  let cost_primal := (r.dot_qx * τinv + xPx_τinvsq_over2) * cinv
  let cost_dual := (-r.dot_bz * τinv - xPx_τinvsq_over2) * cinv
  let normx ← normScaledE v.x eq.d
  let normz0 ← normScaledE v.z eq.e
  let normz := normz0 * cinv
  let norms ← normScaledE v.s eq.einv
  let rxinf ← normScaledE r.rx_inf eq.dinv
  let res_primal_inf := (rxinf * cinv) / fmax 1 normz
  let pxn ← normScaledE r.Px eq.dinv
  let rzinf ← normScaledE r.rz_inf eq.einv
  let res_dual_inf := fmax (pxn / fmax 1 normx) (rzinf / fmax 1 (normx + norms))
  let normx := normx * τinv
  let normz := normz * τinv
  let norms := norms * τinv
  let rzn ← normScaledE r.rz eq.einv
  let res_primal := rzn * τinv / fmax 1 (normb + normx + norms)
  let rxn ← normScaledE r.rx eq.dinv
  let res_dual := rxn * τinv * cinv / fmax 1 (normq + normx + normz)
  let gap_abs := fabs (cost_primal - cost_dual)
  let gap_rel := gap_abs / fmax 1 (fmin (fabs cost_primal) (fabs cost_dual))
  let ktratio := v.κ * τinv
  pure { i with cost_primal, cost_dual, res_primal, res_dual, res_primal_inf, res_dual_inf,
                gap_abs, gap_rel, ktratio }
end update

section conv
variable [Mul α] [Div α] [Neg α] [OfNat α 1] [OfNat α 100] [OfNat α 1000]
  [LT α] [DecidableLT α] [LE α] [DecidableLE α]

/-- `is_solved` -/
def isSolved (i : InfoS α) (tol_gap_abs tol_gap_rel tol_feas : α) : Bool :=
  (decide (i.gap_abs < tol_gap_abs) || decide (i.gap_rel < tol_gap_rel))
    && decide (i.res_primal < tol_feas) && decide (i.res_dual < tol_feas)

/-- `is_primal_infeasible` -/
def isPrimalInfeasible (i : InfoS α) (dot_bz tol_infeas_abs tol_infeas_rel : α) : Bool :=
  decide (dot_bz < -tol_infeas_abs) && decide (i.res_primal_inf < -tol_infeas_rel * dot_bz)

/-- `is_dual_infeasible` -/
def isDualInfeasible (i : InfoS α) (dot_qx tol_infeas_abs tol_infeas_rel : α) : Bool :=
  decide (dot_qx < -tol_infeas_abs) && decide (i.res_dual_inf < -tol_infeas_rel * dot_qx)

/-- `check_convergence` -/
def checkConvergence (i : InfoS α) (dot_bz dot_qx : α) (t : Tols α)
    (solvedSt pinf dinf : SolverStatus) : InfoS α :=
  if decide (i.ktratio ≤ 1) && isSolved i t.gap_abs t.gap_rel t.feas then
    { i with status := solvedSt }
  else if i.ktratio > (1 / t.ktratio) * 1000 then
    if isPrimalInfeasible i dot_bz t.infeas_abs t.infeas_rel then { i with status := pinf }
    else if isDualInfeasible i dot_qx t.infeas_abs t.infeas_rel then { i with status := dinf }
    else i
  else i

/-- `check_convergence_full` -/
def checkConvergenceFull (i : InfoS α) (dot_bz dot_qx : α) (s : Settings α) : InfoS α :=
  checkConvergence i dot_bz dot_qx s.full .solved .primalInfeasible .dualInfeasible

/-- `check_convergence_almost` -/
def checkConvergenceAlmost (i : InfoS α) (dot_bz dot_qx : α) (s : Settings α) : InfoS α :=
  checkConvergence i dot_bz dot_qx s.reduced .almostSolved .almostPrimalInfeasible .almostDualInfeasible

/-- `Info::post_process` -/
def postProcess (i : InfoS α) (dot_bz dot_qx : α) (s : Settings α) : InfoS α :=
  if i.status.isErrored || i.status == .maxIterations || i.status == .maxTime then
    checkConvergenceAlmost i dot_bz dot_qx s
  else i

/-- `check_termination`.  `timeOver` is the clock oracle `solve_time > time_limit`.
Returns the new info and the `isdone` flag. -/
def checkTermination [FloatLike α] (i : InfoS α) (dot_bz dot_qx : α) (s : Settings α) (iter : Nat)
    (timeOver : Bool) : InfoS α × Bool :=
  let i := checkConvergenceFull i dot_bz dot_qx s
  let i :=
    if i.status == .unsolved && decide (iter > 1)
        && (decide (i.res_dual > i.prev_res_dual) || decide (i.res_primal > i.prev_res_primal)) then
      let i :=
        if decide (i.ktratio < FloatLike.eps * 100)
            && (decide (i.prev_gap_abs < s.full.gap_abs) || decide (i.prev_gap_rel < s.full.gap_rel)) then
          { i with status := .insufficientProgress }
        else i
      if decide (i.ktratio < 1) then
        if (decide (i.res_dual > s.full.feas * 100) && decide (i.res_dual > i.prev_res_dual * 100))
            || (decide (i.res_primal > s.full.feas * 100) && decide (i.res_primal > i.prev_res_primal * 100)) then
          { i with status := .insufficientProgress }
        else i
      else i
    else i
  let i :=
    if i.status == .unsolved then
      if s.max_iter == i.iterations then { i with status := .maxIterations }
      else if timeOver then { i with status := .maxTime }
      else i
    else i
  (i, i.status != .unsolved)

end conv

/-- `save_prev_iterate` (the `info` half; the variables are copied by the caller) -/
def savePrev (i : InfoS α) : InfoS α :=
  { i with prev_cost_primal := i.cost_primal, prev_cost_dual := i.cost_dual,
           prev_res_primal := i.res_primal, prev_res_dual := i.res_dual,
           prev_gap_abs := i.gap_abs, prev_gap_rel := i.gap_rel }

/-- `reset_to_prev_iterate` (the `info` half) -/
def resetToPrev (i : InfoS α) : InfoS α :=
  { i with cost_primal := i.prev_cost_primal, cost_dual := i.prev_cost_dual,
           res_primal := i.prev_res_primal, res_dual := i.prev_res_dual,
           gap_abs := i.prev_gap_abs, gap_rel := i.prev_gap_rel }

end Info
end Clarabel
